(* C11 -- comments are kept exactly once and in place (engine part).  Theorems only. *)
From Coq Require Import List NArith Bool.
From FV Require Import Scope Engine EngineContracts EngineShape Leaves TableOk ProgramLevel GenOk Table03 Table08.
Import ListNotations.

(* For the regenerated tables, every leaf oracle and every input: when the parse returns a tree
   (without the Main_Program0 fall-back), the items held by the tree's Comment and Directive nodes,
   in source order, are exactly the comment items the reader delivered, in the same order -- each
   once, none lost to back-tracking, none duplicated, and their position among the statements is the
   position in the reader's stream (yield t = items). *)
Theorem C11_comments_exactly_once_in_order_f2003 :
  forall (L : item -> cls -> list cls -> leafres) fuel items pd t s',
    program_new Table03.tbl L fuel Table03.c_program (est0 items pd) = (OTree t, s') ->
    no_fallback Table03.tbl L fuel Table03.c_program (est0 items pd) ->
    yield t = items /\ comment_nodes Table03.tbl t = filter is_comment_item items.
Proof.
  intros L fuel items pd t s' H NF.
  destruct (program_new_yield Table03.tbl L table03_ok fuel Table03.c_program _ t s' H NF) as [Y _].
  split; [exact Y|]. cbn in Y. rewrite <- Y. apply comment_nodes_are_comment_items.
  eapply (program_new_shape Table03.tbl L table03_ok); [|exact H]. vm_compute. reflexivity.
Qed.
Goal True. idtac "ASSUMPTIONS-OF C11_comments_exactly_once_in_order_f2003". Abort.
Print Assumptions C11_comments_exactly_once_in_order_f2003.

Theorem C11_comments_exactly_once_in_order_f2008 :
  forall (L : item -> cls -> list cls -> leafres) fuel items pd t s',
    program_new Table08.tbl L fuel Table08.c_program (est0 items pd) = (OTree t, s') ->
    no_fallback Table08.tbl L fuel Table08.c_program (est0 items pd) ->
    yield t = items /\ comment_nodes Table08.tbl t = filter is_comment_item items.
Proof.
  intros L fuel items pd t s' H NF.
  destruct (program_new_yield Table08.tbl L table08_ok fuel Table08.c_program _ t s' H NF) as [Y _].
  split; [exact Y|]. cbn in Y. rewrite <- Y. apply comment_nodes_are_comment_items.
  eapply (program_new_shape Table08.tbl L table08_ok); [|exact H]. vm_compute. reflexivity.
Qed.
Goal True. idtac "ASSUMPTIONS-OF C11_comments_exactly_once_in_order_f2008". Abort.
Print Assumptions C11_comments_exactly_once_in_order_f2008.

(* Directive nodes only ever hold comments of directive form that are not in-line. *)
Theorem C11_directive_nodes_are_directive_comments :
  forall (L : item -> cls -> list cls -> leafres) fuel s t s',
    program_new Table08.tbl L fuel Table08.c_program s = (OTree t, s') ->
    Forall (fun i => ikd i = IKComment /\ idir i = true) (directive_nodes Table08.tbl t).
Proof.
  intros L fuel s t s' H. apply directive_nodes_are_directive_form.
  eapply (program_new_shape Table08.tbl L table08_ok); [|exact H]. vm_compute. reflexivity.
Qed.
Goal True. idtac "ASSUMPTIONS-OF C11_directive_nodes_are_directive_comments". Abort.
Print Assumptions C11_directive_nodes_are_directive_comments.

(* Comments consumed by an alternative that later fails are given back (K1): the stream after a
   failed rule invocation is the stream before it -- comments included, in order. *)
Theorem C11_failed_alternative_restores_comments :
  forall T (L : item -> cls -> list cls -> leafres), table_ok T = true ->
  forall fuel c s s', new T L fuel c s = (Val None, s') -> stream s' = stream s.
Proof.
  intros T L H fuel c s s' E. pose proof (ct_ok _ _ (engine_contract T L H fuel) c s) as K.
  rewrite E in K. apply K.
Qed.
Goal True. idtac "ASSUMPTIONS-OF C11_failed_alternative_restores_comments". Abort.
Print Assumptions C11_failed_alternative_restores_comments.

(* Non-vacuity: PROGRAM p / ! comment / END PROGRAM p with comments kept. *)
Definition L_c11 (i : item) (c : cls) (_ : list cls) : leafres :=
  let inf := mkInfo None None None None 1%N (Some 1%N) in
  if (Nat.eqb (iid i) 0 && N.eqb c Table03.cn_Program_Stmt)
     || (Nat.eqb (iid i) 2 && N.eqb c Table03.cn_End_Program_Stmt)
  then LYes inf else LNo.
Example C11_example :
  let items := [mkItem 0 IKLine false false 1; mkItem 1 IKComment false true 2; mkItem 2 IKLine false false 3] in
  match fst (program_new Table03.tbl L_c11 60 Table03.c_program (est0 items false)) with
  | OTree t => map iid (comment_nodes Table03.tbl t) = [1] /\ map iid (yield t) = [0; 1; 2]
  | _ => False
  end.
Proof. vm_compute. split; reflexivity. Qed.
Goal True. idtac "ASSUMPTIONS-OF C11_example". Abort.
Print Assumptions C11_example.

(* READER LEVEL, whole files (the layout class of C12's whole-file theorem: one-line and continued
   statements, comment and empty lines between statements and between the lines of a continued
   statement; any number, any order).
   Kept: every comment line and every empty line is delivered exactly once, in source order, as a
   comment item spanning exactly its own physical line.  Ignored: no comment item is delivered.
   Either way the statements delivered (text, label, construct name) are those of the source with its
   comment and empty lines deleted -- those between the lines of a continued statement included
   (strip_comments); such comments are delivered right after their statement: ignoring comments is
   without effect on the statements, and so is keeping them. *)
From FV Require Reader.
From FV Require Import ReaderJoin ReaderItem ReaderFile.
Theorem C11_reader_comments_kept_once_in_place_partial :
  forall ls, Forall good ls ->
    comment_items (Reader.read_source (flat_map phys ls) true false false) = comments_of ls 0.
Proof. exact read_comments_kept. Qed.
Goal True. idtac "ASSUMPTIONS-OF C11_reader_comments_kept_once_in_place_partial". Abort.
Print Assumptions C11_reader_comments_kept_once_in_place_partial.

Theorem C11_reader_comments_ignored_without_effect_partial :
  forall ls ign, Forall good ls -> Forall good (map strip_comments (filter is_stmt ls)) ->
    comment_items (Reader.read_source (flat_map phys ls) true false true) = [] /\
    stmt_texts (Reader.read_source (flat_map phys ls) true false ign)
    = stmt_texts (Reader.read_source (flat_map phys (map strip_comments (filter is_stmt ls))) true false true).
Proof. exact read_comments_ignored. Qed.
Goal True. idtac "ASSUMPTIONS-OF C11_reader_comments_ignored_without_effect_partial". Abort.
Print Assumptions C11_reader_comments_ignored_without_effect_partial.

(* the layout class includes continued statements whose every physical line carries a trailing comment
   (ReaderJoinG): hypotheses met, and the comments come exactly once, in source order, each with the
   number of its own physical line, after the statement they were found in *)
From Coq Require Import String Ascii.
Close Scope string_scope.
From FV Require Import ReaderJoinG Text.
Example C11_example_trailing_comments_on_continuation_lines :
  let t := fun x => list_ascii_of_string x in
  let f := [LCom (t " "%string) (t " head"%string);
            LContG (t "v = a + &   ! first"%string) None None (t "v = a + &   ! first"%string) (t "v = a + "%string) (t "   "%string)
                   None (Some (t "! first"%string))
                   [GMid (t " "%string) (t " b + "%string) (t "  "%string) (t " b + &  ! second"%string) (Some (t "! second"%string)) None;
                    GCom (t "   ! own line"%string)]
                   (t " "%string) (t " 'c!d'   "%string) (t " 'c!d'   ! third"%string) (Some (t "! third"%string));
            LOneC (t "z = 2 ! set z"%string) None None (t "z = 2 "%string) (t " set z"%string)] in
  Forall good f /\
  flat_map phys f = [t " ! head"%string; t "v = a + &   ! first"%string; t " & b + &  ! second"%string; t "   ! own line"%string;
                     t " & 'c!d'   ! third"%string; t "z = 2 ! set z"%string] /\
  comments_of f 0 = [Reader.RComment (t "! head"%string) 1 1 false; Reader.RComment (t "! first"%string) 2 2 true; Reader.RComment (t "! second"%string) 3 3 true;
                     Reader.RComment (t "! own line"%string) 4 4 false; Reader.RComment (t "! third"%string) 5 5 true;
                     Reader.RComment (t "! set z"%string) 6 6 true] /\
  Reader.read_source (flat_map phys f) true false false
  = [Reader.RComment (t "! head"%string) 1 1 false; Reader.RLine (t "v = a +  b +  'c!d'"%string) None None 2 5;
     Reader.RComment (t "! first"%string) 2 2 true; Reader.RComment (t "! second"%string) 3 3 true;
     Reader.RComment (t "! own line"%string) 4 4 false; Reader.RComment (t "! third"%string) 5 5 true;
     Reader.RLine (t "z = 2"%string) None None 6 6; Reader.RComment (t "! set z"%string) 6 6 true] /\
  Reader.read_source (flat_map phys f) true false true
  = [Reader.RLine (t "v = a +  b +  'c!d'"%string) None None 2 5; Reader.RLine (t "z = 2"%string) None None 6 6].
Proof.
  cbv zeta. split; [|split; [|split; [|split]]].
  2-5: vm_compute; reflexivity.
  repeat (apply Forall_cons || apply Forall_nil); cbn [good]; cbv zeta; repeat split;
    lazymatch goal with
    | |- exists _, _ => eexists; split; vm_compute; reflexivity
    | |- _ <> _ => vm_compute; discriminate
    | |- hicr _ _ _ _ _ => intros n; vm_compute; reflexivity
    | |- chain_g _ _ _ _ _ _ => cbn [chain_g]; repeat split; try (vm_compute; reflexivity);
                               try (intros n; vm_compute; reflexivity); eexists; intros n; vm_compute; reflexivity
    | |- _ => vm_compute; reflexivity
    end.
Qed.
Goal True. idtac "ASSUMPTIONS-OF C11_example_trailing_comments_on_continuation_lines". Abort.
Print Assumptions C11_example_trailing_comments_on_continuation_lines.

(* THE COMMENT HANDLER KEEPS EVERY CHARACTER -- for every physical line and every quote state it is entered with
   (no hypothesis on the line: literals, doubled quotes, a literal left open by an earlier line): when it finds no
   comment the line is returned as it is; when it splits a comment off, the code part followed by the text of the
   comment is the line, the comment begins with '!' and is stamped with the number of the line it stands on.
   (Proved through splitquote_lossless; this is the "text unchanged" half of the property at the place where
   comments are cut out of lines.) *)
From FV Require Import HicLaws.
Theorem C11_comment_handler_keeps_every_character :
  forall l n q cd q' oc, Reader.handle_inline_comment l n q = (cd, q', oc) ->
  match oc with
  | None => cd = l
  | Some (Reader.RComment cm a b _) => cd ++ cm = l /\ a = n /\ b = n /\ Text.starts_with ["!"%char] cm = true
  | Some _ => False
  end.
Proof. exact hic_lossless. Qed.
Goal True. idtac "ASSUMPTIONS-OF C11_comment_handler_keeps_every_character". Abort.
Print Assumptions C11_comment_handler_keeps_every_character.
