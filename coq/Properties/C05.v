(* C05 -- fixed-form source is recognised (detector part) and read like its free-form equivalent
   (computed instances of the reader model).  Theorems only. *)
From Coq Require Import List Bool Arith Ascii String NArith.
From FV Require Import SplitLine Text Reader Detect DetectLaws.
Import ListNotations.

(* If every line of a source looks fixed -- blank, a '!' line, a C/c/* comment line, or columns 1-5
   holding only blanks and digits -- and no line ends in '&', the source is detected as FIXED form.
   (The side condition on '&' is necessary: a line ending in '&' makes the detector answer free.) *)
Theorem C05_detect_fixed :
  forall lines, forallb looks_fixed lines = true -> detect_free lines = false.
Proof. exact all_fixed_detected_fixed. Qed.
Goal True. idtac "ASSUMPTIONS-OF C05_detect_fixed". Abort.
Print Assumptions C05_detect_fixed.

(* If some line starts, within columns 1-5, with a character other than c C * ! followed (after
   blanks) by a character that is neither blank nor digit, the source is detected as FREE form. *)
Theorem C05_detect_free :
  forall lines, existsb starts_free lines = true -> detect_free lines = true.
Proof. exact some_free_start_detected_free. Qed.
Goal True. idtac "ASSUMPTIONS-OF C05_detect_free". Abort.
Print Assumptions C05_detect_free.

(* ... and these are the only two reasons for answering free. *)
Theorem C05_detect_free_only_if :
  forall lines, detect_free lines = true ->
    exists l, In l lines /\ (starts_free l = true \/ ends_with_char "&"%char (rstrip l) = true).
Proof. exact detected_free_reason. Qed.
Goal True. idtac "ASSUMPTIONS-OF C05_detect_free_only_if". Abort.
Print Assumptions C05_detect_free_only_if.

(* The property's unconditional wording ("a program whose first statement starts in columns 1-5 is
   detected as free form") is false of the heuristic: a first statement beginning with the letter c
   (finding F11).  Witness: CALL FOO in column 1, everything else indented. *)
Definition s2t (s : string) : text := list_ascii_of_string s.
Theorem C05_detect_free_refuted :
  exists lines, detect_free lines = false /\ nth 0 lines [] = s2t "call foo".
Proof. exists [s2t "call foo"; s2t "      end"]. vm_compute. split; reflexivity. Qed.
Goal True. idtac "ASSUMPTIONS-OF C05_detect_free_refuted". Abort.
Print Assumptions C05_detect_free_refuted.

(* Fixed form is read like free form: the same labelled statement with a continued character
   literal, wrapped in fixed form (comment between the lines, '1' as continuation mark) and written
   in free form, gives the same item text, label and span structure in the reader model. *)
Example C05_example_same_items :
  read_source [s2t "   10 msg = 'fixed and fr"; s2t "c between"; s2t "     1ee' // x"] false false true
  = [RLine (s2t "msg = 'fixed and free' // x") (Some 10%N) None 1 3]
  /\ read_source [s2t "10 msg = 'fixed and fr&"; s2t "! between"; s2t "     &ee' // x"] true false true
  = [RLine (s2t "msg = 'fixed and free' // x") (Some 10%N) None 1 3].
Proof. vm_compute. split; reflexivity. Qed.
Goal True. idtac "ASSUMPTIONS-OF C05_example_same_items". Abort.
Print Assumptions C05_example_same_items.

(* Trailing blanks of a physical line are lost before continuation (rstrip in get_single_line): a
   literal broken after blanks loses them (finding F10). *)
Theorem C05_literals_refuted :
  read_source [s2t "      s = 'ab   "; s2t "     &cd'"] false false true
  = [RLine (s2t "s = 'abcd'") None None 1 2].
Proof. vm_compute. reflexivity. Qed.
Goal True. idtac "ASSUMPTIONS-OF C05_literals_refuted". Abort.
Print Assumptions C05_literals_refuted.

(* FIXED-FORM READING.  The continuation loop of the fixed-form reader joins the statement field
   (columns 7..) of every continuation line (five blanks and any non-blank mark in column 6) to the
   text so far, losslessly and in order; comment lines between them are queued behind the statement
   (comments kept) or invisible (comments ignored) and change neither the text nor the recorded end
   line; the loop stops in front of the first line that is neither, which it leaves in the push-back
   buffer.  Any number of lines, any text already joined.
   (_partial: statement fields free of quotes and '!'; literals and in-line comments are tied to the
   model by the correspondence.) *)
From FV Require Import ReaderJoin ReaderItem FixedJoin FixedFree.
Theorem C05_fixed_continuation_joins_statement_fields_partial :
  forall ign ls fuel acc endl lc fifo tail,
    Forall (fgood) ls -> tail_ok tail -> List.length ls < fuel ->
    fix_loop fuel acc None endl (fx ign (map fphys ls ++ tail) [] lc fifo)
    = (acc ++ ftext ls, fend ls lc endl, after ign tail (lc + List.length ls) (fifo ++ fcoms ign ls lc)).
Proof. exact fix_join. Qed.
Goal True. idtac "ASSUMPTIONS-OF C05_fixed_continuation_joins_statement_fields_partial". Abort.
Print Assumptions C05_fixed_continuation_joins_statement_fields_partial.

(* The item: label field (columns 1-5), column 6, optional construct name, statement field and any
   number of continuation and comment lines give ONE line item: the joined statement fields, the
   label, the name, the exact span. *)
Theorem C05_fixed_statement_is_one_item_partial :
  forall ign l5 c6 body nm rest ls tail lc fifo,
    let line := l5 ++ c6 :: body in
    let field := match nm with Some _ => rest | None => body end in
    List.length l5 = 5 -> forallb space_or_digit l5 = true ->
    stripped line -> starts_with ["#"%char] (lstrip line) = false -> is_fix_comment line = false ->
    extract_construct_name body = (nm, rest) -> plain field -> strip (field ++ ftext ls) <> [] -> is_blank field = false ->
    Forall fgood ls -> tail_ok tail ->
    get_source_item (fx ign (line :: map fphys ls ++ tail) [] lc fifo)
    = (Some (RLine (strip (field ++ ftext ls))
                   (match label_chars l5 with [] => None | _ => Some (nat_of_digits (label_chars l5)) end) nm
                   (S lc) (fend ls (S lc) (S lc))),
       after ign tail (S lc + List.length ls) (fifo ++ fcoms ign ls (S lc))).
Proof. exact fixed_item. Qed.
Goal True. idtac "ASSUMPTIONS-OF C05_fixed_statement_is_one_item_partial". Abort.
Print Assumptions C05_fixed_statement_is_one_item_partial.

(* FIXED == FREE.  The same pieces p1 ... pn written as a fixed-form statement (p1 in the statement
   field of the initial line, each further piece in the statement field of a continuation line) and as
   a free-form statement ( p1& / &p2& / ... / &pn , any blanks around the ampersands) are delivered
   as items with the SAME text and the same construct name; the labels are those of the two label
   syntaxes; both span exactly their n physical lines. *)
Theorem C05_fixed_and_free_renderings_give_the_same_statement_partial :
  forall ign (l5 : text) c6 lab line1 l1 nm p1 (ms : list (text * text)) bn pn marks src lc fifo tail,
    (* fixed rendering *)
    List.length l5 = 5 -> forallb space_or_digit l5 = true ->
    stripped (l5 ++ c6 :: p1) -> starts_with ["#"%char] (lstrip (l5 ++ c6 :: p1)) = false ->
    is_fix_comment (l5 ++ c6 :: p1) = false -> extract_construct_name p1 = (None, p1) ->
    is_blank p1 = false -> List.length marks = S (List.length ms) ->
    Forall fgood (map (fun mp => FCont (fixed_cont (fst mp) (snd mp))) (combine marks (map snd ms ++ [pn]))) ->
    tail_ok tail ->
    (* free rendering *)
    stripped line1 -> line1 <> [] -> starts_with ["#"%char] (lstrip line1) = false ->
    extract_label line1 = (lab, l1) -> extract_construct_name l1 = (nm, p1 ++ [amp]) ->
    plain p1 -> mids_ok ms -> blanks bn -> plain pn -> pn <> [] -> negb (is_blank pn) = true ->
    stripped (last_line bn pn) -> strip (p1 ++ List.concat (map snd ms) ++ pn) <> [] ->
    exists a b a' b' s s' labf,
      get_source_item (fx ign ((l5 ++ c6 :: p1) :: map fphys (map (fun mp => FCont (fixed_cont (fst mp) (snd mp)))
                                                              (combine marks (map snd ms ++ [pn]))) ++ tail) [] lc fifo)
      = (Some (RLine (strip (p1 ++ List.concat (map snd ms) ++ pn)) labf None a b), s) /\
      get_source_item (ReaderJoin.st ign (line1 :: mids ms ++ last_line bn pn :: src) lc fifo)
      = (Some (RLine (strip (p1 ++ List.concat (map snd ms) ++ pn)) lab nm a' b'), s') /\
      a = a' /\ b' = a' + S (List.length ms).
Proof. exact fixed_free_same_statement. Qed.
Goal True. idtac "ASSUMPTIONS-OF C05_fixed_and_free_renderings_give_the_same_statement_partial". Abort.
Print Assumptions C05_fixed_and_free_renderings_give_the_same_statement_partial.

(* the hypotheses are satisfiable (a labelled statement over three lines with a comment in between) *)
Example C05_example_fixed_item :
  let ls := [FCont (s2t "     1 + b"); FCom (s2t "C note"); FCont (s2t "     & * c")] in
  Forall fgood ls /\ tail_ok [s2t "      y = 2"] /\
  get_source_item (fx false (s2t "   10 x = a" :: map fphys ls ++ [s2t "      y = 2"]) [] 0 [])
  = (Some (RLine (s2t "x = a + b * c") (Some 10%N) None 1 4),
     fx false [] [s2t "      y = 2"] 4 [RComment (s2t "C note") 3 3 false]).
Proof. cbv zeta. split; [|split]; try (vm_compute; reflexivity). repeat constructor; vm_compute; reflexivity.
       repeat split; vm_compute; reflexivity. Qed.
Goal True. idtac "ASSUMPTIONS-OF C05_example_fixed_item". Abort.
Print Assumptions C05_example_fixed_item.

(* FIXED FORM, WHOLE FILES.  A fixed-form source that is a sequence of statements -- each an initial
   line (label field, column 6, statement field with an optional construct name) followed by any
   number of continuation lines and comment lines -- is delivered as exactly one item per statement,
   in order: the joined statement fields, the label, the construct name, the exact span; the comment
   lines after a statement come right after it when comments are kept and are invisible when they are
   ignored.  Any number of statements and lines; the reader's one-line look-ahead (push-back buffer) is
   an invariant of the proof. *)
From FV Require Import FixedFile.
Theorem C05_fixed_whole_file_each_statement_once_in_order_partial :
  forall ign x xs, Forall fgoods (x :: xs) ->
    read_source (flat_map f_phys (x :: xs)) false false ign = file_items ign (x :: xs) 0.
Proof. exact read_source_fixed. Qed.
Goal True. idtac "ASSUMPTIONS-OF C05_fixed_whole_file_each_statement_once_in_order_partial". Abort.
Print Assumptions C05_fixed_whole_file_each_statement_once_in_order_partial.

(* hypotheses met; and the statements are those of the free-form source with the same pieces *)
Definition ex_fixed : list fstmt :=
  [mkF (s2t "   10") " "%char (s2t "x = a") None (s2t "x = a") [FCont (s2t "     1 + b"); FCom (s2t "C note"); FCont (s2t "     & * c")];
   mkF (s2t "     ") " "%char (s2t "lp: do i = 1, 3") (Some (s2t "lp")) (s2t "do i = 1, 3") [FCom (s2t "* after")];
   mkF (s2t "     ") " "%char (s2t "end do lp") None (s2t "end do lp") []].
Example C05_example_fixed_file :
  Forall fgoods ex_fixed /\
  flat_map f_phys ex_fixed = [s2t "   10 x = a"; s2t "     1 + b"; s2t "C note"; s2t "     & * c";
                              s2t "      lp: do i = 1, 3"; s2t "* after"; s2t "      end do lp"] /\
  file_items false ex_fixed 0 = [RLine (s2t "x = a + b * c") (Some 10%N) None 1 4; RComment (s2t "C note") 3 3 false;
                                 RLine (s2t "do i = 1, 3") None (Some (s2t "lp")) 5 5; RComment (s2t "* after") 6 6 false;
                                 RLine (s2t "end do lp") None None 7 7] /\
  file_items true ex_fixed 0 = [RLine (s2t "x = a + b * c") (Some 10%N) None 1 4;
                                RLine (s2t "do i = 1, 3") None (Some (s2t "lp")) 5 5;
                                RLine (s2t "end do lp") None None 7 7] /\
  read_source [s2t "10 x = a&"; s2t "  & + b&"; s2t "! note"; s2t " & * c"; s2t "lp: do i = 1, 3"; s2t "end do lp"] true false true
  = [RLine (s2t "x = a + b * c") (Some 10%N) None 1 4; RLine (s2t "do i = 1, 3") None (Some (s2t "lp")) 5 5;
     RLine (s2t "end do lp") None None 6 6].
Proof.
  split; [|split; [|split; [|split]]].
  2-5: vm_compute; reflexivity.
  repeat (apply Forall_cons || apply Forall_nil); unfold fgoods; repeat split;
    lazymatch goal with
    | |- _ <> _ => vm_compute; discriminate
    | |- Forall _ _ => repeat constructor; vm_compute; reflexivity
    | |- _ => vm_compute; reflexivity
    end.
Qed.
Goal True. idtac "ASSUMPTIONS-OF C05_example_fixed_file". Abort.
Print Assumptions C05_example_fixed_file.

(* column 6 and the label field, as the standard has them (F2008 3.3.3): a ZERO or a blank in column 6 starts a
   statement, it never continues one; blanks anywhere in columns 1-5 are not part of the label.  (Both were wrong in
   the code -- repaired in /repo b269106 and a8fb4fc -- and the model follows the repaired code.) *)
From FV Require Import FixedFree.
Theorem C05_zero_or_blank_in_column_six_starts_a_statement :
  forall a1 a2 a3 a4 a5 rest,
    Reader.is_fix_cont (a1 :: a2 :: a3 :: a4 :: a5 :: "0"%char :: rest) = false /\
    Reader.is_fix_cont (a1 :: a2 :: a3 :: a4 :: a5 :: " "%char :: rest) = false.
Proof. intros. split; [apply zero_in_column_six_is_an_initial_line|apply blank_in_column_six_is_an_initial_line]. Qed.
Goal True. idtac "ASSUMPTIONS-OF C05_zero_or_blank_in_column_six_starts_a_statement". Abort.
Print Assumptions C05_zero_or_blank_in_column_six_starts_a_statement.

Theorem C05_blanks_in_the_label_field_are_not_part_of_the_label :
  forall a b t, ReaderJoin.blanks b -> Reader.label_chars (a ++ b ++ t) = Reader.label_chars (a ++ t).
Proof. exact label_chars_blanks. Qed.
Goal True. idtac "ASSUMPTIONS-OF C05_blanks_in_the_label_field_are_not_part_of_the_label". Abort.
Print Assumptions C05_blanks_in_the_label_field_are_not_part_of_the_label.
