(* C05 -- fixed-form source is recognised (detector part) and read like its free-form equivalent
   (computed instances of the reader model).  Theorems only. *)
From Coq Require Import List Bool Arith Ascii String NArith.
From FV Require Import SplitLine Text Reader Detect DetectLaws.
Import ListNotations.

(* If every line of a source looks fixed -- blank, a '!' line, a C/c/* comment line, or columns 1-5
   holding only blanks and digits -- and no line ends in '&', the source is detected as FIXED form.
   (The side condition on '&' is necessary: a line ending in '&' makes the detector answer free.) *)
Theorem C05_detect_fixed :
  forall lines, forallb looks_fixed lines = true -> detect_free lines = false.
Proof. exact all_fixed_detected_fixed. Qed.
Goal True. idtac "ASSUMPTIONS-OF C05_detect_fixed". Abort.
Print Assumptions C05_detect_fixed.

(* If some line starts, within columns 1-5, with a character other than c C * ! followed (after
   blanks) by a character that is neither blank nor digit, the source is detected as FREE form. *)
Theorem C05_detect_free :
  forall lines, existsb starts_free lines = true -> detect_free lines = true.
Proof. exact some_free_start_detected_free. Qed.
Goal True. idtac "ASSUMPTIONS-OF C05_detect_free". Abort.
Print Assumptions C05_detect_free.

(* ... and these are the only two reasons for answering free. *)
Theorem C05_detect_free_only_if :
  forall lines, detect_free lines = true ->
    exists l, In l lines /\ (starts_free l = true \/ ends_with_char "&"%char (rstrip l) = true).
Proof. exact detected_free_reason. Qed.
Goal True. idtac "ASSUMPTIONS-OF C05_detect_free_only_if". Abort.
Print Assumptions C05_detect_free_only_if.

(* The property's unconditional wording ("a program whose first statement starts in columns 1-5 is
   detected as free form") is false of the heuristic: a first statement beginning with the letter c
   (finding F11).  Witness: CALL FOO in column 1, everything else indented. *)
Definition s2t (s : string) : text := list_ascii_of_string s.
Theorem C05_detect_free_refuted :
  exists lines, detect_free lines = false /\ nth 0 lines [] = s2t "call foo".
Proof. exists [s2t "call foo"; s2t "      end"]. vm_compute. split; reflexivity. Qed.
Goal True. idtac "ASSUMPTIONS-OF C05_detect_free_refuted". Abort.
Print Assumptions C05_detect_free_refuted.

(* Fixed form is read like free form: the same labelled statement with a continued character
   literal, wrapped in fixed form (comment between the lines, '1' as continuation mark) and written
   in free form, gives the same item text, label and span structure in the reader model. *)
Example C05_example_same_items :
  read_source [s2t "   10 msg = 'fixed and fr"; s2t "c between"; s2t "     1ee' // x"] false false true
  = [RLine (s2t "msg = 'fixed and free' // x") (Some 10%N) None 1 3]
  /\ read_source [s2t "10 msg = 'fixed and fr&"; s2t "! between"; s2t "     &ee' // x"] true false true
  = [RLine (s2t "msg = 'fixed and free' // x") (Some 10%N) None 1 3].
Proof. vm_compute. split; reflexivity. Qed.
Goal True. idtac "ASSUMPTIONS-OF C05_example_same_items". Abort.
Print Assumptions C05_example_same_items.

(* Trailing blanks of a physical line are lost before continuation (rstrip in get_single_line): a
   literal broken after blanks loses them (finding F10). *)
Theorem C05_literals_refuted :
  read_source [s2t "      s = 'ab   "; s2t "     &cd'"] false false true
  = [RLine (s2t "s = 'abcd'") None None 1 2].
Proof. vm_compute. reflexivity. Qed.
Goal True. idtac "ASSUMPTIONS-OF C05_literals_refuted". Abort.
Print Assumptions C05_literals_refuted.
