(* C15 -- OpenMP conditional-compilation lines (reader part).  Theorems only. *)
From Coq Require Import List Bool Arith Ascii String NArith.
From FV Require Import SplitLine Text Reader ReaderJoin OmpLaws.
Import ListNotations.

(* Fixed form, handling ENABLED.  For every source, line counter and comment setting: pulling the
   next physical line equals pulling it -- with handling disabled -- from the source in which every
   sentinel (!$, c$, C$, *$ in columns 1-2 followed by the two admissible column patterns) has
   been replaced by two blanks; the rest of the source corresponds in the same way.  Since every
   other part of the fixed-form reader sees the source only through this function, a statement
   behind a sentinel (its continuation lines included) is read exactly as if the sentinel were
   blanks. *)
Theorem C15_fixed_enabled_equals_blanked_source :
  forall src cnt skip,
    pull_src (map blank_fixed src) cnt skip false
    = (let '(o, r, n) := pull_src src cnt skip true in (o, map blank_fixed r, n)).
Proof. exact pull_src_blank. Qed.
Goal True. idtac "ASSUMPTIONS-OF C15_fixed_enabled_equals_blanked_source". Abort.
Print Assumptions C15_fixed_enabled_equals_blanked_source.

(* Fixed form, handling DISABLED: a sentinel line is a comment line (so with comments ignored the
   result is that of the source without it). *)
Theorem C15_fixed_disabled_is_comment :
  forall a r, (aeqb a "!"%char || aeqb a "*"%char || aeqb a "c"%char || aeqb a "C"%char) = true ->
    is_fix_comment (a :: r) = true.
Proof. exact sentinel_is_fix_comment. Qed.
Goal True. idtac "ASSUMPTIONS-OF C15_fixed_disabled_is_comment". Abort.
Print Assumptions C15_fixed_disabled_is_comment.

(* Free form: the initial-line sentinel (any indentation, then !$ and a blank) becomes blanks of the
   same width; a genuine OpenMP directive (!$omp ..., no blank after the sentinel) is left alone. *)
Theorem C15_free_initial_sentinel :
  forall b rest, blanks b ->
    omp_free_init (b ++ "!"%char :: "$"%char :: " "%char :: rest)
    = (b ++ " "%char :: " "%char :: " "%char :: rest, true).
Proof. exact omp_free_init_spec. Qed.
Goal True. idtac "ASSUMPTIONS-OF C15_free_initial_sentinel". Abort.
Print Assumptions C15_free_initial_sentinel.

Theorem C15_free_directive_untouched :
  forall b c rest, blanks b -> aeqb c " "%char = false ->
    omp_free_init (b ++ "!"%char :: "$"%char :: c :: rest) = (b ++ "!"%char :: "$"%char :: c :: rest, false).
Proof. exact omp_free_init_directive. Qed.
Goal True. idtac "ASSUMPTIONS-OF C15_free_directive_untouched". Abort.
Print Assumptions C15_free_directive_untouched.

(* Computed instances: a continued statement behind sentinels, enabled vs. blanks; disabled vs removed. *)
Definition s2t (s : string) : text := list_ascii_of_string s.
Definition strip_spans (l : list ritem) : list (text * option N) :=
  flat_map (fun it => match it with RLine t lab _ _ _ => [(t, lab)] | _ => [] end) l.
Example C15_example_free :
  strip_spans (read_source [s2t "x = 1"; s2t "!$ y = 2 + &"; s2t "!$ & 3"; s2t "!$omp parallel"; s2t "z = 4"] true true true)
  = strip_spans (read_source [s2t "x = 1"; s2t "   y = 2 + &"; s2t "   & 3"; s2t "z = 4"] true false true)
  /\ strip_spans (read_source [s2t "x = 1"; s2t "!$ y = 2 + &"; s2t "!$ & 3"; s2t "z = 4"] true false true)
  = strip_spans (read_source [s2t "x = 1"; s2t "z = 4"] true false true).
Proof. vm_compute. split; reflexivity. Qed.
Goal True. idtac "ASSUMPTIONS-OF C15_example_free". Abort.
Print Assumptions C15_example_free.

Example C15_example_fixed :
  strip_spans (read_source [s2t "      x = 1"; s2t "c$ 10 y = 2 +"; s2t "*$   & 3"; s2t "      z = 4"] false true true)
  = strip_spans (read_source [s2t "      x = 1"; s2t "   10 y = 2 +"; s2t "     & 3"; s2t "      z = 4"] false false true).
Proof. vm_compute. reflexivity. Qed.
Goal True. idtac "ASSUMPTIONS-OF C15_example_fixed". Abort.
Print Assumptions C15_example_fixed.
