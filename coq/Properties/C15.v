(* C15 -- OpenMP conditional-compilation lines (reader part).  Theorems only. *)
From Coq Require Import List Bool Arith Ascii String NArith.
From FV Require Import SplitLine Text Reader ReaderJoin OmpLaws.
Import ListNotations.

(* Fixed form, handling ENABLED.  For every source, line counter and comment setting: pulling the
   next physical line equals pulling it -- with handling disabled -- from the source in which every
   sentinel (!$, c$, C$, *$ in columns 1-2 followed by the two admissible column patterns) has
   been replaced by two blanks; the rest of the source corresponds in the same way.  Since every
   other part of the fixed-form reader sees the source only through this function, a statement
   behind a sentinel (its continuation lines included) is read exactly as if the sentinel were
   blanks. *)
Theorem C15_fixed_enabled_equals_blanked_source :
  forall src cnt skip,
    pull_src (map blank_fixed src) cnt skip false
    = (let '(o, r, n) := pull_src src cnt skip true in (o, map blank_fixed r, n)).
Proof. exact pull_src_blank. Qed.
Goal True. idtac "ASSUMPTIONS-OF C15_fixed_enabled_equals_blanked_source". Abort.
Print Assumptions C15_fixed_enabled_equals_blanked_source.

(* Fixed form, handling DISABLED: a sentinel line is a comment line (so with comments ignored the
   result is that of the source without it). *)
Theorem C15_fixed_disabled_is_comment :
  forall a r, (aeqb a "!"%char || aeqb a "*"%char || aeqb a "c"%char || aeqb a "C"%char) = true ->
    is_fix_comment (a :: r) = true.
Proof. exact sentinel_is_fix_comment. Qed.
Goal True. idtac "ASSUMPTIONS-OF C15_fixed_disabled_is_comment". Abort.
Print Assumptions C15_fixed_disabled_is_comment.

(* Free form: the initial-line sentinel (any indentation, then !$ and a blank) becomes blanks of the
   same width; a genuine OpenMP directive (!$omp ..., no blank after the sentinel) is left alone. *)
Theorem C15_free_initial_sentinel :
  forall b rest, blanks b ->
    omp_free_init (b ++ "!"%char :: "$"%char :: " "%char :: rest)
    = (b ++ " "%char :: " "%char :: " "%char :: rest, true).
Proof. exact omp_free_init_spec. Qed.
Goal True. idtac "ASSUMPTIONS-OF C15_free_initial_sentinel". Abort.
Print Assumptions C15_free_initial_sentinel.

Theorem C15_free_directive_untouched :
  forall b c rest, blanks b -> aeqb c " "%char = false ->
    omp_free_init (b ++ "!"%char :: "$"%char :: c :: rest) = (b ++ "!"%char :: "$"%char :: c :: rest, false).
Proof. exact omp_free_init_directive. Qed.
Goal True. idtac "ASSUMPTIONS-OF C15_free_directive_untouched". Abort.
Print Assumptions C15_free_directive_untouched.

(* Computed instances: a continued statement behind sentinels, enabled vs. blanks; disabled vs removed. *)
Definition s2t (s : string) : text := list_ascii_of_string s.
Definition strip_spans (l : list ritem) : list (text * option N) :=
  flat_map (fun it => match it with RLine t lab _ _ _ => [(t, lab)] | _ => [] end) l.
Example C15_example_free :
  strip_spans (read_source [s2t "x = 1"; s2t "!$ y = 2 + &"; s2t "!$ & 3"; s2t "!$omp parallel"; s2t "z = 4"] true true true)
  = strip_spans (read_source [s2t "x = 1"; s2t "   y = 2 + &"; s2t "   & 3"; s2t "z = 4"] true false true)
  /\ strip_spans (read_source [s2t "x = 1"; s2t "!$ y = 2 + &"; s2t "!$ & 3"; s2t "z = 4"] true false true)
  = strip_spans (read_source [s2t "x = 1"; s2t "z = 4"] true false true).
Proof. vm_compute. split; reflexivity. Qed.
Goal True. idtac "ASSUMPTIONS-OF C15_example_free". Abort.
Print Assumptions C15_example_free.

Example C15_example_fixed :
  strip_spans (read_source [s2t "      x = 1"; s2t "c$ 10 y = 2 +"; s2t "*$   & 3"; s2t "      z = 4"] false true true)
  = strip_spans (read_source [s2t "      x = 1"; s2t "   10 y = 2 +"; s2t "     & 3"; s2t "      z = 4"] false false true).
Proof. vm_compute. reflexivity. Qed.
Goal True. idtac "ASSUMPTIONS-OF C15_example_fixed". Abort.
Print Assumptions C15_example_fixed.

(* FREE FORM, CONTINUATION LINES.  The continuation regex  ^ *(!$) *&?  : a line that starts, after any
   blanks, with the sentinel has exactly those two characters replaced by blanks; any other line is
   left as it is. *)
From FV Require Import ReaderJoin OmpCont.
Theorem C15_free_continuation_sentinel_is_blanked :
  forall b r, blanks b -> omp_free_cont (b ++ "!"%char :: "$"%char :: r) = b ++ " "%char :: " "%char :: r.
Proof. exact omp_free_cont_sentinel. Qed.
Goal True. idtac "ASSUMPTIONS-OF C15_free_continuation_sentinel_is_blanked". Abort.
Print Assumptions C15_free_continuation_sentinel_is_blanked.

Theorem C15_free_continuation_other_line_untouched :
  forall b x y r, blanks b -> aeqb x " "%char = false -> aeqb x "!"%char && aeqb y "$"%char = false ->
    omp_free_cont (b ++ x :: y :: r) = b ++ x :: y :: r.
Proof. exact omp_free_cont_other. Qed.
Goal True. idtac "ASSUMPTIONS-OF C15_free_continuation_other_line_untouched". Abort.
Print Assumptions C15_free_continuation_other_line_untouched.

(* The continuation loop behind a sentinel, handling ENABLED, is the plain loop on the source whose
   lines have had their leading sentinel blanked (mapl applies omp_free_cont to every line not yet
   read): same joined text, same last line number, and the rest of the source is the blanked rest.
   For every reader state in free form, every amount of text already joined, every open-quote state,
   every number of continuation, comment and blank lines.  `comm` (blanking commutes with the
   right-strip applied to each physical line) excludes only lines that consist of the sentinel alone. *)
Theorem C15_free_continuation_loop_equals_blanked_source :
  forall fuel first acc q endl line s, ok s ->
    let '(t, e, s2) := free_loop fuel true first acc q endl line s in
    free_loop fuel false first acc q endl (omp_free_cont line) (mapl s) = (t, e, mapl s2).
Proof. exact free_loop_behind_sentinel. Qed.
Goal True. idtac "ASSUMPTIONS-OF C15_free_continuation_loop_equals_blanked_source". Abort.
Print Assumptions C15_free_continuation_loop_equals_blanked_source.

(* ... and the item: a statement whose first line carries the sentinel (any indentation), read with the
   handling enabled, is the item read from the blanked source with the handling disabled -- label,
   construct name, joined text, span, queued comments -- and the reader is left on the blanked rest. *)
Theorem C15_free_statement_behind_sentinel_equals_blanked_source :
  forall b rest lab l1 nm l2 src lc fifo ign er,
    blanks b ->
    rstrip (b ++ "!"%char :: "$"%char :: " "%char :: rest) = b ++ "!"%char :: "$"%char :: " "%char :: rest ->
    rstrip (b ++ " "%char :: " "%char :: " "%char :: rest) = b ++ " "%char :: " "%char :: " "%char :: rest ->
    starts_with ["#"%char] (lstrip (b ++ " "%char :: " "%char :: " "%char :: rest)) = false ->
    extract_label (b ++ " "%char :: " "%char :: " "%char :: rest) = (lab, l1) ->
    extract_construct_name l1 = (nm, l2) -> omp_free_cont l2 = l2 ->
    Forall comm src ->
    get_source_item (mkRst ((b ++ " "%char :: " "%char :: " "%char :: rest) :: map omp_free_cont src) [] lc fifo true false ign er)
    = lift2 (get_source_item (mkRst ((b ++ "!"%char :: "$"%char :: " "%char :: rest) :: src) [] lc fifo true true ign er)).
Proof. exact item_behind_sentinel. Qed.
Goal True. idtac "ASSUMPTIONS-OF C15_free_statement_behind_sentinel_equals_blanked_source". Abort.
Print Assumptions C15_free_statement_behind_sentinel_equals_blanked_source.

(* the hypotheses are met by an indented, labelled statement continued over two indented sentinel lines *)
Example C15_example_behind_sentinel :
  let src := [s2t "   !$ & + 2 &"; s2t "     !$   & + 3"; s2t "z = 4"] in
  Forall comm src /\
  extract_label (s2t "      10 y = 1 &") = (Some 10%N, s2t "y = 1 &") /\
  extract_construct_name (s2t "y = 1 &") = (None, s2t "y = 1 &") /\ omp_free_cont (s2t "y = 1 &") = s2t "y = 1 &" /\
  fst (get_source_item (mkRst (s2t "  !$  10 y = 1 &" :: src) [] 0 [] true true true false))
  = Some (RLine (s2t "y = 1  + 2  + 3") (Some 10%N) None 1 3).
Proof. cbv zeta. repeat split; try (vm_compute; reflexivity). repeat constructor; vm_compute; reflexivity. Qed.
Goal True. idtac "ASSUMPTIONS-OF C15_example_behind_sentinel". Abort.
Print Assumptions C15_example_behind_sentinel.
