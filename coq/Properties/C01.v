(* C01 -- regenerated source re-parses to the same tree (engine part).  Theorems only. *)
From Coq Require Import List NArith Bool.
From FV Require Import Scope Engine EngineContracts TableOk ProgramLevel GenOk Table03 Table08.
Import ListNotations.

(* BlockBase.tofortran and its overrides print the leaves of a tree one statement per line in content
   order (checked against str(tree) on every explored tree by the correspondence leg), i.e. the
   statements of the printed text are [yield t].  The theorems below say: for the regenerated tables
   and EVERY leaf oracle, if a parse that does not go through the Main_Program0 fall-back returns
   tree t, then parsing the statements of t again -- one item per leaf, in print order, classified by
   the statement classes as before -- returns the same tree (same classes, same nesting, same
   leaves) and leaves the reader in the same state; hence the second print is the first print.
   _partial: that the text of a printed statement is classified like the original statement (the
   ~400 match()/tostr() pairs) is not modelled; and the items of the first round carry the source's
   line numbers, those of later rounds the printed text's (the theorem is exact from round two on). *)
Theorem C01_reparse_of_own_statements_f2003_partial :
  forall (L : item -> cls -> list cls -> leafres) fuel items pd t s',
    program_new Table03.tbl L fuel Table03.c_program (est0 items pd) = (OTree t, s') ->
    no_fallback Table03.tbl L fuel Table03.c_program (est0 items pd) ->
    program_new Table03.tbl L fuel Table03.c_program (est0 (yield t) pd) = (OTree t, s').
Proof.
  intros L fuel items pd t s' H NF.
  rewrite (proj1 (program_new_yield Table03.tbl L table03_ok fuel Table03.c_program _ t s' H NF)). exact H.
Qed.
Goal True. idtac "ASSUMPTIONS-OF C01_reparse_of_own_statements_f2003_partial". Abort.
Print Assumptions C01_reparse_of_own_statements_f2003_partial.

Theorem C01_reparse_of_own_statements_f2008_partial :
  forall (L : item -> cls -> list cls -> leafres) fuel items pd t s',
    program_new Table08.tbl L fuel Table08.c_program (est0 items pd) = (OTree t, s') ->
    no_fallback Table08.tbl L fuel Table08.c_program (est0 items pd) ->
    program_new Table08.tbl L fuel Table08.c_program (est0 (yield t) pd) = (OTree t, s').
Proof.
  intros L fuel items pd t s' H NF.
  rewrite (proj1 (program_new_yield Table08.tbl L table08_ok fuel Table08.c_program _ t s' H NF)). exact H.
Qed.
Goal True. idtac "ASSUMPTIONS-OF C01_reparse_of_own_statements_f2008_partial". Abort.
Print Assumptions C01_reparse_of_own_statements_f2008_partial.

(* any table that passes the decidable check *)
Theorem C01_reparse_of_own_statements_any_table_partial :
  forall T (L : item -> cls -> list cls -> leafres), table_ok T = true ->
  forall fuel c items pd t s',
    program_new T L fuel c (est0 items pd) = (OTree t, s') ->
    no_fallback T L fuel c (est0 items pd) ->
    program_new T L fuel c (est0 (yield t) pd) = (OTree t, s') /\ yield t = items.
Proof.
  intros T L OK fuel c items pd t s' H NF.
  pose proof (proj1 (program_new_yield T L OK fuel c _ t s' H NF)) as Y. split; [rewrite Y; exact H|exact Y].
Qed.
Goal True. idtac "ASSUMPTIONS-OF C01_reparse_of_own_statements_any_table_partial". Abort.
Print Assumptions C01_reparse_of_own_statements_any_table_partial.

(* Non-vacuity: PROGRAM p / x = 1 / END PROGRAM p on the real F2003 table. *)
Definition L_c01 (i : item) (c : cls) (_ : list cls) : leafres :=
  let yes un := LYes (mkInfo None None None None 1%N un) in
  match iid i with
  | 0 => if N.eqb c Table03.cn_Program_Stmt then yes (Some 1%N) else LNo
  | 1 => if N.eqb c Table03.cn_Assignment_Stmt then yes None else LNo
  | _ => if N.eqb c Table03.cn_End_Program_Stmt then yes (Some 1%N) else LNo
  end.
Example C01_example :
  let items := map (fun k => mkItem k IKLine false false (S k)) (seq 0 3) in
  match fst (program_new Table03.tbl L_c01 80 Table03.c_program (est0 items false)) with
  | OTree t => yield t = items /\
               fst (program_new Table03.tbl L_c01 80 Table03.c_program (est0 (yield t) false)) = OTree t
  | _ => False
  end.
Proof. vm_compute. split; reflexivity. Qed.
Goal True. idtac "ASSUMPTIONS-OF C01_example". Abort.
Print Assumptions C01_example.
