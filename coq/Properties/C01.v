(* C01 -- regenerated source re-parses to the same tree (engine part).  Theorems only. *)
From Coq Require Import List NArith Bool.
From FV Require Import Scope Engine EngineContracts TableOk ProgramLevel GenOk Table03 Table08.
Import ListNotations.

(* BlockBase.tofortran and its overrides print the leaves of a tree one statement per line in content
   order (checked against str(tree) on every explored tree by the correspondence leg), i.e. the
   statements of the printed text are [yield t].  The theorems below say: for the regenerated tables
   and EVERY leaf oracle, if a parse that does not go through the Main_Program0 fall-back returns
   tree t, then parsing the statements of t again -- one item per leaf, in print order, classified by
   the statement classes as before -- returns the same tree (same classes, same nesting, same
   leaves) and leaves the reader in the same state; hence the second print is the first print.
   _partial: that the text of a printed statement is classified like the original statement (the
   ~400 match()/tostr() pairs) is not modelled; and the items of the first round carry the source's
   line numbers, those of later rounds the printed text's (the theorem is exact from round two on). *)
Theorem C01_reparse_of_own_statements_f2003_partial :
  forall (L : item -> cls -> list cls -> leafres) fuel items pd t s',
    program_new Table03.tbl L fuel Table03.c_program (est0 items pd) = (OTree t, s') ->
    no_fallback Table03.tbl L fuel Table03.c_program (est0 items pd) ->
    program_new Table03.tbl L fuel Table03.c_program (est0 (yield t) pd) = (OTree t, s').
Proof.
  intros L fuel items pd t s' H NF.
  rewrite (proj1 (program_new_yield Table03.tbl L table03_ok fuel Table03.c_program _ t s' H NF)). exact H.
Qed.
Goal True. idtac "ASSUMPTIONS-OF C01_reparse_of_own_statements_f2003_partial". Abort.
Print Assumptions C01_reparse_of_own_statements_f2003_partial.

Theorem C01_reparse_of_own_statements_f2008_partial :
  forall (L : item -> cls -> list cls -> leafres) fuel items pd t s',
    program_new Table08.tbl L fuel Table08.c_program (est0 items pd) = (OTree t, s') ->
    no_fallback Table08.tbl L fuel Table08.c_program (est0 items pd) ->
    program_new Table08.tbl L fuel Table08.c_program (est0 (yield t) pd) = (OTree t, s').
Proof.
  intros L fuel items pd t s' H NF.
  rewrite (proj1 (program_new_yield Table08.tbl L table08_ok fuel Table08.c_program _ t s' H NF)). exact H.
Qed.
Goal True. idtac "ASSUMPTIONS-OF C01_reparse_of_own_statements_f2008_partial". Abort.
Print Assumptions C01_reparse_of_own_statements_f2008_partial.

(* any table that passes the decidable check *)
Theorem C01_reparse_of_own_statements_any_table_partial :
  forall T (L : item -> cls -> list cls -> leafres), table_ok T = true ->
  forall fuel c items pd t s',
    program_new T L fuel c (est0 items pd) = (OTree t, s') ->
    no_fallback T L fuel c (est0 items pd) ->
    program_new T L fuel c (est0 (yield t) pd) = (OTree t, s') /\ yield t = items.
Proof.
  intros T L OK fuel c items pd t s' H NF.
  pose proof (proj1 (program_new_yield T L OK fuel c _ t s' H NF)) as Y. split; [rewrite Y; exact H|exact Y].
Qed.
Goal True. idtac "ASSUMPTIONS-OF C01_reparse_of_own_statements_any_table_partial". Abort.
Print Assumptions C01_reparse_of_own_statements_any_table_partial.

(* Non-vacuity: PROGRAM p / x = 1 / END PROGRAM p on the real F2003 table. *)
Definition L_c01 (i : item) (c : cls) (_ : list cls) : leafres :=
  let yes un := LYes (mkInfo None None None None 1%N un) in
  match iid i with
  | 0 => if N.eqb c Table03.cn_Program_Stmt then yes (Some 1%N) else LNo
  | 1 => if N.eqb c Table03.cn_Assignment_Stmt then yes None else LNo
  | _ => if N.eqb c Table03.cn_End_Program_Stmt then yes (Some 1%N) else LNo
  end.
Example C01_example :
  let items := map (fun k => mkItem k IKLine false false (S k)) (seq 0 3) in
  match fst (program_new Table03.tbl L_c01 80 Table03.c_program (est0 items false)) with
  | OTree t => yield t = items /\
               fst (program_new Table03.tbl L_c01 80 Table03.c_program (est0 (yield t) false)) = OTree t
  | _ => False
  end.
Proof. vm_compute. split; reflexivity. Qed.
Goal True. idtac "ASSUMPTIONS-OF C01_example". Abort.
Print Assumptions C01_example.

(* ---- STATEMENT LEVEL (a first part of the ~400 match/tostr pairs): the two base matchers that many statement
   classes delegate to with constant arguments, EndStmtBase (END [type [name]]) and WORDClsBase (KEYWORD [[::] rest])
   for a string keyword -- Model/StmtBase.v.  Which classes delegate, and with which arguments, is read off the
   source of their match() methods on every run (tools/translate_stmtbase.py -> Gen/StmtBaseGen.v; any other shape
   of match() leaves the class out); the models are compared with those classes on generated texts inside Coq
   (tools/stmtbase_corr.py).
   For EVERY live END statement class: the text its tostr prints is matched again as the same tuple, whatever the
   name; the case of the keywords and the number of blanks after END do not matter; a bare END is accepted exactly
   when the class does not require the type; whatever is accepted with a name starts with END and has an
   identifier as its name.  (_partial: 13 END and 24 keyword classes out of the ~400; the name class is Name.) *)
From Coq Require Import Ascii String.
From FV Require Import SplitLine Text Reader ReaderJoin StmtBase StmtBaseLaws StmtBaseGen StmtBaseOk.
Theorem C01_every_live_end_statement_class_rematches_its_own_text_partial :
  forall cls stype named req, In (cls, stype, named, req) end_classes ->
  (forall n, named = true -> is_name n = true -> end_match stype named req (end_tostr stype (ENamed n)) = ENamed n) /\
  end_match stype named req (end_tostr stype EType) = EType /\
  (forall e b t, upper e = end_kw -> blanks b -> upper t = stype -> end_match stype named req (e ++ b ++ t) = EType) /\
  end_match stype named req (end_tostr stype EBare) = (if req then ENoMatch else EBare) /\
  (forall s n, end_match stype named req s = ENamed n -> upper (firstn 3 s) = end_kw /\ is_name n = true /\ named = true).
Proof. exact live_end_classes. Qed.
Goal True. idtac "ASSUMPTIONS-OF C01_every_live_end_statement_class_rematches_its_own_text_partial". Abort.
Print Assumptions C01_every_live_end_statement_class_rematches_its_own_text_partial.

(* For EVERY live keyword statement class: KEYWORD rest / KEYWORD :: rest / KEYWORD as printed are matched again
   with the same remainder (whatever the sub-rule makes of it); a keyword glued to a letter, digit or underscore is
   not that keyword; the keyword is recognised in any case. *)
Theorem C01_every_live_keyword_statement_class_rematches_its_own_text_partial :
  forall cls kw has colons req, In (cls, kw, has, colons, req) word_classes ->
  (forall rest, has = true -> starts_solid rest -> (colons = true -> no_colons rest) ->
     word_match kw has colons req (word_tostr kw false (WRest rest)) = WRest rest) /\
  (forall rest, has = true -> colons = true -> starts_solid rest ->
     word_match kw has colons req (word_tostr kw true (WRest rest)) = WRest rest) /\
  (req = false -> word_match kw has colons req (word_tostr kw false WBare) = WBare) /\
  (forall c r, is_alnum_us c = true -> word_match kw has colons req (kw ++ c :: r) = WNoMatch) /\
  (forall k2 rest, upper k2 = upper kw -> starts_solid k2 ->
     word_match kw has colons req (k2 ++ rest) = word_match kw has colons req (kw ++ rest)).
Proof. exact live_word_classes. Qed.
Goal True. idtac "ASSUMPTIONS-OF C01_every_live_keyword_statement_class_rematches_its_own_text_partial". Abort.
Print Assumptions C01_every_live_keyword_statement_class_rematches_its_own_text_partial.

(* the tables are not empty and the statements are about real classes: END DO / IMPORT on concrete texts *)
Example C01_example_statement_level :
  let t := fun x => list_ascii_of_string x in
  In ("f2003:End_Do_Stmt"%string, t "DO"%string, true, true) end_classes /\
  In ("f2003:Import_Stmt"%string, t "IMPORT"%string, true, true, false) word_classes /\
  end_match (t "DO"%string) true true (t "eNd   dO outer"%string) = ENamed (t "outer"%string) /\
  end_tostr (t "DO"%string) (ENamed (t "outer"%string)) = t "END DO outer"%string /\
  end_match (t "DO"%string) true true (t "END"%string) = ENoMatch /\
  end_match (t "DO"%string) true true (t "END DO 1x"%string) = ENameFail /\
  word_match (t "IMPORT"%string) true true false (t "import::a, b"%string) = WRest (t "a, b"%string) /\
  word_match (t "IMPORT"%string) true true false (t "importa"%string) = WNoMatch /\
  word_match (t "IMPORT"%string) true true false (t "IMPORT"%string) = WBare.
Proof. cbv zeta. repeat split; vm_compute; tauto. Qed.
Goal True. idtac "ASSUMPTIONS-OF C01_example_statement_level". Abort.
Print Assumptions C01_example_statement_level.

(* ... the classes whose match() is STRINGBase/StringBase.match with literal patterns (Contains_Stmt, Access_Spec,
   the edit descriptors without operands, '*' ...): every pattern is matched and returned as it is printed, in any
   case when the class folds, and nothing else is accepted; and the classes that delegate to BracketBase
   (Parenthesis, Char_Length, Format_Specification, Bind_Entity, Saved_Entity, Coarray_Bracket_Spec): left ++ inner ++
   right is matched again with the same inner text, the empty pair where the content is optional, and what is
   accepted is bracketed. *)
Theorem C01_every_live_literal_string_class_rematches_its_own_text_partial :
  forall cls pats fold, In (cls, pats, fold) string_classes ->
  (forall p, In p pats -> strings_match pats fold p = Some p) /\
  (fold = true -> forall s s', upper s = upper s' -> strings_match pats fold s = strings_match pats fold s') /\
  (forall s u, strings_match pats fold s = Some u -> In u pats /\ u = (if fold then upper s else s)).
Proof. exact live_string_classes. Qed.
Goal True. idtac "ASSUMPTIONS-OF C01_every_live_literal_string_class_rematches_its_own_text_partial". Abort.
Print Assumptions C01_every_live_literal_string_class_rematches_its_own_text_partial.

Theorem C01_every_live_bracket_class_rematches_its_own_text_partial :
  forall cls br has req, In (cls, br, has, req) bracket_classes ->
  let l := fst (halves_of br) in let r := snd (halves_of br) in
  (forall inner, has = true -> starts_solid inner -> bracket_match br has req (bracket_tostr br (BIn inner)) = BIn inner) /\
  (req = false -> bracket_match br has req (bracket_tostr br BEmpty) = BEmpty) /\
  (forall s inner, bracket_match br has req s = BIn inner ->
     starts_with l (strip s) = true /\ ends_with r (strip s) = true /\ has = true /\ inner <> []).
Proof. exact live_bracket_classes. Qed.
Goal True. idtac "ASSUMPTIONS-OF C01_every_live_bracket_class_rematches_its_own_text_partial". Abort.
Print Assumptions C01_every_live_bracket_class_rematches_its_own_text_partial.

(* Name and Label: the live classes ARE the modelled calls with the modelled regular expressions (read off on every
   run: name_class_tied / label_class_tied are obligations); every identifier is matched as itself, also with blanks
   around it; whatever is matched is an identifier / 1-5 digits. *)
Theorem C01_names_and_labels_rematch_partial :
  name_class_tied = true /\
  (forall n, is_name n = true -> name_match n = Some n) /\
  (forall b1 b2 n, blanks b1 -> blanks b2 -> is_name n = true -> name_match (b1 ++ n ++ b2) = Some n) /\
  (forall s n, name_match s = Some n -> is_name n = true /\ n = strip s) /\
  label_class_tied = true /\
  (forall s l, label_match s = Some l -> l = s /\ 1 <= List.length s <= 5 /\ forallb is_digit s = true).
Proof. exact live_name_class. Qed.
Goal True. idtac "ASSUMPTIONS-OF C01_names_and_labels_rematch_partial". Abort.
Print Assumptions C01_names_and_labels_rematch_partial.

(* ... the list classes (SequenceBase: the 80-odd generated <X>_List classes and the others that delegate to it with a
   constant separator -- read off on every run, Gen/SrmGen.v; the model of string_replace_map and of the cut is
   Model/Srm.v).  For EVERY live list class: the text that SequenceBase.tostr prints for entries e1 ... en is cut into
   exactly e1 ... en again, whatever the number of entries, provided each entry is well formed in the decidable sense
   of good_entry: no quotation mark or backslash, no bracket left open, no comma outside brackets, no blank at either
   end, and invariant under the replacement map (no blank just inside a bracket pair -- what tostr prints).
   (_partial: entries with character literals are outside the theorem -- computed examples and the correspondence
   only; what the sub-rule makes of each entry stays outside the model.) *)
From FV Require Import Srm SrmLaws SrmGen SrmOk.
Theorem C01_every_live_list_class_recuts_its_own_print_partial :
  forall cls sep, In (cls, sep) seq_classes ->
  forall es, es <> [] -> forallb good_entry es = true -> seq_match sep (seq_tostr sep es) = es.
Proof. intros cls sep H. exact (proj2 (proj2 (live_seq_classes cls sep H))). Qed.
Goal True. idtac "ASSUMPTIONS-OF C01_every_live_list_class_recuts_its_own_print_partial". Abort.
Print Assumptions C01_every_live_list_class_recuts_its_own_print_partial.

(* non-vacuity: entries with nested brackets, array constructors and derived-type references meet good_entry; an
   entry with a blank inside its brackets or with a top-level comma does not; with literals: computed *)
Example C01_example_list_classes :
  let t := fun x => list_ascii_of_string x in
  forallb good_entry [t "a(1, 2)"%string; t "x%y(i, j)%z"%string; t "(/1, 2/)"%string; t "f(g(1, [3, 4]), n)"%string; t "k = h(2, 3)"%string] = true /\
  good_entry (t "a( i+1 )"%string) = false /\ good_entry (t "a, b"%string) = false /\ good_entry (t "a(1"%string) = false /\
  seq_tostr comma [t "a(1, 2)"%string; t "'p, q'"%string; t "b"%string] = t "a(1, 2), 'p, q', b"%string /\
  seq_match comma (t "a(1, 2), 'p, q', b"%string) = [t "a(1, 2)"%string; t "'p, q'"%string; t "b"%string] /\
  In ("f2003:Section_Subscript_List"%string, ","%char) seq_classes.
Proof. cbv zeta. repeat split; vm_compute; tauto. Qed.
Goal True. idtac "ASSUMPTIONS-OF C01_example_list_classes". Abort.
Print Assumptions C01_example_list_classes.
