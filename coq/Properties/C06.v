(* C06 -- parsing ends in a tree or a FortranSyntaxError (exception flow through the engine).
   Theorems only. *)
From Coq Require Import List NArith Bool.
From FV Require Import Scope Engine ExceptionFlow TableOk GenOk Table03 Table08.
Import ListNotations.

(* K8.  For EVERY table: if the statement-level matchers raise nothing but NoMatchError,
   FortranSyntaxError and InternalSyntaxError, then whatever the input the parse ends in a tree,
   in "nothing" (blank input), in a FortranSyntaxError -- or in one of exactly three other ways,
   each of which is a named mechanism of the code: process termination by reader.error() (EExit; a
   recorded finding), a SymbolTableError / the AttributeError of the trailing name check (EOther),
   or the model's out-of-fuel value (EFuel, not a behaviour of the code).  In particular the
   library's own NoMatchError and InternalSyntaxError never escape. *)
Theorem C06_exception_flow_partial :
  forall T (L : item -> cls -> list cls -> leafres) fuel c s,
    (forall i c p e, L i c p = LRaise e -> e = ENoMatch \/ e = ESyntax \/ e = EInternalSyntax) ->
    match fst (program_new T L fuel c s) with
    | OEscape e => e = EExit \/ e = EOther \/ e = EFuel
    | _ => True
    end.
Proof. exact program_new_escapes. Qed.
Goal True. idtac "ASSUMPTIONS-OF C06_exception_flow_partial". Abort.
Print Assumptions C06_exception_flow_partial.

(* Whatever a statement-level matcher raises is the only other thing that can come out: the engine
   adds no exception kinds of its own beyond those listed in Proofs/ExceptionFlow.v. *)
Theorem C06_engine_adds_nothing :
  forall T (L : item -> cls -> list cls -> leafres) (P : exn -> Prop),
    (forall i c p e, L i c p = LRaise e -> P e) ->
    P ESyntax -> P ENoMatch -> P EExit -> P EOther -> P EFuel ->
    forall fuel c s, match fst (new T L fuel c s) with Raise e => P e | _ => True end.
Proof. intros T L P H1 H2 H3 H4 H5 H6 fuel c s. exact (new_x T L P H1 H2 H3 H4 H5 H6 fuel c s). Qed.
Goal True. idtac "ASSUMPTIONS-OF C06_engine_adds_nothing". Abort.
Print Assumptions C06_engine_adds_nothing.

(* The SystemExit path exists in the generated table (reader.error() with exit_on_error, finding F2):
   MODULE a / END MODULE b, with an oracle that knows the two statements. *)
Definition L_f2 (i : item) (c : cls) (_ : list cls) : leafres :=
  if Nat.eqb (iid i) 0 && N.eqb c Table03.cn_Module_Stmt
  then LYes (mkInfo None None None None 1%N (Some 1%N))
  else if Nat.eqb (iid i) 1 && N.eqb c Table03.cn_End_Module_Stmt
  then LYes (mkInfo None None None None 0%N (Some 2%N))
  else LNo.
Theorem C06_refuted_exit :
  fst (program_new Table03.tbl L_f2 60 Table03.c_program
         (est0 [mkItem 0 IKLine false false 1; mkItem 1 IKLine false false 2] false)) = OEscape EExit.
Proof. vm_compute. reflexivity. Qed.
Goal True. idtac "ASSUMPTIONS-OF C06_refuted_exit". Abort.
Print Assumptions C06_refuted_exit.
