(* C03 -- expression parse trees encode Fortran precedence and associativity.  Theorems only. *)
From Coq Require Import List Bool Arith.
From FV Require Import Expr ExprLaws ExprGen.
Import ListNotations.

(* The rule chain of the live classes (recorded on every run: operand classes, operator class, split
   direction, exclusion, subclass order of Expr ... Primary) is the chain the theorems are about. *)
Theorem C03_live_rule_chain_is_the_modelled_one : levels_live = std_levels.
Proof. reflexivity. Qed.
Goal True. idtac "ASSUMPTIONS-OF C03_live_rule_chain_is_the_modelled_one". Abort.
Print Assumptions C03_live_rule_chain_is_the_modelled_one.

(* For EVERY expression tree e of the standard's grammar (R702-R722: each operand of the syntactic
   category its position demands, parentheses exactly at the EPar nodes -- i.e. e rendered with the
   minimal parentheses) of any depth and size, over all intrinsic and defined operators: matching the
   rendering of e as an Expr returns e itself.  So ** binds tightest and to the right, then * /, unary
   and binary + -, //, the relational operators, .NOT., .AND., .OR., .EQV./.NEQV., defined binary
   operators loosest, defined unary operators tightest, equal precedence associates to the left, and
   parentheses are retained.
   _partial: (1) side condition defop_ok (no dotted token outside parentheses to the right of a
   defined binary operator): without it the statement is false -- see C03_refuted; (2) the model is
   token-level: the lexical layer (operator regular expressions, exponent literals, blanks) is
   covered by the correspondence and the end-to-end search only. *)
Theorem C03_precedence_and_associativity_partial :
  forall e, conforming e = true -> defop_ok e = true ->
    parse (spec_of levels_live) (G e) 0 (render e) = Some e.
Proof. exact expr_parse_render. Qed.
Goal True. idtac "ASSUMPTIONS-OF C03_precedence_and_associativity_partial". Abort.
Print Assumptions C03_precedence_and_associativity_partial.

(* whatever any rule chain accepts ends with an operand (used above; holds for every chain) *)
Theorem C03_accepted_text_ends_with_operand :
  forall spec fuel k ts e, parse spec fuel k ts = Some e -> ends_operand ts.
Proof. exact parse_ends_operand. Qed.
Goal True. idtac "ASSUMPTIONS-OF C03_accepted_text_ends_with_operand". Abort.
Print Assumptions C03_accepted_text_ends_with_operand.

(* Finding F1: without the side condition the statement is false.  a .myop. b .and. c is an
   expression of the standard (defined binary operators bind loosest: a .myop. (b .and. c)); the
   matcher returns nothing for it -- at the fuel of the theorem above and at every fuel up to 400
   (finite sweep, bound stated). *)
Definition f1_witness : ex := EBin ODef true 7 (EAtom 1) (EBin OAnd true 0 (EAtom 2) (EAtom 3)).
Theorem C03_refuted :
  conforming f1_witness = true /\ defop_ok f1_witness = false /\
  parse (spec_of levels_live) (G f1_witness) 0 (render f1_witness) = None /\
  forall fuel, fuel <= 400 -> parse (spec_of levels_live) fuel 0 (render f1_witness) = None.
Proof.
  split; [reflexivity|]. split; [reflexivity|]. split; [vm_compute; reflexivity|].
  assert (H : forallb (fun fuel => match parse (spec_of levels_live) fuel 0 (render f1_witness) with None => true | Some _ => false end)
                (seq 0 401) = true) by (vm_compute; reflexivity).
  intros fuel Hf. rewrite forallb_forall in H. specialize (H fuel).
  destruct (parse (spec_of levels_live) fuel 0 (render f1_witness)); [|reflexivity].
  assert (X : false = true) by (apply H; apply in_seq; split; [apply Nat.le_0_l|apply Nat.lt_succ_r; exact Hf]).
  discriminate.
Qed.
Goal True. idtac "ASSUMPTIONS-OF C03_refuted". Abort.
Print Assumptions C03_refuted.

(* Non-vacuity: a five-operator expression with retained parentheses meets the hypotheses. *)
Example C03_example :
  let a := EAtom 1 in let b := EAtom 2 in let c := EAtom 3 in
  let e := EBin OAnd true 0 (EUn ONot true 0 (EBin ORel false 0 a b))
             (EBin ORel true 1 (EUn OAdd false 1 a) (EPar (EBin OAdd false 0 (EBin OMul false 0 a b) (EBin OPow false 0 c (EBin OPow false 0 a b))))) in
  conforming e = true /\ defop_ok e = true /\ parse (spec_of levels_live) (G e) 0 (render e) = Some e.
Proof. vm_compute. repeat split; reflexivity. Qed.
Goal True. idtac "ASSUMPTIONS-OF C03_example". Abort.
Print Assumptions C03_example.
