(* C04 -- free-form layout does not change the parse (reader part).  Theorems only. *)
From Coq Require Import List Bool Arith Ascii String NArith.
From FV Require Import SplitLine Text Reader ReaderLaws ReaderJoin ReaderItem.
Import ListNotations.

(* Continuation is lossless.  A statement cut into n+2 pieces at ARBITRARY character positions
   (pieces free of exclamation marks, quote characters and ampersands) and written
        p1&  /  b&p&  ...  /  bn&pn      (any indentation b before the leading ampersands)
   is joined by the free-form continuation loop to EXACTLY  p1 ++ ... ++ pn ; the span ends on the
   last of the lines and exactly those lines are consumed -- for every number of pieces, every
   reader state (line counter, queued items, comment setting) and whatever follows in the source. *)
Theorem C04_continuation_joins_exactly_partial :
  forall ign p1 ms bn pn src lc fifo endl fuel,
    plain p1 -> mids_ok ms -> blanks bn -> plain pn -> pn <> [] -> negb (is_blank pn) = true ->
    stripped (last_line bn pn) -> S (List.length ms) < fuel ->
    free_loop (S fuel) false true [] None endl (p1 ++ ["&"%char])
              (st ign (mids ms ++ last_line bn pn :: src) lc fifo)
    = (p1 ++ List.concat (map snd ms) ++ pn, S lc + List.length ms, st ign src (S lc + List.length ms) fifo).
Proof. exact join_pieces. Qed.
Goal True. idtac "ASSUMPTIONS-OF C04_continuation_joins_exactly_partial". Abort.
Print Assumptions C04_continuation_joins_exactly_partial.

(* The same at the reader's public interface: next() on a source that starts with a statement written
   over n+2 physical lines (first line: any indentation, optional label and construct name as
   extract_label / extract_construct_name find them; every line cut at an arbitrary position) returns
   ONE line item: text = the pieces joined and stripped, the label and name of the first line, span =
   exactly the lines of the statement; the reader is left at the line after it.  (No ';' in the text:
   then the item is not split.) *)
Theorem C04_next_delivers_the_joined_statement_partial :
  forall ign line lab l1 nm p1 ms bn pn src lc,
    stripped line -> line <> [] -> starts_with ["#"%char] (lstrip line) = false ->
    extract_label line = (lab, l1) -> extract_construct_name l1 = (nm, p1 ++ ["&"%char]) ->
    plain p1 -> mids_ok ms -> blanks bn -> plain pn -> pn <> [] -> negb (is_blank pn) = true ->
    stripped (last_line bn pn) ->
    strip (p1 ++ List.concat (map snd ms) ++ pn) <> [] ->
    mem_char ";"%char (strip (p1 ++ List.concat (map snd ms) ++ pn)) = false ->
    next_item (st ign (line :: mids ms ++ last_line bn pn :: src) lc [])
    = (Some (RLine (strip (p1 ++ List.concat (map snd ms) ++ pn)) lab nm (S lc) (S (S lc) + List.length ms)),
       st ign src (S (S lc) + List.length ms) []).
Proof. exact next_item_of_continued_statement. Qed.
Goal True. idtac "ASSUMPTIONS-OF C04_next_delivers_the_joined_statement_partial". Abort.
Print Assumptions C04_next_delivers_the_joined_statement_partial.

(* its hypotheses are met by a labelled, named statement in three pieces *)
Example C04_example_next :
  let line := list_ascii_of_string "  10 lp: call sub(al&" in
  let src := [line; list_ascii_of_string "   &pha, be&"; list_ascii_of_string "&ta)"; list_ascii_of_string "x = 1"] in
  extract_label line = (Some 10%N, list_ascii_of_string "lp: call sub(al&") /\
  extract_construct_name (list_ascii_of_string "lp: call sub(al&") = (Some (list_ascii_of_string "lp"), list_ascii_of_string "call sub(al&") /\
  fst (next_item (st false src 0 []))
  = Some (RLine (list_ascii_of_string "call sub(alpha, beta)") (Some 10%N) (Some (list_ascii_of_string "lp")) 1 3).
Proof. vm_compute. repeat split; reflexivity. Qed.
Goal True. idtac "ASSUMPTIONS-OF C04_example_next". Abort.
Print Assumptions C04_example_next.

(* Comment lines and blank lines between continuation lines are transparent: neither the text
   joined so far nor the open-quote state (ANY state q, also inside a character literal) nor the
   recorded end line changes; a comment is queued for delivery after the statement. *)
Theorem C04_comment_line_inside_continuation :
  forall ign fuel acc q endl cl nextl src lc fifo,
    starts_with ["!"%char] (lstrip cl) = true -> stripped nextl ->
    free_loop (S fuel) false false acc q endl cl (st ign (nextl :: src) lc fifo)
    = free_loop fuel false false acc q endl nextl
        (st ign src (S lc) (fifo ++ [RComment (lstrip cl) lc lc false])).
Proof. exact skip_comment_line. Qed.
Goal True. idtac "ASSUMPTIONS-OF C04_comment_line_inside_continuation". Abort.
Print Assumptions C04_comment_line_inside_continuation.

Theorem C04_blank_line_inside_continuation :
  forall ign fuel acc q endl cl nextl src lc fifo,
    lstrip cl = [] -> stripped nextl ->
    free_loop (S fuel) false false acc q endl cl (st ign (nextl :: src) lc fifo)
    = free_loop fuel false false acc q endl nextl (st ign src (S lc) fifo).
Proof. exact skip_blank_line. Qed.
Goal True. idtac "ASSUMPTIONS-OF C04_blank_line_inside_continuation". Abort.
Print Assumptions C04_blank_line_inside_continuation.

(* Instances computed with the model: the same statement in five layouts (one line; cut inside a
   name; cut inside a literal with comment and blank lines between; upper-case keyword; joined with
   another statement by ';') gives the same item text. *)
Definition s2t (s : string) : text := list_ascii_of_string s.
Definition texts (l : list ritem) : list text :=
  flat_map (fun it => match it with RLine t _ _ _ _ => [t] | _ => [] end) l.
Example C04_example_layouts :
  texts (read_source [s2t "call sub(alpha, 'a b')"] true false true) = [s2t "call sub(alpha, 'a b')"] /\
  texts (read_source [s2t "call sub(al&"; s2t "   &pha, 'a b')"] true false true) = [s2t "call sub(alpha, 'a b')"] /\
  texts (read_source [s2t "  call sub(alpha, 'a&"; s2t "! it's a comment"; s2t ""; s2t "  & b')  ! tail"] true false true)
    = [s2t "call sub(alpha, 'a b')"] /\
  texts (read_source [s2t "x = 1; call sub(alpha, 'a b')"] true false true)
    = [s2t "x = 1"; s2t "call sub(alpha, 'a b')"].
Proof. vm_compute. repeat split; reflexivity. Qed.
Goal True. idtac "ASSUMPTIONS-OF C04_example_layouts". Abort.
Print Assumptions C04_example_layouts.

(* A statement continued over any number of lines with comment lines and empty lines ANYWHERE between
   them is delivered as one item: the joined pieces, label, construct name, the exact span; the
   comments are queued in source order, each with its own line number, and come right after the
   statement.  Any number of pieces, comments and empty lines in any order. *)
From FV Require Import ReaderFile.
Theorem C04_continued_statement_with_comments_between_its_lines_partial :
  forall ign line lab l1 nm p1 es bn pn src lc,
    stripped line -> line <> [] -> starts_with ["#"%char] (lstrip line) = false ->
    extract_label line = (lab, l1) -> extract_construct_name l1 = (nm, p1 ++ ["&"%char]) ->
    plain p1 -> Forall egood es -> blanks bn -> plain pn -> pn <> [] -> negb (is_blank pn) = true ->
    stripped (last_line bn pn) -> strip (p1 ++ etext es ++ pn) <> [] ->
    get_source_item (ReaderJoin.st ign (line :: map phys_e es ++ last_line bn pn :: src) lc [])
    = (Some (RLine (strip (p1 ++ etext es ++ pn)) lab nm (S lc) (S (S lc) + List.length es)),
       ReaderJoin.st ign src (S (S lc) + List.length es) (ecoms es (S (S lc)))).
Proof. exact gsi_contc. Qed.
Goal True. idtac "ASSUMPTIONS-OF C04_continued_statement_with_comments_between_its_lines_partial". Abort.
Print Assumptions C04_continued_statement_with_comments_between_its_lines_partial.

(* ';' JOINS.  A statement text without character context and without brackets is cut at EVERY ';'
   and nowhere else: the parts are exactly the pieces between the semicolons (any number of them);
   C12's whole-file theorem then delivers each part as its own item with the line's number. *)
From FV Require Import SemiLaws.
Theorem C04_semicolon_line_is_cut_at_every_semicolon_partial :
  forall ps : list text, ps <> [] -> Forall (fun p => mem_char ";"%char p = false) ps ->
    simple (join_semi ps) -> semi_split (join_semi ps) = ps.
Proof. exact semi_split_join. Qed.
Goal True. idtac "ASSUMPTIONS-OF C04_semicolon_line_is_cut_at_every_semicolon_partial". Abort.
Print Assumptions C04_semicolon_line_is_cut_at_every_semicolon_partial.

(* WHATEVER THE CHARACTER CONTEXT.  The pieces may contain character literals and the statement may be
   broken INSIDE a literal ( 'ab&  /  &cd' ): the joined text is still exactly the concatenation of the
   pieces, with the exact span.  Required: no '&' inside the pieces, and on each physical line the
   comment handler finds no comment when entered with the quote state the previous line left (nocom: a
   decidable fact per line -- this is where a '!' inside a literal is told from a comment).  Any number
   of lines. *)
From FV Require Import ReaderJoinQ.
Theorem C04_continuation_in_any_character_context_partial :
  forall ign line lab l1 nm p1 q1 ms bn pn src lc fifo,
    stripped line -> line <> [] -> starts_with ["#"%char] (lstrip line) = false ->
    extract_label line = (lab, l1) -> extract_construct_name l1 = (nm, p1 ++ ["&"%char]) ->
    amp_free p1 -> nocom (p1 ++ ["&"%char]) None q1 -> chain_ok q1 ms bn pn ->
    blanks bn -> amp_free pn -> pn <> [] -> negb (is_blank pn) = true -> stripped (last_line bn pn) ->
    strip (p1 ++ texts3 ms ++ pn) <> [] ->
    get_source_item (ReaderJoin.st ign (line :: mids3 ms ++ last_line bn pn :: src) lc fifo)
    = (Some (RLine (strip (p1 ++ texts3 ms ++ pn)) lab nm (S lc) (S (S lc) + List.length ms)),
       ReaderJoin.st ign src (S (S lc) + List.length ms) fifo).
Proof. exact item_of_continued_statement_q. Qed.
Goal True. idtac "ASSUMPTIONS-OF C04_continuation_in_any_character_context_partial". Abort.
Print Assumptions C04_continuation_in_any_character_context_partial.

(* hypotheses met by a literal broken twice, with an exclamation mark and a doubled quote inside it *)
Example C04_example_break_inside_literal :
  let t := fun x => list_ascii_of_string x in
  nocom (t "10 msg = 'it''s fixed! and fr&"%string) None (Some "'"%char) /\
  chain_ok (Some "'"%char) [(t "   "%string, t "ee! "%string, Some "'"%char)] (t " "%string) (t "form' // x"%string) /\
  fst (get_source_item (ReaderJoin.st true [t "10 msg = 'it''s fixed! and fr&"%string; t "   &ee! &"%string; t " &form' // x"%string] 0 []))
  = Some (RLine (t "msg = 'it''s fixed! and free! form' // x"%string) (Some 10%N) None 1 3).
Proof.
  cbv zeta. split; [intros n; vm_compute; reflexivity|]. split; [|vm_compute; reflexivity].
  cbn [chain_ok]. split; [vm_compute; reflexivity|]. split; [vm_compute; reflexivity|].
  split; [intros n; vm_compute; reflexivity|]. eexists. intros n; vm_compute; reflexivity.
Qed.
Goal True. idtac "ASSUMPTIONS-OF C04_example_break_inside_literal". Abort.
Print Assumptions C04_example_break_inside_literal.

(* ... and in full generality: EVERY physical line of the continued statement may carry a trailing
   comment ( x = a + &  ! note ), the pieces may be in any character context, and comment and empty
   lines may stand between the lines.  The item is the concatenation of the pieces with the exact
   span; every comment -- trailing or on its own line -- is queued exactly once, in source order, with
   the number of the physical line it stands on (trailing comments flagged as such).  What the comment
   handler does on each physical line is the per-line hypothesis hicr (code part, quote state left,
   trailing comment): decidable for a concrete line, proved for the quote-free shape by
   ReaderFile.hicr_trailing.  Any number of lines. *)
From FV Require Import ReaderJoinG.
Theorem C04_continuation_with_trailing_comments_on_any_line_partial :
  forall ign line lab l1 nm tl1 p1 b21 q1 oc1 es bn pn tln ocn src lc fifo,
    stripped line -> line <> [] -> starts_with ["#"%char] (lstrip line) = false ->
    extract_label line = (lab, l1) -> extract_construct_name l1 = (nm, tl1) ->
    amp_free p1 -> blanks b21 -> hicr tl1 None (p1 ++ "&"%char :: b21) q1 oc1 -> chain_g q1 es bn pn tln ocn ->
    blanks bn -> amp_free pn -> pn <> [] -> negb (is_blank pn) = true -> stripped (bn ++ "&"%char :: tln) ->
    strip (p1 ++ gtext es ++ pn) <> [] ->
    get_source_item (ReaderJoin.st ign (line :: map phys_g es ++ (bn ++ "&"%char :: tln) :: src) lc fifo)
    = (Some (RLine (strip (p1 ++ gtext es ++ pn)) lab nm (S lc) (S (S lc) + List.length es)),
       ReaderJoin.st ign src (S (S lc) + List.length es)
         (fifo ++ cmtl oc1 (S lc) ++ gcoms es (S (S lc)) ++ cmtl ocn (S (S lc) + List.length es))).
Proof. exact item_of_continued_statement_g. Qed.
Goal True. idtac "ASSUMPTIONS-OF C04_continuation_with_trailing_comments_on_any_line_partial". Abort.
Print Assumptions C04_continuation_with_trailing_comments_on_any_line_partial.

(* hypotheses met by a statement over four physical lines: trailing comments on the first, a middle
   and the last line, a comment line in between, an exclamation mark inside a literal *)
Example C04_example_trailing_comments :
  let t := fun x => list_ascii_of_string x in
  let es := [GMid (t " "%string) (t " b + "%string) (t "  "%string) (t " b + &  ! second"%string) (Some (t "! second"%string)) None;
             GCom (t "   ! own line"%string)] in
  hicr (t "x = a + &   ! first"%string) None (t "x = a + &   "%string) None (Some (t "! first"%string)) /\
  chain_g None es (t " "%string) (t " 'c!d'   "%string) (t " 'c!d'   ! third"%string) (Some (t "! third"%string)) /\
  get_source_item (ReaderJoin.st false [t "x = a + &   ! first"%string; t " & b + &  ! second"%string; t "   ! own line"%string;
                                        t " & 'c!d'   ! third"%string] 0 [])
  = (Some (RLine (t "x = a +  b +  'c!d'"%string) None None 1 4),
     ReaderJoin.st false [] 4 [RComment (t "! first"%string) 1 1 true; RComment (t "! second"%string) 2 2 true;
                               RComment (t "! own line"%string) 3 3 false; RComment (t "! third"%string) 4 4 true]).
Proof.
  cbv zeta. split; [intros n; vm_compute; reflexivity|]. split; [|vm_compute; reflexivity].
  cbn [chain_g]. repeat split; try (vm_compute; reflexivity); try (intros n; vm_compute; reflexivity).
  eexists. intros n; vm_compute; reflexivity.
Qed.
Goal True. idtac "ASSUMPTIONS-OF C04_example_trailing_comments". Abort.
Print Assumptions C04_example_trailing_comments.
