(* C20 -- parsing effort (statement-level part).  Theorems only. *)
From Coq Require Import List NArith Bool Arith Lia.
From FV Require Import Scope Engine EngineContracts EngineInv CacheLaws Table03.
Import ListNotations.

(* The per-line parse cache bounds the statement-level work: for EVERY table, every leaf oracle and
   every item stream, after a parse from a fresh state the number of statement-level rule matches
   that were started (lcost: cache misses, i.e. runs of a statement class's match() on a line)
   equals the number of distinct (item, class) keys in the cache; the keys are pairwise distinct
   and belong to items of the source.  Hence no line is ever matched twice against the same rule --
   however often back-tracking re-reads it -- and the statement-level work is at most
   (number of items) * (number of statement classes tried): linear in the program length.
   (The number of rule-constructor calls, cost, is NOT bounded this way: see the recorded finding
   for nested action-terminated labelled DO loops.) *)
Theorem C20_statement_level_matches_linear_partial :
  forall (T : table) (L : item -> cls -> list cls -> leafres) items pd fuel c,
  let s' := snd (program_top T L fuel c (est0 items pd)) in
  NoDup (keys s') /\ (forall k, In k (keys s') -> In (fst k) (ids_of items)) /\
  lcost s' = N.of_nat (length (keys s')) /\
  (forall cs, (forall k, In k (keys s') -> In (snd k) cs) ->
     (lcost s' <= N.of_nat (length items) * N.of_nat (length cs))%N).
Proof. exact statement_matches_once. Qed.
Goal True. idtac "ASSUMPTIONS-OF C20_statement_level_matches_linear_partial". Abort.
Print Assumptions C20_statement_level_matches_linear_partial.

(* the invariant behind it holds across every single rule invocation, from any state that has it *)
Theorem C20_cache_invariant_every_invocation :
  forall (T : table) (L : item -> cls -> list cls -> leafres) ids fuel c s,
    InvC ids s -> InvC ids (snd (new T L fuel c s)).
Proof. exact new_cache. Qed.
Goal True. idtac "ASSUMPTIONS-OF C20_cache_invariant_every_invocation". Abort.
Print Assumptions C20_cache_invariant_every_invocation.

(* Non-vacuity on the real F2003 table: PROGRAM p / garbage / END PROGRAM p makes the engine try many
   classes on the three lines (cost 40+ constructor calls) while every (line, class) pair is matched once. *)
Definition L_c20 (i : item) (c : cls) (_ : list cls) : leafres :=
  let inf := mkInfo None None None None 1%N (Some 1%N) in
  if (Nat.eqb (iid i) 0 && N.eqb c Table03.cn_Program_Stmt)
     || (Nat.eqb (iid i) 2 && N.eqb c Table03.cn_End_Program_Stmt)
  then LYes inf else LNo.
Example C20_example_counts :
  let s' := snd (program_top Table03.tbl L_c20 60 Table03.c_program
         (est0 [mkItem 0 IKLine false false 1; mkItem 1 IKLine false false 2; mkItem 2 IKLine false false 3] false)) in
  (lcost s' =? N.of_nat (length (keys s')))%N && (1 <? lcost s')%N && (lcost s' <? cost s')%N = true.
Proof. vm_compute. reflexivity. Qed.
Goal True. idtac "ASSUMPTIONS-OF C20_example_counts". Abort.
Print Assumptions C20_example_counts.
