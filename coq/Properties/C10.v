(* C10 -- the parse tree is a well-formed tree with consistent navigation.  Theorems only. *)
From Coq Require Import List Bool Arith NArith.
Require Import FV.Model.Scope FV.Model.Engine FV.Proofs.EngineContracts FV.Proofs.EngineShape FV.Proofs.Leaves
               FV.Proofs.TableOk FV.Proofs.ProgramLevel FV.Proofs.GenOk FV.Gen.Table03 FV.Gen.Table08
               FV.Model.Nav FV.Proofs.NavLaws FV.Gen.NavCopy.
Import ListNotations.

(* walk() and _set_parent() agree on what the children of a node are: for every nesting of lists and
   tuples in a node's items, the nodes walk() reaches under the node (without passing through another
   node) are exactly the nodes whose parent link _set_parent() set to it. *)
Theorem C10_walk_reaches_exactly_the_adopted_children :
  forall v, reached true v = adopted true v.
Proof. exact walk_children_are_adopted. Qed.
Goal True. idtac "ASSUMPTIONS-OF C10_walk_reaches_exactly_the_adopted_children". Abort.
Print Assumptions C10_walk_reaches_exactly_the_adopted_children.

(* the live functions are the list-descending variants (probed on nested containers on every run) *)
Theorem C10_live_helpers_descend_into_lists : sp_lists = true /\ walk_lists = true.
Proof. vm_compute. split; reflexivity. Qed.
Goal True. idtac "ASSUMPTIONS-OF C10_live_helpers_descend_into_lists". Abort.
Print Assumptions C10_live_helpers_descend_into_lists.

(* a walk() that skipped list containers would miss adopted children (the defect repaired by d05ddbd) *)
Theorem C10_refuted_if_walk_skips_lists : exists v, reached false v <> adopted true v.
Proof. exact walk_skipping_lists_misses_children. Qed.
Goal True. idtac "ASSUMPTIONS-OF C10_refuted_if_walk_skips_lists". Abort.
Print Assumptions C10_refuted_if_walk_skips_lists.

(* Statement level of the tree: every item of the source is the item of exactly one statement node
   and the statement nodes, in the order walk() yields them, are the items in source order
   (regenerated tables, every leaf oracle, every input with distinct items, no fall-back). *)
Theorem C10_each_statement_once_in_source_order :
  forall (L : item -> cls -> list cls -> leafres) fuel items pd t s',
    NoDup (map iid items) ->
    program_new Table08.tbl L fuel Table08.c_program (est0 items pd) = (OTree t, s') ->
    no_fallback Table08.tbl L fuel Table08.c_program (est0 items pd) ->
    yield t = items /\ NoDup (map iid (yield t)).
Proof.
  intros L fuel items pd t s' ND H NF.
  destruct (program_new_yield Table08.tbl L table08_ok fuel Table08.c_program _ t s' H NF) as [Y _].
  cbn in Y. split; [exact Y|now rewrite Y].
Qed.
Goal True. idtac "ASSUMPTIONS-OF C10_each_statement_once_in_source_order". Abort.
Print Assumptions C10_each_statement_once_in_source_order.
