(* C16 -- symbol tables mirror the scoping structure (bookkeeping part).  Theorems only. *)
From Coq Require Import List NArith Bool Arith.
From FV Require Import Scope Engine EngineContracts EngineInv CacheLaws ScopeLaws TableOk ProgramLevel GenOk Table03 Table08.
Import ListNotations.

(* The enter/exit operations that a scope forest induces (enter at each scoping start statement, exit at
   its end, in source order), run below ANY well-formed current scope, append exactly that forest as
   tables -- nested as in the source, siblings in source order -- and return to the same current scope.
   For every forest: any depth, any width, repeated names included. *)
Theorem C16_nested_tables_mirror_scope_forest :
  forall (f : list stree) (p : list name) (tp : list stab),
    p <> [] -> valid_path p tp = true ->
    run (flat_map ops f) (mkScopes tp p)
    = Some (mkScopes (upd_path p (fun k => k ++ map to_stab f) tp) p).
Proof. exact forest_law_all. Qed.
Goal True. idtac "ASSUMPTIONS-OF C16_nested_tables_mirror_scope_forest". Abort.
Print Assumptions C16_nested_tables_mirror_scope_forest.

(* At the top level: program units with pairwise distinct names that have no table yet get one
   top-level table each, in source order, with their nested scopes below them. *)
Theorem C16_top_level_tables_mirror_units :
  forall (f : list stree) (tp : list stab),
    NoDup (map root f) -> (forall t, In t f -> has_name (root t) tp = false) ->
    run (flat_map ops f) (mkScopes tp []) = Some (mkScopes (tp ++ map to_stab f) []).
Proof. exact top_forest_law. Qed.
Goal True. idtac "ASSUMPTIONS-OF C16_top_level_tables_mirror_units". Abort.
Print Assumptions C16_top_level_tables_mirror_units.

(* A construct that is entered, filled with nested scopes, left and then removed (what BlockBase.match
   does when the block turns out not to match) leaves the tables exactly as they were, provided its
   name is not already a table of the current scope.  (Without that proviso the OLDER table of the
   same name is removed: the recorded C09 finding.) *)
Theorem C16_failed_attempt_leaves_no_table :
  forall n f p tp, p <> [] -> valid_path p tp = true -> has_name n (kids_at p tp) = false ->
    match run (ops (SNode n f)) (mkScopes tp p) with
    | Some sc1 => remove_scope n sc1 = Some (mkScopes tp p)
    | None => False
    end.
Proof. exact failed_attempt_erased. Qed.
Goal True. idtac "ASSUMPTIONS-OF C16_failed_attempt_leaves_no_table". Abort.
Print Assumptions C16_failed_attempt_leaves_no_table.

(* Engine side (regenerated F2008 table, every leaf oracle): every rule invocation returns to the
   scope it was started in, so the operations of one construct are bracketed as above ... *)
Theorem C16_every_rule_is_bracketed :
  forall (L : item -> cls -> list cls -> leafres) fuel c s,
    match new Table08.tbl L fuel c s with
    | (Val _, s') => cur (sc s') = cur (sc s)
    | (Raise e, s') => is_exception e = true -> cur (sc s') = cur (sc s)
    end.
Proof.
  intros L fuel c s. pose proof (ct_ok _ _ (engine_contract Table08.tbl L table08_ok fuel) c s) as H.
  destruct (new Table08.tbl L fuel c s) as [[[t|]|e] s']; cbn in H; apply H.
Qed.
Goal True. idtac "ASSUMPTIONS-OF C16_every_rule_is_bracketed". Abort.
Print Assumptions C16_every_rule_is_bracketed.

(* ... and a statement is matched against a rule class at most once per parse (later uses are served
   from the per-line cache), so the side effects of a declaration or USE statement's match()
   (adding symbols to the current table) are not repeated by back-tracking. *)
Theorem C16_statement_side_effects_at_most_once :
  forall (T : table) (L : item -> cls -> list cls -> leafres) items pd fuel c,
  let s' := snd (program_top T L fuel c (est0 items pd)) in
  NoDup (keys s') /\ lcost s' = N.of_nat (length (keys s')).
Proof.
  intros T L items pd fuel c s'. destruct (statement_matches_once T L items pd fuel c) as [A [_ [B _]]].
  split; assumption.
Qed.
Goal True. idtac "ASSUMPTIONS-OF C16_statement_side_effects_at_most_once". Abort.
Print Assumptions C16_statement_side_effects_at_most_once.

(* Computed on the real F2003 table: MODULE m / CONTAINS / SUBROUTINE s / END SUBROUTINE / END MODULE
   followed by PROGRAM p / END PROGRAM gives the tables m(s) and p. *)
Definition L_c16 (i : item) (c : cls) (_ : list cls) : leafres :=
  let yes sn un := LYes (mkInfo None None None None sn un) in
  match iid i with
  | 0 => if N.eqb c Table03.cn_Module_Stmt then yes 1%N (Some 1%N) else LNo
  | 1 => if N.eqb c Table03.cn_Contains_Stmt then yes 0%N None else LNo
  | 2 => if N.eqb c Table03.cn_Subroutine_Stmt then yes 2%N (Some 2%N) else LNo
  | 3 => if N.eqb c Table03.cn_End_Subroutine_Stmt then yes 0%N (Some 2%N) else LNo
  | 4 => if N.eqb c Table03.cn_End_Module_Stmt then yes 0%N (Some 1%N) else LNo
  | 5 => if N.eqb c Table03.cn_Program_Stmt then yes 3%N (Some 3%N) else LNo
  | _ => if N.eqb c Table03.cn_End_Program_Stmt then yes 0%N (Some 3%N) else LNo
  end.
Example C16_example_tables :
  let items := map (fun k => mkItem k IKLine false false (S k)) (seq 0 7) in
  let r := program_new Table03.tbl L_c16 80 Table03.c_program (est0 items false) in
  (match fst r with OTree _ => true | _ => false end,
   tops (sc (snd r)), cur (sc (snd r)))
  = (true, [STab 1%N [STab 2%N []]; STab 3%N []], []).
Proof. vm_compute. reflexivity. Qed.
Goal True. idtac "ASSUMPTIONS-OF C16_example_tables". Abort.
Print Assumptions C16_example_tables.

(* and the same forest through the abstract operations *)
Example C16_example_ops :
  run (flat_map ops [SNode 1%N [SNode 2%N []]; SNode 3%N []]) scopes0
  = Some (mkScopes [STab 1%N [STab 2%N []]; STab 3%N []] []).
Proof. vm_compute. reflexivity. Qed.
Goal True. idtac "ASSUMPTIONS-OF C16_example_ops". Abort.
Print Assumptions C16_example_ops.

(* THE ENGINE AND THE TABLES (every table that passes the check -- in particular both regenerated
   ones --, every leaf oracle, every input, every rule).  A rule invocation, whatever it returns or
   raises, is a FRAME STEP on the symbol tables: it ends in the scope it started in and, when the
   current path names existing tables, the tables afterwards are the tables before with only the
   children list of the current scope's table rewritten, and the path still names existing tables.
   So the enter/exit/remove operations the engine issues are bracketed, a table that a failed
   attempt created is removed from the very children list it was appended to, and no table outside
   the current scope (other program units, ancestors, the ancestors' other children) is touched. *)
From FV Require Import EngineRel ScopeFrame.
Theorem C16_every_rule_invocation_is_a_frame_step :
  forall (T : table) (L : item -> cls -> list cls -> leafres), table_ok T = true ->
  forall fuel c s,
    match new T L fuel c s with
    | (Val _, s') => frame (sc s) (sc s')
    | (Raise e, s') => is_exception e = true -> frame (sc s) (sc s')
    end.
Proof. exact engine_frame. Qed.
Goal True. idtac "ASSUMPTIONS-OF C16_every_rule_invocation_is_a_frame_step". Abort.
Print Assumptions C16_every_rule_invocation_is_a_frame_step.

(* spelled out for the regenerated Fortran 2008 table, for a rule started inside program unit u:
   same scope afterwards, the path still valid, and the (latest) table of every OTHER program unit m
   exactly as before *)
Theorem C16_rules_inside_a_unit_leave_other_units_alone :
  forall (L : item -> cls -> list cls -> leafres) fuel c s s' o u q m,
    new Table08.tbl L fuel c s = (Val o, s') ->
    valid (sc s) -> cur (sc s) = u :: q -> N.eqb m u = false ->
    cur (sc s') = cur (sc s) /\ valid (sc s') /\
    last_named m (tops (sc s')) = last_named m (tops (sc s)).
Proof. exact (fun L => rules_inside_a_unit Table08.tbl L table08_ok). Qed.
Goal True. idtac "ASSUMPTIONS-OF C16_rules_inside_a_unit_leave_other_units_alone". Abort.
Print Assumptions C16_rules_inside_a_unit_leave_other_units_alone.

(* the hypotheses are met: inside MODULE 7 after PROGRAM-less start, the path [7] is valid *)
Example C16_example_frame_hypotheses :
  valid (enter_scope 7%N scopes0) /\ cur (enter_scope 7%N scopes0) = [7%N] /\
  valid (enter_scope 9%N (enter_scope 7%N scopes0)) /\
  frame (enter_scope 7%N scopes0) (enter_scope 7%N scopes0).
Proof. split; [reflexivity|]. split; [reflexivity|]. split; [reflexivity|]. apply frame_refl. Qed.
Goal True. idtac "ASSUMPTIONS-OF C16_example_frame_hypotheses". Abort.
Print Assumptions C16_example_frame_hypotheses.

(* REFUTED at full strength, on the regenerated F2008 table: "the tables of an accepted program are the scope tree of
   its parse tree".  PROGRAM p / DO 10 i = 1, 3 / BLOCK / j = i / END BLOCK / 10 x = cos(1.0) / END PROGRAM p is
   accepted, its tree holds ONE scoping statement named 2 (the BLOCK), the tables hold TWO children named 2: the
   labelled DO is first tried as a block label-DO, which parses the BLOCK and then gives up at the terminal action
   statement; a failing rule undoes its own scope (frame theorem above), not the table of an inner construct that
   had COMPLETED; the second attempt enters the BLOCK again.  The implementation does exactly this (KNOWN_FINDINGS:
   duplicate_block_table_after_backtracked_label_do, probed on every run by tools/props/c16.py). *)
Fixpoint scope_uses (n : name) (t : tree) : nat :=
  match t with
  | TLeaf _ _ inf => if N.eqb (scope_name inf) n then 1 else 0
  | TBlock _ kids => (fix go (l : list tree) : nat := match l with [] => 0 | k :: r => scope_uses n k + go r end) kids
  end.
Definition L_c16b (i : item) (c : cls) (_ : list cls) : leafres :=
  let yes sl el sn un := LYes (mkInfo sl el None None sn un) in
  match iid i with
  | 0 => if N.eqb c Table08.cn_Program_Stmt then yes None None 1%N (Some 1%N) else LNo
  | 1 => if N.eqb c Table08.cn_Label_Do_Stmt_08 || N.eqb c Table08.cn_Label_Do_Stmt then yes (Some 10%N) None 0%N None else LNo
  | 2 => if N.eqb c Table08.cn_Block_Stmt_08 then yes None None 2%N None else LNo
  | 3 => if N.eqb c Table08.cn_Assignment_Stmt then yes None None 0%N None else LNo
  | 4 => if N.eqb c Table08.cn_End_Block_Stmt_08 then yes None None 0%N None else LNo
  | 5 => if N.eqb c Table08.cn_Assignment_Stmt then yes None (Some 10%N) 0%N None else LNo
  | _ => if N.eqb c Table08.cn_End_Program_Stmt then yes None None 0%N (Some 1%N) else LNo
  end.
Example C16_table_tree_equals_scope_tree_refuted :
  let items := map (fun k => mkItem k IKLine false false (S k)) (seq 0 7) in
  let r := program_new Table08.tbl L_c16b 200 Table08.c_program (est0 items false) in
  match fst r with
  | OTree t => yield t = items /\ scope_uses 2%N t = 1 /\ tops (sc (snd r)) = [STab 1%N [STab 2%N []; STab 2%N []]]
  | _ => False
  end.
Proof. vm_compute. repeat split; reflexivity. Qed.
Goal True. idtac "ASSUMPTIONS-OF C16_table_tree_equals_scope_tree_refuted". Abort.
Print Assumptions C16_table_tree_equals_scope_tree_refuted.
