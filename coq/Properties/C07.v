(* C07 -- a syntax error is reported at the offending statement's line (engine part). Theorems only. *)
From Coq Require Import List NArith Bool Arith.
From FV Require Import Scope Engine EngineContracts EngineBarrier TableOk ProgramLevel GenOk Table03 Table08.
Import ListNotations.

(* K5.  Let g be an item that no rule class matches (the leaf oracle answers "no match" for g and
   every class).  Then for EVERY table (no side condition), every other behaviour of the oracle,
   every prefix [pre] of items that do not extend beyond g's last line, and everything after g:
   whatever the outcome of the parse, the reader never advanced beyond the last line of g.  In
   particular a FortranSyntaxError (whose line is reader.linecount) is never reported AFTER the
   offending statement: all look-ahead is undone before the next item is read, and g itself is
   pushed back every time it is popped. *)
Theorem C07_never_reads_past_offending_statement :
  forall (T : table) (L : item -> cls -> list cls -> leafres) (g : item) (pre post : list item) pd fuel c,
    ikd g = IKLine ->
    (forall c p, L g c p = LNo \/ L g c p = LRaise ENoMatch) ->
    Forall (fun i => ilast i <= ilast g /\ iid i <> iid g) pre ->
    maxread (snd (program_new T L fuel c (est0 (pre ++ g :: post) pd))) <= ilast g.
Proof.
  intros T L g pre post pd fuel c Hk Hn Hp.
  assert (I0 : Inv g post (est0 (pre ++ g :: post) pd)).
  { split; [exists pre; split; [reflexivity|exact Hp]|]. split; [cbn; apply Nat.le_0_l|].
    intros c' v H. cbn in H. discriminate. }
  pose proof (program_top_barrier T L g post Hk Hn fuel c _ I0) as [_ [M _]].
  unfold program_new. destruct (program_top T L fuel c (est0 (pre ++ g :: post) pd)) as [[[t|]|e] s'];
    cbn [snd] in *; try exact M. destruct e; exact M.
Qed.
Goal True. idtac "ASSUMPTIONS-OF C07_never_reads_past_offending_statement". Abort.
Print Assumptions C07_never_reads_past_offending_statement.

(* consequence for the reported line *)
Theorem C07_reported_line_not_after_statement_partial :
  forall (T : table) (L : item -> cls -> list cls -> leafres) (g : item) (pre post : list item) pd fuel c line s',
    ikd g = IKLine ->
    (forall c p, L g c p = LNo \/ L g c p = LRaise ENoMatch) ->
    Forall (fun i => ilast i <= ilast g /\ iid i <> iid g) pre ->
    program_new T L fuel c (est0 (pre ++ g :: post) pd) = (OSyntax line, s') ->
    line <= ilast g.
Proof.
  intros T L g pre post pd fuel c line s' Hk Hn Hp H.
  pose proof (C07_never_reads_past_offending_statement T L g pre post pd fuel c Hk Hn Hp) as M.
  rewrite H in M. cbn [snd] in M.
  unfold program_new in H. destruct (program_top T L fuel c (est0 (pre ++ g :: post) pd)) as [[[t|]|e] s1];
    try discriminate. destruct e; inversion H; subst; exact M.
Qed.
Goal True. idtac "ASSUMPTIONS-OF C07_reported_line_not_after_statement_partial". Abort.
Print Assumptions C07_reported_line_not_after_statement_partial.

(* Non-vacuity and the lower bound on an instance: PROGRAM p (line 1) / garbage (line 2) /
   END PROGRAM p (line 3) is reported at line 2, the line of the garbage. *)
Definition L_c07 (i : item) (c : cls) (_ : list cls) : leafres :=
  let inf := mkInfo None None None None 1%N (Some 1%N) in
  if (Nat.eqb (iid i) 0 && N.eqb c Table03.cn_Program_Stmt)
     || (Nat.eqb (iid i) 2 && N.eqb c Table03.cn_End_Program_Stmt)
  then LYes inf else LNo.
Example C07_example_line :
  fst (program_new Table03.tbl L_c07 60 Table03.c_program
         (est0 [mkItem 0 IKLine false false 1; mkItem 1 IKLine false false 2; mkItem 2 IKLine false false 3] false))
  = OSyntax 2.
Proof. vm_compute. reflexivity. Qed.
Goal True. idtac "ASSUMPTIONS-OF C07_example_line". Abort.
Print Assumptions C07_example_line.
