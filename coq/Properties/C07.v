(* C07 -- a syntax error is reported at the offending statement's line (engine part). Theorems only. *)
From Coq Require Import List NArith Bool Arith.
From FV Require Import Scope Engine EngineContracts EngineBarrier TableOk ProgramLevel GenOk Table03 Table08.
Import ListNotations.

(* K5.  Let g be an item that no rule class matches (the leaf oracle answers "no match" for g and
   every class).  Then for EVERY table (no side condition), every other behaviour of the oracle,
   every prefix [pre] of items that do not extend beyond g's last line, and everything after g:
   whatever the outcome of the parse, the reader never advanced beyond the last line of g.  In
   particular a FortranSyntaxError (whose line is reader.linecount) is never reported AFTER the
   offending statement: all look-ahead is undone before the next item is read, and g itself is
   pushed back every time it is popped. *)
Theorem C07_never_reads_past_offending_statement :
  forall (T : table) (L : item -> cls -> list cls -> leafres) (g : item) (pre post : list item) pd fuel c,
    ikd g = IKLine ->
    (forall c p, L g c p = LNo \/ L g c p = LRaise ENoMatch) ->
    Forall (fun i => ilast i <= ilast g /\ iid i <> iid g) pre ->
    maxread (snd (program_new T L fuel c (est0 (pre ++ g :: post) pd))) <= ilast g.
Proof.
  intros T L g pre post pd fuel c Hk Hn Hp.
  assert (I0 : Inv g post (est0 (pre ++ g :: post) pd)).
  { split; [exists pre; split; [reflexivity|exact Hp]|]. split; [cbn; apply Nat.le_0_l|].
    intros c' v H. cbn in H. discriminate. }
  pose proof (program_top_barrier T L g post Hk Hn fuel c _ I0) as [_ [M _]].
  unfold program_new. destruct (program_top T L fuel c (est0 (pre ++ g :: post) pd)) as [[[t|]|e] s'];
    cbn [snd] in *; try exact M. destruct e; exact M.
Qed.
Goal True. idtac "ASSUMPTIONS-OF C07_never_reads_past_offending_statement". Abort.
Print Assumptions C07_never_reads_past_offending_statement.

(* consequence for the reported line *)
Theorem C07_reported_line_not_after_statement_partial :
  forall (T : table) (L : item -> cls -> list cls -> leafres) (g : item) (pre post : list item) pd fuel c line s',
    ikd g = IKLine ->
    (forall c p, L g c p = LNo \/ L g c p = LRaise ENoMatch) ->
    Forall (fun i => ilast i <= ilast g /\ iid i <> iid g) pre ->
    program_new T L fuel c (est0 (pre ++ g :: post) pd) = (OSyntax line, s') ->
    line <= ilast g.
Proof.
  intros T L g pre post pd fuel c line s' Hk Hn Hp H.
  pose proof (C07_never_reads_past_offending_statement T L g pre post pd fuel c Hk Hn Hp) as M.
  rewrite H in M. cbn [snd] in M.
  unfold program_new in H. destruct (program_top T L fuel c (est0 (pre ++ g :: post) pd)) as [[[t|]|e] s1];
    try discriminate. destruct e; inversion H; subst; exact M.
Qed.
Goal True. idtac "ASSUMPTIONS-OF C07_reported_line_not_after_statement_partial". Abort.
Print Assumptions C07_reported_line_not_after_statement_partial.

(* Non-vacuity and the lower bound on an instance: PROGRAM p (line 1) / garbage (line 2) /
   END PROGRAM p (line 3) is reported at line 2, the line of the garbage. *)
Definition L_c07 (i : item) (c : cls) (_ : list cls) : leafres :=
  let inf := mkInfo None None None None 1%N (Some 1%N) in
  if (Nat.eqb (iid i) 0 && N.eqb c Table03.cn_Program_Stmt)
     || (Nat.eqb (iid i) 2 && N.eqb c Table03.cn_End_Program_Stmt)
  then LYes inf else LNo.
Example C07_example_line :
  fst (program_new Table03.tbl L_c07 60 Table03.c_program
         (est0 [mkItem 0 IKLine false false 1; mkItem 1 IKLine false false 2; mkItem 2 IKLine false false 3] false))
  = OSyntax 2.
Proof. vm_compute. reflexivity. Qed.
Goal True. idtac "ASSUMPTIONS-OF C07_example_line". Abort.
Print Assumptions C07_example_line.

(* NOT BEFORE.  Prefix determinism: two inputs that agree up to their k-th item and have the same
   number of items are parsed identically -- same result, same state apart from the unread rest --
   until the reader has handed out the first item that differs (every table, every leaf oracle, every
   fuel).  So either the two parses end with the same result, or the second one has read the changed
   item: its line counter is at least that item's last line. *)
From FV Require Import EnginePrefix.
Theorem C07_parses_agree_until_the_changed_statement_is_read :
  forall (T : table) (L : item -> cls -> list cls -> leafres) (p r1 r2 : list item) pd fuel c,
    List.length r1 = List.length r2 ->
    let x1 := program_top T L fuel c (est0 (p ++ r1) pd) in
    let x2 := program_top T L fuel c (est0 (p ++ r2) pd) in
    fst x1 = fst x2 \/ match r2 with i :: _ => ilast i <= maxread (snd x2) | [] => True end.
Proof. exact changed_statement_is_reached. Qed.
Goal True. idtac "ASSUMPTIONS-OF C07_parses_agree_until_the_changed_statement_is_read". Abort.
Print Assumptions C07_parses_agree_until_the_changed_statement_is_read.

(* The reported line is not before the changed statement: when a program that parses to a tree has its
   k-th statement replaced (and anything after it changed, the number of statements kept) and the
   result is a syntax error, the error is reported at or after the last line of the k-th statement.
   With C07_reported_line_not_after_statement_partial (a statement no class matches is never read
   past) the reported line IS the statement's last line. *)
Theorem C07_reported_line_not_before_the_changed_statement :
  forall (T : table) (L : item -> cls -> list cls -> leafres) (p r1 : list item) g rest2 pd fuel c t s1' line s2',
    List.length r1 = List.length (g :: rest2) ->
    program_new T L fuel c (est0 (p ++ r1) pd) = (OTree t, s1') ->
    program_new T L fuel c (est0 (p ++ g :: rest2) pd) = (OSyntax line, s2') ->
    ilast g <= line.
Proof. exact error_not_before_change. Qed.
Goal True. idtac "ASSUMPTIONS-OF C07_reported_line_not_before_the_changed_statement". Abort.
Print Assumptions C07_reported_line_not_before_the_changed_statement.

(* the hypotheses are met: PROGRAM p / CONTINUE / END PROGRAM p parses to a tree; with the CONTINUE
   replaced by garbage (same number of items) the syntax error is reported at line 2 *)
Definition L_c07b (i : item) (c : cls) (_ : list cls) : leafres :=
  let inf := mkInfo None None None None 1%N (Some 1%N) in
  if (Nat.eqb (iid i) 0 && N.eqb c Table03.cn_Program_Stmt)
     || (Nat.eqb (iid i) 5 && N.eqb c Table03.cn_Continue_Stmt)
     || (Nat.eqb (iid i) 2 && N.eqb c Table03.cn_End_Program_Stmt)
  then LYes inf else LNo.
Example C07_example_not_before :
  let p := [mkItem 0 IKLine false false 1] in
  let r1 := [mkItem 5 IKLine false false 2; mkItem 2 IKLine false false 3] in
  let r2 := [mkItem 1 IKLine false false 2; mkItem 2 IKLine false false 3] in
  (exists t, fst (program_new Table03.tbl L_c07b 60 Table03.c_program (est0 (p ++ r1) false)) = OTree t) /\
  fst (program_new Table03.tbl L_c07b 60 Table03.c_program (est0 (p ++ r2) false)) = OSyntax 2.
Proof. cbv zeta. split; [eexists|]; vm_compute; reflexivity. Qed.
Goal True. idtac "ASSUMPTIONS-OF C07_example_not_before". Abort.
Print Assumptions C07_example_not_before.
