(* C13 -- INCLUDE resolution is transparent; unresolved includes are kept (item-level model).
   Theorems only. *)
From Coq Require Import List Bool Arith.
From FV Require Import Include IncludeLaws IncludeSplice.
Import ListNotations.

(* Push-back inside any nest of include readers: the item goes to the innermost reader, reading
   again returns it and the nest is as before -- every nesting depth, every reader state. *)
Theorem C13_pushback_reaches_innermost_reader :
  forall fs it r outer fuel,
    (forall f, it = AInc f -> fs f = None) ->
    anext (S fuel) fs (aput it (r :: outer)) = (Some it, r :: outer).
Proof. exact aget_after_put. Qed.
Goal True. idtac "ASSUMPTIONS-OF C13_pushback_reaches_innermost_reader". Abort.
Print Assumptions C13_pushback_reaches_innermost_reader.

(* include path order: the first directory that has the file wins; directories without it are skipped *)
Theorem C13_first_directory_wins :
  forall d dirs f l, d f = Some l -> first_dir (d :: dirs) f = Some l.
Proof. exact first_dir_first_match. Qed.
Goal True. idtac "ASSUMPTIONS-OF C13_first_directory_wins". Abort.
Print Assumptions C13_first_directory_wins.
Theorem C13_missing_directory_skipped :
  forall d dirs f, d f = None -> first_dir (d :: dirs) f = first_dir dirs f.
Proof. exact first_dir_skips_missing. Qed.
Goal True. idtac "ASSUMPTIONS-OF C13_missing_directory_skipped". Abort.
Print Assumptions C13_missing_directory_skipped.

(* an INCLUDE line whose file cannot be found is delivered as an item at its position *)
Theorem C13_unresolved_include_kept :
  forall fs f src outer fuel, fs f = None ->
    anext (S fuel) fs (mkArdr [] (AInc f :: src) :: outer) = (Some (AInc f), mkArdr [] src :: outer).
Proof. exact unresolved_include_kept. Qed.
Goal True. idtac "ASSUMPTIONS-OF C13_unresolved_include_kept". Abort.
Print Assumptions C13_unresolved_include_kept.

(* Transparency, for EVERY nest of include files (any depth, any number of files, unresolvable
   includes and empty files among them, as long as no file includes itself: every chain of
   resolvable includes ends within some depth S d): reading the main source through the nest of
   readers delivers exactly the textual inlining of the files, item by item, in order -- and an
   unresolvable INCLUDE line stays in the stream at its position.  Item level: the items themselves
   (statements) are opaque. *)
Theorem C13_reading_is_textual_inlining :
  forall (fs : fsys) d items fuel,
    expandable fs (S d) items = true -> 1 + wt fs (S d) items < fuel ->
    aread fuel fs [mkArdr [] items] = expand (S d) fs items.
Proof. exact read_is_inlining. Qed.
Goal True. idtac "ASSUMPTIONS-OF C13_reading_is_textual_inlining". Abort.
Print Assumptions C13_reading_is_textual_inlining.

(* the same from any state of the nest of readers (after any read-ahead and push-back) *)
Theorem C13_reading_is_textual_inlining_any_state :
  forall (fs : fsys) d fuel st, all_ok fs (S d) st -> mu fs (S d) st < fuel ->
    aread fuel fs st = den fs (S d) st.
Proof. exact aread_is_inlining. Qed.
Goal True. idtac "ASSUMPTIONS-OF C13_reading_is_textual_inlining_any_state". Abort.
Print Assumptions C13_reading_is_textual_inlining_any_state.

(* an instance: a three-level nest with an unresolvable include and an empty file *)
Definition fs_ex (f : nat) : option (list aitem) :=
  match f with
  | 1 => Some [AStmt 10; AInc 2; AStmt 11]
  | 2 => Some [AStmt 20; AInc 3; AInc 9; AStmt 21]
  | 3 => Some [AStmt 30]
  | 4 => Some []
  | _ => None
  end.
Example C13_splice_example :
  let main := [AStmt 1; AInc 1; AInc 4; AStmt 2; AInc 3] in
  expandable fs_ex 3 main = true /\
  aread 60 fs_ex [mkArdr [] main] = expand 3 fs_ex main
  /\ expand 3 fs_ex main = [AStmt 1; AStmt 10; AStmt 20; AStmt 30; AInc 9; AStmt 21; AStmt 11; AStmt 2; AStmt 30].
Proof. vm_compute. repeat split; reflexivity. Qed.
Goal True. idtac "ASSUMPTIONS-OF C13_splice_example". Abort.
Print Assumptions C13_splice_example.
