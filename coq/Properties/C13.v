(* C13 -- INCLUDE resolution is transparent; unresolved includes are kept (item-level model).
   Theorems only. *)
From Coq Require Import List Bool Arith.
From FV Require Import Include IncludeLaws.
Import ListNotations.

(* Push-back inside any nest of include readers: the item goes to the innermost reader, reading
   again returns it and the nest is as before -- every nesting depth, every reader state. *)
Theorem C13_pushback_reaches_innermost_reader :
  forall fs it r outer fuel,
    (forall f, it = AInc f -> fs f = None) ->
    anext (S fuel) fs (aput it (r :: outer)) = (Some it, r :: outer).
Proof. exact aget_after_put. Qed.
Goal True. idtac "ASSUMPTIONS-OF C13_pushback_reaches_innermost_reader". Abort.
Print Assumptions C13_pushback_reaches_innermost_reader.

(* include path order: the first directory that has the file wins; directories without it are skipped *)
Theorem C13_first_directory_wins :
  forall d dirs f l, d f = Some l -> first_dir (d :: dirs) f = Some l.
Proof. exact first_dir_first_match. Qed.
Goal True. idtac "ASSUMPTIONS-OF C13_first_directory_wins". Abort.
Print Assumptions C13_first_directory_wins.
Theorem C13_missing_directory_skipped :
  forall d dirs f, d f = None -> first_dir (d :: dirs) f = first_dir dirs f.
Proof. exact first_dir_skips_missing. Qed.
Goal True. idtac "ASSUMPTIONS-OF C13_missing_directory_skipped". Abort.
Print Assumptions C13_missing_directory_skipped.

(* an INCLUDE line whose file cannot be found is delivered as an item at its position *)
Theorem C13_unresolved_include_kept :
  forall fs f src outer fuel, fs f = None ->
    anext (S fuel) fs (mkArdr [] (AInc f :: src) :: outer) = (Some (AInc f), mkArdr [] src :: outer).
Proof. exact unresolved_include_kept. Qed.
Goal True. idtac "ASSUMPTIONS-OF C13_unresolved_include_kept". Abort.
Print Assumptions C13_unresolved_include_kept.

(* Transparency, computed for a three-level nest with an unresolvable include and an empty file:
   reading equals textual inlining.  (The general statement -- for every nest -- is checked against the
   real reader by the correspondence; it is not proved: C13_splice_partial is this instance.) *)
Definition fs_ex (f : nat) : option (list aitem) :=
  match f with
  | 1 => Some [AStmt 10; AInc 2; AStmt 11]
  | 2 => Some [AStmt 20; AInc 3; AInc 9; AStmt 21]
  | 3 => Some [AStmt 30]
  | 4 => Some []
  | _ => None
  end.
Example C13_splice_partial :
  let main := [AStmt 1; AInc 1; AInc 4; AStmt 2; AInc 3] in
  aread 60 fs_ex [mkArdr [] main] = expand 3 fs_ex main
  /\ expand 3 fs_ex main = [AStmt 1; AStmt 10; AStmt 20; AStmt 30; AInc 9; AStmt 21; AStmt 11; AStmt 2; AStmt 30].
Proof. vm_compute. split; reflexivity. Qed.
Goal True. idtac "ASSUMPTIONS-OF C13_splice_partial". Abort.
Print Assumptions C13_splice_partial.
