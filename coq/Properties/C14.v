(* C14 -- preprocessor directives are kept as nodes (engine part).  Theorems only. *)
From Coq Require Import List NArith Bool.
From FV Require Import Scope Engine EngineContracts EngineShape Leaves TableOk ProgramLevel GenOk Table03 Table08.
Import ListNotations.

(* Every preprocessor item the reader delivers is a leaf of the returned tree, exactly once and at
   its position among the other items (no fall-back; every leaf oracle; every input). *)
Theorem C14_directive_items_kept_once_in_place_f2003 :
  forall (L : item -> cls -> list cls -> leafres) fuel items pd t s',
    program_new Table03.tbl L fuel Table03.c_program (est0 items pd) = (OTree t, s') ->
    no_fallback Table03.tbl L fuel Table03.c_program (est0 items pd) ->
    yield t = items /\ filter is_cpp_item (yield t) = filter is_cpp_item items.
Proof.
  intros L fuel items pd t s' H NF.
  destruct (program_new_yield Table03.tbl L table03_ok fuel Table03.c_program _ t s' H NF) as [Y _].
  cbn in Y. split; [exact Y|now rewrite Y].
Qed.
Goal True. idtac "ASSUMPTIONS-OF C14_directive_items_kept_once_in_place_f2003". Abort.
Print Assumptions C14_directive_items_kept_once_in_place_f2003.

Theorem C14_directive_items_kept_once_in_place_f2008 :
  forall (L : item -> cls -> list cls -> leafres) fuel items pd t s',
    program_new Table08.tbl L fuel Table08.c_program (est0 items pd) = (OTree t, s') ->
    no_fallback Table08.tbl L fuel Table08.c_program (est0 items pd) ->
    yield t = items /\ filter is_cpp_item (yield t) = filter is_cpp_item items.
Proof.
  intros L fuel items pd t s' H NF.
  destruct (program_new_yield Table08.tbl L table08_ok fuel Table08.c_program _ t s' H NF) as [Y _].
  cbn in Y. split; [exact Y|now rewrite Y].
Qed.
Goal True. idtac "ASSUMPTIONS-OF C14_directive_items_kept_once_in_place_f2008". Abort.
Print Assumptions C14_directive_items_kept_once_in_place_f2008.

(* A failed alternative gives back the directive items it consumed (K1), and a successful one
   consumed exactly its own leaves (K2): directives cannot be lost or duplicated by back-tracking. *)
Theorem C14_backtracking_preserves_directives :
  forall T (L : item -> cls -> list cls -> leafres), table_ok T = true ->
  forall fuel c s,
    match new T L fuel c s with
    | (Val (Some t), s') => stream s = yield t ++ stream s'
    | (Val None, s') => stream s' = stream s
    | _ => True
    end.
Proof.
  intros T L H fuel c s. pose proof (ct_ok _ _ (engine_contract T L H fuel) c s) as K.
  destruct (new T L fuel c s) as [[[t|]|e] s']; cbn in K; try exact I; apply K.
Qed.
Goal True. idtac "ASSUMPTIONS-OF C14_backtracking_preserves_directives". Abort.
Print Assumptions C14_backtracking_preserves_directives.

(* Non-vacuity: PROGRAM p / #define X / END PROGRAM p. *)
Definition L_c14 (i : item) (c : cls) (_ : list cls) : leafres :=
  let inf := mkInfo None None None None 1%N (Some 1%N) in
  if (Nat.eqb (iid i) 0 && N.eqb c Table03.cn_Program_Stmt)
     || (Nat.eqb (iid i) 1 && N.eqb c Table03.cn_Cpp_Macro_Stmt)
     || (Nat.eqb (iid i) 2 && N.eqb c Table03.cn_End_Program_Stmt)
  then LYes inf else LNo.
Example C14_example :
  let items := [mkItem 0 IKLine false false 1; mkItem 1 IKCpp false false 2; mkItem 2 IKLine false false 3] in
  match fst (program_new Table03.tbl L_c14 60 Table03.c_program (est0 items false)) with
  | OTree t => map iid (filter is_cpp_item (yield t)) = [1] /\ map iid (yield t) = [0; 1; 2]
  | _ => False
  end.
Proof. vm_compute. split; reflexivity. Qed.
Goal True. idtac "ASSUMPTIONS-OF C14_example". Abort.
Print Assumptions C14_example.

(* READER LEVEL.  A preprocessor directive written over k+1 physical lines, each but the last ending in
   a backslash, is delivered as ONE directive item whose text is the pieces joined without the
   backslashes and whose span is exactly those lines; the reader is left on the line after the
   directive, so the Fortran around it is read as if the directive were not there.  Any k, any
   following source, free or fixed form, any comment and OpenMP setting. *)
From Coq Require Import Ascii String.
From FV Require Reader CppLaws.
Close Scope string_scope.
Theorem C14_reader_directive_with_continuations_is_one_item :
  forall free omp ign er p0 ps lastl src lc fifo,
    CppLaws.plain_pull free omp ign (p0 ++ ["\"%char]) ->
    Text.starts_with ["#"%char] (Text.lstrip (p0 ++ ["\"%char])) = true ->
    Forall (fun p => CppLaws.plain_pull free omp ign (p ++ ["\"%char])) ps -> CppLaws.plain_pull free omp ign lastl ->
    Text.ends_with_char "\"%char lastl = false -> Text.strip (p0 ++ List.concat ps ++ lastl) <> [] ->
    Reader.get_source_item (Reader.mkRst ((p0 ++ ["\"%char]) :: CppLaws.cont_lines ps ++ lastl :: src) [] lc fifo free omp ign er)
    = (Some (Reader.RCpp (Text.strip (p0 ++ List.concat ps ++ lastl)) (S lc) (S (S lc) + List.length ps)),
       Reader.mkRst src [] (S (S lc) + List.length ps) fifo free omp ign er).
Proof. exact CppLaws.cpp_item. Qed.
Goal True. idtac "ASSUMPTIONS-OF C14_reader_directive_with_continuations_is_one_item". Abort.
Print Assumptions C14_reader_directive_with_continuations_is_one_item.

(* ... and at next(): the directive is handed out WHOLE.  next() cuts statement lines at ';' but never a directive:
   whatever the directive contains -- a ';' in a macro body included -- it is one item with its exact span. *)
Theorem C14_reader_directive_is_one_item_at_next_whatever_it_contains :
  forall free omp ign er p0 ps lastl src lc,
    CppLaws.plain_pull free omp ign (p0 ++ ["\"%char]) ->
    Text.starts_with ["#"%char] (Text.lstrip (p0 ++ ["\"%char])) = true ->
    Forall (fun p => CppLaws.plain_pull free omp ign (p ++ ["\"%char])) ps -> CppLaws.plain_pull free omp ign lastl ->
    Text.ends_with_char "\"%char lastl = false -> Text.strip (p0 ++ List.concat ps ++ lastl) <> [] ->
    Reader.next_item (Reader.mkRst ((p0 ++ ["\"%char]) :: CppLaws.cont_lines ps ++ lastl :: src) [] lc [] free omp ign er)
    = (Some (Reader.RCpp (Text.strip (p0 ++ List.concat ps ++ lastl)) (S lc) (S (S lc) + List.length ps)),
       Reader.mkRst src [] (S (S lc) + List.length ps) [] free omp ign er).
Proof. exact CppLaws.cpp_directive_is_one_item_at_next. Qed.
Goal True. idtac "ASSUMPTIONS-OF C14_reader_directive_is_one_item_at_next_whatever_it_contains". Abort.
Print Assumptions C14_reader_directive_is_one_item_at_next_whatever_it_contains.

Example C14_example_directive_with_semicolon :
  let t := String.list_ascii_of_string in
  Reader.read_source [t "x = 1; y = 2"%string; t "#define TWICE(a) a; a"%string; t "z = 3"%string] true false true
  = [Reader.RLine (t "x = 1"%string) None None 1 1; Reader.RLine (t "y = 2"%string) None None 1 1;
     Reader.RCpp (t "#define TWICE(a) a; a"%string) 2 2; Reader.RLine (t "z = 3"%string) None None 3 3].
Proof. vm_compute. reflexivity. Qed.
Goal True. idtac "ASSUMPTIONS-OF C14_example_directive_with_semicolon". Abort.
Print Assumptions C14_example_directive_with_semicolon.

Theorem C14_reader_directive_on_one_line :
  forall free omp ign er l src lc fifo,
    CppLaws.plain_pull free omp ign l -> l <> [] -> Text.starts_with ["#"%char] (Text.lstrip l) = true ->
    Text.ends_with_char "\"%char l = false -> Text.strip l <> [] ->
    Reader.get_source_item (Reader.mkRst (l :: src) [] lc fifo free omp ign er)
    = (Some (Reader.RCpp (Text.strip l) (S lc) (S lc)), Reader.mkRst src [] (S lc) fifo free omp ign er).
Proof. exact CppLaws.cpp_item_one. Qed.
Goal True. idtac "ASSUMPTIONS-OF C14_reader_directive_on_one_line". Abort.
Print Assumptions C14_reader_directive_on_one_line.

Example C14_example_reader_directive :
  let t := String.list_ascii_of_string in
  Reader.read_source [t "x = 1"%string; t "#define F(a) \"%string; t "   ((a) + \"%string; t "    1)"%string; t "y = 2"%string] true false true
  = [Reader.RLine (t "x = 1"%string) None None 1 1; Reader.RCpp (t "#define F(a)    ((a) +     1)"%string) 2 4;
     Reader.RLine (t "y = 2"%string) None None 5 5]
  /\ CppLaws.plain_pull true false true (t "#define F(a) \"%string) /\ CppLaws.plain_pull false true true (t "   ((a) + \"%string).
Proof. cbv zeta. split; [vm_compute; reflexivity|]. split; split; try (vm_compute; reflexivity).
  - left; reflexivity.
  - right. split; [right|]; vm_compute; reflexivity.
Qed.
Goal True. idtac "ASSUMPTIONS-OF C14_example_reader_directive". Abort.
Print Assumptions C14_example_reader_directive.
