(* C08 -- ill-nested constructs are never accepted (engine part).  Theorems only. *)
From Coq Require Import List NArith Bool.
From FV Require Import Scope Engine EngineContracts EngineShape TableOk ProgramLevel GenOk Table03 Table08.
Import ListNotations.

(* K4.  Whatever the statement-level matchers do (every leaf oracle L), whatever the input: a tree
   returned by the Fortran 2003 / 2008 parser is well nested with respect to the grammar table --
   every node built by a block rule starts (after leading comment/include/directive/cpp leaves) with
   the tree of the rule's start class and, when the rule has an end class, ENDS WITH A STATEMENT OF
   THAT END CLASS whose label and construct name agree with the opening statement as the rule's
   flags (match_labels, match_names, strict_match_names) demand; recursively for every child. *)
Theorem C08_accepted_is_well_nested_f2003 :
  forall (L : item -> cls -> list cls -> leafres) fuel s t s',
    program_new Table03.tbl L fuel Table03.c_program s = (OTree t, s') -> WN Table03.tbl t.
Proof.
  exact (fun L fuel s t s' => program_new_shape Table03.tbl L table03_ok fuel Table03.c_program s t s'
                               ltac:(vm_compute; reflexivity)).
Qed.
Goal True. idtac "ASSUMPTIONS-OF C08_accepted_is_well_nested_f2003". Abort.
Print Assumptions C08_accepted_is_well_nested_f2003.

Theorem C08_accepted_is_well_nested_f2008 :
  forall (L : item -> cls -> list cls -> leafres) fuel s t s',
    program_new Table08.tbl L fuel Table08.c_program s = (OTree t, s') -> WN Table08.tbl t.
Proof.
  exact (fun L fuel s t s' => program_new_shape Table08.tbl L table08_ok fuel Table08.c_program s t s'
                               ltac:(vm_compute; reflexivity)).
Qed.
Goal True. idtac "ASSUMPTIONS-OF C08_accepted_is_well_nested_f2008". Abort.
Print Assumptions C08_accepted_is_well_nested_f2008.

(* K2 at the top.  When the parse did not go through the "program without PROGRAM statement"
   fall-back, the leaves of the tree are exactly the items of the source, in order: no opener, END or
   any other statement can be skipped, absorbed twice or left over. *)
Theorem C08_accepted_consumes_every_statement_f2008 :
  forall (L : item -> cls -> list cls -> leafres) fuel s t s',
    program_new Table08.tbl L fuel Table08.c_program s = (OTree t, s') ->
    no_fallback Table08.tbl L fuel Table08.c_program s ->
    yield t = stream s /\ stream s' = [].
Proof. exact (fun L fuel => program_new_yield Table08.tbl L table08_ok fuel Table08.c_program). Qed.
Goal True. idtac "ASSUMPTIONS-OF C08_accepted_consumes_every_statement_f2008". Abort.
Print Assumptions C08_accepted_consumes_every_statement_f2008.

Theorem C08_accepted_consumes_every_statement_f2003 :
  forall (L : item -> cls -> list cls -> leafres) fuel s t s',
    program_new Table03.tbl L fuel Table03.c_program s = (OTree t, s') ->
    no_fallback Table03.tbl L fuel Table03.c_program s ->
    yield t = stream s /\ stream s' = [].
Proof. exact (fun L fuel => program_new_yield Table03.tbl L table03_ok fuel Table03.c_program). Qed.
Goal True. idtac "ASSUMPTIONS-OF C08_accepted_consumes_every_statement_f2003". Abort.
Print Assumptions C08_accepted_consumes_every_statement_f2003.

(* K1/K2 for every rule: a rule invocation that fails leaves the reader where it was (so an
   enclosing rule sees the dangling statement), one that succeeds consumed exactly its own tree. *)
Theorem C08_rules_restore_or_consume :
  forall T (L : item -> cls -> list cls -> leafres), table_ok T = true ->
  forall fuel c s,
    match new T L fuel c s with
    | (Val (Some t), s') => stream s = yield t ++ stream s'
    | (Val None, s') => stream s' = stream s
    | (Raise ENoMatch, s') => stream s' = stream s
    | (Raise _, _) => True
    end.
Proof.
  intros T L H fuel c s. pose proof (ct_ok _ _ (engine_contract T L H fuel) c s) as K.
  destruct (new T L fuel c s) as [[[t|]|e] s']; cbn in K; try apply K.
  destruct e; try exact I. apply K. reflexivity.
Qed.
Goal True. idtac "ASSUMPTIONS-OF C08_rules_restore_or_consume". Abort.
Print Assumptions C08_rules_restore_or_consume.

(* Non-vacuity and a concrete instance, computed on the generated Fortran 2003 table with an oracle
   that recognises four statements: PROGRAM p (item 0), IF (..) THEN (item 1), END IF (item 3),
   END PROGRAM p (item 2).  Without the END IF the program is rejected, with it it is accepted. *)
Definition L_ex (i : item) (c : cls) (_ : list cls) : leafres :=
  let inf := mkInfo None None None None 1%N (Some 1%N) in
  if (Nat.eqb (iid i) 0 && N.eqb c Table03.cn_Program_Stmt)
     || (Nat.eqb (iid i) 1 && N.eqb c Table03.cn_If_Then_Stmt)
     || (Nat.eqb (iid i) 3 && N.eqb c Table03.cn_End_If_Stmt)
     || (Nat.eqb (iid i) 2 && N.eqb c Table03.cn_End_Program_Stmt)
  then LYes inf else LNo.
Definition it (n : nat) : item := mkItem n IKLine false false (S n).

Example C08_example_missing_end_if_rejected :
  fst (program_new Table03.tbl L_ex 60 Table03.c_program (est0 [it 0; it 1; it 2] false)) = OSyntax 3.
Proof. vm_compute. reflexivity. Qed.
Goal True. idtac "ASSUMPTIONS-OF C08_example_missing_end_if_rejected". Abort.
Print Assumptions C08_example_missing_end_if_rejected.

Example C08_example_closed_if_accepted :
  match fst (program_new Table03.tbl L_ex 60 Table03.c_program (est0 [it 0; it 1; it 3; it 2] false)) with
  | OTree t => map iid (yield t) = [0; 1; 3; 2]
  | _ => False
  end.
Proof. vm_compute. reflexivity. Qed.
Goal True. idtac "ASSUMPTIONS-OF C08_example_closed_if_accepted". Abort.
Print Assumptions C08_example_closed_if_accepted.
