(* C02 -- regenerated source preserves the program's content (the parts a model carries).
   Theorems only; proofs are in Proofs/. *)
From Coq Require Import List NArith Bool Ascii.
From FV Require Import Scope Engine EngineContracts TableOk ProgramLevel GenOk Table03 Table08
                       SplitLine SplitLineLaws ReplaceMap ReplaceMapLaws ReplaceMapGen.
Import ListNotations.

(* Statements: when the parse does not go through the "program without PROGRAM statement" fall-back,
   the leaves of the returned tree are exactly the items the reader delivered -- same objects, same
   order: no statement (and no program unit) is dropped, duplicated or reordered.  Every leaf
   oracle, every input. *)
Theorem C02_statements_f2003 :
  forall (L : item -> cls -> list cls -> leafres) fuel items pd t s',
    program_new Table03.tbl L fuel Table03.c_program (est0 items pd) = (OTree t, s') ->
    no_fallback Table03.tbl L fuel Table03.c_program (est0 items pd) ->
    yield t = items.
Proof.
  intros L fuel items pd t s' H NF.
  exact (proj1 (program_new_yield Table03.tbl L table03_ok fuel Table03.c_program _ t s' H NF)).
Qed.
Goal True. idtac "ASSUMPTIONS-OF C02_statements_f2003". Abort.
Print Assumptions C02_statements_f2003.

Theorem C02_statements_f2008 :
  forall (L : item -> cls -> list cls -> leafres) fuel items pd t s',
    program_new Table08.tbl L fuel Table08.c_program (est0 items pd) = (OTree t, s') ->
    no_fallback Table08.tbl L fuel Table08.c_program (est0 items pd) ->
    yield t = items.
Proof.
  intros L fuel items pd t s' H NF.
  exact (proj1 (program_new_yield Table08.tbl L table08_ok fuel Table08.c_program _ t s' H NF)).
Qed.
Goal True. idtac "ASSUMPTIONS-OF C02_statements_f2008". Abort.
Print Assumptions C02_statements_f2008.

(* The fall-back path does drop content (F5, a recorded finding): with an oracle that knows
   SUBROUTINE s (item 0), END SUBROUTINE s (item 1), an assignment (item 2) and END (item 3), the
   source "subroutine s / end subroutine s / x = 1 / end" is accepted and the tree's leaves are
   only the last two items. *)
Definition L_f5 (i : item) (c : cls) (_ : list cls) : leafres :=
  let inf := mkInfo None None None None 1%N (Some 1%N) in
  if (Nat.eqb (iid i) 0 && N.eqb c Table03.cn_Subroutine_Stmt)
     || (Nat.eqb (iid i) 1 && N.eqb c Table03.cn_End_Subroutine_Stmt)
     || (Nat.eqb (iid i) 2 && N.eqb c Table03.cn_Assignment_Stmt)
     || (Nat.eqb (iid i) 3 && N.eqb c Table03.cn_End_Program_Stmt)
  then LYes inf else LNo.
Definition it5 (n : nat) : item := mkItem n IKLine false false (S n).
Theorem C02_refuted_main0_fallback :
  exists items, match fst (program_new Table03.tbl L_f5 80 Table03.c_program (est0 items false)) with
                | OTree t => map iid (yield t) = [2; 3] /\ map iid items = [0; 1; 2; 3]
                | _ => False
                end.
Proof. exists [it5 0; it5 1; it5 2; it5 3]. vm_compute. split; reflexivity. Qed.
Goal True. idtac "ASSUMPTIONS-OF C02_refuted_main0_fallback". Abort.
Print Assumptions C02_refuted_main0_fallback.

(* Tokeniser-by-substitution primitives are lossless: for EVERY line and quote state, the pieces
   returned by splitquote, concatenated, are the line, character for character (so character
   literals, including doubled quotes, are never altered), lower=True only lower-cases text outside
   literals, and the pieces returned by splitparen, concatenated, are the line. *)
Theorem C02_splitquote_lossless :
  forall (l : text) (stop : option ascii), qflat (fst (splitquote l stop false)) = l.
Proof. exact splitquote_lossless. Qed.
Goal True. idtac "ASSUMPTIONS-OF C02_splitquote_lossless". Abort.
Print Assumptions C02_splitquote_lossless.

Theorem C02_splitquote_lower_keeps_literals :
  forall (l : text) (stop : option ascii),
    fst (splitquote l stop true) = map low_seg (fst (splitquote l stop false)) /\
    snd (splitquote l stop true) = snd (splitquote l stop false).
Proof. exact splitquote_lower. Qed.
Goal True. idtac "ASSUMPTIONS-OF C02_splitquote_lower_keeps_literals". Abort.
Print Assumptions C02_splitquote_lower_keeps_literals.

Theorem C02_splitparen_lossless : forall (l : text), pflat (splitparen l) = l.
Proof. exact splitparen_lossless. Qed.
Goal True. idtac "ASSUMPTIONS-OF C02_splitparen_lossless". Abort.
Print Assumptions C02_splitparen_lossless.

Example C02_example_splitquote :
  fst (splitquote ["a"; "'"; "b"; "'"; "'"; "c"; "'"; "d"]%char None false)
  = [Plain ["a"%char]; Quoted ["'"; "b"; "'"; "'"; "c"; "'"]%char; Plain ["d"%char]].
Proof. vm_compute. reflexivity. Qed.
Goal True. idtac "ASSUMPTIONS-OF C02_example_splitquote". Abort.
Print Assumptions C02_example_splitquote.

(* string_replace_map / StringReplaceDict (the tokenisation every statement matcher relies on, and its
   inverse): for EVERY line, cut into plain text and delimited groups, replacing the groups by keys --
   identical contents sharing a key -- and restoring with the returned map gives the line back.  The
   look-up variant of the live code is probed on every run. *)
Theorem C02_replace_map_restores_every_line :
  forall (wrap : ReplaceMap.text -> ReplaceMap.text) l,
    let '(o, m) := string_replace_map wrap by_item_live l in restore m o = Some l.
Proof. exact string_replace_map_lossless. Qed.
Goal True. idtac "ASSUMPTIONS-OF C02_replace_map_restores_every_line". Abort.
Print Assumptions C02_replace_map_restores_every_line.

(* the other variant (reverse map consulted with the delimited item: the code before commit c40fb6f)
   is refuted: after a group with content "(n)", the group "(n)" is restored as "((n))" *)
Theorem C02_replace_map_by_item_refuted :
  exists l, let '(o, m) := string_replace_map paren true l in restore m o <> Some l.
Proof. exact by_item_variant_refuted. Qed.
Goal True. idtac "ASSUMPTIONS-OF C02_replace_map_by_item_refuted". Abort.
Print Assumptions C02_replace_map_by_item_refuted.

(* ---- CHARACTER LEVEL: string_replace_map as the statement matchers use it (Model/Srm.v: the two passes built from
   the splitquote and splitparen models; tied to the code by tools/srm_corr.py -- the replaced line, key kinds and
   what the map restores, compared inside Coq on generated texts -- and by tools/translate_srm.py, which reads off
   the 113 live classes that delegate to the four matchers below with constant arguments).
   For EVERY text: what the map restores holds every non-blank character of the text, once and in order (what can
   be lost are blanks just inside a replaced bracket pair: the code trims the body it stores). *)
From Coq Require Import String.
From FV Require Srm SrmLaws SrmOk SrmGen.
Theorem C02_replaced_line_restores_every_nonblank_character :
  forall s : SplitLine.text, SrmLaws.nb (Srm.flat2 (Srm.srm s)) = SrmLaws.nb s.
Proof. exact SrmLaws.srm_keeps_nonblank. Qed.
Goal True. idtac "ASSUMPTIONS-OF C02_replaced_line_restores_every_nonblank_character". Abort.
Print Assumptions C02_replaced_line_restores_every_nonblank_character.

(* SequenceBase.match (every generated <X>_List class and the other classes that delegate to it): for EVERY live
   class and EVERY text, the entries handed to the sub-rule, joined with the separator, hold every non-blank
   character of the text, once and in order -- nothing but the separators it cut at is dropped -- and no entry
   contains the separator outside its literals and brackets. *)
Theorem C02_every_live_list_class_hands_on_every_character :
  forall cls sep, In (cls, sep) SrmGen.seq_classes ->
  (forall s, SrmLaws.nb (SrmLaws.join_text sep (Srm.seq_match sep s)) = SrmLaws.nb s) /\
  (forall s, Forall (fun e => existsb (Srm.is_c2 sep) e = false) (Srm.split2 sep (Srm.srm s))).
Proof. intros cls sep H. destruct (SrmOk.live_seq_classes cls sep H) as (A & B & _). split; assumption. Qed.
Goal True. idtac "ASSUMPTIONS-OF C02_every_live_list_class_hands_on_every_character". Abort.
Print Assumptions C02_every_live_list_class_hands_on_every_character.

(* SeparatorBase.match ([lhs] : [rhs]) and KeywordValueBase.match with a class on the left ([lhs =] rhs): the two
   texts handed on hold every non-blank character but the ':' / '=' that was cut at, for every argument setting *)
Theorem C02_separator_and_keyword_value_hand_on_every_character :
  (forall hl hr ql qr s l r, Srm.sep_match hl hr ql qr s = Srm.SepOk l r ->
     SrmLaws.nb (SrmLaws.otext l ++ ":"%char :: SrmLaws.otext r) = SrmLaws.nb s) /\
  (forall rq up s l r, Srm.kv_match None rq up s = Srm.KvOk l r ->
     SrmLaws.nb (match l with Some x => x ++ ["="%char] | None => [] end ++ r) = SrmLaws.nb s).
Proof. split; [exact SrmLaws.sep_match_keeps_nonblank|exact SrmLaws.kv_match_keeps_nonblank]. Qed.
Goal True. idtac "ASSUMPTIONS-OF C02_separator_and_keyword_value_hand_on_every_character". Abort.
Print Assumptions C02_separator_and_keyword_value_hand_on_every_character.

(* non-vacuity: a text with a literal holding a comma, nested brackets and a real constant with an exponent *)
Example C02_example_replaced_line :
  let t := fun x => String.list_ascii_of_string x in
  Srm.seq_match ","%char (t "a(1, 2) ,'p,q', f( g(x, 'r)') ), ( 1.0e-3 ), [3, 4]"%string)
  = [t "a(1, 2)"%string; t "'p,q'"%string; t "f(g(x, 'r)'))"%string; t "( 1.0e-3 )"%string; t "[3, 4]"%string] /\
  In ("f2003:Actual_Arg_Spec_List"%string, ","%char) SrmGen.seq_classes.
Proof. cbv zeta. split; vm_compute; tauto. Qed.
Goal True. idtac "ASSUMPTIONS-OF C02_example_replaced_line". Abort.
Print Assumptions C02_example_replaced_line.
