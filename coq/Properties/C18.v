(* C18 -- parse trees can be deep-copied and pickled faithfully.  Theorems only. *)
From Coq Require Import List Bool Arith.
Require Import FV.Model.Nav FV.Proofs.NavLaws FV.Gen.NavCopy.
Import ListNotations.

(* The default copy protocol -- every node re-created by copyreg.__newobj__(cls, *cls.__getnewargs__(x)),
   then its state copied, the memo making a child's parent link point to the NEW parent -- applied to
   any tree (any shape, any depth, any classes): the copy has the same structure, its parent links are
   consistent with its nesting, and all its node identities are fresh (>= next), hence disjoint from
   the original's whenever next exceeds them. *)
Theorem C18_deepcopy_of_a_tree :
  forall t next np,
    let '(t', nxt) := copy_tree next np t in
    pshape t' = pshape t /\ pwf np t' = true /\ next < nxt /\
    (forall j, In j (pids t') -> next <= j < nxt) /\ pid t' = next.
Proof. exact copy_tree_good. Qed.
Goal True. idtac "ASSUMPTIONS-OF C18_deepcopy_of_a_tree". Abort.
Print Assumptions C18_deepcopy_of_a_tree.

(* The protocol's precondition holds for every node class of the live code: in each of the
   copy-protocol groups (classes sharing the function that defines __new__, the function that defines
   __getnewargs__ and the set of copy/pickle hooks in their MRO) a real instance is rebuilt by
   cls.__new__(cls, *x.__getnewargs__()) and no class defines a hook that replaces the default
   protocol (__getnewargs_ex__, __reduce__, __reduce_ex__, __getstate__, __setstate__, __deepcopy__,
   __copy__).  Re-established from probes on every run. *)
Theorem C18_every_class_follows_the_protocol :
  forallb (fun g => snd g) copy_groups = true.
Proof. vm_compute. reflexivity. Qed.
Goal True. idtac "ASSUMPTIONS-OF C18_every_class_follows_the_protocol". Abort.
Print Assumptions C18_every_class_follows_the_protocol.

Example C18_example :
  let t := PNode 0 5 None [PNode 1 6 (Some 0) []; PNode 2 7 (Some 0) [PNode 3 8 (Some 2) []]] in
  fst (copy_tree 10 None t) = PNode 10 5 None [PNode 11 6 (Some 10) []; PNode 12 7 (Some 10) [PNode 13 8 (Some 12) []]].
Proof. vm_compute. reflexivity. Qed.
Goal True. idtac "ASSUMPTIONS-OF C18_example". Abort.
Print Assumptions C18_example.
