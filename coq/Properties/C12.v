(* C12 -- the reader delivers each logical line once, in order; push-back is invisible. Theorems only. *)
From Coq Require Import List Bool Arith Ascii String NArith.
From FV Require Import SplitLine Text Reader ReaderLaws.
Import ListNotations.

(* Pushing an item back and reading again returns the same item and the reader is exactly in the
   state it had before the push-back -- for every reader state (any buffered lines, items, format,
   comment setting) and every item the reader can hand out unchanged. *)
Theorem C12_get_after_put :
  forall (it : ritem) (s : rst), deliverable (r_ign s) it -> next_item (put_item it s) = (Some it, s).
Proof. exact get_after_put. Qed.
Goal True. idtac "ASSUMPTIONS-OF C12_get_after_put". Abort.
Print Assumptions C12_get_after_put.

(* A consumer that has read k items and restores them (last read first, as restore_reader does)
   leaves a reader from which exactly those k items are read again, after which the reader is in the
   state it had after the original k reads: the remaining stream is unchanged.  Any k, any state. *)
Theorem C12_read_ahead_and_restore :
  forall (items : list ritem) (s : rst), Forall (deliverable (r_ign s)) items ->
    gets (List.length items) (put_back items s) = (items, s).
Proof. exact reread_after_put_back. Qed.
Goal True. idtac "ASSUMPTIONS-OF C12_read_ahead_and_restore". Abort.
Print Assumptions C12_read_ahead_and_restore.

(* Instances computed with the model (the same definitions the correspondence check runs against
   the real reader): a labelled, named statement continued inside a character literal, a comment
   between the continuation lines and a trailing comment; then two statements joined by ';'. *)
Definition s2t (s : string) : text := list_ascii_of_string s.
Example C12_example_continued_literal :
  read_source [s2t " 10 nm: s = 'ab&"; s2t "   ! note"; s2t "      &cd' ! tail"; s2t "x = 1; y = 2"] true false false
  = [RLine (s2t "s = 'abcd'") (Some 10%N) (Some (s2t "nm")) 1 3;
     RComment (s2t "! note") 2 2 false; RComment (s2t "! tail") 3 3 true;
     RLine (s2t "x = 1") None None 4 4; RLine (s2t "y = 2") None None 4 4].
Proof. vm_compute. reflexivity. Qed.
Goal True. idtac "ASSUMPTIONS-OF C12_example_continued_literal". Abort.
Print Assumptions C12_example_continued_literal.

Example C12_example_fixed_form :
  read_source [s2t "   10 x = 1 +"; s2t "C comment"; s2t "     & 2"] false false false
  = [RLine (s2t "x = 1 + 2") (Some 10%N) None 1 3; RComment (s2t "C comment") 2 2 false].
Proof. vm_compute. reflexivity. Qed.
Goal True. idtac "ASSUMPTIONS-OF C12_example_fixed_form". Abort.
Print Assumptions C12_example_fixed_form.

Example C12_example_deliverable :
  semi_split (s2t "call sub('a;b', (1;2))") = [s2t "call sub('a;b', (1;2))"].
Proof. vm_compute. reflexivity. Qed.
Goal True. idtac "ASSUMPTIONS-OF C12_example_deliverable". Abort.
Print Assumptions C12_example_deliverable.
