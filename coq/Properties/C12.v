(* C12 -- the reader delivers each logical line once, in order; push-back is invisible. Theorems only. *)
From Coq Require Import List Bool Arith Ascii String NArith.
From FV Require Import SplitLine Text Reader ReaderLaws.
Import ListNotations.

(* Pushing an item back and reading again returns the same item and the reader is exactly in the
   state it had before the push-back -- for every reader state (any buffered lines, items, format,
   comment setting) and every item the reader can hand out unchanged. *)
Theorem C12_get_after_put :
  forall (it : ritem) (s : rst), deliverable (r_ign s) it -> next_item (put_item it s) = (Some it, s).
Proof. exact get_after_put. Qed.
Goal True. idtac "ASSUMPTIONS-OF C12_get_after_put". Abort.
Print Assumptions C12_get_after_put.

(* A consumer that has read k items and restores them (last read first, as restore_reader does)
   leaves a reader from which exactly those k items are read again, after which the reader is in the
   state it had after the original k reads: the remaining stream is unchanged.  Any k, any state. *)
Theorem C12_read_ahead_and_restore :
  forall (items : list ritem) (s : rst), Forall (deliverable (r_ign s)) items ->
    gets (List.length items) (put_back items s) = (items, s).
Proof. exact reread_after_put_back. Qed.
Goal True. idtac "ASSUMPTIONS-OF C12_read_ahead_and_restore". Abort.
Print Assumptions C12_read_ahead_and_restore.

(* Instances computed with the model (the same definitions the correspondence check runs against
   the real reader): a labelled, named statement continued inside a character literal, a comment
   between the continuation lines and a trailing comment; then two statements joined by ';'. *)
Definition s2t (s : string) : text := list_ascii_of_string s.
Example C12_example_continued_literal :
  read_source [s2t " 10 nm: s = 'ab&"; s2t "   ! note"; s2t "      &cd' ! tail"; s2t "x = 1; y = 2"] true false false
  = [RLine (s2t "s = 'abcd'") (Some 10%N) (Some (s2t "nm")) 1 3;
     RComment (s2t "! note") 2 2 false; RComment (s2t "! tail") 3 3 true;
     RLine (s2t "x = 1") None None 4 4; RLine (s2t "y = 2") None None 4 4].
Proof. vm_compute. reflexivity. Qed.
Goal True. idtac "ASSUMPTIONS-OF C12_example_continued_literal". Abort.
Print Assumptions C12_example_continued_literal.

Example C12_example_fixed_form :
  read_source [s2t "   10 x = 1 +"; s2t "C comment"; s2t "     & 2"] false false false
  = [RLine (s2t "x = 1 + 2") (Some 10%N) None 1 3; RComment (s2t "C comment") 2 2 false].
Proof. vm_compute. reflexivity. Qed.
Goal True. idtac "ASSUMPTIONS-OF C12_example_fixed_form". Abort.
Print Assumptions C12_example_fixed_form.

Example C12_example_deliverable :
  semi_split (s2t "call sub('a;b', (1;2))") = [s2t "call sub('a;b', (1;2))"].
Proof. vm_compute. reflexivity. Qed.
Goal True. idtac "ASSUMPTIONS-OF C12_example_deliverable". Abort.
Print Assumptions C12_example_deliverable.

(* THE WHOLE FILE.  A free-form source made of one-line statements, statements continued over any
   number of lines (pieces free of quotes, '!', '&' and ';'; any blanks around the ampersands; comment
   and empty lines between the lines of the statement, delivered right after it), lines holding
   several statements separated by ';' (each its own item, all with the line's number),
   one-line statements with a trailing comment (delivered right after the statement, flagged in-line),
   statements continued in any character context -- inside a literal too -- under the per-line condition
   of C04 (no comment found on the line),
   full-line comments with any indentation and empty lines -- any number of them in any order -- is
   delivered by the reader as exactly one item per statement, in source order, each with the exact
   numbers of its first and last physical line, label and construct name split off; comments and
   empty lines come in place when comments are kept and are invisible when they are ignored; then
   the reader reports the end of the input.  No bound on the number of lines.
   (_partial: layouts with character literals, in-line comments, ';', fixed form, preprocessor
   lines and sentinels are tied to this model by the correspondence, not by this theorem.) *)
From FV Require Import ReaderJoin ReaderItem ReaderJoinQ ReaderJoinG ReaderFile.
Theorem C12_whole_file_each_statement_once_in_order_partial :
  forall (ign : bool) (ls : list lay), Forall good ls ->
    read_source (flat_map phys ls) true false ign = items ign ls 0.
Proof. exact read_source_layouts. Qed.
Goal True. idtac "ASSUMPTIONS-OF C12_whole_file_each_statement_once_in_order_partial". Abort.
Print Assumptions C12_whole_file_each_statement_once_in_order_partial.

(* the same from any line count and with any queue of items already pending (comments met inside a
   continuation, items pushed back): the pending items come first, ignored comments dropped *)
Theorem C12_rest_of_file_each_statement_once_in_order_partial :
  forall (ign : bool) (fuel : nat) (ls : list lay) (pend : list ritem) (lc : nat),
    Forall pend_ok pend -> Forall good ls -> List.length (keep ign pend ++ items ign ls lc) < fuel ->
    read_all fuel (ReaderJoin.st ign (flat_map phys ls) lc pend) = keep ign pend ++ items ign ls lc.
Proof. exact read_all_layouts. Qed.
Goal True. idtac "ASSUMPTIONS-OF C12_rest_of_file_each_statement_once_in_order_partial". Abort.
Print Assumptions C12_rest_of_file_each_statement_once_in_order_partial.

(* the hypotheses are satisfiable: a labelled, named statement over three lines, a comment, an empty
   line and a one-line statement ... and a statement whose every line carries a trailing comment *)
Definition ex_file : list lay :=
  [LCont (s2t " 10 nm: x = a +&") (Some 10%N) (Some (s2t "nm")) (s2t "x = a +") [(s2t "   ", s2t " b *")] (s2t "  ") (s2t " c");
   LCom (s2t "  ") (s2t " note"); LBlank;
   LOneC (s2t "  z = 2 ! set z") None None (s2t "  z = 2 ") (s2t " set z");
   LContC (s2t "y = f(&") None None (s2t "y = f(") [CCom (s2t "   ! inside"); CMid (s2t " ") (s2t "1, "); CBlank] (s2t "") (s2t "2)");
   LSemi (s2t "20 a = 1; b = 2 ;c = 3") (Some 20%N) None (s2t "a = 1") [s2t " b = 2 "; s2t "c = 3"]
         [(s2t "b = 2", None, None); (s2t "c = 3", None, None)];
   LContQ (s2t "w = 'a!b&") None None (s2t "w = 'a!b") (Some "'"%char) [] (s2t "  ") (s2t "c d'");
   LOne (s2t "  call s(1, 2)") None None (s2t "  call s(1, 2)");
   LContG (s2t "v = a + &   ! first") None None (s2t "v = a + &   ! first") (s2t "v = a + ") (s2t "   ") None (Some (s2t "! first"))
          [GMid (s2t " ") (s2t " b + ") (s2t "  ") (s2t " b + &  ! second") (Some (s2t "! second")) None; GCom (s2t "   ! own line")]
          (s2t " ") (s2t " 'c!d'   ") (s2t " 'c!d'   ! third") (Some (s2t "! third"))].
Example C12_example_whole_file : Forall good ex_file /\
  flat_map phys ex_file = [s2t " 10 nm: x = a +&"; s2t "   & b *&"; s2t "  & c"; s2t "  ! note"; []; s2t "  z = 2 ! set z";
                           s2t "y = f(&"; s2t "   ! inside"; s2t " &1, &"; []; s2t "&2)";
                           s2t "20 a = 1; b = 2 ;c = 3"; s2t "w = 'a!b&"; s2t "  &c d'"; s2t "  call s(1, 2)";
                           s2t "v = a + &   ! first"; s2t " & b + &  ! second"; s2t "   ! own line"; s2t " & 'c!d'   ! third"] /\
  items false ex_file 0 = [RLine (s2t "x = a + b * c") (Some 10%N) (Some (s2t "nm")) 1 3;
                           RComment (s2t "! note") 4 4 false; RComment [] 5 5 false;
                           RLine (s2t "z = 2") None None 6 6; RComment (s2t "! set z") 6 6 true;
                           RLine (s2t "y = f(1, 2)") None None 7 11; RComment (s2t "! inside") 8 8 false;
                           RLine (s2t "a = 1") (Some 20%N) None 12 12; RLine (s2t "b = 2") None None 12 12;
                           RLine (s2t "c = 3") None None 12 12; RLine (s2t "w = 'a!bc d'") None None 13 14;
                           RLine (s2t "call s(1, 2)") None None 15 15;
                           RLine (s2t "v = a +  b +  'c!d'") None None 16 19;
                           RComment (s2t "! first") 16 16 true; RComment (s2t "! second") 17 17 true;
                           RComment (s2t "! own line") 18 18 false; RComment (s2t "! third") 19 19 true] /\
  items true ex_file 0 = [RLine (s2t "x = a + b * c") (Some 10%N) (Some (s2t "nm")) 1 3;
                          RLine (s2t "z = 2") None None 6 6;
                          RLine (s2t "y = f(1, 2)") None None 7 11;
                          RLine (s2t "a = 1") (Some 20%N) None 12 12; RLine (s2t "b = 2") None None 12 12;
                          RLine (s2t "c = 3") None None 12 12; RLine (s2t "w = 'a!bc d'") None None 13 14;
                          RLine (s2t "call s(1, 2)") None None 15 15;
                          RLine (s2t "v = a +  b +  'c!d'") None None 16 19] /\
  read_source (flat_map phys ex_file) true false false = items false ex_file 0.
Proof.
  split; [|split; [|split; [|split]]].
  2-5: vm_compute; reflexivity.
  repeat (apply Forall_cons || apply Forall_nil); cbn [good]; cbv zeta; repeat split;
    lazymatch goal with
    | |- _ <= _ => vm_compute; Lia.lia
    | |- exists _, _ => eexists; split; vm_compute; reflexivity
    | |- _ <> _ => vm_compute; discriminate
    | |- forall _, _ => intros; vm_compute; reflexivity
    | |- Forall _ _ => repeat constructor; first [vm_compute; reflexivity | exact I]
    | |- mids_ok _ => repeat constructor; vm_compute; reflexivity
    | |- nocom _ _ _ => intros n; vm_compute; reflexivity
    | |- hicr _ _ _ _ _ => intros n; vm_compute; reflexivity
    | |- chain_g _ _ _ _ _ _ => cbn [chain_g]; repeat split; try (vm_compute; reflexivity);
                               try (intros n; vm_compute; reflexivity); eexists; intros n; vm_compute; reflexivity
    | |- chain_ok _ _ _ _ => cbn [chain_ok]; eexists; intros n; vm_compute; reflexivity
    | |- _ => vm_compute; reflexivity
    end.
Qed.
Goal True. idtac "ASSUMPTIONS-OF C12_example_whole_file". Abort.
Print Assumptions C12_example_whole_file.

(* cutting a line at ';' never loses a character: for EVERY text (any literals, parentheses, masks), the pieces
   joined with ';' are the text *)
From FV Require Import SemiLaws.
Theorem C12_cutting_at_semicolons_keeps_every_character :
  forall t, join_semi (Reader.semi_split t) = t.
Proof. exact semi_split_lossless. Qed.
Goal True. idtac "ASSUMPTIONS-OF C12_cutting_at_semicolons_keeps_every_character". Abort.
Print Assumptions C12_cutting_at_semicolons_keeps_every_character.
