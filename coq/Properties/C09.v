(* C09 -- a parse is a function of its input, not of earlier parses (engine part: a failed parse
   leaves no scoping region open).  Theorems only; proofs are in Proofs/. *)
From Coq Require Import List NArith.
From FV Require Import Scope Engine EngineContracts TableOk ProgramLevel GenOk Table03 Table08.
Import ListNotations.

(* For the grammar tables regenerated from the live Fortran 2003 / 2008 classes, EVERY leaf oracle
   (i.e. whatever the ~400 statement-level match bodies do, including raising), every item stream
   and every outcome of the parse other than process termination (SystemExit) -- tree, no tree,
   FortranSyntaxError, or an escaping exception -- the current scoping region after the parse is the
   one before it: nothing stays open.  [EFuel] is the model's out-of-fuel value, not a behaviour. *)
Theorem C09_no_scope_left_open_f2003 :
  forall (L : item -> cls -> list cls -> leafres) fuel s out s',
    program_new Table03.tbl L fuel Table03.c_program s = (out, s') ->
    clean_outcome out -> cur (sc s') = cur (sc s).
Proof. exact (fun L fuel => program_new_scope Table03.tbl L table03_ok fuel Table03.c_program). Qed.
Goal True. idtac "ASSUMPTIONS-OF C09_no_scope_left_open_f2003". Abort.
Print Assumptions C09_no_scope_left_open_f2003.

Theorem C09_no_scope_left_open_f2008 :
  forall (L : item -> cls -> list cls -> leafres) fuel s out s',
    program_new Table08.tbl L fuel Table08.c_program s = (out, s') ->
    clean_outcome out -> cur (sc s') = cur (sc s).
Proof. exact (fun L fuel => program_new_scope Table08.tbl L table08_ok fuel Table08.c_program). Qed.
Goal True. idtac "ASSUMPTIONS-OF C09_no_scope_left_open_f2008". Abort.
Print Assumptions C09_no_scope_left_open_f2008.

(* The same for every table that passes the decidable check -- what a future grammar must satisfy. *)
Theorem C09_no_scope_left_open_any_table :
  forall T (L : item -> cls -> list cls -> leafres), table_ok T = true ->
  forall fuel c s out s',
    program_new T L fuel c s = (out, s') -> clean_outcome out -> cur (sc s') = cur (sc s).
Proof. exact program_new_scope. Qed.
Goal True. idtac "ASSUMPTIONS-OF C09_no_scope_left_open_any_table". Abort.
Print Assumptions C09_no_scope_left_open_any_table.

(* Every rule invocation, not only the whole parse (K3). *)
Theorem C09_every_rule_restores_scope :
  forall (L : item -> cls -> list cls -> leafres) fuel c s,
    match new Table08.tbl L fuel c s with
    | (Val _, s') => cur (sc s') = cur (sc s)
    | (Raise e, s') => is_exception e = true -> cur (sc s') = cur (sc s)
    end.
Proof.
  intros L fuel c s. pose proof (ct_ok _ _ (engine_contract Table08.tbl L table08_ok fuel) c s) as H.
  destruct (new Table08.tbl L fuel c s) as [[[t|]|e] s']; cbn in H; apply H.
Qed.
Goal True. idtac "ASSUMPTIONS-OF C09_every_rule_restores_scope". Abort.
Print Assumptions C09_every_rule_restores_scope.

(* Non-vacuity: the hypotheses are met by a concrete run (a one-item stream no rule matches:
   the outcome is a syntax error and the scope stack is unchanged). *)
Example C09_example_syntax_error :
  let L := fun (_ : item) (_ : cls) (_ : list cls) => LNo in
  let s := est0 [mkItem 0 IKLine false false 1] false in
  fst (program_new Table03.tbl L 50 Table03.c_program s) = OSyntax 1.
Proof. vm_compute. reflexivity. Qed.
Goal True. idtac "ASSUMPTIONS-OF C09_example_syntax_error". Abort.
Print Assumptions C09_example_syntax_error.

(* A rule that FAILS with an exception (a FortranSyntaxError or any other Exception raised below it)
   is a frame step too: it ends in the scope it started in, and when it was started inside a scope
   whose path names existing tables, the tables afterwards differ from the tables before only in the
   children list of that scope's table -- the tables of other program units and of the enclosing
   scopes are not touched by the failed attempt.  Every table that passes the check, every leaf oracle.
   (At the top level -- the empty path -- the frame says nothing about the list of top-level tables:
   that is where the two recorded findings live.) *)
From FV Require Import EngineRel ScopeFrame.
Theorem C09_failed_rule_touches_only_its_own_scope :
  forall (T : table) (L : item -> cls -> list cls -> leafres), table_ok T = true ->
  forall fuel c s e s', new T L fuel c s = (Raise e, s') -> is_exception e = true -> frame (sc s) (sc s').
Proof. exact failed_rule_frame. Qed.
Goal True. idtac "ASSUMPTIONS-OF C09_failed_rule_touches_only_its_own_scope". Abort.
Print Assumptions C09_failed_rule_touches_only_its_own_scope.
