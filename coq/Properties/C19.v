(* C19 -- the legacy parser round-trips its own output (block matcher part).  Theorems only. *)
From Coq Require Import List Bool Arith NArith String.
Close Scope string_scope.
From FV Require Import One OneLaws OneGen.
Import ListNotations.

(* For EVERY statement-level oracle (whatever the per-statement regular expressions and validity
   checks decide) in which no statement is marked 'ignore', every block kind, every parent, every
   stream of reader items: if filling a block succeeds, the statements of the content it built
   (in tofortran order: each block's start statement followed by its content), followed by the
   items it left unread, are exactly the items it was given.  Nothing is dropped, duplicated or
   reordered by the block matcher -- for any nesting of any constructs, shared DO labels included.
   So the regenerated source lists the statements of the input one to one, and (the re-read
   statements being classified as before) filling it again builds the same nesting. *)
Theorem C19_block_matcher_keeps_every_statement_once :
  forall (is_end : oblock -> oitem -> bool) (classify : oblock -> oitem -> cres),
    (forall b i c ign, classify b i = CStmt c ign -> ign = false) ->
  forall fuel parent b content s content' ended rest,
    fill is_end classify false fuel parent b content s = OOk content' ended rest ->
    (flattens content' ++ rest = flattens content ++ s)%list.
Proof. exact fill_conserves. Qed.
Goal True. idtac "ASSUMPTIONS-OF C19_block_matcher_keeps_every_statement_once". Abort.
Print Assumptions C19_block_matcher_keeps_every_statement_once.

(* the live Do.process_subitem is the variant the theorem is about (probed on every run), and no
   other block class replaces the generic fill()/process_subitem() *)
Theorem C19_live_variant_is_the_modelled_one :
  dup_shared_live = false /\ overrides_live = overrides_modelled.
Proof. split; reflexivity. Qed.
Goal True. idtac "ASSUMPTIONS-OF C19_live_variant_is_the_modelled_one". Abort.
Print Assumptions C19_live_variant_is_the_modelled_one.

(* the other variant (the shared terminal statement is also kept by the inner loop: the behaviour
   before the repair) is refuted: do 10 / do 10 / 10 continue comes out with the statement twice *)
Theorem C19_duplicating_variant_refuted :
  exists content ended rest,
    fill ex_is_end ex_classify true 20 None top [] ex_items = OOk content ended rest /\
    (flattens content ++ rest)%list <> ex_items.
Proof. exact dup_variant_refuted. Qed.
Goal True. idtac "ASSUMPTIONS-OF C19_duplicating_variant_refuted". Abort.
Print Assumptions C19_duplicating_variant_refuted.

Example C19_example_shared_label :
  match fill ex_is_end ex_classify false 20 None top [] ex_items with
  | OOk content _ rest => (flattens content ++ rest)%list = ex_items /\ List.length content = 2
  | _ => False
  end.
Proof. exact repaired_variant_example. Qed.
Goal True. idtac "ASSUMPTIONS-OF C19_example_shared_label". Abort.
Print Assumptions C19_example_shared_label.
