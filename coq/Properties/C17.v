(* C17 -- the Fortran 2008 parser accepts everything the Fortran 2003 parser accepts (registry part).
   Theorems only. *)
From Coq Require Import List Bool NArith.
Require Import FV.Model.Registry FV.Gen.RegistryGen FV.Proofs.RegistryLaws.
Import ListNotations.

(* The model of ParserFactory.create/_setup, run on the class declarations read off the live
   Fortran2003 module (and Fortran2008 package), computes EXACTLY the registry the real factory
   builds (Base.subclasses dumped after create(std)): same keys, same order, same alternatives. *)
Theorem C17_setup_model_f2003 : setup decls03 = registry03.
Proof. vm_compute. reflexivity. Qed.
Goal True. idtac "ASSUMPTIONS-OF C17_setup_model_f2003". Abort.
Print Assumptions C17_setup_model_f2003.

Theorem C17_setup_model_f2008 : setup (merge08 decls03 decls08) = registry08.
Proof. vm_compute. reflexivity. Qed.
Goal True. idtac "ASSUMPTIONS-OF C17_setup_model_f2008". Abort.
Print Assumptions C17_setup_model_f2008.

(* Exactly one rule of the 2003 registry has, under 2008, an alternative list that is not (by rule
   name) a superset of its 2003 list: Stop_Code, whose 2008 override dispatches to the two
   expression rules instead of listing the constants. *)
Theorem C17_only_stop_code_narrowed :
  narrowed_keys (decls08 ++ decls03) registry03 registry08 = [name_Stop_Code].
Proof. vm_compute. reflexivity. Qed.
Goal True. idtac "ASSUMPTIONS-OF C17_only_stop_code_narrowed". Abort.
Print Assumptions C17_only_stop_code_narrowed.

(* ... hence: for every other rule, no override silently drops an alternative of the rule it replaces. *)
Theorem C17_no_alternative_dropped :
  forall k alts03 c, In (k, alts03) registry03 -> k <> name_Stop_Code -> In c alts03 ->
    In (name_of (decls08 ++ decls03) c) (map (name_of (decls08 ++ decls03)) (alts registry08 k)).
Proof.
  intros k alts03 c Hin Hk Hc.
  apply (not_narrowed_sound (decls08 ++ decls03) registry03 registry08 k alts03 Hin); [|exact Hc].
  rewrite C17_only_stop_code_narrowed. intros [H|[]]. congruence.
Qed.
Goal True. idtac "ASSUMPTIONS-OF C17_no_alternative_dropped". Abort.
Print Assumptions C17_no_alternative_dropped.

(* The rules that exist only in Fortran 2008 are not rules of the 2003 registry at all. *)
Theorem C17_f2008_only_rules_absent_from_2003 :
  forallb (fun n => negb (memN n (map fst registry03))) f08_only_names = true.
Proof. vm_compute. reflexivity. Qed.
Goal True. idtac "ASSUMPTIONS-OF C17_f2008_only_rules_absent_from_2003". Abort.
Print Assumptions C17_f2008_only_rules_absent_from_2003.
