(* Executable model of the fparser2 matching engine at the level of reader items.

   One definition per Python function, same control flow, same order of side effects:
     new            = Base.__new__ for a reader argument          two/utils.py:426-518
     leaf           = the "match and not BlockBase" branch         two/utils.py:440-463
                      + Line.parse_line / parse_cache              common/readfortran.py:400-408
     block_match    = BlockBase.match                              two/utils.py:684-922
     comment/directive = Comment.__new__ / Directive.__new__       two/Fortran2003.py:149-278
     cpp            = match_cpp_directive                          two/C99Preprocessor.py:72-105
     add_cid        = add_comments_includes_directives             two/Fortran2003.py:306-330
     program_match  = Program.match                                two/Fortran2003.py:386-426
     main0          = Main_Program0.match                          two/Fortran2003.py:11094-11135
     seq_match      = Outer/Inner_Shared_Do_Construct.match        two/Fortran2003.py:8422-8478
     loop_match     = Component_Part.match                         two/Fortran2003.py:2065-2078
   The grammar (which classes exist, their alternatives, the arguments each block rule passes
   to BlockBase.match, class-level facts such as hasattr/issubclass) is the record [table],
   regenerated from the live classes by tools/translate.py on every run.
   Statement text is looked at only through the leaf oracle [L].
   Explicit push-back: a failing matcher returns the stream it leaves behind, so "forgot to
   restore" is expressible.  No proofs in this file. *)
From Coq Require Import List Bool Arith NArith.
From FV Require Import Scope.
Import ListNotations.

Definition cls := N.

Inductive ikind := IKLine | IKComment | IKCpp.
Record item := mkItem {
  iid : nat;            (* allocation order = object identity *)
  ikd : ikind;          (* readfortran.Line / Comment / CppDirective *)
  idir : bool;          (* comment of directive form and not inline (Directive.__new__ accepts it) *)
  iblank : bool;        (* every physical line of the item is blank or a comment line *)
  ilast : nat           (* span[1]: last physical line *)
}.

Inductive exn := ENoMatch | ESyntax | EInternalSyntax | EExit | EOther | EFuel.

Record info := mkInfo {
  start_label : option N;   (* get_start_label() *)
  end_label : option N;     (* get_end_label() = item.label *)
  start_name : option name; (* get_start_name(), lower-cased, interned *)
  end_name : option name;   (* get_end_name() *)
  scope_name : name;        (* get_scope_name() for ScopingRegionMixin statements *)
  unit_name : option name   (* get_name() of program-unit start/end statements *)
}.
Definition noinfo : info := mkInfo None None None None 0%N None.

Inductive leafres := LNo | LRaise (e : exn) | LYes (i : info).

Inductive tree := TLeaf (c : cls) (i : item) (inf : info) | TBlock (c : cls) (kids : list tree).

Record bspec := mkBspec {
  b_start : option cls; b_subs : list cls; b_end : option cls;
  b_endall : list cls;            (* classes c with issubclass(c, endcls_all) *)
  b_match_labels : bool; b_match_names : bool;
  b_name_classes : list cls;      (* classes c with issubclass(c, match_name_classes) *)
  b_do_hook : bool; b_if_hook : bool; b_where_hook : bool;
  b_strict_order : bool; b_strict_names : bool;
  b_labeldo_abort : bool          (* startcls in (Label_Do_Stmt, Label_Do_Stmt_2008) and endcls is End_Do *)
}.

Inductive kind :=
| KLeaf                         (* has match(), not a BlockBase: matched against the item text *)
| KAlt                          (* no match(): alternatives only *)
| KBlock (b : bspec)            (* match() is one call of BlockBase.match *)
| KMain0 (b : bspec)            (* Main_Program0: scope entry around BlockBase.match *)
| KSeq (cs : list cls)          (* Outer/Inner_Shared_Do_Construct *)
| KLoop (c : cls)               (* Component_Part *)
| KProgram.

Record centry := mkCentry {
  c_kind : kind; c_alts : list cls;
  c_scoping : bool;               (* issubclass(c, ScopingRegionMixin) *)
  c_has_start_label : bool; c_has_end_label : bool; c_has_name : bool   (* hasattr(c, ...) *)
}.
Definition centry0 : centry := mkCentry KAlt [] false false false false.

Record table := mkTable {
  t_entries : list (cls * centry);
  t_comment : cls; t_directive : cls; t_include : cls;
  t_program_unit : cls; t_main0 : cls;
  t_cpp : list cls;                        (* CPP_CLASS_NAMES, in order *)
  t_elseif : list cls; t_else_endif : list cls;
  t_maskedelse : list cls; t_else_endwhere : list cls;
  t_enddo_continue : list cls;
  t_stray_enddo : list cls;                (* end classes that raise when their label is not the DO statement's (probed) *)
  t_main_name : name;                      (* "fparser2:main_program" *)
  t_shared_restores : bool;                (* Outer/Inner_Shared_Do_Construct restore on failure *)
  t_main0_guarded : bool;                  (* Main_Program0 leaves its scope on an exception *)
  t_cleanup_all : bool;                    (* BlockBase.match cleans up on every Exception *)
  t_exits : bool                           (* reader.error() terminates the process *)
}.

Definition mem (c : cls) (l : list cls) : bool := existsb (N.eqb c) l.
Fixpoint assoc (c : cls) (l : list (cls * centry)) : centry :=
  match l with [] => centry0 | (k, e) :: r => if N.eqb k c then e else assoc c r end.

Fixpoint yield (t : tree) : list item :=
  match t with
  | TLeaf _ i _ => [i]
  | TBlock _ ks => (fix ys (l : list tree) := match l with [] => [] | k :: r => yield k ++ ys r end) ks
  end.
Definition yields (l : list tree) : list item := flat_map yield l.
Definition tcls (t : tree) : cls := match t with TLeaf c _ _ => c | TBlock c _ => c end.
Definition tinfo (t : tree) : info := match t with TLeaf _ _ i => i | TBlock _ _ => noinfo end.

(* engine state *)
Record est := mkEst {
  stream : list item;                        (* items not yet consumed, get = pop, put = push *)
  pcls : list cls;                           (* parent_cls of the current dispatch tree *)
  cache : list (nat * cls * option info);    (* Line.parse_cache, keyed (item, class) *)
  sc : scopes;                               (* SYMBOL_TABLES *)
  cost : N;                                  (* number of Base.__new__ calls on the reader *)
  lcost : N;                                 (* number of statement-level matches started (cache misses) *)
  maxread : nat;                             (* reader.linecount (free form: never decreases) *)
  seen_code : bool;                          (* some non-blank, non-comment line has been read *)
  procdir : bool                             (* reader.process_directives *)
}.
Definition est0 (items : list item) (pd : bool) : est :=
  mkEst items [] [] scopes0 0 0 0 false pd.

Definition set_stream (l : list item) (s : est) : est :=
  mkEst l (pcls s) (cache s) (sc s) (cost s) (lcost s) (maxread s) (seen_code s) (procdir s).
Definition set_pcls (p : list cls) (s : est) : est :=
  mkEst (stream s) p (cache s) (sc s) (cost s) (lcost s) (maxread s) (seen_code s) (procdir s).
Definition set_sc (x : scopes) (s : est) : est :=
  mkEst (stream s) (pcls s) (cache s) x (cost s) (lcost s) (maxread s) (seen_code s) (procdir s).
Definition tick (s : est) : est :=
  mkEst (stream s) (pcls s) (cache s) (sc s) (cost s + 1) (lcost s) (maxread s) (seen_code s) (procdir s).
Definition add_cache (i : item) (c : cls) (v : option info) (s : est) : est :=
  mkEst (stream s) (pcls s) ((iid i, c, v) :: cache s) (sc s) (cost s) (lcost s + 1) (maxread s)
        (seen_code s) (procdir s).

Definition get_item (s : est) : option item * est :=
  match stream s with
  | [] => (None, s)
  | i :: r => (Some i, mkEst r (pcls s) (cache s) (sc s) (cost s) (lcost s) (Nat.max (maxread s) (ilast i))
                             (seen_code s || negb (iblank i)) (procdir s))
  end.
Definition put_item (i : item) (s : est) : est := set_stream (i :: stream s) s.
(* for o in reversed(content): o.restore_reader(reader) *)
Definition restore (content : list tree) (s : est) : est := set_stream (yields content ++ stream s) s.

Fixpoint cache_find (n : nat) (c : cls) (l : list (nat * cls * option info)) : option (option info) :=
  match l with
  | [] => None
  | (n', c', v) :: r => if Nat.eqb n' n && N.eqb c' c then Some v else cache_find n c r
  end.

Inductive res (A : Type) := Val (a : A) | Raise (e : exn).
Arguments Val {A} a. Arguments Raise {A} e.
Definition M (A : Type) := est -> res A * est.
Definition ret {A} (a : A) : M A := fun s => (Val a, s).
Definition raise {A} (e : exn) : M A := fun s => (Raise e, s).
Definition bind {A B} (m : M A) (k : A -> M B) : M B :=
  fun s => match m s with (Val a, s') => k a s' | (Raise e, s') => (Raise e, s') end.
Definition lift (f : est -> est) : M unit := fun s => (Val tt, f s).
Notation "x <- m ;; k" := (bind m (fun x => k)) (at level 61, m at next level, right associativity).
Notation "m ;;; k" := (bind m (fun _ => k)) (at level 61, right associativity).

(* try: ... except NoMatchError: obj = None *)
Definition catch_nomatch {A} (m : M (option A)) : M (option A) :=
  fun s => match m s with (Raise ENoMatch, s') => (Val None, s') | r => r end.

Definition is_exception (e : exn) : bool :=   (* caught by "except Exception" *)
  match e with EExit => false | EFuel => false | _ => true end.

Definition do_exit_scope : M unit :=
  fun s => match exit_scope (sc s) with Some x => (Val tt, set_sc x s) | None => (Raise EOther, s) end.
Definition do_remove (n : name) : M unit :=
  fun s => match remove_scope n (sc s) with Some x => (Val tt, set_sc x s) | None => (Raise EOther, s) end.
Definition do_enter (n : name) : M unit := lift (fun s => set_sc (enter_scope n (sc s)) s).

Definition oN_eqb (a b : option N) : bool :=
  match a, b with Some x, Some y => N.eqb x y | None, None => true | _, _ => false end.

(* class list of the BlockBase.match loop: rule classes and the cpp matcher function *)
Inductive lcls := LC (c : cls) | LCpp.

Section Engine.
Variable T : table.
Variable L : item -> cls -> list cls -> leafres.

Definition entry (c : cls) : centry := assoc c (t_entries T).

(* Comment.__new__(reader) *)
Definition comment : M (option tree) := fun s =>
  match get_item s with
  | (None, s1) => (Val None, s1)
  | (Some i, s1) => match ikd i with
                    | IKComment => (Val (Some (TLeaf (t_comment T) i noinfo)), s1)
                    | _ => (Val None, put_item i s1)
                    end
  end.

(* Directive.__new__(reader) *)
Definition directive : M (option tree) := fun s =>
  match get_item s with
  | (None, s1) => (Val None, s1)
  | (Some i, s1) => match ikd i with
                    | IKComment => if idir i then (Val (Some (TLeaf (t_directive T) i noinfo)), s1)
                                   else (Val None, put_item i s1)
                    | _ => (Val None, put_item i s1)
                    end
  end.

(* the reader branch of Base.__new__ for a statement class, with Line.parse_line *)
Definition leaf (c : cls) : M (option tree) := fun s =>
  match get_item s with
  | (None, s1) => (Val None, s1)
  | (Some i, s1) =>
      match ikd i with
      | IKComment => (Val None, put_item i s1)
      | _ =>
          match cache_find (iid i) c (cache s1) with
          | Some (Some inf) => (Val (Some (TLeaf c i inf)), s1)
          | Some None => (Val None, put_item i s1)
          | None =>
              match L i c (pcls s1) with
              | LYes inf => (Val (Some (TLeaf c i inf)), add_cache i c (Some inf) s1)
              | LNo => (Val None, put_item i (add_cache i c None s1))
              | LRaise ENoMatch => (Val None, put_item i (add_cache i c None s1))
              | LRaise e => (Raise e, add_cache i c None s1)
              end
          end
      end
  end.

Definition matcher := cls -> M (option tree).

(* cls(reader) written inside a match body: fresh parent_cls *)
Definition call (rec : matcher) (c : cls) : M (option tree) := fun s =>
  let saved := pcls s in
  match rec c (set_pcls [] s) with (r, s') => (r, set_pcls saved s') end.

(* match_cpp_directive(reader) *)
Fixpoint first_of (rec : matcher) (cs : list cls) : M (option tree) :=
  match cs with
  | [] => ret None
  | c :: r => o <- call rec c ;; match o with Some t => ret (Some t) | None => first_of rec r end
  end.
Definition cpp (rec : matcher) : M (option tree) := fun s =>
  match get_item s with
  | (None, s1) => (Val None, s1)
  | (Some i, s1) => let s2 := put_item i s1 in
                    match ikd i with IKCpp => first_of rec (t_cpp T) s2 | _ => (Val None, s2) end
  end.

(* match_comment_or_include(reader) *)
Definition comment_or_include (rec : matcher) : M (option tree) := fun s =>
  (o1 <- (if procdir s then directive else ret None) ;;
   match o1 with
   | Some t => ret (Some t)
   | None => o2 <- comment ;;
             match o2 with Some t => ret (Some t) | None => call rec (t_include T) end
   end) s.

Definition cid_step (rec : matcher) : M (option tree) :=
  o <- comment_or_include rec ;; match o with Some t => ret (Some t) | None => cpp rec end.

(* add_comments_includes_directives(content, reader); k bounds the number of iterations *)
Fixpoint add_cid (rec : matcher) (k : nat) (content : list tree) : M (list tree) :=
  match k with
  | 0 => raise EFuel
  | S k' => o <- cid_step rec ;;
            match o with Some t => add_cid rec k' (content ++ [t]) | None => ret content end
  end.

Definition call_l (rec : matcher) (lc : lcls) : M (option tree) :=
  match lc with
  | LC c => if N.eqb c (t_comment T) then comment
            else if N.eqb c (t_directive T) then directive else call rec c
  | LCpp => cpp rec
  end.

(* loop state of BlockBase.match *)
Record lst := mkLst { l_content : list tree; l_i : nat; l_had : bool; l_ifh : bool; l_whh : bool }.
Inductive lout := LBreak (content : list tree) (had : bool) (found_end : bool)
                | LAbort.      (* "return None" from inside the loop after restoring *)

Definition name_check (b : bspec) (start_name end_name : option name) (strict : bool) : option exn :=
  match end_name, start_name with
  | Some _, None => Some ESyntax
  | None, Some _ => if strict then Some ESyntax else None
  | Some e, Some s0 => if N.eqb e s0 then None else Some ESyntax
  | None, None => None
  end.

(* one iteration of the BlockBase.match loop after the class at index i has been fetched and the
   leading comments of the DO-label hook absorbed; [cont] continues the loop *)
(* the two FortranSyntaxErrors BlockBase.match raises for a matched statement before it decides what the
   statement is: a construct name that does not agree, and (probed variant) an END DO whose label is not the
   DO statement's -- it closes nothing *)
Definition stmt_error (b : bspec) (startinfo : info) (t : tree) (is_end : bool) : option exn :=
  let e0 := if b_match_names b && mem (tcls t) (b_name_classes b)
            then match end_name (tinfo t), start_name startinfo with
                 | Some _, None => Some ESyntax
                 | Some e, Some s0 => if N.eqb e s0 then None else Some ESyntax
                 | None, _ => None
                 end
            else None in
  match e0 with
  | Some e => Some e
  | None => if is_end && b_match_labels b
               && negb (oN_eqb (start_label startinfo) (end_label (tinfo t)))
               && mem (tcls t) (t_stray_enddo T)
            then Some ESyntax else None
  end.

Definition block_step (rec : matcher) (b : bspec) (start_idx : nat) (cont : lst -> M lout)
           (lc : lcls) (st : lst) : M lout :=
  let startinfo := match nth_error (l_content st) start_idx with Some t => tinfo t | None => noinfo end in
  hook <- (if b_do_hook b then
             match b_start b with
             | Some stc =>
                 o <- call rec stc ;;
                 match o with
                 | Some t =>
                     if c_has_start_label (entry (tcls t)) then
                       if oN_eqb (start_label startinfo) (start_label (tinfo t))
                       then ret (Some t)
                       else lift (restore [t]) ;;; ret None
                     else ret None                  (* not restored: as the code *)
                 | None => ret None
                 end
             | None => raise EOther                 (* startcls(reader) with startcls None *)
             end
           else ret None) ;;
  match hook with
  | Some t => cont
                (mkLst (l_content st ++ [t]) (l_i st) (l_had st) (l_ifh st) (l_whh st))
  | None =>
    o <- catch_nomatch (call_l rec lc) ;;
    match o with
    | None => cont
                (mkLst (l_content st) (S (l_i st)) (l_had st) (l_ifh st) (l_whh st))
    | Some t =>
      let ce := entry (tcls t) in
      if b_labeldo_abort b && c_has_end_label ce
         && oN_eqb (start_label startinfo) (end_label (tinfo t))
         && negb (mem (tcls t) (t_enddo_continue T))
      then lift (restore [t]) ;;; lift (restore (l_content st)) ;;; ret LAbort
      else
        let content := l_content st ++ [t] in
        (* match_names and isinstance(obj, match_name_classes) *)
        let is_end := match b_end b with Some _ => mem (tcls t) (b_endall b) | None => false end in
        let e1 := stmt_error b startinfo t is_end in
        match e1 with
        | Some e => raise e
        | None =>
          if is_end && b_match_labels b
             && negb (oN_eqb (start_label startinfo) (end_label (tinfo t)))
          then (* labels differ: continue, i unchanged *)
            cont (mkLst content (l_i st) true (l_ifh st) (l_whh st))
          else if is_end then
            match (if b_match_names b
                   then name_check b (start_name startinfo) (end_name (tinfo t)) (b_strict_names b)
                   else None) with
            | Some e => raise e
            | None => ret (LBreak content true true)
            end
          else
            let i1 := if b_strict_order b then l_i st else 0 in
            let i2 := if l_ifh st && mem (tcls t) (t_elseif T) then 0 else i1 in
            let ifh := l_ifh st && negb (mem (tcls t) (t_else_endif T)) in
            let i3 := if l_whh st && mem (tcls t) (t_maskedelse T) then 0 else i2 in
            let whh := l_whh st && negb (mem (tcls t) (t_else_endwhere T)) in
            cont (mkLst content i3 true ifh whh)
        end
    end
  end
.

Definition hook_cid (rec : matcher) (b : bspec) (content : list tree) : M (list tree) :=
  if b_do_hook b then (fun s => add_cid rec (length (stream s) + 2) content s) else ret content.

Fixpoint block_loop (rec : matcher) (b : bspec) (classes : list lcls) (start_idx : nat)
         (k : nat) (st : lst) : M lout :=
  match k with
  | 0 => raise EFuel
  | S k' =>
    match nth_error classes (l_i st) with
    | None => ret (LBreak (l_content st) (l_had st) false)       (* while i < len(classes) *)
    | Some lc =>
      (* enable_do_label_construct_hook: comments/includes/directives first, then startcls(reader) *)
      cm <- hook_cid rec b (l_content st) ;;
      block_step rec b start_idx (block_loop rec b classes start_idx k') lc
                 (mkLst cm (l_i st) (l_had st) (l_ifh st) (l_whh st))
    end
  end.

Definition loop_bound (nclasses : nat) (s : est) : nat := (nclasses + 2) * (length (stream s) + 2).

(* BlockBase.match: the class list of the loop *)
Definition block_classes (b : bspec) (s : est) : list lcls :=
  map LC (b_subs b)
  ++ (if procdir s then [LC (t_directive T)] else [])
  ++ [LC (t_comment T); LC (t_include T)]
  ++ (match b_end b with Some e => [LC e] | None => [] end) ++ [LCpp].

(* BlockBase.match: the try block and everything after it *)
Definition block_body (rec : matcher) (b : bspec) (content : list tree) (start_idx : nat)
           (tn : option name) : M (option (list tree)) := fun s =>
  let cl := block_classes b s in
  match block_loop rec b cl start_idx (loop_bound (length cl) s)
                   (mkLst content 0 false (b_if_hook b) (b_where_hook b)) s with
  | (Raise e, s1) =>
      (* except FortranSyntaxError (or, when t_cleanup_all, except Exception): clean up *)
      if (match e with ESyntax => true | _ => t_cleanup_all T && is_exception e end) then
        match tn with
        | Some n => match (do_exit_scope ;;; do_remove n) s1 with
                    | (Val _, s2) => (Raise e, s2)
                    | (Raise e', s2) => (Raise e', s2)
                    end
        | None => (Raise e, s1)
        end
      else (Raise e, s1)
  | (Val LAbort, s1) => (Val None, s1)
  | (Val (LBreak content' had found_end), s1) =>
      ((match tn with Some _ => do_exit_scope | None => ret tt end) ;;;
       (if (negb had || (match b_end b with Some _ => negb found_end | None => false end))
           && (match b_end b with Some _ => true | None => false end)
        then (match tn with Some n => do_remove n | None => ret tt end) ;;;
             lift (restore content') ;;; ret None
        else
          match content' with
          | [] => ret None
          | _ =>
            match b_start b, b_end b with
            | Some _, Some _ =>
                let st := match nth_error content' start_idx with Some t => t | None => TBlock 0%N [] end in
                let en := last content' (TBlock 0%N []) in
                if mem (tcls en) (b_endall b) && c_has_name (entry (tcls en))
                   && c_has_name (entry (tcls st))
                then match unit_name (tinfo en) with
                     | Some ne =>
                         match unit_name (tinfo st) with
                         | Some ns => if N.eqb ns ne then ret (Some content')
                                      else if t_exits T then raise EExit else ret (Some content')
                         | None => if t_exits T then raise EExit else ret (Some content')
                         end
                     | None => ret (Some content')
                     end
                else ret (Some content')
            | _, _ => ret (Some content')
            end
          end)) s1
  end.

(* BlockBase.match *)
Definition block_match (rec : matcher) (b : bspec) : M (option (list tree)) := fun s0 =>
  match b_start b with
  | Some stc =>
      (cm <- add_cid rec (length (stream s0) + 2) [] ;;
       ob <- catch_nomatch (call rec stc) ;;
       match ob with
       | None => lift (restore cm) ;;; ret None
       | Some o =>
           let scoping := c_scoping (entry (tcls o)) in
           (if scoping then do_enter (scope_name (tinfo o)) else ret tt) ;;;
           block_body rec b (cm ++ [o]) (length cm) (if scoping then Some (scope_name (tinfo o)) else None)
       end) s0
  | None => block_body rec b [] 0 None s0
  end.

(* Main_Program0.match *)
Definition main0 (rec : matcher) (b : bspec) : M (option (list tree)) := fun s =>
  let s1 := set_sc (enter_scope (t_main_name T) (sc s)) s in
  match block_match rec b s1 with
  | (Raise e, s2) =>
      if t_main0_guarded T && is_exception e then
        match (do_exit_scope ;;; do_remove (t_main_name T)) s2 with
        | (Val _, s3) => (Raise e, s3)
        | (Raise e', s3) => (Raise e', s3)
        end
      else (Raise e, s2)
  | (Val r, s2) =>
      (do_exit_scope ;;;
       match r with
       | Some c => ret (Some c)
       | None => do_remove (t_main_name T) ;;; ret None
       end) s2
  end.

(* Outer/Inner_Shared_Do_Construct.match *)
Fixpoint seq_match (rec : matcher) (cs : list cls) (acc : list tree) : M (option (list tree)) :=
  match cs with
  | [] => ret (Some acc)
  | c :: r =>
      o <- (if t_shared_restores T then catch_nomatch (call rec c) else call rec c) ;;
      match o with
      | Some t => seq_match rec r (acc ++ [t])
      | None => (if t_shared_restores T then lift (restore acc) else ret tt) ;;; ret None
      end
  end.

(* Component_Part.match *)
Fixpoint loop_match (rec : matcher) (c : cls) (k : nat) (acc : list tree) : M (option (list tree)) :=
  match k with
  | 0 => raise EFuel
  | S k' => o <- catch_nomatch (call rec c) ;;
            match o with
            | Some t => loop_match rec c k' (acc ++ [t])
            | None => ret (match acc with [] => None | _ => Some acc end)
            end
  end.

(* Program.match *)
Fixpoint program_loop (rec : matcher) (k : nat) (content : list tree) : M (list tree) :=
  match k with
  | 0 => raise EFuel
  | S k' =>
      o <- call rec (t_program_unit T) ;;
      let content1 := match o with Some t => content ++ [t] | None => content end in
      content2 <- add_cid rec (S k') content1 ;;
      (fun s => match stream s with
                | [] => (Val content2, s)                       (* reader.next() raises StopIteration *)
                | _ :: _ => match get_item s with                 (* next(); put_item *)
                            | (Some i, s1) => program_loop rec k' content2 (put_item i s1)
                            | (None, s1) => (Val content2, s1)
                            end
                end)
  end.

(* the try-block of Program.match: units until the reader is exhausted *)
Definition program_units (rec : matcher) : M (list tree) := fun s =>
  let k := 2 * length (stream s) + 3 in
  (c0 <- add_cid rec k [] ;; program_loop rec k c0) s.

Definition main0_fallback_spec : bspec :=
  mkBspec (Some (t_main0 T)) [] None [] false false [] false false false false false false.

Definition program_match (rec : matcher) : M (option (list tree)) := fun s =>
  match program_units rec s with
  | (Val content, s1) => (Val (Some content), s1)
  | (Raise ENoMatch, s1) =>
      (* except NoMatchError: BlockBase.match(Main_Program0, [], None, reader) -- continues from
         where the failed attempt stopped and drops the units matched so far *)
      block_match rec main0_fallback_spec s1
  | (Raise e, s1) => (Raise e, s1)
  end.

(* Base.__new__: the loop over Base.subclasses *)
Fixpoint try_alts (rec : matcher) (alts : list cls) : M (option tree) :=
  match alts with
  | [] => ret None
  | a :: r => fun s =>
      if mem a (pcls s) then try_alts rec r s
      else (o <- catch_nomatch (rec a) ;;
            match o with Some t => ret (Some t) | None => try_alts rec r end) s
  end.

(* Base.__new__(cls, reader, parent_cls) *)
Fixpoint new (fuel : nat) (c : cls) : M (option tree) :=
  match fuel with
  | 0 => raise EFuel
  | S f =>
    if N.eqb c (t_comment T) then comment
    else if N.eqb c (t_directive T) then directive
    else fun s0 =>
      let s := tick s0 in
      let s := if mem c (pcls s) then s else set_pcls (pcls s ++ [c]) s in
      let e := entry c in
      match c_kind e with
      | KLeaf => leaf c s
      | k =>
          let m : M (option (list tree)) :=
            match k with
            | KBlock b => block_match (new f) b
            | KMain0 b => main0 (new f) b
            | KSeq cs => seq_match (new f) cs []
            | KLoop c' => fun s => loop_match (new f) c' (length (stream s) + 2) [] s
            | _ => ret None   (* KAlt; KProgram is only ever constructed at the top: program_top *)
            end in
          match catch_nomatch m s with
          | (Raise e', s1) => (Raise e', s1)
          | (Val (Some content), s1) => (Val (Some (TBlock c content)), s1)
          | (Val None, s1) =>
              match try_alts (new f) (c_alts e) s1 with
              | (Val (Some t), s2) => (Val (Some t), s2)
              | (Val None, s2) => if seen_code s2 then (Raise ENoMatch, s2) else (Val None, s2)
              | (Raise e', s2) => (Raise e', s2)
              end
          end
      end
  end.

(* Base.__new__(Program, reader): the same steps as [new] with Program.match as the matcher.
   Program is referenced by no other rule (the translator checks this and fails closed), so it is
   kept out of [new]: the restore contract of every other rule does not hold for Program.match,
   whose Main_Program0 fall-back deliberately continues from where the failed attempt stopped. *)
Definition program_top (fuel : nat) (c : cls) : M (option tree) := fun s0 =>
  let s := set_pcls [c] (tick s0) in
  match catch_nomatch (program_match (new fuel)) s with
  | (Raise e', s1) => (Raise e', s1)
  | (Val (Some content), s1) => (Val (Some (TBlock c content)), s1)
  | (Val None, s1) =>
      match try_alts (new fuel) (c_alts (entry c)) s1 with
      | (Val (Some t), s2) => (Val (Some t), s2)
      | (Val None, s2) => if seen_code s2 then (Raise ENoMatch, s2) else (Val None, s2)
      | (Raise e', s2) => (Raise e', s2)
      end
  end.

(* Program.__new__: NoMatchError / InternalSyntaxError become FortranSyntaxError *)
Inductive outcome := OTree (t : tree) | ONone | OSyntax (line : nat) | OEscape (e : exn).
Definition program_new (fuel : nat) (cprogram : cls) (s : est) : outcome * est :=
  match program_top fuel cprogram s with
  | (Val (Some t), s') => (OTree t, s')
  | (Val None, s') => (ONone, s')
  | (Raise ENoMatch, s') => (OSyntax (maxread s'), s')
  | (Raise EInternalSyntax, s') => (OSyntax (maxread s'), s')
  | (Raise ESyntax, s') => (OSyntax (maxread s'), s')
  | (Raise e, s') => (OEscape e, s')
  end.

End Engine.

(* canonical shape used by the correspondence check *)
Fixpoint shape (t : tree) : list N :=
  match t with
  | TLeaf c i _ => [c; N.of_nat (iid i)]
  | TBlock c ks => [c; 1000000%N] ++ (fix go (l : list tree) := match l with [] => [] | k :: r => shape k ++ go r end) ks ++ [1000001%N]
  end.
