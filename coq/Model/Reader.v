(* Character-level model of the fparser reader for (non-strict) free form and fixed form:
     get_single_line / put_single_line / get_next_line   common/readfortran.py:708-802
     handle_inline_comment                               common/readfortran.py:1213-1297
     get_source_item (cpp, free-form loop, fixed F90)    common/readfortran.py:1366-1669
     replace_omp_sentinels / set_format regexes          common/readfortran.py:638-684,1131-1149
     _next (';' splitting), get_item, put_item           common/readfortran.py:805-991
   Not modelled: pyf, f77 and strict modes, f2py directives, INCLUDE resolution (see Include.v),
   tab expansion (done by the harness).  ';' splitting cuts the original text at the ';' that are
   outside character context and outside closed parenthesis groups; the code cuts the text
   tokenised by string_replace_map and restores it, which is the same up to blanks next to
   parentheses (the correspondence compares those items modulo blanks).  No proofs here. *)
From Coq Require Import List Bool Arith Ascii NArith.
From FV Require Import SplitLine Text.
Import ListNotations.

Inductive ritem :=
| RLine (txt : text) (label : option N) (name : option text) (first last : nat)
| RComment (txt : text) (first last : nat) (inline : bool)
| RCpp (txt : text) (first last : nat).

Record rst := mkRst {
  r_src : list text;         (* physical lines not yet read *)
  r_filo : list text;        (* put_single_line buffer *)
  r_linecount : nat;
  r_fifo : list ritem;       (* fifo_item: pending items; put_item pushes at the front *)
  r_free : bool;             (* format: free (True, False) or fix (False, False); may switch fix -> free *)
  r_omp : bool;              (* include_omp_conditional_lines *)
  r_ign : bool;              (* ignore_comments *)
  r_err : bool               (* an internal error was raised: next() turns it into StopIteration *)
}.
Definition rst0 (lines : list text) (free omp ign : bool) : rst := mkRst lines [] 0 [] free omp ign false.

Definition upd_fifo (f : list ritem) (s : rst) : rst :=
  mkRst (r_src s) (r_filo s) (r_linecount s) f (r_free s) (r_omp s) (r_ign s) (r_err s).
Definition set_err (s : rst) : rst :=
  mkRst (r_src s) (r_filo s) (r_linecount s) (r_fifo s) (r_free s) (r_omp s) (r_ign s) true.
Definition set_free (s : rst) : rst :=
  mkRst (r_src s) (r_filo s) (r_linecount s) (r_fifo s) true (r_omp s) (r_ign s) (r_err s).

Definition upper_char (c : ascii) : ascii :=
  let n := code c in if (97 <=? n) && (n <=? 122) then ch (n - 32) else c.
Definition ieq (a b : ascii) : bool := aeqb (upper_char a) (upper_char b).

(* the label field of a fixed-form line without its blanks: line[:5].replace(" ", "") *)
Definition label_chars (t : text) : text := filter (fun c => negb (aeqb c " "%char)) t.

(* _is_fix_cont *)
Definition is_fix_cont (l : text) : bool :=
  (5 <? length l) && negb (aeqb (nth 5 l " "%char) " "%char) && negb (aeqb (nth 5 l " "%char) "0"%char)
  && text_eqb (firstn 5 l) (repeat " "%char 5).
(* _is_fix_comment, non strict, f2py disabled *)
Definition is_fix_comment (l : text) : bool :=
  match l with
  | [] => true
  | c :: _ =>
      if mem_char c ["*"; "c"; "C"; "!"]%char then true
      else match find_char "!"%char l with
           | Some i => if is_blank (firstn i l) then negb (Nat.eqb i 5) else false
           | None => false
           end
  end.

(* fixed-form sentinel  ^([\!\*c]\$)([ 0-9]{3}[ 0]|   [^ 0])  (IGNORECASE): replace group 1 by blanks *)
Definition omp_fixed (l : text) : text :=
  match l with
  | a :: b :: c3 :: c4 :: c5 :: c6 :: r =>
      let sd := fun x => aeqb x " "%char || is_digit x in
      if (aeqb a "!"%char || aeqb a "*"%char || ieq a "c"%char) && aeqb b "$"%char
         && ((sd c3 && sd c4 && sd c5 && (aeqb c6 " "%char || aeqb c6 "0"%char))
             || (aeqb c3 " "%char && aeqb c4 " "%char && aeqb c5 " "%char
                 && negb (aeqb c6 " "%char) && negb (aeqb c6 "0"%char)))
      then " "%char :: " "%char :: c3 :: c4 :: c5 :: c6 :: r else l
  | _ => l
  end.
(* free-form initial sentinel  ^ *(\!\$)   (blank required after it) *)
Definition omp_free_init (l : text) : text * bool :=
  let lead := take_while (fun c => aeqb c " "%char) l in
  match skipn (length lead) l with
  | a :: b :: c :: r => if aeqb a "!"%char && aeqb b "$"%char && aeqb c " "%char
                        then (lead ++ " "%char :: " "%char :: c :: r, true) else (l, false)
  | _ => (l, false)
  end.
(* free-form continuation sentinel  ^ *(\!\$) *&?  *)
Definition omp_free_cont (l : text) : text :=
  let lead := take_while (fun c => aeqb c " "%char) l in
  match skipn (length lead) l with
  | a :: b :: r => if aeqb a "!"%char && aeqb b "$"%char then lead ++ " "%char :: " "%char :: r else l
  | _ => l
  end.

(* get_single_line: (line, state); None at end of input *)
Fixpoint pull_src (src : list text) (cnt : nat) (skip_fix_comments omp_fix : bool)
  : option text * list text * nat :=
  match src with
  | [] => (None, [], cnt)
  | l :: r =>
      let l1 := rstrip l in
      let l2 := if omp_fix then omp_fixed l1 else l1 in
      if skip_fix_comments && is_fix_comment l2 then pull_src r (S cnt) skip_fix_comments omp_fix
      else (Some l2, r, S cnt)
  end.
Definition get_single_line (s : rst) : option text * rst :=
  match r_filo s with
  | l :: f => (Some l, mkRst (r_src s) f (S (r_linecount s)) (r_fifo s) (r_free s) (r_omp s) (r_ign s) (r_err s))
  | [] =>
      match pull_src (r_src s) (r_linecount s) (r_ign s && negb (r_free s)) (r_omp s && negb (r_free s)) with
      | (o, src', cnt') => (o, mkRst src' [] cnt' (r_fifo s) (r_free s) (r_omp s) (r_ign s) (r_err s))
      end
  end.
Definition put_single_line (l : text) (s : rst) : rst :=
  mkRst (r_src s) (l :: r_filo s) (r_linecount s - 1) (r_fifo s) (r_free s) (r_omp s) (r_ign s) (r_err s).
Definition get_next_line (s : rst) : option text * rst :=
  match get_single_line s with
  | (Some l, s1) => (Some l, put_single_line l s1)
  | (None, s1) => (None, s1)
  end.

(* handle_inline_comment: (line without comment, quote state, had_comment, comment item to queue) *)
Definition handle_inline_comment (l : text) (lineno : nat) (q : option ascii)
  : text * option ascii * option ritem :=
  if (match q with None => true | Some _ => false end)
     && negb (mem_char "!"%char l) && negb (mem_char dquote l) && negb (mem_char squote l)
  then (l, q, None)
  else
    let quick :=
      match q, find_char "!"%char l with
      | None, Some idx =>
          let pre := firstn idx l in
          if negb (mem_char dquote pre) && negb (mem_char squote pre)
          then Some (pre, RComment (skipn idx l) lineno lineno (negb (is_blank pre)))
          else None
      | _, _ => None
      end in
    match quick with
    | Some (pre, c) => (pre, q, Some c)
    | None =>
        let '(segs, newq) := splitquote l q false in
        (* first Plain segment containing '!' starts the comment *)
        let fix scan (ss : list qseg) (keep : text) : text * option text :=
          match ss with
          | [] => (keep, None)
          | Quoted t :: r => scan r (keep ++ t)
          | Plain t :: r =>
              match find_char "!"%char t with
              | None => scan r (keep ++ t)
              | Some j => (keep ++ firstn j t, Some (skipn j t ++ qflat r))
              end
          end in
        match scan segs [] with
        | (keep, Some cm) => (keep, None, Some (RComment cm lineno lineno (negb (is_blank keep))))
        | (keep, None) => (keep, newq, None)
        end
    end.

Definition push_opt (o : option ritem) (s : rst) : rst :=
  match o with Some c => upd_fifo (r_fifo s ++ [c]) s | None => s end.

(* the free-form loop of get_source_item: returns the joined text, the last line number and the state *)
Fixpoint free_loop (fuel : nat) (had_omp first : bool) (acc : text) (q : option ascii)
         (endl : nat) (line : text) (s : rst) : text * nat * rst :=
  match fuel with
  | 0 => (acc, endl, s)
  | S f =>
      let line := if had_omp then omp_free_cont line else line in
      let ls := lstrip line in
      let continue_with := fun (acc' : text) (q' : option ascii) (endl' : nat) (s' : rst) =>
        match get_single_line s' with
        | (Some l', s'') => free_loop f had_omp false acc' q' endl' l' s''
        | (None, s'') => (acc', endl', s'')
        end in
      if negb first && starts_with ["!"%char] ls then
        continue_with acc q endl (upd_fifo (r_fifo s ++ [RComment ls (r_linecount s) (r_linecount s) false]) s)
      else if negb first && (match ls with [] => true | _ => false end) then continue_with acc q endl s
      else
        let '(l1, q1, cm) := handle_inline_comment line (r_linecount s) q in
        let s1 := push_opt cm s in
        let i := rfind_char "&"%char l1 in
        let cont := match i with Some k => is_blank (skipn (S k) l1) | None => false end in
        if first then
          match i, cont with
          | Some k, true => continue_with (firstn k l1) q1 (r_linecount s1) s1
          | _, _ => (l1, endl, s1)
          end
        else
          let iend := match i, cont with Some k, true => k | _, _ => length l1 end in
          let kk := match find_char "&"%char (firstn iend l1) with
                    | Some k => if Nat.eqb k 1 then Some k
                                else if is_blank (firstn k l1) then Some k else None
                    | None => None
                    end in
          let piece := match kk with
                       | Some k => firstn (iend - S k) (skipn (S k) l1)
                       | None => firstn iend l1
                       end in
          if cont then continue_with (acc ++ piece) q1 (r_linecount s1) s1
          else (acc ++ piece, r_linecount s1, s1)
  end.

(* fixed-form continuation loop *)
Fixpoint fix_loop (fuel : nat) (acc : text) (q : option ascii) (endl : nat) (s : rst) : text * nat * rst :=
  match fuel with
  | 0 => (acc, endl, s)
  | S f =>
      match get_next_line s with
      | (Some nl, s1) =>
          if is_fix_cont nl || is_fix_comment nl then
            match get_single_line s1 with
            | (Some l2, s2) =>
                if is_fix_comment l2 then
                  fix_loop f acc q endl (upd_fifo (r_fifo s2 ++ [RComment l2 (r_linecount s2) (r_linecount s2) false]) s2)
                else
                  let '(nl2, q2, cm) := handle_inline_comment (skipn 6 l2) (r_linecount s2) q in
                  fix_loop f (acc ++ nl2) q2 (r_linecount s2) (push_opt cm s2)
            | (None, s2) => (acc, endl, s2)
            end
          else (acc, endl, s1)
      | (None, s1) => (acc, endl, s1)
      end
  end.

Definition mk_line (txt : text) (label : option N) (name : option text) (first last : nat) (s : rst)
  : option ritem * rst :=
  match strip txt with
  | [] => (None, set_err s)            (* Line('') raises FortranReaderError *)
  | t => (Some (RLine t label name first last), s)
  end.

(* the tail of get_source_item for free form (also reached from fixed form after a switch) *)
Definition free_item (fuel : nat) (line : text) (had_omp : bool) (start : nat) (s : rst) : option ritem * rst :=
  let '(label, l1) := extract_label line in
  let '(name, l2) := extract_construct_name l1 in
  let '(txt, endl, s1) := free_loop fuel had_omp true [] None (r_linecount s) l2 s in
  match strip txt with
  | (_ :: _) as t => (Some (RLine t label name start endl), s1)
  | [] =>
      match name with
      | Some _ => (None, set_err s1)      (* self.error("No construct following construct-name.") -> sys.exit *)
      | None =>
          match r_fifo s1 with
          | c :: r => (Some c, upd_fifo r s1)
          | [] => (Some (RComment [] start endl false), s1)
          end
      end
  end.

Definition space_or_digit (c : ascii) : bool := aeqb c " "%char || is_digit c.

(* the backslash continuation of a preprocessor directive *)
Fixpoint cpp_loop (start : nat) (k : nat) (acc : text) (l : text) (st : rst) : option ritem * rst :=
  match k with
  | 0 => (None, set_err st)
  | S k' =>
      if ends_with_char "\"%char (rstrip l) then
        match get_single_line st with
        | (Some l', st') => cpp_loop start k' (acc ++ removelast (rstrip l)) l' st'
        | (None, st') => (None, set_err st')        (* None.rstrip() -> AttributeError *)
        end
      else match strip (acc ++ l) with
           | [] => (None, set_err st)
           | t => (Some (RCpp t start (r_linecount st)), st)
           end
  end.

(* get_source_item *)
Definition get_source_item (s : rst) : option ritem * rst :=
  let fuel := S (S (length (r_src s) + length (r_filo s))) in
  match get_single_line s with
  | (None, s1) => (None, s1)
  | (Some line, s1) =>
      let start := r_linecount s1 in
      if (match line with [] => false | _ => true end) && starts_with ["#"%char] (lstrip line) then
        (* preprocessor directive, with backslash continuation *)
        cpp_loop start fuel [] line s1
      else if r_free s1 then
        let '(line1, had_omp) := if r_omp s1 then omp_free_init line else (line, false) in
        free_item fuel line1 had_omp start s1
      else if is_fix_comment line then (Some (RComment line start start false), s1)
      else
        (* columns 1-5 must hold blanks or digits *)
        let bad := fun i => match nth_error line i with Some c => negb (space_or_digit c) | None => false end in
        if bad 0 then (Some (RComment line start start false), s1)     (* non-standard comment line *)
        else
          let nbad := length (filter bad [1; 2; 3; 4]) in
          if 2 <=? nbad then (None, set_err s1)                         (* SyntaxErrorLine: not modelled *)
          else if Nat.eqb nbad 1 then free_item fuel line false start (set_free s1)   (* switch to free form *)
          else
            let lab := label_chars (firstn 5 line) in
            let label := match lab with [] => None | _ => Some (nat_of_digits lab) end in
            let '(name, rest) := extract_construct_name (skipn 6 line) in
            let body := match name with Some _ => rest | None => skipn 6 line end in
            if is_blank body then
              match name with
              | Some _ => (None, set_err s1)
              | None => (Some (RComment [] start (r_linecount s1) false), s1)
              end
            else
              let '(nl, q, cm) := handle_inline_comment body start None in
              let s2 := push_opt cm s1 in
              let '(txt, endl, s3) := fix_loop fuel nl q (r_linecount s1) s2 in
              mk_line txt label name start endl s3
  end.

(* ------------------------------------------------------------------ ';' splitting *)
Definition mask_of_qsegs (l : list qseg) : list bool :=
  flat_map (fun sg => match sg with Plain t => repeat false (length t) | Quoted t => repeat true (length t) end) l.
Definition mask_of_psegs (l : list pseg) : list bool :=
  flat_map (fun sg => match sg with Flat t => repeat false (length t) | Paren t => repeat true (length t) end) l.

Fixpoint split_at_semis (t : text) (mq mp : list bool) (cur : text) : list text :=
  match t with
  | [] => [rev cur]
  | c :: r =>
      let m1 := match mq with b :: _ => b | [] => false end in
      let m2 := match mp with b :: _ => b | [] => false end in
      if aeqb c ";"%char && negb m1 && negb m2 then rev cur :: split_at_semis r (tl mq) (tl mp) []
      else split_at_semis r (tl mq) (tl mp) (c :: cur)
  end.
Definition semi_split (t : text) : list text :=
  split_at_semis t (mask_of_qsegs (fst (splitquote t None false))) (mask_of_psegs (splitparen t)) [].

(* _next: one item from the FIFO or the source, skipping ignored comments, splitting at ';' *)
Fixpoint next_raw (fuel : nat) (s : rst) : option ritem * rst :=
  match fuel with
  | 0 => (None, s)
  | S f =>
      let '(o, s1) := match r_fifo s with
                      | it :: r => (Some it, upd_fifo r s)
                      | [] => get_source_item s
                      end in
      match o with
      | None => (None, s1)
      | Some (RComment _ _ _ _ as c) => if r_ign s1 then next_raw f s1 else (Some c, s1)
      | Some it => (Some it, s1)
      end
  end.

(* the other statements of a ';'-separated line: None when one of them is empty after its label/name *)
Fixpoint other_parts (ps : list text) (a b : nat) : option (list ritem) :=
  match ps with
  | [] => Some []
  | p :: r =>
      match strip p with
      | [] => other_parts r a b
      | q =>
          let '(lab, q1) := extract_label q in
          let '(nm, q2) := extract_construct_name q1 in
          match strip q2, other_parts r a b with
          | [], _ => None
          | _, None => None
          | t, Some rest => Some (RLine t lab nm a b :: rest)
          end
      end
  end.

Definition split_item (t : text) (lab : option N) (nm : option text) (a b : nat) (orig : ritem) (s : rst)
  : option ritem * rst :=
  match semi_split t with
  | first :: ((_ :: _) as rest) =>
      match strip first, other_parts rest a b with
      | [], _ => (None, set_err s)
      | _, None => (None, set_err s)
      | f1, Some others => (Some (RLine f1 lab nm a b), upd_fifo (others ++ r_fifo s) s)
      end
  | _ => (Some orig, s)
  end.

(* FortranReaderBase._next / next without INCLUDE handling *)
Definition next_item (s : rst) : option ritem * rst :=
  let fuel := S (S (S (length (r_src s) + length (r_filo s) + length (r_fifo s)))) in
  match next_raw fuel s with
  | (Some (RLine t lab nm a b as it), s1) => split_item t lab nm a b it s1
  | r => r          (* comments and preprocessor directives are handed out whole (a ';' in a directive is text) *)
  end.

Definition get_item (s : rst) : option ritem * rst := next_item s.
Definition put_item (it : ritem) (s : rst) : rst := upd_fifo (it :: r_fifo s) s.

Fixpoint read_all (fuel : nat) (s : rst) : list ritem :=
  match fuel with
  | 0 => []
  | S f => match next_item s with
           | (Some it, s1) => it :: read_all f s1
           | (None, _) => []
           end
  end.
Definition read_source (lines : list text) (free omp ign : bool) : list ritem :=
  read_all (S (S (length (concat lines) + 2 * length lines))) (rst0 lines free omp ign).
