(* Character-level model of fparser.common.splitline: _next_quote, splitquote, splitparen
   (src/fparser/common/splitline.py:247-414).  Text is a list of characters.  No proofs here. *)
From Coq Require Import List Bool Arith Ascii.
Import ListNotations.

Definition text := list ascii.
Definition squote : ascii := "'"%char.
Definition dquote : ascii := """"%char.
Definition aeqb (a b : ascii) : bool := Ascii.eqb a b.

Definition is_target (q : option ascii) (c : ascii) : bool :=
  match q with Some x => aeqb c x | None => aeqb c squote || aeqb c dquote end.

(* _next_quote(line[start:], quote_char): index of the first (un-doubled, when inside a literal)
   quotation character, relative to the start of l *)
Fixpoint next_quote (q : option ascii) (l : text) : option nat :=
  match l with
  | [] => None
  | c :: r =>
      if is_target q c then
        match q, r with
        | Some _, c2 :: r2 => if aeqb c2 c then option_map (fun n => S (S n)) (next_quote q r2) else Some 0
        | _, _ => Some 0
        end
      else option_map S (next_quote q r)
  end.

Inductive qseg := Plain (s : text) | Quoted (s : text).   (* str / splitline.String *)
Definition qtext (s : qseg) : text := match s with Plain t => t | Quoted t => t end.
Definition qflat (l : list qseg) : text := flat_map qtext l.

Definition lower_char (c : ascii) : ascii :=
  let n := nat_of_ascii c in if (65 <=? n) && (n <=? 90) then ascii_of_nat (n + 32) else c.
Definition lower (t : text) : text := map lower_char t.

(* the while loop of splitquote, outside a literal *)
Fixpoint sq_loop (fuel : nat) (low : bool) (l : text) : list qseg * option ascii :=
  match fuel with
  | 0 => ([], None)
  | S f =>
      match l with
      | [] => ([], None)
      | _ =>
          let lw := fun t => if low then lower t else t in
          match next_quote None l with
          | None => ([Plain (lw l)], None)
          | Some st =>
              let pre := firstn st l in
              let rest := skipn st l in
              let head := match st with 0 => [] | _ => [Plain (lw pre)] end in
              match rest with
              | [] => ([Plain (lw l)], None)
              | qc :: body =>
                  match next_quote (Some qc) body with
                  | None => (head ++ [Quoted rest], Some qc)
                  | Some e =>
                      let lit := qc :: firstn (S e) body in
                      let tail := skipn (S e) body in
                      let '(segs, o) := sq_loop f low tail in
                      (head ++ Quoted lit :: segs, o)
                  end
              end
          end
      end
  end.

(* splitquote(line, stopchar, lower) *)
Definition splitquote (l : text) (stop : option ascii) (low : bool) : list qseg * option ascii :=
  match stop with
  | Some q =>
      match next_quote (Some q) l with
      | Some e => let '(segs, o) := sq_loop (S (length l)) low (skipn (S e) l) in
                  (Quoted (firstn (S e) l) :: segs, o)
      | None => ([Quoted l], Some q)
      end
  | None => sq_loop (S (length l)) low l
  end.

(* ------------------------------------------------------------------ splitparen *)
Inductive pseg := Flat (s : text) | Paren (s : text).     (* str / ParenString *)
Definition ptext (s : pseg) : text := match s with Flat t => t | Paren t => t end.
Definition pflat (l : list pseg) : text := flat_map ptext l.

Definition closer_of (c : ascii) : option ascii :=
  if aeqb c "("%char then Some ")"%char else if aeqb c "["%char then Some "]"%char else None.

Record pst := mkPst {
  p_items : list pseg;    (* finished parts, in order *)
  p_cur : text;           (* characters of the current part, reversed *)
  p_bs : bool;            (* odd number of consecutive backslashes *)
  p_q : option ascii;     (* inside quotes *)
  p_stack : list ascii    (* required closing brackets *)
}.

Definition pstep (s : pst) (c : ascii) : pst :=
  let cur' := c :: p_cur s in
  if aeqb c "\"%char then mkPst (p_items s) cur' (negb (p_bs s)) (p_q s) (p_stack s)
  else if p_bs s then mkPst (p_items s) cur' false (p_q s) (p_stack s)
  else match p_q s with
       | Some q => mkPst (p_items s) cur' false (if aeqb c q then None else Some q) (p_stack s)
       | None =>
           if aeqb c squote || aeqb c dquote then mkPst (p_items s) cur' false (Some c) (p_stack s)
           else match closer_of c with
                | Some cl =>
                    match p_stack s with
                    | [] => (* new part starts: the text so far is a finished part (possibly empty) *)
                        mkPst (p_items s ++ [Flat (rev (p_cur s))]) [c] false None [cl]
                    | st => mkPst (p_items s) cur' false None (cl :: st)
                    end
                | None =>
                    match p_stack s with
                    | top :: st' =>
                        if aeqb c top then
                          match st' with
                          | [] => mkPst (p_items s ++ [Paren (rev cur')]) [] false None []
                          | _ => mkPst (p_items s) cur' false None st'
                          end
                        else mkPst (p_items s) cur' false None (p_stack s)
                    | [] => mkPst (p_items s) cur' false None []
                    end
                end
       end.

Definition splitparen (l : text) : list pseg :=
  let s := fold_left pstep l (mkPst [] [] false None []) in
  match p_cur s with [] => p_items s | cur => p_items s ++ [Flat (rev cur)] end.
