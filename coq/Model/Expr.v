(* Token-level model of fparser2's expression matching:
   BinaryOpBase.match / UnaryOpBase.match (src/fparser/two/utils.py:1083-1208) driven by the rule
   chain Expr -> Level_5_Expr -> ... -> Level_1_Expr -> Primary (Fortran2003.py:5724-6145), with
   Base.__new__'s "try match, else the subclasses" dispatch.  A token is an operator, an operand
   chunk that contains no operator at nesting depth 0 (name, literal, call, array element, ...),
   a dotted operand (.TRUE. / .FALSE., which the defined-operator pattern also matches) or a
   parenthesised group (hidden behind a placeholder by string_replace_map while the enclosing
   level is split).  The lexical layer (regular expressions with look-around, exponent letters,
   blanks) is NOT in this model.  No proofs in this file. *)
From Coq Require Import List Bool Arith.
Import ListNotations.

Inductive opc := OPow | OMul | OAdd | OCat | ORel | ONot | OAnd | OOr | OEqv | ODef.

Inductive tok :=
| TAtom (n : nat)
| TDot (n : nat)
| TPar (body : list tok)
| TOp (c : opc) (dot : bool) (sp : nat).

Inductive ex :=
| EAtom (n : nat)
| EDot (n : nat)
| EPar (e : ex)
| EUn (c : opc) (dot : bool) (sp : nat) (e : ex)
| EBin (c : opc) (dot : bool) (sp : nat) (l r : ex).

Definition opc_eqb (a b : opc) : bool :=
  match a, b with
  | OPow, OPow | OMul, OMul | OAdd, OAdd | OCat, OCat | ORel, ORel | ONot, ONot | OAnd, OAnd
  | OOr, OOr | OEqv, OEqv | ODef, ODef => true
  | _, _ => false
  end.

(* one rule class of the chain *)
Inductive lkind :=
| KBin (lhs : nat) (c : opc) (rhs : nat) (right : bool) (excl : bool)   (* BinaryOpBase.match(lhs, op, rhs, right, exclude) *)
| KUn (c : opc) (rhs : nat)                                            (* UnaryOpBase.match(op, rhs) *)
| KPrim.                                                               (* Primary: operand or Parenthesis *)
Record lspec := mkL { lk : lkind; lnext : option nat }.                (* lnext = the (single) entry of subclass_names *)

Definition is_opc (c : opc) (t : tok) : bool := match t with TOp c' _ _ => opc_eqb c c' | _ => false end.
Definition is_op (t : tok) : bool := match t with TOp _ _ _ => true | _ => false end.
(* matched by the defined-operator pattern  [.]\s*[A-Z]+\s*[.] *)
Definition dotted (t : tok) : bool := match t with TOp _ d _ => d | TDot _ => true | _ => false end.
Definition is_def (t : tok) : bool := match t with TOp ODef _ _ => true | _ => false end.
Definition tclass (t : tok) : opc := match t with TOp c _ _ => c | _ => ODef end.
Definition tdot (t : tok) : bool := match t with TOp _ d _ => d | _ => true end.
Definition tsp (t : tok) : nat := match t with TOp _ _ s => s | TDot n => n | TAtom n => n | TPar _ => 0 end.
Definition nil {A} (l : list A) : bool := match l with [] => true | _ => false end.

(* Pattern.rsplit: split at the right-most token satisfying p *)
Fixpoint rsplit (p : tok -> bool) (ts : list tok) : option (list tok * tok * list tok) :=
  match ts with
  | [] => None
  | t :: r => match rsplit p r with
              | Some (a, o, b) => Some (t :: a, o, b)
              | None => if p t then Some ([], t, r) else None
              end
  end.
(* Pattern.lsplit: at the left-most *)
Fixpoint lsplit (p : tok -> bool) (ts : list tok) : option (list tok * tok * list tok) :=
  match ts with
  | [] => None
  | t :: r => if p t then Some ([], t, r)
              else match lsplit p r with Some (a, o, b) => Some (t :: a, o, b) | None => None end
  end.

Section Parse.
Variable spec : nat -> lspec.

Fixpoint parse (fuel : nat) (k : nat) (ts : list tok) : option ex :=
  match fuel with
  | 0 => None
  | S f =>
    let next := match lnext (spec k) with Some k' => parse f k' ts | None => None end in
    match lk (spec k) with
    | KPrim =>
        match ts with
        | [TAtom n] => Some (EAtom n)
        | [TDot n] => Some (EDot n)
        | [TPar body] => match parse f 0 body with Some e => Some (EPar e) | None => next end
        | _ => next
        end
    | KUn c rhs =>
        match ts with
        | t :: rest =>
            (* the defined-unary-op pattern matches any dotted token at the start of the text *)
            if (match c with ODef => dotted t | _ => is_opc c t end) && negb (nil rest) then
              match parse f rhs rest with
              | Some e => Some (EUn c (tdot t) (tsp t) e)       (* a node of THIS rule class *)
              | None => next
              end
            else next
        | [] => next
        end
    | KBin lhs c rhs rgt excl =>
        let p := if excl then dotted else is_opc c in
        match (if rgt then rsplit p ts else lsplit p ts) with
        | Some (a, o, b) =>
            if nil a || nil b || (excl && negb (is_def o)) then next
            else match parse f lhs a, parse f rhs b with
                 | Some l, Some r => Some (EBin (tclass o) (tdot o) (tsp o) l r)
                 | _, _ => next
                 end
        | None => next
        end
    end
  end.
End Parse.

(* the rule chain of Fortran2003.py, by position: Expr = 0 ... Primary = 12 *)
Definition std_levels : list lspec := [
  mkL (KBin 0 ODef 1 true true) (Some 1);      (* Expr            *)
  mkL (KBin 1 OEqv 2 true false) (Some 2);     (* Level_5_Expr    *)
  mkL (KBin 2 OOr 3 true false) (Some 3);      (* Equiv_Operand   *)
  mkL (KBin 3 OAnd 4 true false) (Some 4);     (* Or_Operand      *)
  mkL (KUn ONot 5) (Some 5);                   (* And_Operand     *)
  mkL (KBin 6 ORel 6 true false) (Some 6);     (* Level_4_Expr    *)
  mkL (KBin 6 OCat 7 true false) (Some 7);     (* Level_3_Expr    *)
  mkL (KBin 7 OAdd 9 true false) (Some 8);     (* Level_2_Expr    *)
  mkL (KUn OAdd 9) (Some 9);                   (* Level_2_Unary_Expr *)
  mkL (KBin 9 OMul 10 true false) (Some 10);   (* Add_Operand     *)
  mkL (KBin 11 OPow 10 false false) (Some 11); (* Mult_Operand    *)
  mkL (KUn ODef 12) (Some 12);                 (* Level_1_Expr    *)
  mkL KPrim None                               (* Primary         *)
].
Definition spec_of (l : list lspec) (k : nat) : lspec := nth k l (mkL KPrim None).
Definition std_spec := spec_of std_levels.

(* rendering with the minimal parentheses: exactly the EPar nodes of the tree *)
Fixpoint render (e : ex) : list tok :=
  match e with
  | EAtom n => [TAtom n]
  | EDot n => [TDot n]
  | EPar e => [TPar (render e)]
  | EUn c d s e => TOp c d s :: render e
  | EBin c d s l r => render l ++ TOp c d s :: render r
  end.

(* the level (position in the chain) at which the standard's grammar derives the root of e *)
Definition lev (e : ex) : nat :=
  match e with
  | EBin ODef _ _ _ _ => 0 | EBin OEqv _ _ _ _ => 1 | EBin OOr _ _ _ _ => 2 | EBin OAnd _ _ _ _ => 3
  | EUn ONot _ _ _ => 4 | EBin ORel _ _ _ _ => 5 | EBin OCat _ _ _ _ => 6 | EBin OAdd _ _ _ _ => 7
  | EUn OAdd _ _ _ => 8 | EBin OMul _ _ _ _ => 9 | EBin OPow _ _ _ _ => 10 | EUn ODef _ _ _ => 11
  | EAtom _ | EDot _ | EPar _ => 12
  | EUn _ _ _ _ => 13 | EBin ONot _ _ _ _ => 13        (* not expressions of the standard *)
  end.

(* spelling: which operator classes are written .xxx. *)
Definition dot_ok (c : opc) (d : bool) : bool :=
  match c with
  | OPow | OMul | OAdd | OCat => negb d
  | ORel => true
  | ONot | OAnd | OOr | OEqv | ODef => d
  end.

Definition no_dotted (ts : list tok) : bool := forallb (fun t => negb (dotted t)) ts.

(* e is an expression of the standard's grammar (R702-R722) in which parentheses appear exactly
   where the tree has an EPar node: each operand is of the syntactic category the rule demands *)
Fixpoint conforming (e : ex) : bool :=
  match e with
  | EAtom _ | EDot _ => true
  | EPar e => conforming e
  | EUn c d _ x =>
      dot_ok c d && conforming x &&
      match c with ONot => 5 <=? lev x | OAdd => 9 <=? lev x | ODef => 12 <=? lev x | _ => false end
      && (lev x <=? 12)
  | EBin c d _ l r =>
      dot_ok c d && conforming l && conforming r && (lev l <=? 12) && (lev r <=? 12) &&
      match c with
      | ODef => (0 <=? lev l) && (1 <=? lev r)
      | OEqv => (1 <=? lev l) && (2 <=? lev r)
      | OOr => (2 <=? lev l) && (3 <=? lev r)
      | OAnd => (3 <=? lev l) && (4 <=? lev r)
      | ORel => (6 <=? lev l) && (6 <=? lev r)
      | OCat => (6 <=? lev l) && (7 <=? lev r)
      | OAdd => (7 <=? lev l) && (9 <=? lev r)
      | OMul => (9 <=? lev l) && (10 <=? lev r)
      | OPow => (11 <=? lev l) && (10 <=? lev r)
      | ONot => false
      end
  end.

(* side condition under which the implementation agrees with the standard (finding F1): the right
   operand of a defined binary operator shows no dotted token outside parentheses *)
Fixpoint defop_ok (e : ex) : bool :=
  match e with
  | EAtom _ | EDot _ => true
  | EPar e => defop_ok e
  | EUn _ _ _ x => defop_ok x
  | EBin c _ _ l r => defop_ok l && defop_ok r && match c with ODef => no_dotted (render r) | _ => true end
  end.

Fixpoint height (e : ex) : nat :=
  match e with
  | EAtom _ | EDot _ => 0
  | EPar e => S (height e)
  | EUn _ _ _ x => S (height x)
  | EBin _ _ _ l r => S (Nat.max (height l) (height r))
  end.
