(* Character-level helpers standing for the Python str methods and re fragments the reader uses.
   ASCII only (the generators stay inside ASCII); tabs are expanded by the harness before the model
   sees a line, as get_single_line does with expandtabs().  No proofs here. *)
From Coq Require Import List Bool Arith Ascii NArith.
From FV Require Import SplitLine.
Import ListNotations.

Definition ch (n : nat) : ascii := ascii_of_nat n.
Definition code (c : ascii) : nat := nat_of_ascii c.

(* str.isspace() / regex \s on ASCII *)
Definition is_space (c : ascii) : bool :=
  let n := code c in ((9 <=? n) && (n <=? 13)) || ((28 <=? n) && (n <=? 32)).
Definition is_digit (c : ascii) : bool := let n := code c in (48 <=? n) && (n <=? 57).
Definition is_alpha (c : ascii) : bool :=
  let n := code c in ((65 <=? n) && (n <=? 90)) || ((97 <=? n) && (n <=? 122)).
Definition is_word (c : ascii) : bool := is_alpha c || is_digit c || aeqb c "_"%char.   (* regex \w *)

Fixpoint lstrip (l : text) : text :=
  match l with c :: r => if is_space c then lstrip r else l | [] => [] end.
Definition rstrip (l : text) : text := rev (lstrip (rev l)).
Definition strip (l : text) : text := lstrip (rstrip l).
Definition is_blank (l : text) : bool := match lstrip l with [] => true | _ => false end.

Fixpoint find_char (c : ascii) (l : text) : option nat :=
  match l with
  | [] => None
  | x :: r => if aeqb x c then Some 0 else option_map S (find_char c r)
  end.
Definition rfind_char (c : ascii) (l : text) : option nat :=
  match find_char c (rev l) with Some k => Some (length l - 1 - k) | None => None end.
Definition mem_char (c : ascii) (l : text) : bool := existsb (aeqb c) l.

Fixpoint starts_with (p l : text) : bool :=
  match p, l with
  | [], _ => true
  | a :: p', b :: l' => aeqb a b && starts_with p' l'
  | _ :: _, [] => false
  end.
Definition ends_with_char (c : ascii) (l : text) : bool :=
  match rev l with x :: _ => aeqb x c | [] => false end.

Fixpoint text_eqb (a b : text) : bool :=
  match a, b with
  | [], [] => true
  | x :: a', y :: b' => aeqb x y && text_eqb a' b'
  | _, _ => false
  end.

Definition digit_val (c : ascii) : N := N.of_nat (code c - 48).
Definition nat_of_digits (l : text) : N := fold_left (fun acc c => (acc * 10 + digit_val c)%N) l 0%N.

Fixpoint take_while (f : ascii -> bool) (l : text) : text :=
  match l with c :: r => if f c then c :: take_while f r else [] | [] => [] end.
Fixpoint drop_while (f : ascii -> bool) (l : text) : text :=
  match l with c :: r => if f c then drop_while f r else l | [] => [] end.

(* regex \b at position i of s: word-ness differs on the two sides *)
Definition boundary (s : text) (i : nat) : bool :=
  let a := match i with 0 => false | S j => match nth_error s j with Some c => is_word c | None => false end end in
  let b := match nth_error s i with Some c => is_word c | None => false end in
  negb (Bool.eqb a b).
(* the tail alternatives  (\b|(?=&)|\Z)  at position i *)
Definition tail_ok (s : text) (i : nat) : bool :=
  boundary s i || (match nth_error s i with Some c => aeqb c "&"%char | None => false end)
  || (length s <=? i).

(* try k = hi, hi-1, ..., lo : first k with f k *)
Fixpoint search_down (f : nat -> bool) (hi : nat) (n : nat) : option nat :=
  match n with
  | 0 => None
  | S n' => if f hi then Some hi else match hi with 0 => None | S h => search_down f h n' end
  end.

(* _LABEL_RE = \s*(?P<label>\d+)\s*(\b|(?=&)|\Z) ; returns (label, rest) with rest = line[end:].lstrip() *)
Definition extract_label (s : text) : option N * text :=
  let d0 := length s - length (lstrip s) in
  let digits := take_while is_digit (lstrip s) in
  let d1 := d0 + length digits in
  match digits with
  | [] => (None, s)
  | _ =>
      (* e = end of the digit group (back-tracks from d1 down to d0+1); for each e the trailing \s*
         back-tracks from its greedy end j down to e *)
      let try_e := fun e =>
        let j := e + (length (skipn e s) - length (lstrip (skipn e s))) in
        search_down (fun k => tail_ok s k) j (S (j - e)) in
      let fix go (e n : nat) : option (nat * nat) :=
        match n with
        | 0 => None
        | S n' => match try_e e with
                  | Some k => Some (e, k)
                  | None => match e with 0 => None | S e' => if e' <=? d0 then None else go e' n' end
                  end
        end in
      match go d1 (S (d1 - d0)) with
      | Some (e, k) => (Some (nat_of_digits (firstn (e - d0) (skipn d0 s))), lstrip (skipn k s))
      | None => (None, s)
      end
  end.

(* _CONSTRUCT_NAME_RE = \s*(?P<name>\w+)\s*:\s*(\b|(?=&)|\Z) *)
Definition extract_construct_name (s : text) : option text * text :=
  let w0 := length s - length (lstrip s) in
  let word := take_while is_word (lstrip s) in
  let w1 := w0 + length word in
  match word with
  | [] => (None, s)
  | _ =>
      let try_e := fun e =>
        (* \s* after the name, greedy end j, back-tracking to e; needs ':' at k *)
        let j := e + (length (skipn e s) - length (lstrip (skipn e s))) in
        let colon_at := fun k => match nth_error s k with Some c => aeqb c ":"%char | None => false end in
        let after := fun k =>
          (* \s* after ':' greedy end m, back-tracking to k+1 ; tail_ok at t *)
          let m := S k + (length (skipn (S k) s) - length (lstrip (skipn (S k) s))) in
          search_down (fun t => tail_ok s t) m (S (m - S k)) in
        let fix gok (k n : nat) : option nat :=
          match n with
          | 0 => None
          | S n' => match (if colon_at k then after k else None) with
                    | Some t => Some t
                    | None => match k with 0 => None | S k' => if k' <? e then None else gok k' n' end
                    end
          end in
        gok j (S (j - e)) in
      let fix go (e n : nat) : option (nat * nat) :=
        match n with
        | 0 => None
        | S n' => match try_e e with
                  | Some t => Some (e, t)
                  | None => match e with 0 => None | S e' => if e' <=? w0 then None else go e' n' end
                  end
        end in
      match go w1 (S (w1 - w0)) with
      | Some (e, t) => (Some (firstn (e - w0) (skipn w0 s)), lstrip (skipn t s))
      | None => (None, s)
      end
  end.
