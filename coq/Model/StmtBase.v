(* Statement-level base matchers of fparser2 (utils.py) that many statement classes delegate to with
   constant arguments: EndStmtBase.match / tostr (END [type [name]]) and WORDClsBase.match / tostr
   (KEYWORD [[::] rest]) for a string keyword.  What the sub-rule makes of the remainder (the Name class
   for END statements is modelled: \A[A-Za-z][\w$]*\Z after strip(); the class argument of WORDClsBase is
   not) stays outside the model: the result carries the remainder text.
   ASCII only (str.upper(), str.lstrip(), regex \w on ASCII).  No proofs here. *)
From Coq Require Import List Bool Arith Ascii NArith.
From FV Require Import SplitLine Text Reader.
Import ListNotations.

Definition upper (t : text) : text := map upper_char t.
Definition drop_blanks (t : text) : text := filter (fun c => negb (aeqb c " "%char)) t.   (* .replace(" ", "") *)
Definition is_name_char (c : ascii) : bool := is_word c || aeqb c "$"%char.
Definition is_name (t : text) : bool :=
  match t with c :: r => is_alpha c && forallb is_name_char r | [] => false end.

(* ---- EndStmtBase.match(stmt_type, stmt_name, string, require_stmt_type) *)
Inductive endres :=
| ENoMatch                (* returns None *)
| EBare                   (* (None, None) *)
| EType                   (* (stmt_type, None) *)
| ENamed (n : text)       (* (stmt_type, Name(n)) *)
| ENameFail.              (* the name class raises NoMatchError *)

Definition end_kw : text := ["E"; "N"; "D"]%char.

Definition end_match (stype : text) (named req : bool) (s : text) : endres :=
  if negb (text_eqb (upper (firstn 3 s)) end_kw) then ENoMatch else
  let line := lstrip (skipn 3 s) in
  let start := upper (firstn (length stype) line) in
  match start with
  | [] => if req then ENoMatch else EBare
  | _ =>
      if negb (text_eqb (drop_blanks start) (drop_blanks stype)) then ENoMatch else
      let line2 := lstrip (skipn (length stype) line) in
      match line2 with
      | [] => EType
      | _ => if named then (if is_name (strip line2) then ENamed (strip line2) else ENameFail) else ENoMatch
      end
  end.

(* EndStmtBase.tostr of the matched tuple *)
Definition end_tostr (stype : text) (r : endres) : text :=
  match r with
  | ENamed n => end_kw ++ " "%char :: stype ++ " "%char :: n
  | EType => end_kw ++ " "%char :: stype
  | _ => end_kw
  end.

(* ---- WORDClsBase.match(keyword : str, cls, string, colons, require_cls) *)
Inductive wordres :=
| WNoMatch                (* returns None *)
| WBare                   (* (keyword, None) *)
| WRest (rest : text).    (* (keyword, cls(rest)) -- cls is outside the model; has_cls = false: returns None *)

Definition is_alnum_us (c : ascii) : bool := is_alpha c || is_digit c || aeqb c "_"%char.

Definition word_match (kw : text) (has_cls colons req : bool) (s : text) : wordres :=
  let line := lstrip s in
  if negb (text_eqb (upper (firstn (length kw) line)) (upper kw)) then WNoMatch else
  match skipn (length kw) line with
  | [] => if req then WNoMatch else WBare
  | (c :: _) as l1 =>
      if is_alnum_us c then WNoMatch else
      let l2 := lstrip l1 in
      let hc := colons && starts_with [":"; ":"]%char l2 in
      let l3 := if hc then lstrip (skipn 2 l2) else l2 in
      match l3 with
      | [] => if hc || req then WNoMatch else WBare
      | _ => if has_cls then WRest l3 else WNoMatch
      end
  end.

(* WORDClsBase.tostr / tostr_a with the text of the second item *)
Definition word_tostr (kw : text) (with_colons : bool) (r : wordres) : text :=
  match r with
  | WRest rest =>
      if with_colons then kw ++ [" "; ":"; ":"; " "]%char ++ rest
      else match rest with
           | c :: _ => if aeqb c "("%char || aeqb c "*"%char then kw ++ rest else kw ++ " "%char :: rest
           | [] => kw ++ [" "%char]
           end
  | _ => kw
  end.

(* ---- STRINGBase.match(pattern, string) / StringBase.match(pattern, string) for a string or a list of strings:
        the (upper-cased, for STRINGBase) text is one of the patterns; the result is that text *)
Definition strings_match (pats : list text) (fold : bool) (s : text) : option text :=
  let u := if fold then upper s else s in
  if existsb (text_eqb u) pats then Some u else None.

(* ---- BracketBase.match(brackets, cls, string, require_cls) *)
Inductive bres :=
| BNo                    (* returns None *)
| BEmpty                 (* (left, None, right) *)
| BIn (inner : text).    (* (left, cls(inner), right) -- cls is outside the model *)

Definition ends_with (p l : text) : bool := starts_with (rev p) (rev l).
Definition bracket_halves (brackets : text) : text * text :=
  let bn := drop_blanks brackets in
  let n := Nat.div2 (length bn) in
  (firstn n bn, skipn (length bn - n) bn).

Definition bracket_match (brackets : text) (has_cls req : bool) (s : text) : bres :=
  if negb has_cls && req then BNo else
  match s with
  | [] => BNo
  | _ =>
      let ss := strip s in
      let bn := drop_blanks brackets in
      match bn with
      | [] => BNo
      | _ =>
          if Nat.odd (length bn) then BNo else
          let n := Nat.div2 (length bn) in
          let '(lft, rgt) := bracket_halves brackets in
          if length ss <? n * 2 then BNo else
          if negb (starts_with lft ss && ends_with rgt ss) then BNo else
          let line := lstrip (firstn (length ss - n - n) (skipn n ss)) in
          match line with
          | [] => if has_cls && req then BNo else BEmpty
          | _ => if has_cls then BIn line else BNo
          end
      end
  end.

Definition bracket_tostr (brackets : text) (r : bres) : text :=
  let '(lft, rgt) := bracket_halves brackets in
  match r with
  | BIn inner => lft ++ inner ++ rgt
  | _ => lft ++ rgt
  end.

(* ---- Name.match(string) = StringBase.match(pattern.abs_name, string.strip()) with abs_name = \A[A-Z][\w$]*\Z, re.I;
        Label.match(string) = StringBase.match(pattern.abs_label, string) with abs_label = \A\d{1,5}\Z *)
Definition name_match (s : text) : option text := if is_name (strip s) then Some (strip s) else None.
Definition is_label (t : text) : bool := (1 <=? length t) && (length t <=? 5) && forallb is_digit t.
Definition label_match (s : text) : option text := if is_label s then Some s else None.
