(* Model of the key bookkeeping of string_replace_map / StringReplaceDict
   (src/fparser/common/splitline.py:156-237, 91-127): a line, already cut into plain text and
   delimited groups (character literals by splitquote, parenthesised groups by splitparen -- both
   modelled and proved lossless in SplitLine.v), has every group replaced by a key; identical
   contents share a key through a reverse map; the returned map restores the text.
   [by_item] selects the variant of the reverse-map look-up: false = by the content that is stored
   (the code after commit c40fb6f), true = by the item with its delimiters (the code before it).
   No proofs in this file. *)
From Coq Require Import List Bool Arith Ascii.
Import ListNotations.

Definition text := list ascii.
Fixpoint teqb (a b : text) : bool :=
  match a, b with
  | [], [] => true
  | x :: r, y :: s => Ascii.eqb x y && teqb r s
  | _, _ => false
  end.

Inductive seg := SPlain (t : text) | SGroup (content : text).
Inductive rseg := RPlain (t : text) | RKey (k : nat).

Fixpoint rfind (c : text) (rev : list (text * nat)) : option nat :=
  match rev with
  | [] => None
  | (c', k) :: r => if teqb c' c then Some k else rfind c r
  end.
Fixpoint mfind (k : nat) (m : list (nat * text)) : option text :=
  match m with
  | [] => None
  | (k', c) :: r => if Nat.eqb k' k then Some c else mfind k r
  end.

Section RM.
Variable wrap : text -> text.       (* the group with its delimiters: "(" ++ c ++ ")" *)
Variable by_item : bool.

(* state: next index, reverse map (content -> key), map (key -> content) *)
Fixpoint replace (l : list seg) (n : nat) (rev : list (text * nat)) (m : list (nat * text))
  : list rseg * list (nat * text) :=
  match l with
  | [] => ([], m)
  | SPlain t :: r => let '(o, m') := replace r n rev m in (RPlain t :: o, m')
  | SGroup c :: r =>
      match rfind (if by_item then wrap c else c) rev with
      | Some k => let '(o, m') := replace r n rev m in (RKey k :: o, m')
      | None =>
          let k := S n in
          let '(o, m') := replace r k ((c, k) :: rev) ((k, c) :: m) in (RKey k :: o, m')
      end
  end.

Definition string_replace_map (l : list seg) : list rseg * list (nat * text) := replace l 0 [] [].

(* StringReplaceDict.__call__: every key occurrence is replaced by its entry *)
Definition restore (m : list (nat * text)) (o : list rseg) : option (list seg) :=
  fold_right (fun r acc =>
                match acc with
                | None => None
                | Some a => match r with
                            | RPlain t => Some (SPlain t :: a)
                            | RKey k => match mfind k m with Some c => Some (SGroup c :: a) | None => None end
                            end
                end) (Some []) o.
End RM.
