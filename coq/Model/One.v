(* Model of the block matcher of the legacy parser (fparser1):
   BeginStatement.fill / process_subitem (src/fparser/common/base_classes.py:841-962) and the
   label handling of Do.process_subitem (src/fparser/one/block_statements.py:1355-1364).
   Statement-level decisions (which class's regular expression matches a line and whether the
   statement object it builds is valid) are an oracle.  No proofs in this file. *)
From Coq Require Import List Bool Arith NArith.
Import ListNotations.

Record oitem := mkOItem { oid : nat; olabel : option N }.

(* a block being filled: the item of its start statement identifies the instance; a DO block carries its end label *)
Record oblock := mkOBlock { bstart : nat; bdo : bool; bendlabel : option N }.

Inductive cres :=
| CNone                                         (* no class matches: handle_unknown_item_and_raise *)
| CStmt (c : nat) (ignore : bool)               (* an ordinary statement (stmt.ignore: not kept) *)
| CBegin (c : nat) (isdo : bool) (endlabel : option N).   (* a BeginStatement: its constructor fills the block *)

Inductive onode :=
| OStmt (c : nat) (i : oitem)
| OEnd (i : oitem)
| OBlock (c : nat) (i : oitem) (kids : list onode).

Inductive ores := OOk (content : list onode) (ended : bool) (rest : list oitem) | OError (i : oitem) | OFuel.

Definition oN_eq (a b : option N) : bool :=
  match a, b with Some x, Some y => N.eqb x y | _, _ => false end.

Section One.
Variable is_end : oblock -> oitem -> bool.          (* end_stmt_cls.match(line) and the EndStatement built is valid *)
Variable classify : oblock -> oitem -> cres.        (* first class of the block's class list that matches and is valid *)
(* the variant of Do.process_subitem: true = the shared terminal statement is ALSO kept by the inner loop
   (the behaviour before the repair) *)
Variable dup_shared : bool.

(* fill: content of block b from the stream; parent = the enclosing block (for the shared-label test) *)
Fixpoint fill (fuel : nat) (parent : option oblock) (b : oblock) (content : list onode) (s : list oitem) : ores :=
  match fuel with
  | 0 => OFuel
  | S f =>
    match s with
    | [] => OOk content false []                    (* "failed to find the end of block" warning *)
    | i :: r =>
      (* Do.process_subitem *)
      let hit := bdo b && oN_eq (olabel i) (bendlabel b) in
      let shared := hit && match parent with Some p => bdo p && oN_eq (olabel i) (bendlabel p) | None => false end in
      if shared && negb dup_shared then OOk content true (i :: r)       (* put_item(item); return True *)
      else
        let r0 := if shared then i :: r else r in                       (* put_item(item) before processing it *)
        (* BeginStatement.process_subitem *)
        if is_end b i then OOk (content ++ [OEnd i]) true r0
        else match classify b i with
             | CNone => OError i
             | CStmt c ign =>
                 let content' := if ign then content else content ++ [OStmt c i] in
                 if hit then OOk content' true r0 else fill f parent b content' r0
             | CBegin c isdo el =>
                 let nb := mkOBlock (oid i) isdo el in
                 match fill f (Some b) nb [] r0 with
                 | OOk sub _ r1 =>
                     let content' := content ++ [OBlock c i sub] in
                     if hit then OOk content' true r1 else fill f parent b content' r1
                 | e => e
                 end
             end
    end
  end.

End One.

(* tofortran order: the start statement, then the content *)
Fixpoint flatten (n : onode) : list oitem :=
  match n with
  | OStmt _ i => [i]
  | OEnd i => [i]
  | OBlock _ i kids => i :: (fix go (l : list onode) := match l with [] => [] | k :: r => flatten k ++ go r end) kids
  end.
Definition flattens (l : list onode) : list oitem := flat_map flatten l.

(* nesting shape used by the correspondence check: (depth, class, item) *)
Fixpoint oshape (d : nat) (n : onode) : list (nat * nat * nat) :=
  match n with
  | OStmt c i => [(d, c, oid i)]
  | OEnd i => [(d, 0, oid i)]
  | OBlock c i kids => (d, c, oid i) :: (fix go (l : list onode) := match l with [] => [] | k :: r => oshape (S d) k ++ go r end) kids
  end.
