(* Model of tree navigation at the level of one node's child slots:
     _set_parent(parent, items)   two/utils.py:377-395   (recursion into lists and tuples)
     walk(node_list, types)       two/utils.py:1990-2026 (descends into Base children, lists, tuples)
   and of the default copy protocol for parse-tree objects (copyreg.__newobj__ with
   cls.__getnewargs__(), then the state) on trees with parent links.
   The two Boolean flags say whether each function descends into LIST containers; the translator sets
   them by probing the real functions.  No proofs here. *)
From Coq Require Import List Bool Arith.
Import ListNotations.

Inductive val := VNode (id : nat) | VAtom | VNone | VTuple (l : list val) | VList (l : list val).

Section Nav.
Variables (sp_lists walk_lists : bool).

(* nodes whose .parent is assigned by _set_parent(p, [v]) *)
Fixpoint adopted (v : val) : list nat :=
  match v with
  | VNode n => [n]
  | VTuple l => (fix go (l : list val) := match l with [] => [] | x :: r => adopted x ++ go r end) l
  | VList l => if sp_lists then (fix go (l : list val) := match l with [] => [] | x :: r => adopted x ++ go r end) l else []
  | _ => []
  end.
(* nodes that walk() reaches from child slot v without passing through another node *)
Fixpoint reached (v : val) : list nat :=
  match v with
  | VNode n => [n]
  | VTuple l => (fix go (l : list val) := match l with [] => [] | x :: r => reached x ++ go r end) l
  | VList l => if walk_lists then (fix go (l : list val) := match l with [] => [] | x :: r => reached x ++ go r end) l else []
  | _ => []
  end.
End Nav.

Definition nav_consistent (sp_lists walk_lists : bool) : bool := Bool.eqb sp_lists walk_lists && sp_lists.

(* ---- default deep copy of a tree with parent links: every node is re-created by
        copyreg.__newobj__(cls, *cls.__getnewargs__(x)) and its state copied; the memo makes the
        child's parent link point to the NEW parent *)
Inductive ptree := PNode (id : nat) (c : nat) (parent : option nat) (kids : list ptree).
Definition pid (t : ptree) : nat := match t with PNode i _ _ _ => i end.

Fixpoint copy_tree (next : nat) (newparent : option nat) (t : ptree) : ptree * nat :=
  match t with
  | PNode _ c _ kids =>
      let me := next in
      let '(kids', nxt) :=
        (fix go (l : list ptree) (n : nat) : list ptree * nat :=
           match l with
           | [] => ([], n)
           | k :: r => let '(k', n1) := copy_tree n (Some me) k in
                       let '(r', n2) := go r n1 in (k' :: r', n2)
           end) kids (S next) in
      (PNode me c newparent kids', nxt)
  end.

Fixpoint pshape (t : ptree) : list nat :=
  match t with PNode _ c _ kids => c :: 7 :: (fix go (l : list ptree) := match l with [] => [] | k :: r => pshape k ++ go r end) kids ++ [8] end.
Fixpoint pids (t : ptree) : list nat :=
  match t with PNode i _ _ kids => i :: (fix go (l : list ptree) := match l with [] => [] | k :: r => pids k ++ go r end) kids end.
(* parent links agree with the nesting *)
Fixpoint pwf (expected : option nat) (t : ptree) : bool :=
  match t with
  | PNode i _ p kids =>
      (match p, expected with Some a, Some b => Nat.eqb a b | None, None => true | _, _ => false end)
      && (fix go (l : list ptree) := match l with [] => true | k :: r => pwf (Some i) k && go r end) kids
  end.
