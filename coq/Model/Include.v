(* Item-level model of INCLUDE resolution and of put_item delegation (FortranReaderBase.next /
   put_item, common/readfortran.py:816-898).  Items are opaque; an INCLUDE line is an item carrying a
   file name; the file system is a function from names to the item list of the file (the first
   matching directory of include_dirs has already been chosen: see first_dir).  A reader is its
   FIFO and its unread items; the nest of include readers is a stack, innermost first.  No proofs. *)
From Coq Require Import List Bool Arith.
Import ListNotations.

Inductive aitem := AStmt (n : nat) | AInc (f : nat).
Record ardr := mkArdr { a_fifo : list aitem; a_src : list aitem }.
Definition fsys := nat -> option (list aitem).

(* _next of one reader: FIFO first, then the source *)
Definition own_next (r : ardr) : option aitem * ardr :=
  match a_fifo r with
  | it :: f => (Some it, mkArdr f (a_src r))
  | [] => match a_src r with
          | it :: s => (Some it, mkArdr [] s)
          | [] => (None, r)
          end
  end.

(* next(): stack head = innermost reader (self.reader ... .reader) *)
Fixpoint anext (fuel : nat) (fs : fsys) (st : list ardr) : option aitem * list ardr :=
  match fuel with
  | 0 => (None, st)
  | S k =>
      match st with
      | [] => (None, [])
      | r :: outer =>
          match own_next r with
          | (None, _) =>
              (* StopIteration: an included file is exhausted -> its reader is dropped *)
              match outer with
              | [] => (None, [r])
              | _ => anext k fs outer
              end
          | (Some (AInc f), r') =>
              match fs f with
              | Some items => anext k fs (mkArdr [] items :: r' :: outer)    (* enter the file *)
              | None => (Some (AInc f), r' :: outer)                          (* kept as a statement *)
              end
          | (Some it, r') => (Some it, r' :: outer)
          end
      end
  end.

(* put_item: the FIFO of the innermost reader *)
Definition aput (it : aitem) (st : list ardr) : list ardr :=
  match st with
  | r :: outer => mkArdr (it :: a_fifo r) (a_src r) :: outer
  | [] => []
  end.

Fixpoint aread (fuel : nat) (fs : fsys) (st : list ardr) : list aitem :=
  match fuel with
  | 0 => []
  | S k => match anext (S k) fs st with
           | (Some it, st') => it :: aread k fs st'
           | (None, _) => []
           end
  end.

(* textual inlining of the include files, to nesting depth d *)
Fixpoint expand (d : nat) (fs : fsys) (items : list aitem) : list aitem :=
  match d with
  | 0 => items
  | S d' => flat_map (fun it => match it with
                               | AInc f => match fs f with Some l => expand d' fs l | None => [AInc f] end
                               | a => [a]
                               end) items
  end.

(* include_dirs search: the first directory that has the file wins *)
Fixpoint first_dir (dirs : list (nat -> option (list aitem))) (f : nat) : option (list aitem) :=
  match dirs with
  | [] => None
  | d :: r => match d f with Some l => Some l | None => first_dir r f end
  end.
