(* Model of fparser.two.symbol_table.SymbolTables (the global SYMBOL_TABLES object):
   enter_scope / exit_scope / remove / clear, src/fparser/two/symbol_table.py:49-233.
   Only the nesting structure of the tables is modelled (names and children); the symbols
   stored inside a table are statement-level (leaf oracle).  No proofs in this file. *)
From Coq Require Import List Bool NArith.
Import ListNotations.

Definition name := N.   (* interned, lower-cased identifier *)

Inductive stab := STab (n : name) (kids : list stab).
Definition sname (t : stab) : name := match t with STab n _ => n end.
Definition skids (t : stab) : list stab := match t with STab _ k => k end.

(* cur = path of names from a top-level table down to the current scope; [] = no current scope *)
Record scopes := mkScopes { tops : list stab; cur : list name }.
Definition scopes0 : scopes := mkScopes [] [].

Definition has_name (n : name) (l : list stab) : bool := existsb (fun t => N.eqb (sname t) n) l.

(* apply f to the LAST table named n in l (the table most recently appended under that name) *)
Fixpoint upd_last (n : name) (f : stab -> stab) (l : list stab) : list stab :=
  match l with
  | [] => []
  | t :: r => if has_name n r then t :: upd_last n f r
              else if N.eqb (sname t) n then f t :: r else t :: r
  end.

(* remove the FIRST table named n (SymbolTable.del_child / del of the dict entry) *)
Fixpoint del_first (n : name) (l : list stab) : list stab :=
  match l with
  | [] => []
  | t :: r => if N.eqb (sname t) n then r else t :: del_first n r
  end.

Fixpoint upd_path (p : list name) (f : list stab -> list stab) (l : list stab) : list stab :=
  match p with
  | [] => f l
  | n :: q => upd_last n (fun t => STab (sname t) (upd_path q f (skids t))) l
  end.

Fixpoint last_named (n : name) (l : list stab) : option stab :=
  match l with
  | [] => None
  | t :: r => match last_named n r with
              | Some u => Some u
              | None => if N.eqb (sname t) n then Some t else None
              end
  end.

Fixpoint kids_at (p : list name) (l : list stab) : list stab :=
  match p with
  | [] => l
  | n :: q => match last_named n l with Some t => kids_at q (skids t) | None => [] end
  end.

(* SymbolTables.enter_scope *)
Definition enter_scope (n : name) (sc : scopes) : scopes :=
  match cur sc with
  | [] => if has_name n (tops sc) then mkScopes (tops sc) [n]
          else mkScopes (tops sc ++ [STab n []]) [n]
  | p => mkScopes (upd_path p (fun k => k ++ [STab n []]) (tops sc)) (p ++ [n])
  end.

(* SymbolTables.exit_scope: None = SymbolTableError *)
Definition exit_scope (sc : scopes) : option scopes :=
  match cur sc with
  | [] => None
  | p => Some (mkScopes (tops sc) (removelast p))
  end.

(* SymbolTables.remove: None = SymbolTableError *)
Definition remove_scope (n : name) (sc : scopes) : option scopes :=
  let in_cur := match cur sc with [] => false | p => has_name n (kids_at p (tops sc)) end in
  if in_cur then Some (mkScopes (upd_path (cur sc) (del_first n) (tops sc)) (cur sc))
  else if negb (has_name n (tops sc)) then None
  else match cur sc with
       | r :: _ => if N.eqb r n then None else Some (mkScopes (del_first n (tops sc)) (cur sc))
       | [] => Some (mkScopes (del_first n (tops sc)) [])
       end.

Definition depth (sc : scopes) : nat := length (cur sc).
