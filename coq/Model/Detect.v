(* Model of fparser.common.sourceinfo.get_source_info_str (sourceinfo.py:227-270, default
   ignore_encoding=True): fixed/free detection from the text alone.  Lines are the result of
   str.splitlines(); tabs are outside the modelled domain.  No proofs here. *)
From Coq Require Import List Bool Arith Ascii.
From FV Require Import SplitLine Text.
Import ListNotations.

(* _FREE_FORMAT_START = [^c*!]\s*[^\s\d\t]  (IGNORECASE), matched at the start of line[:5] *)
Definition free_start (l5 : text) : bool :=
  match l5 with
  | c :: r =>
      negb (aeqb c "c"%char || aeqb c "C"%char || aeqb c "*"%char || aeqb c "!"%char)
      && match drop_while is_space r with
         | x :: _ => negb (is_space x) && negb (is_digit x)
         | [] => false
         end
  | [] => false
  end.

(* does this line make the detector answer "free"? *)
Definition line_says_free (l : text) : bool :=
  let line := rstrip l in
  match line with
  | [] => false
  | c :: _ => if aeqb c "!"%char then false
              else free_start (firstn 5 line) || ends_with_char "&"%char line
  end.

(* True = free form *)
Definition detect_free (lines : list text) : bool := existsb line_says_free lines.
