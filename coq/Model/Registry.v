(* Model of ParserFactory.create / _setup (two/parser.py:99-283): from the class declarations of the
   Fortran2003 module (and the Fortran2008 package) to Base.subclasses.  Names and class objects are
   numbers assigned by the translator (a 2003 class and its same-named 2008 override have the same
   name number and different class numbers).  No proofs here. *)
From Coq Require Import List Bool NArith.
Import ListNotations.

Record decl := mkDecl {
  d_member : N;          (* the name under which inspect.getmembers lists the class *)
  d_name : N;            (* cls.__name__ *)
  d_cls : N;             (* the class object *)
  d_is_rule : bool;      (* isinstance(cls, type(Base)) and issubclass(cls, Base) and not name.endswith("Base") *)
  d_has_match : bool;    (* hasattr(cls, "match") *)
  d_has_sub : bool;      (* hasattr(cls, "subclass_names") *)
  d_sub : list N;        (* cls.subclass_names *)
  d_use : list N         (* cls.use_names *)
}.

Definition memN (x : N) (l : list N) : bool := existsb (N.eqb x) l.

(* create("f2008"): the 2008 members, then the 2003 members whose (member) name is not among them *)
Definition merge08 (d03 d08 : list decl) : list decl :=
  d08 ++ filter (fun d => negb (memN (d_member d) (map d_member d08))) d03.

(* base_classes: a dict keyed by cls.__name__; a later entry with the same key replaces the value and
   keeps the position of the first *)
Fixpoint dict_set (k : N) (v : decl) (l : list (N * decl)) : list (N * decl) :=
  match l with
  | [] => [(k, v)]
  | (k', v') :: r => if N.eqb k' k then (k, v) :: r else (k', v') :: dict_set k v r
  end.
Fixpoint dict_get (k : N) (l : list (N * decl)) : option decl :=
  match l with [] => None | (k', v) :: r => if N.eqb k' k then Some v else dict_get k r end.
Definition base_classes (members : list decl) : list (N * decl) :=
  fold_left (fun acc d => if d_is_rule d then dict_set (d_name d) d acc else acc) members [].

Definition add_new (acc : list N) (xs : list N) : list N :=
  fold_left (fun a x => if memN x a then a else a ++ [x]) xs acc.

(* _closest_descendants_with_match *)
Fixpoint closest (fuel : nat) (bc : list (N * decl)) (nm : N) : list N :=
  match fuel with
  | 0 => []
  | S f =>
      match dict_get nm bc with
      | None => []
      | Some d => if d_has_match d then [nm]
                  else fold_left (fun bits n => add_new bits (closest f bc n)) (d_sub d) []
      end
  end.

(* Base.subclasses: for every rule class with a subclass_names list, in dict order *)
Definition setup (members : list decl) : list (N * list N) :=
  let bc := base_classes members in
  let fuel := S (length bc) in
  flat_map (fun kd =>
    let d := snd kd in
    if d_has_sub d then
      let opt := fold_left (fun acc n => add_new acc (closest fuel bc n)) (d_sub d) [] in
      [(fst kd, flat_map (fun n => match dict_get n bc with Some x => [d_cls x] | None => [] end) opt)]
    else []) bc.

(* ---- comparison of two registries (C17) *)
Definition alts (r : list (N * list N)) (k : N) : list N :=
  match find (fun kv => N.eqb (fst kv) k) r with Some kv => snd kv | None => [] end.
(* name of a class object, from the declarations *)
Definition name_of (ds : list decl) (c : N) : N :=
  match find (fun d => N.eqb (d_cls d) c) ds with Some d => d_name d | None => 0%N end.
(* names reachable from key k through the alternative lists of registry r (breadth first, n rounds) *)
Fixpoint reach_rounds (n : nat) (ds : list decl) (r : list (N * list N)) (seen frontier : list N) : list N :=
  match n with
  | 0 => seen
  | S m =>
      (* dispatch edges: the alternatives of k, and the rules its match() body hands sub-strings to (use_names) *)
      let uses := fun k => match find (fun d => N.eqb (d_name d) k && d_is_rule d) ds with
                           | Some d => d_use d | None => [] end in
      let next := fold_left (fun acc k => add_new (add_new acc (map (name_of ds) (alts r k))) (uses k)) frontier [] in
      let fresh := filter (fun x => negb (memN x seen)) next in
      match fresh with
      | [] => seen
      | _ => reach_rounds m ds r (seen ++ fresh) fresh
      end
  end.
Definition reach_names (ds : list decl) (r : list (N * list N)) (k : N) : list N :=
  reach_rounds 40 ds r [] [k].
(* every alternative (by name) that key k has under 2003 is an alternative of k under 2008, or is
   reachable from k through dispatch edges *)
Definition key_not_narrowed (ds : list decl) (r03 r08 : list (N * list N)) (k : N) : bool :=
  let direct := map (name_of ds) (alts r08 k) in
  forallb (fun c => let nm := name_of ds c in memN nm direct) (alts r03 k)
  || (let rn := reach_names ds r08 k in forallb (fun c => memN (name_of ds c) rn) (alts r03 k)).
Definition no_alternative_dropped (ds : list decl) (r03 r08 : list (N * list N)) : bool :=
  forallb (fun kv => key_not_narrowed ds r03 r08 (fst kv)) r03.
(* keys whose 2008 alternatives are not literally a superset (by name) of the 2003 ones *)
Definition narrowed_keys (ds : list decl) (r03 r08 : list (N * list N)) : list N :=
  map fst (filter (fun kv => negb (forallb (fun c => memN (name_of ds c) (map (name_of ds) (alts r08 (fst kv))))
                                           (snd kv))) r03).
