(* Character-level model of string_replace_map (src/fparser/common/splitline.py:156-238) as the statement-level
   matchers use it, and of the matchers of fparser2 that cut a text at separators OUTSIDE character literals and
   bracketed groups: SequenceBase.match (utils.py:999-1045), SeparatorBase.match (1246-1267), CallBase.match /
   CALLBase.match (1494-1562) -- and of KeywordValueBase.match (1292-1360), which cuts at the first '=' of the text
   itself.

   string_replace_map is modelled as the two passes it makes, built from the models of splitquote and splitparen
   (SplitLine.v):  pass 1 replaces the body item[1:-1] of every String item that is not \w* by a key; pass 2 runs
   splitparen over the line WITH those keys and replaces the trimmed body of every ParenString item that is not
   \w* by a key.  A key is a token that carries the text it stands for (S1 / S2: the body of a literal, P2: the
   trimmed body of a bracketed group, itself a line of pass-1 tokens); restoring a token list (flat2) is what
   StringReplaceDict.__call__ does.  What is abstracted: the key TEXTS (index bookkeeping and sharing of equal
   bodies: Model/ReplaceMap.v; a source text that itself contains a key-shaped word is the known finding F8) and
   the third kind of key, for real constants with an exponent, which stands for characters 0-9 . + - _ and letters
   and so cannot hide or create any of the separators used here ( , : % ( ) = ) -- tools/translate_srm.py checks that
   the live separators are among these.  For splitparen a string key is an ordinary word character (cls1).
   ASCII only.  No proofs here. *)
From Coq Require Import List Bool Arith Ascii.
From FV Require Import SplitLine Text StmtBase.
Import ListNotations.

(* ---- pass 1: character literals *)
Inductive tok1 := C1 (c : ascii) | S1 (body : text).
Definition cls1 (t : tok1) : ascii := match t with C1 c => c | S1 _ => "K"%char end.
Definition flat1 (l : list tok1) : text := flat_map (fun t => match t with C1 c => [c] | S1 b => b end) l.
Definition all_word (t : text) : bool := forallb is_word t.           (* re.compile(r"\w*\Z").match *)

(* item[0] + key + item[-1] when item[1:-1] is not simple, the item itself otherwise *)
Definition quoted_item (t : text) : list tok1 :=
  match t with
  | c0 :: r => match rev r with
               | cl :: midr => if all_word midr then map C1 t else [C1 c0; S1 (rev midr); C1 cl]
               | [] => map C1 t
               end
  | [] => []
  end.
Definition stage1 (s : text) : list tok1 :=
  flat_map (fun q => match q with Plain t => map C1 t | Quoted t => quoted_item t end) (fst (splitquote s None false)).

(* ---- pass 2: bracketed groups *)
Inductive tok2 := C2 (c : ascii) | S2 (body : text) | P2 (body : list tok1).
Definition lift (t : tok1) : tok2 := match t with C1 c => C2 c | S1 b => S2 b end.
Definition flat2 (l : list tok2) : text :=
  flat_map (fun t => match t with C2 c => [c] | S2 b => b | P2 b => flat1 b end) l.

Definition is_sp1 (t : tok1) : bool := match t with C1 c => is_space c | S1 _ => false end.
Fixpoint lstrip1 (l : list tok1) : list tok1 :=
  match l with t :: r => if is_sp1 t then lstrip1 r else l | [] => [] end.
Definition strip1 (l : list tok1) : list tok1 := lstrip1 (rev (lstrip1 (rev l))).

(* exponential_constant = (?:[^\w.]|^)((\d+[.]\d*|\d*[.]\d+|\d+)[edED][+-]?\d+(_\w+)?) : the length of group 1 at the
   head of l (0: no match).  Before pass 2 every such constant has become a key made of word characters. *)
Definition is_ed (c : ascii) : bool := aeqb c "e"%char || aeqb c "d"%char || aeqb c "E"%char || aeqb c "D"%char.
Definition exp_len (l : text) : nat :=
  let d1 := take_while is_digit l in
  let r1 := skipn (length d1) l in
  let mant := match r1 with
              | c :: r2 => if aeqb c "."%char then
                             let d2 := take_while is_digit r2 in
                             match d1, d2 with [], [] => 0 | _, _ => length d1 + 1 + length d2 end
                           else length d1
              | [] => length d1
              end in
  match mant with
  | 0 => 0
  | _ =>
      match skipn mant l with
      | e :: r3 =>
          if negb (is_ed e) then 0 else
          let sg := match r3 with c :: _ => if aeqb c "+"%char || aeqb c "-"%char then 1 else 0 | [] => 0 end in
          let d3 := take_while is_digit (skipn sg r3) in
          match d3 with
          | [] => 0
          | _ =>
              let base := mant + 1 + sg + length d3 in
              match skipn (sg + length d3) r3 with
              | u :: r4 => if aeqb u "_"%char then
                             match take_while is_word r4 with [] => base | w => base + 1 + length w end
                           else base
              | [] => base
              end
          end
      | [] => 0
      end
  end.
(* the trimmed body of a bracketed group consists of word characters once a real constant with an exponent at its
   head (it follows the bracket or a blank) has been replaced by its key *)
Definition name_like (t : text) : bool := all_word (skipn (exp_len t) t).

(* item[0] + key + item[-1] when item[1:-1].strip() is not a name (only word characters), the item itself otherwise *)
Definition paren_item (ts : list tok1) : list tok2 :=
  match ts with
  | c0 :: r => match rev r with
               | cl :: midr => let mid := strip1 (rev midr) in
                               if name_like (map cls1 mid) then map lift ts else [lift c0; P2 mid; lift cl]
               | [] => map lift ts
               end
  | [] => []
  end.
(* the items of splitparen(newline), cut out of the token line by their lengths *)
Fixpoint cut_like (segs : list pseg) (toks : list tok1) : list tok2 :=
  match segs with
  | [] => []
  | Flat t :: r => map lift (firstn (length t) toks) ++ cut_like r (skipn (length t) toks)
  | Paren t :: r => paren_item (firstn (length t) toks) ++ cut_like r (skipn (length t) toks)
  end.
Definition srm (s : text) : list tok2 :=
  let t1 := stage1 s in cut_like (splitparen (map cls1 t1)) t1.

(* ---- str methods on the replaced line *)
Definition is_c2 (ch : ascii) (t : tok2) : bool := match t with C2 c => aeqb c ch | _ => false end.
Definition is_sp2 (t : tok2) : bool := match t with C2 c => is_space c | _ => false end.
Fixpoint lstrip2 (l : list tok2) : list tok2 :=
  match l with t :: r => if is_sp2 t then lstrip2 r else l | [] => [] end.
Definition rstrip2 (l : list tok2) : list tok2 := rev (lstrip2 (rev l)).
Definition strip2 (l : list tok2) : list tok2 := lstrip2 (rstrip2 l).

(* str.split(sep) for a one-character separator *)
Fixpoint split2 (sep : ascii) (l : list tok2) : list (list tok2) :=
  match l with
  | [] => [[]]
  | t :: r => match split2 sep r with
              | cur :: rest => if is_c2 sep t then [] :: cur :: rest else (t :: cur) :: rest
              | [] => [[t]]
              end
  end.
(* line.split(sep, 1) when sep occurs: (before, after) the first occurrence *)
Fixpoint break2 (sep : ascii) (l : list tok2) : option (list tok2 * list tok2) :=
  match l with
  | [] => None
  | t :: r => if is_c2 sep t then Some ([], r)
              else match break2 sep r with Some (a, b) => Some (t :: a, b) | None => None end
  end.
(* line.rfind(ch) *)
Fixpoint rfind2 (ch : ascii) (l : list tok2) : option nat :=
  match l with
  | [] => None
  | t :: r => match rfind2 ch r with
              | Some k => Some (S k)
              | None => if is_c2 ch t then Some 0 else None
              end
  end.

(* ---- SequenceBase.match(separator, subcls, string): the texts handed to subcls, in order *)
Definition seq_match (sep : ascii) (s : text) : list text :=
  map (fun e => flat2 (strip2 e)) (split2 sep (srm s)).
(* SequenceBase.tostr over the printed items *)
Definition seq_tostr (sep : ascii) (items : list text) : text :=
  let sp := if aeqb sep ","%char then [sep; " "%char] else [" "%char; sep; " "%char] in
  match items with
  | [] => []
  | x :: r => x ++ flat_map (fun y => sp ++ y) r
  end.

(* ---- SeparatorBase.match(lhs_cls, rhs_cls, string, require_lhs, require_rhs): the texts handed to the two classes *)
Inductive sepres := SepNo | SepOk (l r : option text).
Definition sep_match (has_l has_r req_l req_r : bool) (s : text) : sepres :=
  match break2 ":"%char (srm s) with
  | None => SepNo
  | Some (a, b) =>
      let lhs := rstrip2 a in
      let rhs := lstrip2 b in
      let lbad := match lhs with [] => req_l | _ => negb has_l end in
      let rbad := match rhs with [] => req_r | _ => negb has_r end in
      if lbad || rbad then SepNo
      else SepOk (match lhs with [] => None | _ => Some (flat2 lhs) end)
                 (match rhs with [] => None | _ => Some (flat2 rhs) end)
  end.
Definition sep_tostr (l r : option text) : text :=
  (match l with Some x => x ++ [" "; ":"]%char | None => [":"%char] end)
  ++ (match r with Some y => " "%char :: y | None => [] end).

(* ---- CallBase.match(lhs_cls, rhs_cls, string, upper_lhs, require_rhs); kw = Some k when lhs_cls is the string k *)
Inductive callres := CallNo | CallOk (lhs : text) (rhs : option text).
Definition call_match (kw : option text) (upper_lhs req_rhs : bool) (s : text) : callres :=
  if negb (ends_with_char ")"%char (rstrip s)) then CallNo else
  let line := srm s in
  match rfind2 "("%char line with
  | None => CallNo
  | Some op =>
      match rstrip2 (firstn op line) with
      | [] => CallNo
      | lhs =>
          let cl := match rfind2 ")"%char line with Some k => k | None => length line - 1 end in
          let rhs := strip2 (firstn (cl - S op) (skipn (S op) line)) in
          let lt := if upper_lhs then upper (flat2 lhs) else flat2 lhs in
          if match kw with Some k => negb (text_eqb k lt) | None => false end then CallNo else
          match rhs with
          | [] => if req_rhs then CallNo else CallOk lt None
          | _ => CallOk lt (Some (flat2 rhs))
          end
      end
  end.
Definition call_tostr (lhs : text) (rhs : option text) : text :=
  lhs ++ "("%char :: (match rhs with Some r => r | None => [] end) ++ [")"%char].

(* ---- KeywordValueBase.match(lhs_cls, rhs_cls, string, require_lhs, upper_lhs); kw = Some k when lhs_cls is the
        string k, None when it is a class (the text left of '=' is handed to it) *)
Inductive kvres := KvNo | KvOk (lhs : option text) (rhs : text).
Definition kv_match (kw : option text) (req_lhs upper_lhs : bool) (s : text) : kvres :=
  match find_char "="%char s with
  | None => if req_lhs then KvNo else
            match strip s with [] => KvNo | r => KvOk None r end
  | Some i =>
      let l0 := strip (firstn i s) in
      let lhs := match kw with
                 | Some k => let l1 := if upper_lhs then upper l0 else l0 in
                             if text_eqb l1 k then (match k with [] => None | _ => Some k end) else None
                 | None => Some l0
                 end in
      match lhs with
      | None => if req_lhs then KvNo else match strip s with [] => KvNo | r => KvOk None r end
      | Some l => match strip (skipn (S i) s) with [] => KvNo | r => KvOk (Some l) r end
      end
  end.
Definition kv_tostr (lhs : option text) (rhs : text) : text :=
  match lhs with Some l => l ++ [" "; "="; " "]%char ++ rhs | None => rhs end.
