(* The parse cache makes statement-level matching happen at most once per (item, rule class):
   through every parse, the cache keys stay pairwise distinct, every key belongs to an item of the
   source, and the statement-level match counter equals the number of keys. *)
From Coq Require Import List Bool Arith NArith Lia.
From FV Require Import Scope Engine EngineContracts EngineInv.
Import ListNotations.

Section Cache.
Variable T : table.
Variable L : item -> cls -> list cls -> leafres.
Variable ids : list nat.

Definition key (e : nat * cls * option info) : nat * cls := (fst (fst e), snd (fst e)).
Definition keys (s : est) : list (nat * cls) := map key (cache s).

Definition PitC (i : item) : Prop := In (iid i) ids.
Definition InvC (s : est) : Prop :=
  Forall PitC (stream s) /\ NoDup (keys s) /\ (forall k, In k (keys s) -> In (fst k) ids) /\
  lcost s = N.of_nat (length (cache s)).

Lemma cache_find_none n c l : cache_find n c l = None -> ~ In (n, c) (map key l).
Proof.
  induction l as [|[[n' c'] v] r IH]; cbn [cache_find map]; [intros _ []|].
  destruct (Nat.eqb n' n && N.eqb c' c) eqn:B; [discriminate|]. intros H [E|HI]; [|exact (IH H HI)].
  unfold key in E. cbn in E. inversion E; subst. rewrite Nat.eqb_refl, N.eqb_refl in B. discriminate.
Qed.

Lemma InvC_get s i s1 : InvC s -> get_item s = (Some i, s1) -> PitC i /\ InvC s1.
Proof.
  intros [F [N [K C]]] G. unfold get_item in G. destruct (stream s) as [|x r] eqn:E; [discriminate|].
  inversion G; subst. inversion F; subst. split; [assumption|]. repeat split; assumption.
Qed.
Lemma InvC_put i s : PitC i -> InvC s -> InvC (put_item i s).
Proof. intros P [F [N [K C]]]. repeat split; try assumption. cbn. constructor; assumption. Qed.
Lemma InvC_cache i c v s : PitC i -> InvC s -> cache_find (iid i) c (cache s) = None -> InvC (add_cache i c v s).
Proof.
  intros P [F [N [K C]]] CF. split; [exact F|]. split; [|split].
  - unfold keys. cbn. constructor; [apply cache_find_none; exact CF|exact N].
  - unfold keys. cbn. intros k [<-|Hk]; [exact P|apply K; exact Hk].
  - cbn [lcost add_cache cache length]. rewrite C. lia.
Qed.

Theorem program_top_cache fuel c s : InvC s -> InvC (snd (program_top T L fuel c s)).
Proof.
  apply (program_top_inv T L InvC PitC); try (intros; assumption).
  - exact InvC_get. - exact InvC_put. - exact InvC_cache.
Qed.
Theorem new_cache fuel c s : InvC s -> InvC (snd (new T L fuel c s)).
Proof.
  intros H. apply (new_inv T L InvC PitC); try (intros; assumption).
  - exact InvC_get. - exact InvC_put. - exact InvC_cache.
Qed.

End Cache.

(* pigeonhole: distinct keys over ids x classes *)
Lemma keys_bound (ks : list (nat * cls)) (ids : list nat) (cs : list cls) :
  NoDup ks -> (forall k, In k ks -> In (fst k) ids /\ In (snd k) cs) -> length ks <= length ids * length cs.
Proof.
  intros N H. rewrite <- prod_length. apply NoDup_incl_length; [exact N|].
  intros [n c] Hk. apply in_prod; apply (H _ Hk).
Qed.

Definition ids_of (items : list item) : list nat := map iid items.

(* from a fresh state: the number of statement-level matches started is the number of distinct
   (item, class) pairs, hence at most (number of items) * (number of classes that were tried) *)
Theorem statement_matches_once T L items pd fuel c :
  let s' := snd (program_top T L fuel c (est0 items pd)) in
  NoDup (keys s') /\ (forall k, In k (keys s') -> In (fst k) (ids_of items)) /\
  lcost s' = N.of_nat (length (keys s')) /\
  (forall cs, (forall k, In k (keys s') -> In (snd k) cs) ->
     (lcost s' <= N.of_nat (length items) * N.of_nat (length cs))%N).
Proof.
  intros s'. assert (H0 : InvC (ids_of items) (est0 items pd)).
  { split; [|split; [constructor|split; [intros k []|reflexivity]]].
    unfold est0; cbn. apply Forall_forall. intros i Hi. unfold PitC, ids_of. apply in_map. exact Hi. }
  pose proof (program_top_cache T L (ids_of items) fuel c _ H0) as [F [N [K C]]]. fold s' in F, N, K, C.
  split; [exact N|]. split; [exact K|]. split; [unfold keys; rewrite map_length; exact C|].
  intros cs Hcs. rewrite C.
  assert (B : length (keys s') <= length (ids_of items) * length cs).
  { apply keys_bound; [exact N|]. intros k Hk. split; [apply K|apply Hcs]; exact Hk. }
  unfold keys in B. rewrite map_length in B. unfold ids_of in B. rewrite map_length in B. lia.
Qed.
