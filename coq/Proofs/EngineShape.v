(* K4 (shape): every tree the engine returns is well nested with respect to the table:
   a node built by a block rule starts (after leading comment / include / directive / cpp leaves)
   with the tree of the rule's start class and, when the rule has an end class, ends with a
   statement of that end class whose label and construct name agree with the start statement
   exactly as the rule's flags (match_labels, match_names, strict_match_names) demand. *)
From Coq Require Import List Bool Arith NArith Lia.
From FV Require Import Scope Engine EngineContracts.
Import ListNotations.

Section Shape.
Variable T : table.
Variable L : item -> cls -> list cls -> leafres.

Definition startinfo_of (content : list tree) (idx : nat) : info :=
  match nth_error content idx with Some t => tinfo t | None => noinfo end.

(* the END statement [last] closes a block whose start statement has info [sinfo] *)
Definition end_ok (b : bspec) (sinfo : info) (last : tree) : Prop :=
  mem (tcls last) (b_endall b) = true /\
  (b_match_labels b = true -> oN_eqb (start_label sinfo) (end_label (tinfo last)) = true) /\
  (b_match_names b = true ->
   name_check b (start_name sinfo) (end_name (tinfo last)) (b_strict_names b) = None).

Definition closes (b : bspec) (sidx : nat) (kids : list tree) : Prop :=
  match b_end b with
  | Some _ => exists pre last, kids = pre ++ [last] /\ end_ok b (startinfo_of kids sidx) last
  | None => True
  end.

(* what add_comments_includes_directives can put in front of the start statement *)
Definition is_cid (t : tree) : Prop :=
  tcls t = t_comment T \/ tcls t = t_directive T \/ tcls t = t_include T \/ In (tcls t) (t_cpp T).

Definition block_shape (b : bspec) (kids : list tree) : Prop :=
  match b_start b with
  | Some stc => exists cm o rest, kids = cm ++ o :: rest /\ Forall is_cid cm /\
                                  (is_leaf T stc -> tcls o = stc) /\ closes b (length cm) kids
  | None => closes b 0 kids
  end.

(* a leaf holds a comment item exactly when its class is Comment or Directive; Directive only for
   directive-form (not in-line) comments, and only when the reader processes directives *)
Definition leaf_ok (c : cls) (i : item) : Prop :=
  match ikd i with
  | IKComment => c = t_comment T \/ (c = t_directive T /\ idir i = true)
  | _ => c <> t_comment T /\ c <> t_directive T
  end.

Inductive WN : tree -> Prop :=
| WN_leaf c i inf : leaf_ok c i -> WN (TLeaf c i inf)
| WN_block c kids :
    Forall WN kids ->
    (forall b, c_kind (entry T c) = KBlock b \/ c_kind (entry T c) = KMain0 b -> block_shape b kids) ->
    WN (TBlock c kids).

Definition ShapeC (rec : matcher) : Prop := forall c s t s', rec c s = (Val (Some t), s') -> WN t.

Hypothesis H_inc_leaf : is_leaf T (t_include T).
Hypothesis H_cpp_leaf : forall c, In c (t_cpp T) -> is_leaf T c.

Lemma comment_shape s t s' : comment T s = (Val (Some t), s') -> WN t /\ tcls t = t_comment T.
Proof.
  unfold comment. destruct (get_item s) as [[i|] s1]; [destruct (ikd i) eqn:K|]; intros H; inversion H; subst.
  split; [constructor; unfold leaf_ok; rewrite K; now left|reflexivity].
Qed.
Lemma directive_shape s t s' : directive T s = (Val (Some t), s') -> WN t /\ tcls t = t_directive T.
Proof.
  unfold directive. destruct (get_item s) as [[i|] s1]; [destruct (ikd i) eqn:K; [|destruct (idir i) eqn:D|]|];
    intros H; inversion H; subst. split; [constructor; unfold leaf_ok; rewrite K; right; auto|reflexivity].
Qed.
Lemma leaf_shape c s t s' : c <> t_comment T -> c <> t_directive T ->
  leaf L c s = (Val (Some t), s') -> WN t.
Proof.
  intros NC ND. unfold leaf. destruct (get_item s) as [[i|] s1]; [|discriminate].
  destruct (ikd i) eqn:K; try discriminate;
  (destruct (cache_find (iid i) c (cache s1)) as [[inf|]|]; try discriminate;
   [ intros H; inversion H; constructor; unfold leaf_ok; rewrite K; auto
   | destruct (L i c (pcls s1)) as [|e|inf]; try discriminate;
     [destruct e; discriminate | intros H; inversion H; constructor; unfold leaf_ok; rewrite K; auto] ]).
Qed.

Section WithRec.
Variable rec : matcher.
Hypothesis HR : Contract T rec.
Hypothesis HS : ShapeC rec.

Lemma call_shape c s t s' : call rec c s = (Val (Some t), s') -> WN t.
Proof.
  unfold call. destruct (rec c (set_pcls [] s)) as [r s1] eqn:E. intros H. inversion H; subst.
  eapply HS; eauto.
Qed.
Lemma call_cls c s t s' : is_leaf T c -> call rec c s = (Val (Some t), s') -> tcls t = c.
Proof. intros. eapply (call_leaf_cls T rec HR); eauto. Qed.

Lemma first_of_shape cs : (forall c, In c cs -> In c (t_cpp T)) ->
  forall s t s', first_of rec cs s = (Val (Some t), s') -> WN t /\ In (tcls t) (t_cpp T).
Proof.
  induction cs as [|c r IH]; intros Hin s t s'; cbn [first_of]; [discriminate|].
  unfold bind. destruct (call rec c s) as [[[t0|]|e] s1] eqn:E.
  - pose proof (call_shape _ _ _ _ E) as W0.
    pose proof (call_cls c s t0 s1 (H_cpp_leaf c (Hin c (or_introl eq_refl))) E) as C0.
    intros H. inversion H; subst. split; [exact W0|]. apply Hin. now left.
  - apply IH. intros c' Hc. apply Hin. now right.
  - discriminate.
Qed.

Lemma cpp_shape s t s' : cpp T rec s = (Val (Some t), s') -> WN t /\ is_cid t.
Proof.
  unfold cpp. destruct (get_item s) as [[i|] s1]; [|discriminate].
  destruct (ikd i); try discriminate. intros H.
  destruct (first_of_shape (t_cpp T) (fun c Hc => Hc) _ _ _ H) as [A B]. split; [exact A|].
  right; right; right. exact B.
Qed.

Lemma comment_or_include_shape s t s' : comment_or_include T rec s = (Val (Some t), s') -> WN t /\ is_cid t.
Proof.
  unfold comment_or_include, bind.
  destruct ((if procdir s then directive T else ret None) s) as [[[t1|]|e1] s1] eqn:D.
  - intros H. inversion H; subst. destruct (procdir s); [|discriminate].
    destruct (directive_shape _ _ _ D) as [A B]. split; [exact A|]. right; now left.
  - destruct (comment T s1) as [[[t2|]|e2] s2] eqn:C.
    + intros H. inversion H; subst. destruct (comment_shape _ _ _ C) as [A B]. split; [exact A|now left].
    + intros H. split; [eapply call_shape; eauto|]. right; right; left.
      eapply call_cls; eauto.
    + discriminate.
  - discriminate.
Qed.

Lemma cid_step_shape s t s' : cid_step T rec s = (Val (Some t), s') -> WN t /\ is_cid t.
Proof.
  unfold cid_step, bind. destruct (comment_or_include T rec s) as [[[t1|]|e1] s1] eqn:C.
  - intros H. inversion H; subst. eapply comment_or_include_shape; eauto.
  - apply cpp_shape.
  - discriminate.
Qed.

Lemma add_cid_shape k : forall content s c' s', add_cid T rec k content s = (Val c', s') ->
  exists extra, c' = content ++ extra /\ Forall WN extra /\ Forall is_cid extra.
Proof.
  induction k as [|k IH]; intros content s c' s'; cbn [add_cid]; [discriminate|].
  unfold bind. destruct (cid_step T rec s) as [[[t|]|e] s1] eqn:C.
  - intros H. destruct (IH _ _ _ _ H) as [extra [E [W I]]]. destruct (cid_step_shape _ _ _ C) as [Wt It].
    exists (t :: extra). rewrite E, <- app_assoc. split; [reflexivity|]. split; constructor; assumption.
  - intros H. inversion H; subst. exists []. rewrite app_nil_r. auto.
  - discriminate.
Qed.

Lemma call_l_shape lc s t s' : call_l T rec lc s = (Val (Some t), s') -> WN t.
Proof.
  destruct lc as [c|]; cbn [call_l].
  - destruct (N.eqb c (t_comment T)); [intros H; apply (comment_shape _ _ _ H)|].
    destruct (N.eqb c (t_directive T)); [intros H; apply (directive_shape _ _ _ H)|apply call_shape].
  - intros H. apply (cpp_shape _ _ _ H).
Qed.

Lemma catch_val {A} (m : M (option A)) s v s' : catch_nomatch m s = (Val (Some v), s') -> m s = (Val (Some v), s').
Proof.
  unfold catch_nomatch. destruct (m s) as [[[a|]|e] s1]; try (intros H; exact H); try discriminate.
  destruct e; discriminate.
Qed.

(* the loop only appends, and a break with found_end carries a closing statement *)
Definition loop_spec (b : bspec) (start_idx : nat) (f : lst -> M lout) : Prop :=
  forall st s content had fe s',
  Forall WN (l_content st) ->
  f st s = (Val (LBreak content had fe), s') ->
  exists extra, content = l_content st ++ extra /\ Forall WN content /\
    (fe = true ->
     exists pre last, content = pre ++ [last] /\ mem (tcls last) (b_endall b) = true /\
       (start_idx < length (l_content st) -> end_ok b (startinfo_of content start_idx) last)).

Lemma block_step_shape b start_idx cont lc :
  loop_spec b start_idx cont -> loop_spec b start_idx (block_step T rec b start_idx cont lc).
Proof.
  intros HC0 st s content had fe s' W.
  assert (HC : forall st s content had fe s', True -> Forall WN (l_content st) ->
             cont st s = (Val (LBreak content had fe), s') ->
             exists extra, content = l_content st ++ extra /\ Forall WN content /\
               (fe = true ->
                exists pre last, content = pre ++ [last] /\ mem (tcls last) (b_endall b) = true /\
                  (start_idx < length (l_content st) -> end_ok b (startinfo_of content start_idx) last)))
    by (intros; eapply HC0; eauto).
  unfold block_step.
  set (startinfo := match nth_error (l_content st) start_idx with Some t => tinfo t | None => noinfo end).
  unfold bind at 1.
  match goal with |- context [(if b_do_hook b then ?X else ?Y) s] =>
    destruct ((if b_do_hook b then X else Y) s) as [[[t|]|e] s1] eqn:HK end; [| |discriminate].
  - (* hook appended t *)
    assert (Wt : WN t).
    { destruct (b_do_hook b); [|discriminate]. destruct (b_start b) as [stc|]; [|discriminate].
      unfold bind in HK. destruct (call rec stc s) as [[[t0|]|e0] s0] eqn:CE; try discriminate.
      destruct (c_has_start_label (entry T (tcls t0))); [|discriminate].
      destruct (oN_eqb (start_label startinfo) (start_label (tinfo t0))); [|discriminate].
      inversion HK; subst. eapply call_shape; eauto. }
    intros H. apply HC in H; cbn [l_content] in *; [|exact I|apply Forall_app; split; [exact W|now constructor]].
    destruct H as [extra [E [W2 F]]]. exists (t :: extra). split; [rewrite E, <- app_assoc; reflexivity|].
    split; [exact W2|]. intros Hfe. destruct (F Hfe) as [pre [lst [E2 [M2 F2]]]].
    exists pre, lst. split; [exact E2|]. split; [exact M2|]. intros Hlt. apply F2. rewrite app_length. lia.
  - unfold bind at 1. destruct (catch_nomatch (call_l T rec lc) s1) as [[[t|]|e] s2] eqn:CL; [| |discriminate].
    + assert (Wt : WN t) by (eapply call_l_shape; eapply catch_val; eauto).
      assert (Wc : Forall WN (l_content st ++ [t])) by (apply Forall_app; split; [exact W|now constructor]).
      destruct (b_labeldo_abort b && c_has_end_label (entry T (tcls t)) &&
                oN_eqb (start_label startinfo) (end_label (tinfo t)) &&
                negb (mem (tcls t) (t_enddo_continue T))).
      { unfold bind, lift, ret. discriminate. }
      match goal with |- context [match ?e1 with Some e => raise e | None => _ end] => destruct e1 end;
        [discriminate|].
      destruct ((match b_end b with Some _ => mem (tcls t) (b_endall b) | None => false end)
                && b_match_labels b && negb (oN_eqb (start_label startinfo) (end_label (tinfo t)))) eqn:LB.
      { intros H. apply HC in H; cbn [l_content] in *; [|exact I|exact Wc].
        destruct H as [extra [E [W2 F]]]. exists (t :: extra). split; [rewrite E, <- app_assoc; reflexivity|].
        split; [exact W2|]. intros Hfe. destruct (F Hfe) as [pre [lst [E2 [M2 F2]]]].
        exists pre, lst. split; [exact E2|]. split; [exact M2|]. intros Hlt. apply F2. rewrite app_length. lia. }
      destruct (match b_end b with Some _ => mem (tcls t) (b_endall b) | None => false end) eqn:IE.
      { destruct (if b_match_names b
                  then name_check b (start_name startinfo) (end_name (tinfo t)) (b_strict_names b)
                  else None) as [e2|] eqn:NC; [discriminate|].
        intros H. inversion H; subst. exists [t]. split; [reflexivity|]. split; [exact Wc|].
        intros _. exists (l_content st), t. split; [reflexivity|].
        assert (IE' : mem (tcls t) (b_endall b) = true) by (destruct (b_end b); [exact IE|discriminate]).
        split; [exact IE'|]. intros Hlt.
        assert (SI : startinfo_of (l_content st ++ [t]) start_idx = startinfo).
        { unfold startinfo_of, startinfo. now rewrite nth_error_app1. }
        rewrite SI. unfold end_ok. split; [exact IE'|]. split.
        - intros ML. rewrite ML in LB. cbn in LB. now apply negb_false_iff in LB.
        - intros MN. rewrite MN in NC. exact NC. }
      intros H. apply HC in H; cbn [l_content] in *; [|exact I|exact Wc].
      destruct H as [extra [E [W2 F]]]. exists (t :: extra). split; [rewrite E, <- app_assoc; reflexivity|].
      split; [exact W2|]. intros Hfe. destruct (F Hfe) as [pre [lst [E2 [M2 F2]]]].
      exists pre, lst. split; [exact E2|]. split; [exact M2|]. intros Hlt. apply F2. rewrite app_length. lia.
    + intros H. apply HC in H; cbn [l_content] in *; [|exact I|exact W]. exact H.
Qed.

Lemma block_loop_shape b classes start_idx k : loop_spec b start_idx (block_loop T rec b classes start_idx k).
Proof.
  induction k as [|k IH]; intros st s content had fe s' W; cbn [block_loop]; [discriminate|].
  destruct (nth_error classes (l_i st)) as [lc|].
  2:{ intros H. inversion H; subst. exists []. rewrite app_nil_r. split; [reflexivity|].
      split; [exact W|discriminate]. }
  unfold bind at 1. destruct (hook_cid T rec b (l_content st) s) as [[cm|e] s1] eqn:HCID; [|discriminate].
  assert (CM : exists extra, cm = l_content st ++ extra /\ Forall WN extra).
  { unfold hook_cid in HCID. destruct (b_do_hook b).
    - destruct (add_cid_shape _ _ _ _ _ HCID) as [extra [E [Wx _]]]. eauto.
    - inversion HCID; subst. exists []. rewrite app_nil_r. auto. }
  destruct CM as [extra [-> Wx]].
  intros H. apply (block_step_shape b start_idx _ lc IH) in H; cbn [l_content] in *;
    [|apply Forall_app; split; assumption].
  destruct H as [ex2 [E [W2 F]]]. exists (extra ++ ex2). split; [rewrite E, app_assoc; reflexivity|].
  split; [exact W2|].
  intros Hfe. destruct (F Hfe) as [pre [lst [E2 [M2 F2]]]]. exists pre, lst.
  split; [exact E2|]. split; [exact M2|].
  intros Hlt. apply F2. rewrite app_length. lia.
Qed.

Lemma startinfo_app content extra idx : idx < length content ->
  startinfo_of (content ++ extra) idx = startinfo_of content idx.
Proof. intros H. unfold startinfo_of. now rewrite nth_error_app1. Qed.

Definition nostart_ok (b : bspec) : Prop :=
  b_start b = None -> b_match_labels b = false /\ b_match_names b = false.

Lemma block_body_shape b content start_idx tn s c' s' :
  nostart_ok b ->
  Forall WN content -> (b_start b <> None -> start_idx < length content) ->
  block_body T rec b content start_idx tn s = (Val (Some c'), s') ->
  exists extra, c' = content ++ extra /\ Forall WN c' /\ closes b start_idx c'.
Proof.
  intros NS W Hs. unfold block_body.
  set (cl := block_classes T b s).
  destruct (block_loop T rec b cl start_idx (loop_bound (length cl) s)
              (mkLst content 0 false (b_if_hook b) (b_where_hook b)) s) as [[[content' had fe|]|e] s1] eqn:BL.
  - apply block_loop_shape in BL; cbn [l_content] in *; [|exact W].
    destruct BL as [extra [E [W2 F]]].
    unfold bind at 1. destruct ((match tn with Some _ => do_exit_scope | None => ret tt end) s1) as [[[]|e] s2];
      [|discriminate].
    destruct ((negb had || match b_end b with Some _ => negb fe | None => false end)
              && match b_end b with Some _ => true | None => false end) eqn:FAIL.
    + unfold bind. destruct ((match tn with Some n => do_remove n | None => ret tt end) s2) as [[[]|e] s3];
        unfold lift, ret; discriminate.
    + intros H.
      assert (R : c' = content').
      { destruct content' as [|t0 ct]; [discriminate|].
        destruct (b_start b); [|inversion H; reflexivity]. destruct (b_end b); [|inversion H; reflexivity].
        revert H.
        match goal with |- context [if ?c then _ else _] => destruct c end; [|intros H; inversion H; reflexivity].
        destruct (unit_name (tinfo (last (t0 :: ct) (TBlock 0%N [])))); [|intros H; inversion H; reflexivity].
        match goal with |- context [match unit_name ?x with _ => _ end] => destruct (unit_name x) end;
          [|destruct (t_exits T); [discriminate|intros H; inversion H; reflexivity]].
        match goal with |- context [if ?c then _ else _] => destruct c end; [intros H; inversion H; reflexivity|].
        destruct (t_exits T); [discriminate|intros H; inversion H; reflexivity]. }
      subst c'. exists extra. split; [exact E|]. split; [exact W2|].
      unfold closes. destruct (b_end b) as [e|] eqn:BE; [|exact I].
      assert (fe = true).
      { apply andb_false_iff in FAIL as [FAIL|FAIL]; [|discriminate].
        apply orb_false_iff in FAIL as [_ FAIL]. now apply negb_false_iff in FAIL. }
      destruct (F H0) as [pre [lst [E2 [M2 F2]]]]. exists pre, lst. split; [exact E2|].
      destruct (b_start b) as [stc|] eqn:BS.
      * apply F2. apply Hs. discriminate.
      * destruct (NS BS) as [ML MN]. unfold end_ok. rewrite ML, MN.
        split; [exact M2|]. split; discriminate.
  - discriminate.
  - destruct (match e with ESyntax => true | _ => t_cleanup_all T && is_exception e end);
      [destruct tn; [unfold bind; destruct (do_exit_scope s1) as [[[]|?] ?];
                     [destruct (do_remove n _) as [[[]|?] ?]|]|]|]; discriminate.
Qed.

Lemma block_match_shape b s c' s' : nostart_ok b ->
  block_match T rec b s = (Val (Some c'), s') -> Forall WN c' /\ block_shape b c'.
Proof.
  intros NS. unfold block_match, block_shape. destruct (b_start b) as [stc|] eqn:BS.
  - unfold bind at 1. destruct (add_cid T rec (length (stream s) + 2) [] s) as [[cm|e] s1] eqn:AC; [|discriminate].
    destruct (add_cid_shape _ _ _ _ _ AC) as [extra [E [Wc Ic]]]. cbn [app] in E. subst cm.
    unfold bind at 1. destruct (catch_nomatch (call rec stc) s1) as [[[o|]|e] s2] eqn:CS; [| |discriminate].
    + apply catch_val in CS.
      assert (Wo : WN o) by (eapply call_shape; eauto).
      assert (B : forall (m : M unit) tn s3, (m;;; block_body T rec b (extra ++ [o]) (length extra) tn) s3 = (Val (Some c'), s') ->
                  exists s4, block_body T rec b (extra ++ [o]) (length extra) tn s4 = (Val (Some c'), s')).
      { intros m tn s3. unfold bind. destruct (m s3) as [[[]|?] s4]; [|discriminate]. eauto. }
      intros H.
      assert (exists tn s4, block_body T rec b (extra ++ [o]) (length extra) tn s4 = (Val (Some c'), s')) as [tn [s4 H']].
      { destruct (c_scoping (entry T (tcls o))); eapply B in H; destruct H as [s4 H]; eauto. }
      apply block_body_shape in H'; [|exact NS|apply Forall_app; split; [exact Wc|now constructor]|
                                     intros _; rewrite app_length; cbn; lia].
      destruct H' as [ex2 [E2 [W2 CL]]]. split; [exact W2|].
      exists extra, o, ex2. rewrite E2, <- app_assoc. split; [reflexivity|]. split; [exact Ic|].
      split; [intros Hl; eapply call_cls; eauto|]. rewrite E2, <- app_assoc in CL. exact CL.
    + unfold bind, lift, ret. discriminate.
  - intros H. apply block_body_shape in H; [|exact NS|constructor|intros X; congruence].
    destruct H as [ex2 [E2 [W2 CL]]]. split; [exact W2|exact CL].
Qed.

Lemma main0_shape b s c' s' : nostart_ok b ->
  main0 T rec b s = (Val (Some c'), s') -> Forall WN c' /\ block_shape b c'.
Proof.
  intros NS. unfold main0.
  destruct (block_match T rec b (set_sc (enter_scope (t_main_name T) (sc s)) s)) as [[[c|]|e] s2] eqn:BM.
  - unfold bind. destruct (do_exit_scope s2) as [[[]|?] s3]; [|discriminate].
    intros H. inversion H; subst. eapply block_match_shape; eauto.
  - unfold bind. destruct (do_exit_scope s2) as [[[]|?] s3]; [|discriminate].
    destruct (do_remove (t_main_name T) s3) as [[[]|?] s4]; discriminate.
  - destruct (t_main0_guarded T && is_exception e); [|discriminate].
    unfold bind. destruct (do_exit_scope s2) as [[[]|?] s3]; [|discriminate].
    destruct (do_remove (t_main_name T) s3) as [[[]|?] s4]; discriminate.
Qed.

Lemma seq_match_shape cs : forall acc s c' s', Forall WN acc ->
  seq_match T rec cs acc s = (Val (Some c'), s') -> Forall WN c'.
Proof.
  induction cs as [|c r IH]; intros acc s c' s' W; cbn [seq_match].
  - intros H. inversion H; subst. exact W.
  - unfold bind at 1.
    destruct ((if t_shared_restores T then catch_nomatch (call rec c) else call rec c) s) as [[[t|]|e] s1] eqn:CS;
      [| |discriminate].
    + apply IH. apply Forall_app; split; [exact W|]. constructor; [|constructor].
      destruct (t_shared_restores T); [apply catch_val in CS|]; eapply call_shape; eauto.
    + unfold bind. destruct ((if t_shared_restores T then lift (restore acc) else ret tt) s1) as [[[]|?] ?];
        unfold ret; discriminate.
Qed.

Lemma loop_match_shape c k : forall acc s c' s', Forall WN acc ->
  loop_match rec c k acc s = (Val (Some c'), s') -> Forall WN c'.
Proof.
  induction k as [|k IH]; intros acc s c' s' W; cbn [loop_match]; [discriminate|].
  unfold bind at 1. destruct (catch_nomatch (call rec c) s) as [[[t|]|e] s1] eqn:CS; [| |discriminate].
  - apply IH. apply Forall_app; split; [exact W|]. constructor; [|constructor].
    apply catch_val in CS. eapply call_shape; eauto.
  - unfold ret. destruct acc; intros H; inversion H; subst. exact W.
Qed.

Lemma try_alts_shape alts : forall s t s', try_alts rec alts s = (Val (Some t), s') -> WN t.
Proof.
  induction alts as [|a r IH]; intros s t s'; cbn [try_alts]; [discriminate|].
  destruct (mem a (pcls s)); [apply IH|]. unfold bind.
  destruct (catch_nomatch (rec a) s) as [[[t0|]|e] s1] eqn:CS; [| |discriminate].
  - intros H. inversion H; subst. apply catch_val in CS. eapply HS; eauto.
  - apply IH.
Qed.

End WithRec.

Hypothesis H_nostart : forall c b,
  c_kind (entry T c) = KBlock b \/ c_kind (entry T c) = KMain0 b -> nostart_ok b.
Hypothesis HC : forall fuel, Contract T (new T L fuel).

Theorem new_shape : forall fuel, ShapeC (new T L fuel).
Proof.
  induction fuel as [|f IH]; intros c s t s'; cbn [new]; [discriminate|].
  destruct (N.eqb c (t_comment T)) eqn:EC; [intros H; apply (comment_shape _ _ _ H)|].
  destruct (N.eqb c (t_directive T)) eqn:ED; [intros H; apply (directive_shape _ _ _ H)|].
  apply N.eqb_neq in EC. apply N.eqb_neq in ED.
  set (s1 := if mem c (pcls (tick s)) then tick s else set_pcls (pcls (tick s) ++ [c]) (tick s)).
  assert (FIN : forall (m : M (option (list tree))),
            (forall c' s2, m s1 = (Val (Some c'), s2) ->
               Forall WN c' /\ (forall b, c_kind (entry T c) = KBlock b \/ c_kind (entry T c) = KMain0 b -> block_shape b c')) ->
            match catch_nomatch m s1 with
            | (Raise e', s2) => (Raise e', s2)
            | (Val (Some content), s2) => (Val (Some (TBlock c content)), s2)
            | (Val None, s2) =>
                match try_alts (new T L f) (c_alts (entry T c)) s2 with
                | (Val (Some t), s3) => (Val (Some t), s3)
                | (Val None, s3) => if seen_code s3 then (Raise ENoMatch, s3) else (Val None, s3)
                | (Raise e', s3) => (Raise e', s3)
                end
            end = (Val (Some t), s') -> WN t).
  { intros m Hm. destruct (catch_nomatch m s1) as [[[content|]|e] s2] eqn:CM.
    - intros H. inversion H; subst. apply catch_val in CM. destruct (Hm _ _ CM) as [A B]. now constructor.
    - destruct (try_alts (new T L f) (c_alts (entry T c)) s2) as [[[t0|]|e] s3] eqn:TA.
      + intros H. inversion H; subst. eapply try_alts_shape; eauto.
      + destruct (seen_code s3); discriminate.
      + discriminate.
    - discriminate. }
  destruct (c_kind (entry T c)) as [| |b|b|cs|c'|] eqn:K.
  - apply leaf_shape; assumption.
  - apply FIN. unfold ret. discriminate.
  - apply FIN. intros c' s2 H.
    destruct (block_match_shape (new T L f) (HC f) IH b s1 c' s2 (H_nostart c b (or_introl K)) H) as [A B].
    split; [exact A|]. intros b' [Kb|Kb]; inversion Kb; subst; exact B.
  - apply FIN. intros c' s2 H.
    destruct (main0_shape (new T L f) (HC f) IH b s1 c' s2 (H_nostart c b (or_intror K)) H) as [A B].
    split; [exact A|]. intros b' [Kb|Kb]; inversion Kb; subst; exact B.
  - apply FIN. intros c' s2 H. split; [eapply seq_match_shape; eauto|].
    intros b' [Kb|Kb]; discriminate.
  - apply FIN. intros c'' s2 H. split; [eapply loop_match_shape; eauto|].
    intros b' [Kb|Kb]; discriminate.
  - apply FIN. unfold ret. discriminate.
Qed.

End Shape.
