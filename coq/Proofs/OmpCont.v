(* Free form, OpenMP conditional compilation ENABLED: once a statement has started behind a sentinel,
   the continuation loop reads every further physical line as if its leading  !$  had been replaced
   by two blanks -- for every reader state, every text already joined, every open-quote state and
   any number of lines.  Stated as a simulation: running the loop with the sentinel handling on equals
   running the plain loop on the source in which omp_free_cont has been applied to every line. *)
From Coq Require Import List Bool Arith Ascii NArith Lia.
From FV Require Import SplitLine Text Reader ReaderJoin OmpLaws.
Import ListNotations.

Definition g := omp_free_cont.

Definition mapl (s : rst) : rst :=
  mkRst (map g (r_src s)) (map g (r_filo s)) (r_linecount s) (r_fifo s) (r_free s) false (r_ign s) (r_err s).

(* blanking commutes with the right-strip the reader applies to each physical line *)
Definition comm (l : text) : Prop := rstrip (g l) = g (rstrip l).
Definition ok (s : rst) : Prop := r_free s = true /\ Forall comm (r_src s).

Definition lift3 (x : text * nat * rst) : text * nat * rst := let '(t, e, s) := x in (t, e, mapl s).

Lemma mapl_upd_fifo f s : mapl (upd_fifo f s) = upd_fifo f (mapl s).
Proof. reflexivity. Qed.
Lemma mapl_push_opt o s : mapl (push_opt o s) = push_opt o (mapl s).
Proof. destruct o; reflexivity. Qed.
Lemma ok_upd_fifo f s : ok s -> ok (upd_fifo f s).
Proof. intros H. exact H. Qed.
Lemma ok_push_opt o s : ok s -> ok (push_opt o s).
Proof. destruct o; intros H; exact H. Qed.

Lemma gsl_map s : ok s ->
  get_single_line (mapl s) = (option_map g (fst (get_single_line s)), mapl (snd (get_single_line s)))
  /\ ok (snd (get_single_line s)).
Proof.
  intros [F C]. unfold get_single_line. destruct s as [src filo lc fifo fr om ig er]. cbn [r_filo r_src r_linecount r_fifo r_free r_omp r_ign r_err mapl] in *.
  subst fr. destruct filo as [|l f]; cbn [map].
  - rewrite !andb_false_r. destruct src as [|l r]; cbn [map pull_src].
    + split; [reflexivity|]. split; [reflexivity|constructor].
    + cbn [andb]. inversion C as [|x y Cl Cr]; subst. unfold comm in Cl. rewrite Cl. split; [reflexivity|].
      split; [reflexivity|exact Cr].
  - split; [reflexivity|]. split; [reflexivity|exact C].
Qed.

Lemma sim : forall f first acc q endl line s, ok s ->
  lift3 (free_loop f true first acc q endl line s) = free_loop f false first acc q endl (g line) (mapl s).
Proof.
  induction f as [|f IH]; intros first acc q endl line s OK; [reflexivity|].
  (* the continuation step, shared by every branch *)
  assert (CW : forall a q' e' s', ok s' ->
    lift3 (match get_single_line s' with
           | (Some l', s'') => free_loop f true false a q' e' l' s''
           | (None, s'') => (a, e', s'')
           end)
    = match get_single_line (mapl s') with
      | (Some l', s'') => free_loop f false false a q' e' l' s''
      | (None, s'') => (a, e', s'')
      end).
  { intros a q' e' s' OK'. destruct (gsl_map s' OK') as [E OK2]. rewrite E.
    destruct (get_single_line s') as [[l'|] s'']; cbn [fst snd option_map] in *.
    - apply IH. exact OK2.
    - reflexivity. }
  cbn [free_loop]. fold g. cbn [r_linecount r_fifo mapl].
  set (L := g line).
  destruct (negb first && starts_with ["!"%char] (lstrip L)).
  { rewrite CW by (apply ok_upd_fifo; exact OK). reflexivity. }
  destruct (negb first && match lstrip L with [] => true | _ => false end).
  { rewrite CW by exact OK. reflexivity. }
  destruct (handle_inline_comment L (r_linecount s) q) as [[l1 q1] cm].
  rewrite <- mapl_push_opt.
  assert (OKP : ok (push_opt cm s)) by (apply ok_push_opt; exact OK).
  assert (LC : r_linecount (mapl (push_opt cm s)) = r_linecount (push_opt cm s)) by reflexivity.
  rewrite LC.
  destruct first.
  - destruct (rfind_char "&"%char l1) as [k|]; [|reflexivity].
    destruct (is_blank (skipn (S k) l1)); [|reflexivity].
    rewrite CW by exact OKP. reflexivity.
  - destruct (match rfind_char "&"%char l1 with Some k => is_blank (skipn (S k) l1) | None => false end).
    + rewrite CW by exact OKP. reflexivity.
    + reflexivity.
Qed.

(* In words: the result of the loop (joined text, last line number) is the same, and what is left of
   the source is the blanked remainder. *)
Theorem free_loop_behind_sentinel f first acc q endl line s : ok s ->
  let '(t, e, s2) := free_loop f true first acc q endl line s in
  free_loop f false first acc q endl (omp_free_cont line) (mapl s) = (t, e, mapl s2).
Proof.
  intros OK. pose proof (sim f first acc q endl line s OK) as H.
  destruct (free_loop f true first acc q endl line s) as [[t e] s2]. cbn [lift3] in H. symmetry. exact H.
Qed.

(* the blanking itself:  b !$ r  ->  b (two blanks) r , and a line without sentinel is unchanged *)
Lemma take_blanks b x r : forallb (fun c => aeqb c " "%char) b = true -> aeqb x " "%char = false ->
  take_while (fun c => aeqb c " "%char) (b ++ x :: r) = b.
Proof.
  induction b as [|y t IH]; cbn; intros B X; [now rewrite X|].
  apply andb_true_iff in B as [B1 B2]. rewrite B1. f_equal. apply IH; assumption.
Qed.

Lemma omp_free_cont_sentinel b r : forallb (fun c => aeqb c " "%char) b = true ->
  omp_free_cont (b ++ "!"%char :: "$"%char :: r) = b ++ " "%char :: " "%char :: r.
Proof.
  intros B. unfold omp_free_cont. rewrite (take_blanks b "!"%char ("$"%char :: r) B eq_refl).
  rewrite skipn_app, skipn_all, Nat.sub_diag. reflexivity.
Qed.

Lemma omp_free_cont_other b x y r : forallb (fun c => aeqb c " "%char) b = true -> aeqb x " "%char = false ->
  aeqb x "!"%char && aeqb y "$"%char = false ->
  omp_free_cont (b ++ x :: y :: r) = b ++ x :: y :: r.
Proof.
  intros B X N. unfold omp_free_cont. rewrite (take_blanks b x (y :: r) B X).
  rewrite skipn_app, skipn_all, Nat.sub_diag. cbn [skipn app]. now rewrite N.
Qed.

(* ---- the item: a statement whose first line carries the sentinel, read with the handling enabled,
   is the statement read from the blanked source with the handling disabled *)
Lemma lstrip_blanks_amp_gen b x r : blanks b -> is_space x = false -> lstrip (b ++ x :: r) = x :: r.
Proof.
  unfold blanks. induction b as [|y t IH]; cbn; intros H X; [now rewrite X|].
  apply andb_true_iff in H as [H1 H2]. apply aeqb_eq in H1. subst. cbn. apply IH; assumption.
Qed.

Lemma mapl_set_err s : mapl (set_err s) = set_err (mapl s).
Proof. reflexivity. Qed.

Definition lift2 (x : option ritem * rst) : option ritem * rst := (fst x, mapl (snd x)).

Theorem item_behind_sentinel b rest lab l1 nm l2 src lc fifo ign er :
  blanks b ->
  rstrip (b ++ "!"%char :: "$"%char :: " "%char :: rest) = b ++ "!"%char :: "$"%char :: " "%char :: rest ->
  rstrip (b ++ " "%char :: " "%char :: " "%char :: rest) = b ++ " "%char :: " "%char :: " "%char :: rest ->
  starts_with ["#"%char] (lstrip (b ++ " "%char :: " "%char :: " "%char :: rest)) = false ->
  extract_label (b ++ " "%char :: " "%char :: " "%char :: rest) = (lab, l1) ->
  extract_construct_name l1 = (nm, l2) -> omp_free_cont l2 = l2 ->
  Forall comm src ->
  get_source_item (mkRst ((b ++ " "%char :: " "%char :: " "%char :: rest) :: map g src) [] lc fifo true false ign er)
  = lift2 (get_source_item (mkRst ((b ++ "!"%char :: "$"%char :: " "%char :: rest) :: src) [] lc fifo true true ign er)).
Proof.
  intros B S1 S2 NH EL EN GL C.
  set (line := b ++ "!"%char :: "$"%char :: " "%char :: rest) in *.
  set (line1 := b ++ " "%char :: " "%char :: " "%char :: rest) in *.
  unfold get_source_item.
  assert (G1 : get_single_line (mkRst (line :: src) [] lc fifo true true ign er)
               = (Some line, mkRst src [] (S lc) fifo true true ign er)).
  { unfold get_single_line. cbn. rewrite S1, !andb_false_r. reflexivity. }
  assert (G2 : get_single_line (mkRst (line1 :: map g src) [] lc fifo true false ign er)
               = (Some line1, mkRst (map g src) [] (S lc) fifo true false ign er)).
  { unfold get_single_line. cbn. rewrite S2, !andb_false_r. reflexivity. }
  rewrite G1, G2. cbn [r_src r_filo r_free r_omp r_linecount List.length].
  assert (H1 : (match line with [] => false | _ => true end) && starts_with ["#"%char] (lstrip line) = false).
  { unfold line. rewrite (lstrip_blanks_amp_gen b "!"%char _ B eq_refl). cbn. apply andb_false_r. }
  rewrite H1, NH, andb_false_r. rewrite map_length.
  unfold line at 1. rewrite (omp_free_init_spec b rest B). fold line1.
  unfold free_item. rewrite EL, EN. cbn [r_linecount].
  match goal with |- context [free_loop ?f false true] => set (fuel := f) end.
  set (s1 := mkRst src [] (S lc) fifo true true ign er).
  assert (OK : ok s1) by (split; [reflexivity|exact C]).
  pose proof (sim fuel true [] None (S lc) l2 s1 OK) as SIM. unfold g in SIM at 1. rewrite GL in SIM.
  change (mkRst (map g src) [] (S lc) fifo true false ign er) with (mapl s1).
  rewrite <- SIM. destruct (free_loop fuel true true [] None (S lc) l2 s1) as [[txt endl] s2]. cbn [lift3]. unfold lift2.
  destruct (strip txt) as [|c t]; [|reflexivity].
  destruct nm; [reflexivity|]. cbn [r_fifo mapl]. destruct (r_fifo s2); reflexivity.
Qed.
