(* ';' splitting on text without character context and without brackets: the statement text is cut at
   EVERY ';' and nowhere else, so the parts are exactly the pieces between the semicolons. *)
From Coq Require Import List Bool Arith Ascii String NArith Lia.
From FV Require Import SplitLine Text Reader.
Import ListNotations.
Close Scope string_scope.

Definition simple_char (c : ascii) : bool :=
  negb (aeqb c squote) && negb (aeqb c dquote) && negb (aeqb c "\"%char)
  && negb (aeqb c "("%char) && negb (aeqb c "["%char).
Definition simple (t : text) : Prop := forallb simple_char t = true.

Lemma simple_cons c t : simple (c :: t) -> simple_char c = true /\ simple t.
Proof. unfold simple. cbn [forallb]. intros H. apply andb_true_iff in H. exact H. Qed.

Lemma simple_char_facts c : simple_char c = true ->
  aeqb c squote = false /\ aeqb c dquote = false /\ aeqb c "\"%char = false /\ closer_of c = None.
Proof.
  unfold simple_char. intros H. repeat (apply andb_true_iff in H as [H ?]).
  repeat match goal with X : negb _ = true |- _ => apply negb_true_iff in X end.
  repeat split; auto. unfold closer_of. now rewrite H1, H0.
Qed.

Lemma next_quote_simple t : simple t -> next_quote None t = None.
Proof.
  induction t as [|c r IH]; intros S; [reflexivity|]. apply simple_cons in S as [Sc Sr].
  destruct (simple_char_facts c Sc) as [A [B _]]. cbn [next_quote is_target]. rewrite A, B. cbn [orb].
  now rewrite (IH Sr).
Qed.

Lemma splitquote_simple t : simple t ->
  fst (splitquote t None false) = match t with [] => [] | _ => [Plain t] end.
Proof.
  intros S. unfold splitquote. cbn [sq_loop]. destruct t as [|c r]; [reflexivity|].
  rewrite (next_quote_simple _ S). reflexivity.
Qed.

Lemma mask_q_simple t : simple t -> mask_of_qsegs (fst (splitquote t None false)) = repeat false (List.length t).
Proof.
  intros S. rewrite (splitquote_simple t S). destruct t as [|c r]; [reflexivity|].
  cbn [mask_of_qsegs flat_map]. now rewrite app_nil_r.
Qed.

Lemma fold_pstep_simple t : simple t -> forall cur,
  fold_left pstep t (mkPst [] cur false None []) = mkPst [] (rev t ++ cur) false None [].
Proof.
  induction t as [|c r IH]; intros S cur; [reflexivity|]. apply simple_cons in S as [Sc Sr].
  destruct (simple_char_facts c Sc) as [A [B [C D]]]. cbn [fold_left].
  assert (P : pstep (mkPst [] cur false None []) c = mkPst [] (c :: cur) false None []).
  { unfold pstep. cbn [p_items p_cur p_bs p_q p_stack]. rewrite C, A, B, D. reflexivity. }
  rewrite P, (IH Sr). cbn [rev]. now rewrite <- app_assoc.
Qed.

Lemma mask_p_simple t : simple t -> mask_of_psegs (splitparen t) = repeat false (List.length t).
Proof.
  intros S. unfold splitparen. rewrite (fold_pstep_simple t S []). cbn [p_cur p_items]. rewrite app_nil_r.
  destruct t as [|c r]; [reflexivity|].
  destruct (rev (c :: r)) eqn:E.
  - apply (f_equal (@List.length _)) in E. rewrite rev_length in E. discriminate.
  - rewrite <- E, rev_involutive. cbn [app mask_of_psegs flat_map]. now rewrite app_nil_r.
Qed.

(* cutting at every ';' *)
Fixpoint split_plain (t : text) (cur : text) : list text :=
  match t with
  | [] => [rev cur]
  | c :: r => if aeqb c ";"%char then rev cur :: split_plain r [] else split_plain r (c :: cur)
  end.

Lemma split_at_semis_nomask t : forall n k cur,
  split_at_semis t (repeat false n) (repeat false k) cur = split_plain t cur.
Proof.
  induction t as [|c r IH]; intros n k cur; [reflexivity|]. cbn [split_at_semis split_plain].
  assert (H1 : forall m, match repeat false m with b :: _ => b | [] => false end = false) by (destruct m; reflexivity).
  assert (H2 : forall m, tl (repeat false m) = repeat false (pred m)) by (destruct m; reflexivity).
  rewrite !H1, !H2. cbn [negb]. rewrite !andb_true_r. destruct (aeqb c ";"%char); [f_equal|]; apply IH.
Qed.

Theorem semi_split_simple t : simple t -> semi_split t = split_plain t [].
Proof. intros S. unfold semi_split. rewrite (mask_q_simple t S), (mask_p_simple t S). apply split_at_semis_nomask. Qed.

(* the pieces between the semicolons *)
Fixpoint join_semi (ps : list text) : text :=
  match ps with
  | [] => []
  | [p] => p
  | p :: r => p ++ ";"%char :: join_semi r
  end.

Lemma split_plain_piece p : mem_char ";"%char p = false -> forall rest cur,
  split_plain (p ++ ";"%char :: rest) cur = (rev cur ++ p) :: split_plain rest [].
Proof.
  induction p as [|c r IH]; intros H rest cur; cbn [app split_plain].
  - assert (X : aeqb ";"%char ";"%char = true) by reflexivity. rewrite X. now rewrite app_nil_r.
  - unfold mem_char in H. cbn [existsb] in H. apply orb_false_iff in H as [H1 H2].
    assert (E : aeqb c ";"%char = false) by (unfold aeqb in *; rewrite Ascii.eqb_sym; exact H1).
    rewrite E, (IH H2). cbn [rev]. now rewrite <- app_assoc.
Qed.

Lemma split_plain_last p : mem_char ";"%char p = false -> forall cur, split_plain p cur = [rev cur ++ p].
Proof.
  induction p as [|c r IH]; intros H cur; cbn [split_plain]; [now rewrite app_nil_r|].
  unfold mem_char in H. cbn [existsb] in H. apply orb_false_iff in H as [H1 H2].
  assert (E : aeqb c ";"%char = false) by (unfold aeqb in *; rewrite Ascii.eqb_sym; exact H1).
  rewrite E, (IH H2). cbn [rev]. now rewrite <- app_assoc.
Qed.

Theorem split_plain_join ps : ps <> [] -> Forall (fun p => mem_char ";"%char p = false) ps ->
  split_plain (join_semi ps) [] = ps.
Proof.
  induction ps as [|p r IH]; intros NE F; [contradiction|]. inversion F as [|x y Hp Hr]; subst.
  destruct r as [|p2 r'].
  - cbn [join_semi]. now rewrite (split_plain_last p Hp []).
  - change (join_semi (p :: p2 :: r')) with (p ++ ";"%char :: join_semi (p2 :: r')).
    rewrite (split_plain_piece p Hp). cbn [rev app]. f_equal. apply IH; [discriminate|exact Hr].
Qed.

Theorem semi_split_join ps : ps <> [] -> Forall (fun p => mem_char ";"%char p = false) ps ->
  simple (join_semi ps) -> semi_split (join_semi ps) = ps.
Proof. intros NE F S. rewrite (semi_split_simple _ S). now apply split_plain_join. Qed.

(* ---- cutting at ';' never loses a character: whatever the text and whatever is masked, the pieces joined with ';'
        are the text *)
Lemma split_at_semis_ne t : forall mq mp cur, split_at_semis t mq mp cur <> [].
Proof.
  induction t as [|c r IH]; intros mq mp cur; cbn [split_at_semis]; [discriminate|].
  destruct (aeqb c ";"%char && negb match mq with b :: _ => b | [] => false end
            && negb match mp with b :: _ => b | [] => false end); [discriminate|apply IH].
Qed.

Lemma join_semi_cons p r : r <> [] -> join_semi (p :: r) = p ++ ";"%char :: join_semi r.
Proof. destruct r; [contradiction|reflexivity]. Qed.

Lemma split_at_semis_lossless t : forall mq mp cur, join_semi (split_at_semis t mq mp cur) = rev cur ++ t.
Proof.
  induction t as [|c r IH]; intros mq mp cur; cbn [split_at_semis].
  - cbn [join_semi]. now rewrite app_nil_r.
  - destruct (aeqb c ";"%char && negb match mq with b :: _ => b | [] => false end
              && negb match mp with b :: _ => b | [] => false end) eqn:E.
    + rewrite join_semi_cons by apply split_at_semis_ne. rewrite IH. cbn [rev app].
      apply andb_true_iff in E as [E _]. apply andb_true_iff in E as [E _]. unfold aeqb in E. apply Ascii.eqb_eq in E. subst. reflexivity.
    + rewrite IH. cbn [rev]. now rewrite <- app_assoc.
Qed.

Theorem semi_split_lossless t : join_semi (semi_split t) = t.
Proof. unfold semi_split. apply (split_at_semis_lossless t _ _ []). Qed.
