(* The free-form continuation loop joins the pieces of a continued statement losslessly:
   for pieces free of exclamation marks, both quote characters and ampersands, written  p1&  /  &p2&  / ... /  &pn  with any blanks around the
   ampersands (leading '&' on every continuation line), the joined text is EXACTLY p1 ++ ... ++ pn,
   the span ends on the last line and exactly those n lines are consumed.  So a statement may be
   broken at any character position -- between or inside tokens -- without changing what the
   reader delivers.  (Pieces containing quotes or '!' are covered by the correspondence only.) *)
From Coq Require Import List Bool Arith Ascii NArith Lia.
From FV Require Import SplitLine Text Reader.
Import ListNotations.

Notation amp := ("&"%char) (only parsing).
Definition plain_char (c : ascii) : bool :=
  negb (aeqb c "!"%char) && negb (aeqb c squote) && negb (aeqb c dquote) && negb (aeqb c amp).
Definition plain (t : text) : Prop := forallb plain_char t = true.
Definition blanks (t : text) : Prop := forallb (fun c => aeqb c " "%char) t = true.

Lemma aeqb_refl c : aeqb c c = true. Proof. unfold aeqb. apply Ascii.eqb_refl. Qed.
Lemma aeqb_eq a b : aeqb a b = true -> a = b. Proof. unfold aeqb. apply Ascii.eqb_eq. Qed.

Lemma plain_no c t : plain t -> plain_char c = false -> mem_char c t = false.
Proof.
  unfold plain, mem_char. induction t as [|x r IH]; cbn; [reflexivity|]. intros H Hc.
  apply andb_true_iff in H as [H1 H2]. rewrite (IH H2 Hc), orb_false_r.
  destruct (aeqb c x) eqn:E; [|reflexivity]. apply aeqb_eq in E. subst. congruence.
Qed.
Lemma blanks_no c t : blanks t -> aeqb c " "%char = false -> mem_char c t = false.
Proof.
  unfold blanks, mem_char. induction t as [|x r IH]; cbn; [reflexivity|]. intros H Hc.
  apply andb_true_iff in H as [H1 H2]. rewrite (IH H2 Hc), orb_false_r.
  apply aeqb_eq in H1. subst. exact Hc.
Qed.
Lemma mem_char_app c a b : mem_char c (a ++ b) = mem_char c a || mem_char c b.
Proof. unfold mem_char. apply existsb_app. Qed.

Lemma blanks_is_blank t : blanks t -> is_blank t = true.
Proof.
  unfold blanks, is_blank. induction t as [|x r IH]; cbn; [reflexivity|]. intros H.
  apply andb_true_iff in H as [H1 H2]. apply aeqb_eq in H1. subst. cbn. apply IH. exact H2.
Qed.

Lemma find_char_app_not c a b : mem_char c a = false -> find_char c (a ++ b) = option_map (plus (length a)) (find_char c b).
Proof.
  induction a as [|x r IH]; cbn; intros H; [destruct (find_char c b); reflexivity|].
  apply orb_false_iff in H as [H1 H2]. unfold mem_char in IH.
  assert (aeqb x c = false) as -> by (unfold aeqb in *; now rewrite Ascii.eqb_sym).
  rewrite (IH H2). destruct (find_char c b); reflexivity.
Qed.
Lemma find_char_head c r : find_char c (c :: r) = Some 0.
Proof. cbn. now rewrite aeqb_refl. Qed.
Lemma find_char_none c t : mem_char c t = false -> find_char c t = None.
Proof.
  induction t as [|x r IH]; cbn; intros H; [reflexivity|]. apply orb_false_iff in H as [H1 H2].
  assert (aeqb x c = false) as -> by (unfold aeqb in *; now rewrite Ascii.eqb_sym).
  unfold mem_char in IH. now rewrite (IH H2).
Qed.

Lemma existsb_rev {A} (f : A -> bool) (l : list A) : existsb f (rev l) = existsb f l.
Proof.
  induction l as [|x r IH]; cbn; [reflexivity|]. rewrite existsb_app, IH. cbn. rewrite orb_false_r. apply orb_comm.
Qed.

(* a text with exactly the shown ampersands *)
Lemma rfind_last pre post : mem_char amp post = false ->
  rfind_char amp (pre ++ amp :: post) = Some (length pre).
Proof.
  intros H. unfold rfind_char. rewrite rev_app_distr. cbn [rev]. rewrite <- app_assoc. cbn [app].
  rewrite find_char_app_not.
  - rewrite find_char_head. cbn [option_map]. rewrite rev_length, app_length. cbn [length]. f_equal. lia.
  - unfold mem_char in *. rewrite existsb_rev. exact H.
Qed.
Lemma rfind_none t : mem_char amp t = false -> rfind_char amp t = None.
Proof.
  intros H. unfold rfind_char. rewrite find_char_none; [reflexivity|]. unfold mem_char in *. now rewrite existsb_rev.
Qed.

Lemma hic_trivial l n : mem_char "!"%char l = false -> mem_char dquote l = false -> mem_char squote l = false ->
  handle_inline_comment l n None = (l, None, None).
Proof. intros A B C. unfold handle_inline_comment. now rewrite A, B, C. Qed.

Definition amp_free (t : text) : Prop := mem_char amp t = false.
Definition quiet (t : text) : Prop :=
  mem_char "!"%char t = false /\ mem_char dquote t = false /\ mem_char squote t = false.

Lemma plain_quiet t : plain t -> quiet t /\ amp_free t.
Proof. intros P. repeat split; apply (plain_no _ _ P); reflexivity. Qed.
Lemma blanks_quiet t : blanks t -> quiet t /\ amp_free t.
Proof. intros P. repeat split; apply (blanks_no _ _ P); reflexivity. Qed.
Lemma quiet_app a b : quiet a -> quiet b -> quiet (a ++ b).
Proof. intros [A1 [A2 A3]] [B1 [B2 B3]]. unfold quiet. rewrite !mem_char_app, A1, A2, A3, B1, B2, B3. auto. Qed.
Lemma quiet_cons_amp t : quiet t -> quiet (amp :: t).
Proof. intros [A [B C]]. unfold quiet, mem_char in *. cbn. rewrite A, B, C. auto. Qed.

(* one continuation line  b1 & p & b2   (more lines follow) *)
Definition cont_line (b1 p b2 : text) : text := b1 ++ amp :: p ++ amp :: b2.
(* the last line  b1 & p *)
Definition last_line (b1 p : text) : text := b1 ++ amp :: p.

Lemma lstrip_blanks_amp b r : blanks b -> lstrip (b ++ amp :: r) = amp :: r.
Proof.
  unfold blanks. induction b as [|x t IH]; cbn; intros H; [reflexivity|].
  apply andb_true_iff in H as [H1 H2]. apply aeqb_eq in H1. subst. cbn. apply IH. exact H2.
Qed.

Section Join.
Variable ign : bool.

(* state helper: free form, omp off, empty filo *)
Definition st (src : list text) (lc : nat) (fifo : list ritem) : rst := mkRst src [] lc fifo true false ign false.

Lemma gsl src l lc fifo : rstrip l = l ->
  get_single_line (st (l :: src) lc fifo) = (Some l, st src (S lc) fifo).
Proof. intros R. unfold get_single_line, st. cbn. rewrite R. rewrite andb_false_r. reflexivity. Qed.

(* lines are given already right-stripped (get_single_line strips them) *)
Definition stripped (l : text) : Prop := rstrip l = l.

Lemma step_last rest fuel acc endl b1 p lc fifo :
  blanks b1 -> plain p -> p <> [] -> negb (is_blank p) = true ->
  free_loop (S fuel) false false acc None endl (last_line b1 p) (st rest lc fifo)
  = (acc ++ p, lc, st rest lc fifo).
Proof.
  intros B P NE NB. cbn [free_loop]. unfold last_line.
  rewrite (lstrip_blanks_amp b1 p B). cbn [starts_with]. 
  assert (E1 : aeqb "!"%char amp = false) by reflexivity. rewrite E1. cbn [andb negb].
  destruct (plain_quiet p P) as [Qp Ap]. destruct (blanks_quiet b1 B) as [Qb Ab].
  assert (Q : quiet (b1 ++ amp :: p)) by (apply quiet_app; [exact Qb|apply quiet_cons_amp; exact Qp]).
  destruct Q as [Q1 [Q2 Q3]]. rewrite (hic_trivial _ _ Q1 Q2 Q3). cbn [push_opt].
  rewrite (rfind_last b1 p Ap).
  replace (skipn (S (length b1)) (b1 ++ amp :: p)) with p
    by (rewrite skipn_app, skipn_all2 by lia; replace (S (length b1) - length b1) with 1 by lia; reflexivity).
  destruct (is_blank p) eqn:IB; [discriminate|].
  rewrite firstn_all.
  rewrite (find_char_app_not amp b1 (amp :: p) Ab), find_char_head. cbn [option_map]. rewrite Nat.add_0_r.
  assert (KK : (if Nat.eqb (length b1) 1 then Some (length b1)
                else if is_blank (firstn (length b1) (b1 ++ amp :: p)) then Some (length b1) else None) = Some (length b1)).
  { destruct (Nat.eqb (length b1) 1); [reflexivity|]. rewrite firstn_app, firstn_all, Nat.sub_diag. cbn [firstn].
    rewrite app_nil_r, (blanks_is_blank b1 B). reflexivity. }
  rewrite KK.
  replace (skipn (S (length b1)) (b1 ++ amp :: p)) with p
    by (rewrite skipn_app, skipn_all2 by lia; replace (S (length b1) - length b1) with 1 by lia; reflexivity).
  rewrite firstn_all2; [reflexivity|]. rewrite app_length. cbn [length]. lia.
Qed.

Lemma rstrip_amp x : rstrip (x ++ [amp]) = x ++ [amp].
Proof. unfold rstrip. rewrite rev_app_distr. simpl. now rewrite rev_involutive. Qed.

Lemma skipn_app_exact {A} (a b : list A) : skipn (length a) (a ++ b) = b.
Proof. rewrite skipn_app, skipn_all, Nat.sub_diag. reflexivity. Qed.
Lemma firstn_app_exact {A} (a b : list A) : firstn (length a) (a ++ b) = a.
Proof. rewrite firstn_app, firstn_all, Nat.sub_diag. cbn. apply app_nil_r. Qed.

Lemma step_cont fuel acc endl b1 p nextl src lc fifo :
  blanks b1 -> plain p -> stripped nextl ->
  free_loop (S fuel) false false acc None endl (b1 ++ amp :: p ++ [amp]) (st (nextl :: src) lc fifo)
  = free_loop fuel false false (acc ++ p) None lc nextl (st src (S lc) fifo).
Proof.
  intros B P SN. cbn [free_loop].
  rewrite (lstrip_blanks_amp b1 (p ++ [amp]) B). cbn [starts_with].
  assert (E1 : aeqb "!"%char amp = false) by reflexivity. rewrite E1. cbn [andb negb].
  destruct (plain_quiet p P) as [Qp Ap]. destruct (blanks_quiet b1 B) as [Qb Ab].
  assert (Q : quiet (b1 ++ amp :: p ++ [amp])).
  { apply quiet_app; [exact Qb|]. apply quiet_cons_amp. apply quiet_app; [exact Qp|]. repeat split. }
  destruct Q as [Q1 [Q2 Q3]]. rewrite (hic_trivial _ _ Q1 Q2 Q3). cbn [push_opt].
  replace (b1 ++ amp :: p ++ [amp]) with ((b1 ++ amp :: p) ++ amp :: []) by (now rewrite <- app_assoc).
  rewrite (rfind_last (b1 ++ amp :: p) [] eq_refl).
  replace (S (length (b1 ++ amp :: p))) with (length ((b1 ++ amp :: p) ++ [amp])) by (rewrite app_length; cbn; lia).
  rewrite skipn_all. cbn [is_blank lstrip].
  rewrite firstn_app_exact.
  rewrite (find_char_app_not amp b1 (amp :: p) Ab), find_char_head. cbn [option_map]. rewrite Nat.add_0_r.
  assert (KK : (if Nat.eqb (length b1) 1 then Some (length b1)
                else if is_blank (firstn (length b1) ((b1 ++ amp :: p) ++ [amp])) then Some (length b1) else None)
               = Some (length b1)).
  { destruct (Nat.eqb (length b1) 1); [reflexivity|]. rewrite <- app_assoc, firstn_app_exact, (blanks_is_blank b1 B).
    reflexivity. }
  rewrite KK.
  assert (PC : firstn (length (b1 ++ amp :: p) - S (length b1)) (skipn (S (length b1)) ((b1 ++ amp :: p) ++ [amp])) = p).
  { rewrite <- app_assoc. replace (S (length b1)) with (length (b1 ++ [amp])) by (rewrite app_length; cbn; lia).
    replace (b1 ++ (amp :: p) ++ [amp]) with ((b1 ++ [amp]) ++ p ++ [amp]) by (rewrite <- app_assoc; reflexivity).
    rewrite skipn_app_exact. rewrite !app_length. cbn [length].
    replace (length b1 + S (length p) - (length b1 + 1)) with (length p) by lia. apply firstn_app_exact. }
  rewrite PC. rewrite (gsl src nextl lc fifo SN). reflexivity.
Qed.

Lemma step_first fuel endl p1 nextl src lc fifo :
  plain p1 -> stripped nextl ->
  free_loop (S fuel) false true [] None endl (p1 ++ [amp]) (st (nextl :: src) lc fifo)
  = free_loop fuel false false p1 None lc nextl (st src (S lc) fifo).
Proof.
  intros P SN. cbn [free_loop]. cbn [negb andb].
  destruct (plain_quiet p1 P) as [Qp Ap].
  assert (Q : quiet (p1 ++ [amp])) by (apply quiet_app; [exact Qp|repeat split]).
  destruct Q as [Q1 [Q2 Q3]]. rewrite (hic_trivial _ _ Q1 Q2 Q3). cbn [push_opt].
  rewrite (rfind_last p1 [] eq_refl).
  replace (S (length p1)) with (length (p1 ++ [amp])) by (rewrite app_length; cbn; lia).
  rewrite skipn_all. cbn [is_blank lstrip]. rewrite firstn_app_exact.
  rewrite (gsl src nextl lc fifo SN). reflexivity.
Qed.

(* n pieces: p1& / b&p&  ... / b&pn *)
Fixpoint mids (ms : list (text * text)) : list text :=
  match ms with [] => [] | (b, p) :: r => (b ++ amp :: p ++ [amp]) :: mids r end.
Definition mids_ok (ms : list (text * text)) : Prop := Forall (fun bp => blanks (fst bp) /\ plain (snd bp)) ms.

Lemma join_mids : forall ms fuel acc endl b p bn pn src lc fifo,
  mids_ok ((b, p) :: ms) -> blanks bn -> plain pn -> pn <> [] -> negb (is_blank pn) = true ->
  stripped (last_line bn pn) -> length ms < fuel ->
  free_loop (S fuel) false false acc None endl (b ++ amp :: p ++ [amp])
            (st (mids ms ++ last_line bn pn :: src) lc fifo)
  = (acc ++ p ++ concat (map snd ms) ++ pn, S lc + length ms, st src (S lc + length ms) fifo).
Proof.
  induction ms as [|[b' p'] r IH]; intros fuel acc endl b p bn pn src lc fifo OK Bn Pn NE NB SL LT.
  - inversion OK as [|x y [Bb Pp] _]; subst. cbn [mids app].
    rewrite (step_cont fuel acc endl b p (last_line bn pn) src lc fifo Bb Pp SL).
    destruct fuel as [|f]; [cbn in LT; lia|].
    rewrite (step_last src f (acc ++ p) lc bn pn (S lc) fifo Bn Pn NE NB).
    cbn [map concat length]. rewrite <- app_assoc, Nat.add_0_r. reflexivity.
  - inversion OK as [|x y [Bb Pp] OK']; subst. cbn [mids app].
    rewrite (step_cont fuel acc endl b p (b' ++ amp :: p' ++ [amp]) _ lc fifo Bb Pp).
    2:{ unfold stripped. replace (b' ++ amp :: p' ++ [amp]) with ((b' ++ amp :: p') ++ [amp]) by (now rewrite <- app_assoc).
        apply rstrip_amp. }
    destruct fuel as [|f]; [cbn in LT; lia|].
    rewrite (IH f (acc ++ p) lc b' p' bn pn src (S lc) fifo OK' Bn Pn NE NB SL); [|cbn in LT; lia].
    cbn [map concat length snd]. rewrite <- !app_assoc.
    replace (S (S lc) + length r) with (S lc + S (length r)) by lia. reflexivity.
Qed.

Theorem join_pieces p1 ms bn pn src lc fifo endl fuel :
  plain p1 -> mids_ok ms -> blanks bn -> plain pn -> pn <> [] -> negb (is_blank pn) = true ->
  stripped (last_line bn pn) -> S (length ms) < fuel ->
  free_loop (S fuel) false true [] None endl (p1 ++ [amp])
            (st (mids ms ++ last_line bn pn :: src) lc fifo)
  = (p1 ++ concat (map snd ms) ++ pn, S lc + length ms, st src (S lc + length ms) fifo).
Proof.
  intros P1 OK Bn Pn NE NB SL LT. destruct ms as [|[b p] r].
  - cbn [mids app]. rewrite (step_first fuel endl p1 (last_line bn pn) src lc fifo P1 SL).
    destruct fuel as [|f]; [lia|].
    rewrite (step_last src f p1 lc bn pn (S lc) fifo Bn Pn NE NB). cbn. now rewrite Nat.add_0_r.
  - cbn [mids app]. rewrite (step_first fuel endl p1 (b ++ amp :: p ++ [amp]) _ lc fifo P1).
    2:{ unfold stripped. replace (b ++ amp :: p ++ [amp]) with ((b ++ amp :: p) ++ [amp]) by (now rewrite <- app_assoc).
        apply rstrip_amp. }
    destruct fuel as [|f]; [lia|].
    rewrite (join_mids r f p1 lc b p bn pn src (S lc) fifo OK Bn Pn NE NB SL); [|cbn in LT; lia].
    cbn [map concat length snd]. rewrite <- !app_assoc.
    replace (S (S lc) + length r) with (S lc + S (length r)) by lia. reflexivity.
Qed.

(* A comment line or a blank line between the lines of a continued statement changes neither the
   text joined so far nor the open-quote state nor the recorded end line: the comment is queued
   (to be delivered after the statement) and the loop goes on with the next physical line. *)
Lemma skip_comment_line fuel acc q endl cl nextl src lc fifo :
  starts_with ["!"%char] (lstrip cl) = true -> stripped nextl ->
  free_loop (S fuel) false false acc q endl cl (st (nextl :: src) lc fifo)
  = free_loop fuel false false acc q endl nextl
      (st src (S lc) (fifo ++ [RComment (lstrip cl) lc lc false])).
Proof.
  intros H SN. cbn [free_loop]. rewrite H. cbn [negb andb].
  change (upd_fifo (r_fifo (st (nextl :: src) lc fifo) ++ [RComment (lstrip cl) (r_linecount (st (nextl :: src) lc fifo))
                                                         (r_linecount (st (nextl :: src) lc fifo)) false])
                   (st (nextl :: src) lc fifo))
    with (st (nextl :: src) lc (fifo ++ [RComment (lstrip cl) lc lc false])).
  rewrite (gsl src nextl lc _ SN). reflexivity.
Qed.

Lemma skip_blank_line fuel acc q endl cl nextl src lc fifo :
  lstrip cl = [] -> stripped nextl ->
  free_loop (S fuel) false false acc q endl cl (st (nextl :: src) lc fifo)
  = free_loop fuel false false acc q endl nextl (st src (S lc) fifo).
Proof.
  intros H SN. cbn [free_loop]. rewrite H. cbn [starts_with negb andb].
  rewrite (gsl src nextl lc fifo SN). reflexivity.
Qed.

End Join.
