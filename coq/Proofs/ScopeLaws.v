(* The symbol-table bookkeeping mirrors the scoping structure: running the enter/exit operations that
   a scope forest induces (enter at each scoping start statement, exit at its end, in source order)
   appends exactly that forest, as tables, below the current scope -- for every forest, of any
   depth and width, and every well-formed current path. *)
From Coq Require Import List Bool Arith NArith Lia.
From FV Require Import Scope.
Import ListNotations.

Inductive stree := SNode (n : name) (kids : list stree).
Inductive sop := Enter (n : name) | Exit.

Fixpoint ops (t : stree) : list sop :=
  match t with SNode n k => Enter n :: flat_map ops k ++ [Exit] end.
Fixpoint to_stab (t : stree) : stab :=
  match t with SNode n k => STab n (map to_stab k) end.
Definition root (t : stree) : name := match t with SNode n _ => n end.

Definition step (o : option scopes) (op : sop) : option scopes :=
  match o with
  | None => None
  | Some sc => match op with Enter n => Some (enter_scope n sc) | Exit => exit_scope sc end
  end.
Definition run (l : list sop) (sc : scopes) : option scopes := fold_left step l (Some sc).

Lemma run_app a b sc : run (a ++ b) sc = match run a sc with Some s1 => run b s1 | None => None end.
Proof.
  unfold run. rewrite fold_left_app. destruct (fold_left step a (Some sc)); [reflexivity|].
  induction b; cbn; auto.
Qed.

(* ---- list-of-tables lemmas *)
Lemma has_name_app n a b : has_name n (a ++ b) = has_name n a || has_name n b.
Proof. unfold has_name. apply existsb_app. Qed.

Lemma upd_last_snoc n f k kids : upd_last n f (k ++ [STab n kids]) = k ++ [f (STab n kids)].
Proof.
  induction k as [|t r IH]; cbn [app upd_last].
  - cbn. now rewrite N.eqb_refl.
  - rewrite has_name_app. cbn [has_name existsb sname]. rewrite N.eqb_refl, orb_true_r. now rewrite IH.
Qed.

Lemma last_named_snoc n k kids : last_named n (k ++ [STab n kids]) = Some (STab n kids).
Proof.
  induction k as [|t r IH]; cbn [app last_named].
  - cbn. now rewrite N.eqb_refl.
  - now rewrite IH.
Qed.

Lemma has_name_cons m t r : has_name m (t :: r) = N.eqb (sname t) m || has_name m r.
Proof. reflexivity. Qed.

Lemma last_named_has n l : has_name n l = match last_named n l with Some _ => true | None => false end.
Proof.
  induction l as [|t r IH]; [reflexivity|]. rewrite has_name_cons, IH. cbn [last_named].
  destruct (last_named n r); [apply orb_true_r|]. rewrite orb_false_r. destruct (N.eqb (sname t) n); reflexivity.
Qed.

Definition keeps_names (F : stab -> stab) : Prop := forall t, sname (F t) = sname t.

Lemma has_name_upd_last n m F l : keeps_names F -> has_name m (upd_last n F l) = has_name m l.
Proof.
  intros K. induction l as [|t r IH]; [reflexivity|]. cbn [upd_last].
  destruct (has_name n r).
  - rewrite !has_name_cons. now rewrite IH.
  - destruct (N.eqb (sname t) n); [|reflexivity]. rewrite !has_name_cons. now rewrite K.
Qed.

Lemma upd_last_comp n F G l : keeps_names F ->
  upd_last n G (upd_last n F l) = upd_last n (fun t => G (F t)) l.
Proof.
  intros K. induction l as [|t r IH]; [reflexivity|]. cbn [upd_last].
  destruct (has_name n r) eqn:H.
  - cbn [upd_last]. rewrite has_name_upd_last by exact K. rewrite H. now rewrite IH.
  - destruct (N.eqb (sname t) n) eqn:E.
    + cbn [upd_last]. rewrite H. rewrite K, E. reflexivity.
    + cbn [upd_last]. rewrite H, E. reflexivity.
Qed.

Lemma upd_last_ext n F G l : (forall t, F t = G t) -> upd_last n F l = upd_last n G l.
Proof.
  intros E. induction l as [|t r IH]; [reflexivity|]. cbn [upd_last]. rewrite IH.
  destruct (has_name n r); [reflexivity|]. destruct (N.eqb (sname t) n); [now rewrite E|reflexivity].
Qed.

Lemma upd_path_ext p : forall f g l, (forall k, f k = g k) -> upd_path p f l = upd_path p g l.
Proof.
  induction p as [|n q IH]; intros f g l E; cbn [upd_path]; [apply E|].
  apply upd_last_ext. intros t. f_equal. apply IH. exact E.
Qed.

Lemma upd_path_app p : forall q f l, upd_path (p ++ q) f l = upd_path p (upd_path q f) l.
Proof.
  induction p as [|n r IH]; intros q f l; cbn [app upd_path]; [reflexivity|].
  apply upd_last_ext. intros t. f_equal. apply IH.
Qed.

Lemma upd_path_comp p : forall f g l,
  upd_path p g (upd_path p f l) = upd_path p (fun k => g (f k)) l.
Proof.
  induction p as [|n q IH]; intros f g l; cbn [upd_path]; [reflexivity|].
  rewrite upd_last_comp by (intros t; reflexivity).
  apply upd_last_ext. intros t. cbn [sname skids]. f_equal. apply IH.
Qed.

(* a path is valid if each component names a table *)
Fixpoint valid_path (p : list name) (l : list stab) : bool :=
  match p with
  | [] => true
  | n :: q => match last_named n l with Some t => valid_path q (skids t) | None => false end
  end.

Lemma last_named_upd_last n F l : keeps_names F ->
  last_named n (upd_last n F l) = option_map F (last_named n l).
Proof.
  intros K. induction l as [|t r IH]; [reflexivity|]. cbn [upd_last last_named].
  destruct (has_name n r) eqn:H.
  - cbn [last_named]. rewrite IH.
    assert (X : last_named n r <> None).
    { clear IH. induction r as [|u v IHv]; [discriminate|]. cbn [has_name existsb] in H. cbn [last_named].
      destruct (last_named n v); [discriminate|]. destruct (N.eqb (sname u) n) eqn:E; [discriminate|].
      cbn [orb] in H. exfalso. apply IHv; [exact H|reflexivity]. }
    destruct (last_named n r); [reflexivity|contradiction].
  - assert (X : last_named n r = None).
    { clear IH. induction r as [|u v IHv]; [reflexivity|]. cbn [has_name existsb] in H.
      apply orb_false_iff in H as [H1 H2]. cbn [last_named]. rewrite (IHv H2), H1. reflexivity. }
    destruct (N.eqb (sname t) n) eqn:E; cbn [last_named]; rewrite X; [rewrite K, E|rewrite E]; reflexivity.
Qed.

Lemma valid_path_upd p : forall f l, valid_path p l = true -> valid_path p (upd_path p f l) = true.
Proof.
  induction p as [|n q IH]; intros f l V; [reflexivity|]. cbn [valid_path upd_path] in *.
  rewrite last_named_upd_last by (intros t; reflexivity).
  destruct (last_named n l) as [t|]; [|discriminate]. cbn [option_map skids]. apply IH. exact V.
Qed.

Lemma kids_at_upd p : forall f l, valid_path p l = true -> kids_at p (upd_path p f l) = f (kids_at p l).
Proof.
  induction p as [|n q IH]; intros f l V; [reflexivity|]. cbn [valid_path upd_path kids_at] in *.
  rewrite last_named_upd_last by (intros t; reflexivity).
  destruct (last_named n l) as [t|]; [|discriminate]. cbn [option_map skids]. apply IH. exact V.
Qed.

Lemma valid_path_snoc p : forall n l, valid_path p l = true ->
  valid_path (p ++ [n]) (upd_path p (fun k => k ++ [STab n []]) l) = true.
Proof.
  induction p as [|m q IH]; intros n l V; cbn [app valid_path upd_path] in *.
  - rewrite last_named_snoc. reflexivity.
  - rewrite last_named_upd_last by (intros t; reflexivity).
    destruct (last_named m l) as [t|]; [|discriminate]. cbn [option_map skids]. apply IH. exact V.
Qed.

(* ---- the forest theorem below a current scope *)
Lemma enter_nested n sc : cur sc <> [] ->
  enter_scope n sc = mkScopes (upd_path (cur sc) (fun k => k ++ [STab n []]) (tops sc)) (cur sc ++ [n]).
Proof. unfold enter_scope. destruct (cur sc); [congruence|reflexivity]. Qed.

Lemma removelast_snoc {A} (l : list A) x : removelast (l ++ [x]) = l.
Proof. apply removelast_last. Qed.

Section ForestInd.
Variable P : stree -> Prop.
Hypothesis H : forall n kids, Forall P kids -> P (SNode n kids).
Fixpoint stree_ind2 (t : stree) : P t :=
  match t with
  | SNode n kids => H n kids ((fix go (l : list stree) : Forall P l :=
      match l with [] => Forall_nil P | k :: r => Forall_cons k (stree_ind2 k) (go r) end) kids)
  end.
End ForestInd.

Definition tree_law (t : stree) : Prop :=
  forall p tp, p <> [] -> valid_path p tp = true ->
    run (ops t) (mkScopes tp p) = Some (mkScopes (upd_path p (fun k => k ++ [to_stab t]) tp) p).

Definition forest_law (f : list stree) : Prop :=
  forall p tp, p <> [] -> valid_path p tp = true ->
    run (flat_map ops f) (mkScopes tp p) = Some (mkScopes (upd_path p (fun k => k ++ map to_stab f) tp) p).

Lemma upd_path_id p : forall l, upd_path p (fun k => k ++ []) l = l.
Proof.
  induction p as [|n q IH]; intros l; cbn [upd_path]; [apply app_nil_r|].
  induction l as [|t r IHr]; [reflexivity|]. cbn [upd_last]. rewrite IHr.
  destruct (has_name n r); [reflexivity|]. destruct (N.eqb (sname t) n); [|reflexivity].
  rewrite IH. destruct t; reflexivity.
Qed.

Lemma forest_of_trees f : Forall tree_law f -> forest_law f.
Proof.
  induction 1 as [|t r Ht Hr IH]; intros p tp Hp V; cbn [flat_map map].
  - cbn. now rewrite upd_path_id.
  - rewrite run_app. rewrite (Ht p tp Hp V).
    rewrite (IH p _ Hp (valid_path_upd p _ tp V)). rewrite upd_path_comp. f_equal. f_equal.
    apply upd_path_ext. intros k. now rewrite <- app_assoc.
Qed.

Theorem tree_law_all t : tree_law t.
Proof.
  induction t as [n kids IH] using stree_ind2. intros p tp Hp V. cbn [ops].
  change (Enter n :: flat_map ops kids ++ [Exit]) with ([Enter n] ++ flat_map ops kids ++ [Exit]).
  rewrite run_app. cbn [run fold_left step]. rewrite enter_nested by exact Hp. cbn [cur tops].
  rewrite run_app.
  assert (Hq : p ++ [n] <> []) by (destruct p; discriminate).
  rewrite (forest_of_trees kids IH (p ++ [n]) _ Hq (valid_path_snoc p n tp V)).
  cbn [run fold_left step]. unfold exit_scope. cbn [cur tops].
  destruct (p ++ [n]) eqn:E; [congruence|]. rewrite <- E. rewrite removelast_snoc. f_equal. f_equal.
  rewrite upd_path_app, upd_path_comp. apply upd_path_ext. intros k. cbn [upd_path].
  rewrite upd_last_snoc. cbn [sname skids to_stab app]. reflexivity.
Qed.

Theorem forest_law_all f : forest_law f.
Proof. apply forest_of_trees. apply Forall_forall. intros t _. apply tree_law_all. Qed.

(* ---- top level: each new unit name creates one top-level table *)
Lemma enter_top n sc : cur sc = [] -> has_name n (tops sc) = false ->
  enter_scope n sc = mkScopes (tops sc ++ [STab n []]) [n].
Proof. intros C H. unfold enter_scope. rewrite C, H. reflexivity. Qed.

Theorem top_forest_law f : forall tp,
  NoDup (map root f) -> (forall t, In t f -> has_name (root t) tp = false) ->
  run (flat_map ops f) (mkScopes tp []) = Some (mkScopes (tp ++ map to_stab f) []).
Proof.
  induction f as [|[n kids] r IH]; intros tp ND Fr; cbn [flat_map map].
  - cbn. now rewrite app_nil_r.
  - cbn [ops]. change (Enter n :: flat_map ops kids ++ [Exit]) with ([Enter n] ++ flat_map ops kids ++ [Exit]).
    rewrite <- !app_assoc. rewrite run_app. cbn [run fold_left step].
    rewrite enter_top; [|reflexivity|apply (Fr (SNode n kids)); left; reflexivity]. cbn [tops].
    rewrite run_app.
    assert (V : valid_path [n] (tp ++ [STab n []]) = true) by (cbn [valid_path]; now rewrite last_named_snoc).
    rewrite (forest_law_all kids [n] _ ltac:(discriminate) V).
    rewrite run_app. cbn [run fold_left step]. unfold exit_scope. cbn [cur tops removelast].
    cbn [upd_path]. rewrite upd_last_snoc. cbn [sname skids app].
    inversion ND as [|x l Hn ND']; subst.
    rewrite IH; [rewrite <- app_assoc; reflexivity|exact ND'|].
    intros t Ht. rewrite has_name_app. rewrite (Fr t (or_intror Ht)). cbn [has_name existsb sname orb].
    destruct (N.eqb n (root t)) eqn:E; [|reflexivity]. apply N.eqb_eq in E. exfalso. apply Hn. cbn [root] in *.
    rewrite E. apply in_map. exact Ht.
Qed.

(* ---- a failed attempt leaves no trace: enter n; (balanced operations below it); exit; remove n *)
Lemma del_first_snoc_fresh n k t : has_name n k = false -> sname t = n -> del_first n (k ++ [t]) = k.
Proof.
  intros H E. induction k as [|u r IH]; cbn [app del_first].
  - now rewrite E, N.eqb_refl.
  - cbn [has_name existsb] in H. apply orb_false_iff in H as [H1 H2]. rewrite H1. f_equal. apply IH. exact H2.
Qed.

Theorem failed_attempt_erased n f p tp :
  p <> [] -> valid_path p tp = true -> has_name n (kids_at p tp) = false ->
  match run (ops (SNode n f)) (mkScopes tp p) with
  | Some sc1 => remove_scope n sc1 = Some (mkScopes tp p)
  | None => False
  end.
Proof.
  intros Hp V Fr. rewrite (tree_law_all (SNode n f) p tp Hp V).
  unfold remove_scope. cbn [cur tops]. destruct p as [|a q] eqn:E; [congruence|]. rewrite <- E in *.
  rewrite kids_at_upd by exact V. rewrite has_name_app. cbn [to_stab has_name existsb sname].
  rewrite N.eqb_refl, orb_true_r. cbn [orb]. subst p. f_equal. f_equal.
  rewrite upd_path_comp.
  assert (X : forall l, has_name n (kids_at (a :: q) l) = false -> valid_path (a :: q) l = true ->
            upd_path (a :: q) (fun k => del_first n (k ++ [STab n (map to_stab f)])) l = l).
  { clear. generalize (a :: q) as p. induction p as [|m r IH]; intros l H V'; cbn [upd_path kids_at valid_path] in *.
    - apply del_first_snoc_fresh; [exact H|reflexivity].
    - destruct (last_named m l) as [t|] eqn:LN; [|discriminate].
      specialize (IH (skids t) H V').
      clear H V'. revert t LN IH. induction l as [|u v IHv]; intros t LN IH; [discriminate|].
      cbn [last_named] in LN. cbn [upd_last].
      destruct (last_named m v) as [w|] eqn:LV.
      + inversion LN; subst.
        assert (HN : has_name m v = true) by (rewrite last_named_has, LV; reflexivity).
        rewrite HN. f_equal. apply (IHv t eq_refl IH).
      + assert (HN : has_name m v = false) by (rewrite last_named_has, LV; reflexivity).
        rewrite HN. destruct (N.eqb (sname u) m); [|discriminate]. inversion LN; subst.
        rewrite IH. destruct t; reflexivity. }
  apply X; assumption.
Qed.
