(* OpenMP conditional-compilation sentinels in the reader model. *)
From Coq Require Import List Bool Arith Ascii NArith Lia.
From FV Require Import SplitLine Text Reader ReaderJoin.
Import ListNotations.

(* what "the sentinel replaced by blanks" means for a fixed-form physical line *)
Definition blank_fixed (l : text) : text := omp_fixed (rstrip l).

Lemma rstrip_idem l : rstrip (rstrip l) = rstrip l.
Proof.
  unfold rstrip. rewrite rev_involutive. f_equal.
  induction (rev l) as [|c r IH]; [reflexivity|]. cbn [lstrip]. destruct (is_space c) eqn:E; [exact IH|].
  cbn [lstrip]. now rewrite E.
Qed.

Lemma lstrip_nonspace c r : is_space c = false -> lstrip (c :: r) = c :: r.
Proof. intros H. cbn. now rewrite H. Qed.

(* a stripped line of at least one character ends in a non-space character *)
Lemma rstrip_last l c r : rev (rstrip l) = c :: r -> is_space c = false.
Proof.
  unfold rstrip. rewrite rev_involutive. induction (rev l) as [|x t IH]; cbn [lstrip]; [discriminate|].
  destruct (is_space x) eqn:E; [exact IH|]. intros H. inversion H; subst. exact E.
Qed.

Lemma rstrip_of_rev_nonspace l c r : rev l = c :: r -> is_space c = false -> rstrip l = l.
Proof. intros E H. unfold rstrip. rewrite E. cbn [lstrip]. rewrite H. rewrite <- E. apply rev_involutive. Qed.

(* replacing the sentinel keeps the line stripped *)
Lemma rstrip_blank_fixed l : rstrip (blank_fixed l) = blank_fixed l.
Proof.
  unfold blank_fixed. set (m := rstrip l). assert (Hm : rstrip m = m) by apply rstrip_idem.
  unfold omp_fixed. destruct m as [|a [|b [|c3 [|c4 [|c5 [|c6 r]]]]]]; try exact Hm.
  match goal with |- context [if ?c then _ else _] => destruct c end; [|exact Hm].
  (* the last character (at index >= 5) is unchanged *)
  destruct (rev (a :: b :: c3 :: c4 :: c5 :: c6 :: r)) as [|z t] eqn:E.
  { apply (f_equal (@length ascii)) in E. rewrite rev_length in E. cbn in E. lia. }
  assert (NS : is_space z = false).
  { apply (rstrip_last (a :: b :: c3 :: c4 :: c5 :: c6 :: r) z t). now rewrite Hm. }
  assert (E2 : rev (c3 :: c4 :: c5 :: c6 :: r) ++ [b; a] = z :: t).
  { rewrite <- E. change (a :: b :: c3 :: c4 :: c5 :: c6 :: r) with ([a; b] ++ c3 :: c4 :: c5 :: c6 :: r).
    rewrite rev_app_distr. reflexivity. }
  destruct (rev (c3 :: c4 :: c5 :: c6 :: r)) as [|y u] eqn:E3.
  { apply (f_equal (@length ascii)) in E3. rewrite rev_length in E3. cbn in E3. lia. }
  cbn [app] in E2. inversion E2; subst.
  apply (rstrip_of_rev_nonspace _ z (u ++ [" "%char; " "%char])); [|exact NS].
  change (" "%char :: " "%char :: c3 :: c4 :: c5 :: c6 :: r) with ([" "%char; " "%char] ++ c3 :: c4 :: c5 :: c6 :: r).
  rewrite rev_app_distr, E3. reflexivity.
Qed.

(* Fixed form, handling enabled: pulling the next physical line from a source equals pulling it,
   with handling disabled, from the source in which every sentinel has been replaced by blanks. *)
Lemma pull_src_blank src : forall cnt skip,
  pull_src (map blank_fixed src) cnt skip false
  = (let '(o, r, n) := pull_src src cnt skip true in (o, map blank_fixed r, n)).
Proof.
  induction src as [|l r IH]; intros cnt skip; cbn [map pull_src]; [reflexivity|].
  rewrite rstrip_blank_fixed. fold (blank_fixed l).
  destruct (skip && is_fix_comment (blank_fixed l)); [apply IH|reflexivity].
Qed.

(* Handling disabled: a fixed-form sentinel line is a comment line. *)
Lemma sentinel_is_fix_comment a r :
  (aeqb a "!"%char || aeqb a "*"%char || aeqb a "c"%char || aeqb a "C"%char) = true ->
  is_fix_comment (a :: r) = true.
Proof.
  intros H. unfold is_fix_comment, mem_char. cbn [existsb].
  destruct (aeqb a "*"%char) eqn:E1; [reflexivity|]. destruct (aeqb a "c"%char) eqn:E2; [reflexivity|].
  destruct (aeqb a "C"%char) eqn:E3; [reflexivity|]. destruct (aeqb a "!"%char) eqn:E4; [reflexivity|].
  discriminate.
Qed.

(* Free form, handling enabled: the initial-line sentinel  "   !$ "  becomes blanks of the same width. *)
Lemma omp_free_init_spec b rest : blanks b ->
  omp_free_init (b ++ "!"%char :: "$"%char :: " "%char :: rest)
  = (b ++ " "%char :: " "%char :: " "%char :: rest, true).
Proof.
  intros B. unfold omp_free_init.
  assert (TW : take_while (fun c => aeqb c " "%char) (b ++ "!"%char :: "$"%char :: " "%char :: rest) = b).
  { unfold blanks in B. induction b as [|x t IH]; cbn; [reflexivity|].
    apply andb_true_iff in B as [B1 B2]. rewrite B1. f_equal. apply IH. exact B2. }
  rewrite TW, skipn_app_exact. reflexivity.
Qed.

(* genuine OpenMP directives ( !$omp ... : no blank after the sentinel) are left alone *)
Lemma omp_free_init_directive b c rest : blanks b -> aeqb c " "%char = false ->
  omp_free_init (b ++ "!"%char :: "$"%char :: c :: rest) = (b ++ "!"%char :: "$"%char :: c :: rest, false).
Proof.
  intros B C. unfold omp_free_init.
  assert (TW : take_while (fun c => aeqb c " "%char) (b ++ "!"%char :: "$"%char :: c :: rest) = b).
  { unfold blanks in B. induction b as [|x t IH]; cbn; [reflexivity|].
    apply andb_true_iff in B as [B1 B2]. rewrite B1. f_equal. apply IH. exact B2. }
  rewrite TW, skipn_app_exact. cbn. now rewrite C.
Qed.
