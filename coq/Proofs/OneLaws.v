(* The block matcher of the legacy parser keeps every statement exactly once, in order:
   the statements of the content it builds, followed by the unread rest, are the input stream --
   for every oracle (whatever the per-statement regular expressions decide), when no statement
   is marked 'ignore'.  The variant that also keeps a shared DO terminal in the inner loop
   (the behaviour before the repair) is refuted. *)
From Coq Require Import List Bool Arith NArith Lia.
Require Import FV.Model.One.
Import ListNotations.

Lemma flatten_block c i kids : flatten (OBlock c i kids) = i :: flattens kids.
Proof.
  reflexivity.
Qed.
Lemma flattens_app a b : flattens (a ++ b) = flattens a ++ flattens b.
Proof. unfold flattens. apply flat_map_app. Qed.

Section Laws.
Variable is_end : oblock -> oitem -> bool.
Variable classify : oblock -> oitem -> cres.
Hypothesis no_ignore : forall b i c ign, classify b i = CStmt c ign -> ign = false.

Theorem fill_conserves : forall fuel parent b content s content' ended rest,
  fill is_end classify false fuel parent b content s = OOk content' ended rest ->
  flattens content' ++ rest = flattens content ++ s.
Proof.
  induction fuel as [|f IH]; intros parent b content s content' ended rest H; [discriminate|].
  cbn [fill] in H. destruct s as [|i r].
  { inversion H; subst. reflexivity. }
  set (hit := bdo b && oN_eq (olabel i) (bendlabel b)) in *.
  set (shared := hit && match parent with Some p => bdo p && oN_eq (olabel i) (bendlabel p) | None => false end) in *.
  destruct shared eqn:SH; cbn [negb andb] in H.
  { inversion H; subst. reflexivity. }
  destruct (is_end b i).
  { inversion H; subst. rewrite flattens_app. cbn. now rewrite <- app_assoc. }
  destruct (classify b i) as [|c ign|c isdo el] eqn:CL; [discriminate| |].
  - rewrite (no_ignore _ _ _ _ CL) in H.
    assert (E : flattens (content ++ [OStmt c i]) ++ r = flattens content ++ i :: r)
      by (rewrite flattens_app; cbn; now rewrite <- app_assoc).
    destruct hit.
    + inversion H; subst. exact E.
    + apply IH in H. rewrite H. exact E.
  - destruct (fill is_end classify false f (Some b) (mkOBlock (oid i) isdo el) [] r) as [sub e1 r1| |] eqn:F;
      try discriminate.
    apply IH in F. cbn [flattens flat_map app] in F.
    assert (E : flattens (content ++ [OBlock c i sub]) ++ r1 = flattens content ++ i :: r).
    { rewrite flattens_app. unfold flattens at 2. cbn [flat_map]. rewrite flatten_block, app_nil_r.
      rewrite <- app_assoc. cbn [app]. now rewrite F. }
    destruct hit.
    + inversion H; subst. exact E.
    + apply IH in H. rewrite H. exact E.
Qed.

End Laws.

(* the behaviour before the repair: do 10 / do 10 / 10 continue keeps "10 continue" twice *)
Definition ex_items : list oitem :=
  [mkOItem 0 None; mkOItem 1 None; mkOItem 2 (Some 10%N); mkOItem 3 None].
Definition ex_is_end (b : oblock) (i : oitem) : bool := false.
Definition ex_classify (b : oblock) (i : oitem) : cres :=
  match oid i with
  | 0 => CBegin 7 true (Some 10%N)
  | 1 => CBegin 7 true (Some 10%N)
  | _ => CStmt 3 false
  end.
Definition top : oblock := mkOBlock 99 false None.

Theorem dup_variant_refuted :
  exists content ended rest,
    fill ex_is_end ex_classify true 20 None top [] ex_items = OOk content ended rest /\
    flattens content ++ rest <> ex_items.
Proof. eexists _, _, _. split; [vm_compute; reflexivity|]. vm_compute. discriminate. Qed.

Example repaired_variant_example :
  match fill ex_is_end ex_classify false 20 None top [] ex_items with
  | OOk content _ rest => flattens content ++ rest = ex_items /\ length content = 2
  | _ => False
  end.
Proof. vm_compute. split; reflexivity. Qed.
