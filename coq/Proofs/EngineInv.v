(* Generic invariant pass over the engine model, with a predicate on items.  If a state predicate
   Inv and an item predicate Pit are such that every item read from an Inv-state satisfies Pit,
   pushing back Pit-items and recording a statement-level match (under a key not yet in the parse
   cache) preserve Inv, then every rule invocation and the whole parse preserve Inv and all items
   kept in result trees satisfy Pit -- for every table and every leaf oracle. *)
From Coq Require Import List Bool Arith NArith Lia.
From FV Require Import Scope Engine EngineContracts.
Import ListNotations.

Section Inv.
Variable T : table.
Variable L : item -> cls -> list cls -> leafres.
Variable Inv : est -> Prop.
Variable Pit : item -> Prop.

Hypothesis Inv_pcls : forall p s, Inv s -> Inv (set_pcls p s).
Hypothesis Inv_tick : forall s, Inv s -> Inv (tick s).
Hypothesis Inv_sc : forall x s, Inv s -> Inv (set_sc x s).
Hypothesis Inv_get : forall s i s1, Inv s -> get_item s = (Some i, s1) -> Pit i /\ Inv s1.
Hypothesis Inv_put : forall i s, Pit i -> Inv s -> Inv (put_item i s).
Hypothesis Inv_cache : forall i c v s, Pit i -> Inv s -> cache_find (iid i) c (cache s) = None -> Inv (add_cache i c v s).

Definition Ptree (t : tree) : Prop := Forall Pit (yield t).
Definition Plist (l : list tree) : Prop := Forall Pit (yields l).

Definition okb_t (r : res (option tree) * est) : Prop :=
  Inv (snd r) /\ match fst r with Val (Some t) => Ptree t | _ => True end.
Definition okb_m (r : res (option (list tree)) * est) : Prop :=
  Inv (snd r) /\ match fst r with Val (Some c) => Plist c | _ => True end.
Definition okb_l (r : res (list tree) * est) : Prop :=
  Inv (snd r) /\ match fst r with Val c => Plist c | _ => True end.

Definition BContract (rec : matcher) : Prop := forall c s, Inv s -> okb_t (rec c s).

Lemma Plist_app a b : Plist a -> Plist b -> Plist (a ++ b).
Proof. unfold Plist. rewrite yields_app. intros. apply Forall_app. auto. Qed.
Lemma Plist_single t : Ptree t -> Plist [t].
Proof. unfold Plist, Ptree. now rewrite yields_single. Qed.
Lemma Plist_nil : Plist [].
Proof. constructor. Qed.

Lemma Inv_puts l : Forall Pit l -> forall s, Inv s -> Inv (set_stream (l ++ stream s) s).
Proof.
  intros F. induction F as [|x l Px Fl IH]; intros s H.
  - cbn [app]. destruct s; exact H.
  - specialize (IH s H). pose proof (Inv_put x _ Px IH) as K. exact K.
Qed.
Lemma Inv_restore content s : Plist content -> Inv s -> Inv (restore content s).
Proof. intros P H. unfold restore. apply Inv_puts; assumption. Qed.

Lemma get_none s s1 : get_item s = (None, s1) -> s1 = s.
Proof. unfold get_item. destruct (stream s); intros H; inversion H; reflexivity. Qed.

Lemma get_item_cases s : Inv s ->
  (exists i s1, get_item s = (Some i, s1) /\ Pit i /\ Inv s1 /\ Inv (put_item i s1)) \/ get_item s = (None, s).
Proof.
  intros H. destruct (get_item s) as [[i|] s1] eqn:G.
  - left. destruct (Inv_get _ _ _ H G) as [P H1]. exists i, s1. repeat split; auto.
  - right. apply get_none in G. now subst.
Qed.

Lemma Ptree_leaf c i inf : Pit i -> Ptree (TLeaf c i inf).
Proof. intros P. unfold Ptree. cbn. constructor; [exact P|constructor]. Qed.

Lemma comment_b s : Inv s -> okb_t (comment T s).
Proof.
  intros H. destruct (get_item_cases s H) as [[i [s1 [E [P [I1 I2]]]]]|E]; unfold comment; rewrite E.
  - destruct (ikd i); (split; [cbn [snd]; assumption|cbn [fst]; auto using Ptree_leaf]).
  - split; [exact H|exact Logic.I].
Qed.
Lemma directive_b s : Inv s -> okb_t (directive T s).
Proof.
  intros H. destruct (get_item_cases s H) as [[i [s1 [E [P [I1 I2]]]]]|E]; unfold directive; rewrite E.
  - destruct (ikd i); [|destruct (idir i)|]; (split; [cbn [snd]; assumption|cbn [fst]; auto using Ptree_leaf]).
  - split; [exact H|exact Logic.I].
Qed.

Lemma leaf_b c s : Inv s -> okb_t (leaf L c s).
Proof.
  intros H. destruct (get_item_cases s H) as [[i [s1 [E [P [I1 I2]]]]]|E]; unfold leaf; rewrite E.
  - destruct (ikd i); [|split; [exact I2|exact Logic.I]|];
    (destruct (cache_find (iid i) c (cache s1)) as [[inf|]|] eqn:CF;
     [ split; [exact I1|apply Ptree_leaf; assumption]
     | split; [exact I2|exact Logic.I]
     | assert (PC : forall v, Inv (add_cache i c v s1)) by (intros v; apply Inv_cache; assumption);
       assert (PCp : forall v, Inv (put_item i (add_cache i c v s1))) by (intros v; apply Inv_put; auto);
       destruct (L i c (pcls s1)) as [|e|inf];
       [ split; [apply PCp|exact Logic.I]
       | destruct e; (split; [first [apply PCp|apply PC]|exact Logic.I])
       | split; [apply PC|apply Ptree_leaf; assumption] ] ]).
  - split; [exact H|exact Logic.I].
Qed.

(* ---------------------------------------------------------------- combinators *)
Section WithRec.
Variable rec : matcher.
Hypothesis HB : BContract rec.

Lemma call_b c s : Inv s -> okb_t (call rec c s).
Proof.
  intros I. unfold call. pose proof (HB c (set_pcls [] s) (Inv_pcls [] s I)) as H.
  destruct (rec c (set_pcls [] s)) as [r s']. destruct H as [H1 H2]. split; [cbn [snd] in *; apply Inv_pcls; exact H1|exact H2].
Qed.

Lemma first_of_b cs : forall s, Inv s -> okb_t (first_of rec cs s).
Proof.
  induction cs as [|c r IH]; intros s I; cbn [first_of]; [split; [exact I|exact Logic.I]|].
  unfold bind. pose proof (call_b c s I) as H. destruct (call rec c s) as [[[t|]|e] s1]; destruct H as [H1 H2];
    cbn [fst snd] in *.
  - split; assumption.
  - apply IH. exact H1.
  - split; [exact H1|exact Logic.I].
Qed.

Lemma cpp_b s : Inv s -> okb_t (cpp T rec s).
Proof.
  intros I. destruct (get_item_cases s I) as [[i [s1 [E [P [I1 I2]]]]]|E]; unfold cpp; rewrite E.
  - destruct (ikd i); try (split; [exact I2|exact Logic.I]). apply first_of_b. exact I2.
  - split; [exact I|exact Logic.I].
Qed.

Lemma comment_or_include_b s : Inv s -> okb_t (comment_or_include T rec s).
Proof.
  intros I. unfold comment_or_include, bind.
  assert (D : okb_t ((if procdir s then directive T else ret None) s)).
  { destruct (procdir s); [apply directive_b; exact I|split; [exact I|exact Logic.I]]. }
  destruct ((if procdir s then directive T else ret None) s) as [[[t|]|e] s1]; destruct D as [D1 D2];
    cbn [fst snd] in *.
  - split; assumption.
  - pose proof (comment_b s1 D1) as C. destruct (comment T s1) as [[[t|]|e] s2]; destruct C as [C1 C2];
      cbn [fst snd] in *.
    + split; assumption.
    + apply call_b. exact C1.
    + split; [exact C1|exact Logic.I].
  - split; [exact D1|exact Logic.I].
Qed.

Lemma cid_step_b s : Inv s -> okb_t (cid_step T rec s).
Proof.
  intros I. unfold cid_step, bind. pose proof (comment_or_include_b s I) as C.
  destruct (comment_or_include T rec s) as [[[t|]|e] s1]; destruct C as [C1 C2]; cbn [fst snd] in *.
  - split; assumption.
  - apply cpp_b. exact C1.
  - split; [exact C1|exact Logic.I].
Qed.

Lemma add_cid_b k : forall content s, Plist content -> Inv s -> okb_l (add_cid T rec k content s).
Proof.
  induction k as [|k IH]; intros content s P I; cbn [add_cid]; [split; [exact I|exact Logic.I]|].
  unfold bind. pose proof (cid_step_b s I) as C.
  destruct (cid_step T rec s) as [[[t|]|e] s1]; destruct C as [C1 C2]; cbn [fst snd] in *.
  - apply IH; [apply Plist_app; [exact P|apply Plist_single; exact C2]|exact C1].
  - split; [exact C1|exact P].
  - split; [exact C1|exact Logic.I].
Qed.

Lemma call_l_b lc s : Inv s -> okb_t (call_l T rec lc s).
Proof.
  intros I. destruct lc as [c|]; cbn [call_l].
  - destruct (N.eqb c (t_comment T)); [apply comment_b; exact I|].
    destruct (N.eqb c (t_directive T)); [apply directive_b; exact I|apply call_b; exact I].
  - apply cpp_b. exact I.
Qed.

Lemma catch_b (m : M (option tree)) s : okb_t (m s) -> okb_t (catch_nomatch m s).
Proof.
  unfold catch_nomatch. destruct (m s) as [[[t|]|e] s1]; intros [H1 H2]; cbn [fst snd] in *;
    try (split; assumption). destruct e; (split; [exact H1|exact Logic.I]).
Qed.

Definition okb_loop (r : res lout * est) : Prop :=
  Inv (snd r) /\ match fst r with Val (LBreak content _ _) => Plist content | _ => True end.

Lemma block_step_b b start_idx cont lc :
  (forall st s, Plist (l_content st) -> Inv s -> okb_loop (cont st s)) ->
  forall st s, Plist (l_content st) -> Inv s -> okb_loop (block_step T rec b start_idx cont lc st s).
Proof.
  intros HC st s P I. unfold block_step.
  set (startinfo := match nth_error (l_content st) start_idx with Some t => tinfo t | None => noinfo end).
  unfold bind at 1.
  match goal with |- context [(if b_do_hook b then ?X else ?Y) s] =>
    assert (HK : okb_t ((if b_do_hook b then X else Y) s));
    [|destruct ((if b_do_hook b then X else Y) s) as [[[t|]|e] s1]; destruct HK as [K1 K2]; cbn [fst snd] in *] end.
  { destruct (b_do_hook b); [|split; [exact I|exact Logic.I]].
    destruct (b_start b) as [stc|]; [|split; [exact I|exact Logic.I]].
    unfold bind. pose proof (call_b stc s I) as C.
    destruct (call rec stc s) as [[[t|]|e] s1]; destruct C as [C1 C2]; cbn [fst snd] in *.
    - destruct (c_has_start_label (entry T (tcls t))); [|split; [exact C1|exact Logic.I]].
      destruct (oN_eqb (start_label startinfo) (start_label (tinfo t))); [split; assumption|].
      unfold lift, ret. split; [cbn [snd]; apply Inv_restore; [apply Plist_single; exact C2|exact C1]|exact Logic.I].
    - split; [exact C1|exact Logic.I].
    - split; [exact C1|exact Logic.I]. }
  - apply HC; cbn [l_content]; [apply Plist_app; [exact P|apply Plist_single; exact K2]|exact K1].
  - unfold bind at 1. pose proof (catch_b (call_l T rec lc) s1 (call_l_b lc s1 K1)) as Q.
    destruct (catch_nomatch (call_l T rec lc) s1) as [[[t|]|e] s2]; destruct Q as [Q1 Q2]; cbn [fst snd] in *.
    + assert (PC : Plist (l_content st ++ [t])) by (apply Plist_app; [exact P|apply Plist_single; exact Q2]).
      destruct (b_labeldo_abort b && c_has_end_label (entry T (tcls t)) &&
                oN_eqb (start_label startinfo) (end_label (tinfo t)) &&
                negb (mem (tcls t) (t_enddo_continue T))).
      { unfold bind, lift, ret. split; [cbn [snd]|exact Logic.I].
        apply Inv_restore; [exact P|]. apply Inv_restore; [apply Plist_single; exact Q2|exact Q1]. }
      match goal with |- context [match ?e1 with Some e => raise e | None => _ end] => destruct e1 end;
        [split; [exact Q1|exact Logic.I]|].
      destruct ((match b_end b with Some _ => mem (tcls t) (b_endall b) | None => false end)
                && b_match_labels b && negb (oN_eqb (start_label startinfo) (end_label (tinfo t)))).
      { apply HC; cbn [l_content]; assumption. }
      destruct (match b_end b with Some _ => mem (tcls t) (b_endall b) | None => false end).
      { match goal with |- context [match ?e2 with Some e => raise e | None => _ end] => destruct e2 end;
          [split; [exact Q1|exact Logic.I]|split; [exact Q1|exact PC]]. }
      apply HC; cbn [l_content]; assumption.
    + apply HC; cbn [l_content]; assumption.
    + split; [exact Q1|exact Logic.I].
  - split; [exact K1|exact Logic.I].
Qed.

Lemma block_loop_b b classes start_idx k : forall st s, Plist (l_content st) -> Inv s ->
  okb_loop (block_loop T rec b classes start_idx k st s).
Proof.
  induction k as [|k IH]; intros st s P I; cbn [block_loop]; [split; [exact I|exact Logic.I]|].
  destruct (nth_error classes (l_i st)) as [lc|]; [|split; [exact I|exact P]].
  unfold bind at 1.
  assert (CM : okb_l (hook_cid T rec b (l_content st) s)).
  { unfold hook_cid. destruct (b_do_hook b); [apply add_cid_b; assumption|split; [exact I|exact P]]. }
  destruct (hook_cid T rec b (l_content st) s) as [[cm|e] s1]; destruct CM as [C1 C2]; cbn [fst snd] in *.
  - apply block_step_b; [exact IH|exact C2|exact C1].
  - split; [exact C1|exact Logic.I].
Qed.

Lemma Inv_do_exit s : Inv s -> Inv (snd (do_exit_scope s)).
Proof. intros I. unfold do_exit_scope. destruct (exit_scope (sc s)); cbn [snd]; auto. Qed.
Lemma Inv_do_remove n s : Inv s -> Inv (snd (do_remove n s)).
Proof. intros I. unfold do_remove. destruct (remove_scope n (sc s)); cbn [snd]; auto. Qed.

Lemma block_body_b b content start_idx tn s : Plist content -> Inv s ->
  okb_m (block_body T rec b content start_idx tn s).
Proof.
  intros P I. unfold block_body. set (cl := block_classes T b s).
  pose proof (block_loop_b b cl start_idx (loop_bound (length cl) s)
                (mkLst content 0 false (b_if_hook b) (b_where_hook b)) s P I) as LP.
  destruct (block_loop T rec b cl start_idx (loop_bound (length cl) s)
              (mkLst content 0 false (b_if_hook b) (b_where_hook b)) s) as [[[content' had fe|]|e] s1];
    destruct LP as [L1 L2]; cbn [fst snd] in *.
  - unfold bind at 1.
    assert (EX : Inv (snd ((match tn with Some _ => do_exit_scope | None => ret tt end) s1))).
    { destruct tn; [apply Inv_do_exit; exact L1|exact L1]. }
    destruct ((match tn with Some _ => do_exit_scope | None => ret tt end) s1) as [[[]|e] s2]; cbn [snd] in EX;
      [|split; [exact EX|exact Logic.I]].
    destruct ((negb had || match b_end b with Some _ => negb fe | None => false end)
              && match b_end b with Some _ => true | None => false end).
    + unfold bind at 1.
      assert (RM : Inv (snd ((match tn with Some n => do_remove n | None => ret tt end) s2))).
      { destruct tn; [apply Inv_do_remove; exact EX|exact EX]. }
      destruct ((match tn with Some n => do_remove n | None => ret tt end) s2) as [[[]|e] s3]; cbn [snd] in RM;
        [|split; [exact RM|exact Logic.I]].
      unfold bind, lift, ret. split; [cbn [snd]; apply Inv_restore; assumption|exact Logic.I].
    + assert (OKS : okb_m (Val (Some content'), s2)) by (split; [exact EX|exact L2]).
      assert (OKN : forall e, okb_m (@Raise (option (list tree)) e, s2)) by (intros; split; [exact EX|exact Logic.I]).
      destruct content' as [|t0 ct]; [split; [exact EX|exact Logic.I]|].
      destruct (b_start b); [|exact OKS]. destruct (b_end b); [|exact OKS].
      match goal with |- context [if ?c then _ else _] => destruct c end; [|exact OKS].
      destruct (unit_name (tinfo (last (t0 :: ct) (TBlock 0%N [])))); [|exact OKS].
      match goal with |- context [match unit_name ?x with _ => _ end] => destruct (unit_name x) end;
        [|destruct (t_exits T); [apply OKN|exact OKS]].
      match goal with |- context [if ?c then _ else _] => destruct c end; [exact OKS|].
      destruct (t_exits T); [apply OKN|exact OKS].
  - split; [exact L1|exact Logic.I].
  - destruct (match e with ESyntax => true | _ => t_cleanup_all T && is_exception e end);
      [|split; [exact L1|exact Logic.I]].
    destruct tn as [n|]; [|split; [exact L1|exact Logic.I]].
    unfold bind. pose proof (Inv_do_exit s1 L1) as X. destruct (do_exit_scope s1) as [[[]|e1] s2]; cbn [snd] in X.
    + pose proof (Inv_do_remove n s2 X) as R. destruct (do_remove n s2) as [[[]|e2] s3]; cbn [snd] in R;
        (split; [exact R|exact Logic.I]).
    + split; [exact X|exact Logic.I].
Qed.

Lemma block_match_b b s : Inv s -> okb_m (block_match T rec b s).
Proof.
  intros I. unfold block_match. destruct (b_start b) as [stc|].
  - unfold bind at 1. pose proof (add_cid_b (length (stream s) + 2) [] s Plist_nil I) as A.
    destruct (add_cid T rec (length (stream s) + 2) [] s) as [[cm|e] s1]; destruct A as [A1 A2]; cbn [fst snd] in *;
      [|split; [exact A1|exact Logic.I]].
    unfold bind at 1. pose proof (catch_b (call rec stc) s1 (call_b stc s1 A1)) as Q.
    destruct (catch_nomatch (call rec stc) s1) as [[[o|]|e] s2]; destruct Q as [Q1 Q2]; cbn [fst snd] in *.
    + assert (PC : Plist (cm ++ [o])) by (apply Plist_app; [exact A2|apply Plist_single; exact Q2]).
      destruct (c_scoping (entry T (tcls o))).
      * unfold bind, do_enter, lift. apply block_body_b; [exact PC|apply Inv_sc; exact Q1].
      * unfold bind, ret. apply block_body_b; assumption.
    + unfold bind, lift, ret. split; [cbn [snd]; apply Inv_restore; assumption|exact Logic.I].
    + split; [exact Q1|exact Logic.I].
  - apply block_body_b; [exact Plist_nil|exact I].
Qed.

Lemma main0_b b s : Inv s -> okb_m (main0 T rec b s).
Proof.
  intros I. unfold main0.
  pose proof (block_match_b b (set_sc (enter_scope (t_main_name T) (sc s)) s) (Inv_sc _ s I)) as B.
  destruct (block_match T rec b (set_sc (enter_scope (t_main_name T) (sc s)) s)) as [[[c|]|e] s2];
    destruct B as [B1 B2]; cbn [fst snd] in *.
  - unfold bind. pose proof (Inv_do_exit s2 B1) as X. destruct (do_exit_scope s2) as [[[]|e1] s3]; cbn [snd] in X;
      (split; [exact X|try exact B2; exact Logic.I]).
  - unfold bind at 1. pose proof (Inv_do_exit s2 B1) as X. destruct (do_exit_scope s2) as [[[]|e1] s3]; cbn [snd] in X;
      [|split; [exact X|exact Logic.I]].
    unfold bind. pose proof (Inv_do_remove (t_main_name T) s3 X) as R.
    destruct (do_remove (t_main_name T) s3) as [[[]|e2] s4]; cbn [snd] in R; (split; [exact R|exact Logic.I]).
  - destruct (t_main0_guarded T && is_exception e); [|split; [exact B1|exact Logic.I]].
    unfold bind. pose proof (Inv_do_exit s2 B1) as X. destruct (do_exit_scope s2) as [[[]|e1] s3]; cbn [snd] in X;
      [|split; [exact X|exact Logic.I]].
    pose proof (Inv_do_remove (t_main_name T) s3 X) as R.
    destruct (do_remove (t_main_name T) s3) as [[[]|e2] s4]; cbn [snd] in R; (split; [exact R|exact Logic.I]).
Qed.

Lemma seq_match_b cs : forall acc s, Plist acc -> Inv s -> okb_m (seq_match T rec cs acc s).
Proof.
  induction cs as [|c r IH]; intros acc s P I; cbn [seq_match]; [split; [exact I|exact P]|].
  unfold bind at 1.
  assert (Q : okb_t ((if t_shared_restores T then catch_nomatch (call rec c) else call rec c) s)).
  { destruct (t_shared_restores T); [apply catch_b|]; apply call_b; exact I. }
  destruct ((if t_shared_restores T then catch_nomatch (call rec c) else call rec c) s) as [[[t|]|e] s1];
    destruct Q as [Q1 Q2]; cbn [fst snd] in *.
  - apply IH; [apply Plist_app; [exact P|apply Plist_single; exact Q2]|exact Q1].
  - unfold bind. destruct (t_shared_restores T); unfold lift, ret;
      (split; [cbn [snd]; try apply Inv_restore; assumption|exact Logic.I]).
  - split; [exact Q1|exact Logic.I].
Qed.

Lemma loop_match_b c k : forall acc s, Plist acc -> Inv s -> okb_m (loop_match rec c k acc s).
Proof.
  induction k as [|k IH]; intros acc s P I; cbn [loop_match]; [split; [exact I|exact Logic.I]|].
  unfold bind at 1. pose proof (catch_b (call rec c) s (call_b c s I)) as Q.
  destruct (catch_nomatch (call rec c) s) as [[[t|]|e] s1]; destruct Q as [Q1 Q2]; cbn [fst snd] in *.
  - apply IH; [apply Plist_app; [exact P|apply Plist_single; exact Q2]|exact Q1].
  - unfold ret. destruct acc; (split; [exact Q1|try exact P; exact Logic.I]).
  - split; [exact Q1|exact Logic.I].
Qed.

Lemma try_alts_b alts : forall s, Inv s -> okb_t (try_alts rec alts s).
Proof.
  induction alts as [|a r IH]; intros s I; cbn [try_alts]; [split; [exact I|exact Logic.I]|].
  destruct (mem a (pcls s)); [apply IH; exact I|]. unfold bind.
  pose proof (catch_b (rec a) s (HB a s I)) as Q.
  destruct (catch_nomatch (rec a) s) as [[[t|]|e] s1]; destruct Q as [Q1 Q2]; cbn [fst snd] in *.
  - split; assumption.
  - apply IH. exact Q1.
  - split; [exact Q1|exact Logic.I].
Qed.

Lemma program_loop_b k : forall content s, Plist content -> Inv s -> okb_l (program_loop T rec k content s).
Proof.
  induction k as [|k IH]; intros content s P I; cbn [program_loop]; [split; [exact I|exact Logic.I]|].
  unfold bind at 1. pose proof (call_b (t_program_unit T) s I) as C.
  destruct (call rec (t_program_unit T) s) as [[o|e] s1]; destruct C as [C1 C2]; cbn [fst snd] in *;
    [|split; [exact C1|exact Logic.I]].
  assert (P1 : Plist (match o with Some t => content ++ [t] | None => content end)).
  { destruct o as [t|]; [apply Plist_app; [exact P|apply Plist_single; exact C2]|exact P]. }
  unfold bind at 1.
  pose proof (add_cid_b (S k) _ s1 P1 C1) as A.
  destruct (add_cid T rec (S k) (match o with Some t => content ++ [t] | None => content end) s1)
    as [[content2|e] s2]; destruct A as [A1 A2]; cbn [fst snd] in *; [|split; [exact A1|exact Logic.I]].
  destruct (stream s2) as [|i r] eqn:ST; [split; [exact A1|exact A2]|].
  destruct (get_item_cases s2 A1) as [[i' [s3 [E [Pi [I1 I2]]]]]|E]; rewrite E.
  - apply IH; assumption.
  - split; [exact A1|exact A2].
Qed.

End WithRec.

Theorem new_inv : forall fuel, BContract (new T L fuel).
Proof.
  induction fuel as [|f IH]; intros c s I; cbn [new]; [split; [exact I|exact Logic.I]|].
  destruct (N.eqb c (t_comment T)); [apply comment_b; exact I|].
  destruct (N.eqb c (t_directive T)); [apply directive_b; exact I|].
  set (s1 := if mem c (pcls (tick s)) then tick s else set_pcls (pcls (tick s) ++ [c]) (tick s)).
  assert (I1 : Inv s1) by (unfold s1; destruct (mem c (pcls (tick s))); auto).
  assert (FIN : forall (m : M (option (list tree))), okb_m (m s1) ->
    okb_t (match catch_nomatch m s1 with
           | (Raise e', s2) => (Raise e', s2)
           | (Val (Some content), s2) => (Val (Some (TBlock c content)), s2)
           | (Val None, s2) =>
               match try_alts (new T L f) (c_alts (entry T c)) s2 with
               | (Val (Some t), s3) => (Val (Some t), s3)
               | (Val None, s3) => if seen_code s3 then (Raise ENoMatch, s3) else (Val None, s3)
               | (Raise e', s3) => (Raise e', s3)
               end
           end)).
  { intros m [M1 M2]. unfold catch_nomatch. destruct (m s1) as [[[content|]|e] s2]; cbn [fst snd] in *.
    - split; [exact M1|]. cbn [fst]. unfold Ptree. rewrite yield_block. exact M2.
    - pose proof (try_alts_b (new T L f) IH (c_alts (entry T c)) s2 M1) as A.
      destruct (try_alts (new T L f) (c_alts (entry T c)) s2) as [[[t|]|e] s3]; destruct A as [A1 A2];
        cbn [fst snd] in *.
      + split; assumption.
      + destruct (seen_code s3); (split; [exact A1|exact Logic.I]).
      + split; [exact A1|exact Logic.I].
    - destruct e; try (split; [exact M1|exact Logic.I]).
      pose proof (try_alts_b (new T L f) IH (c_alts (entry T c)) s2 M1) as A.
      destruct (try_alts (new T L f) (c_alts (entry T c)) s2) as [[[t|]|e] s3]; destruct A as [A1 A2];
        cbn [fst snd] in *.
      + split; assumption.
      + destruct (seen_code s3); (split; [exact A1|exact Logic.I]).
      + split; [exact A1|exact Logic.I]. }
  destruct (c_kind (entry T c)) as [| |b|b|cs|c'|] eqn:K.
  - apply leaf_b. exact I1.
  - apply FIN. split; [exact I1|exact Logic.I].
  - apply FIN. apply block_match_b; assumption.
  - apply FIN. apply main0_b; assumption.
  - apply FIN. apply seq_match_b; [exact IH|exact Plist_nil|exact I1].
  - apply FIN. apply loop_match_b; [exact IH|exact Plist_nil|exact I1].
  - apply FIN. split; [exact I1|exact Logic.I].
Qed.

(* the whole parse *)
Theorem program_top_inv fuel c s : Inv s -> Inv (snd (program_top T L fuel c s)).
Proof.
  intros I. pose proof (new_inv fuel) as HB. unfold program_top.
  set (s0 := set_pcls [c] (tick s)). assert (I0 : Inv s0) by (unfold s0; auto).
  unfold catch_nomatch, program_match, program_units.
  assert (PU : okb_l ((c0 <- add_cid T (new T L fuel) (2 * length (stream s0) + 3) [];;
                       program_loop T (new T L fuel) (2 * length (stream s0) + 3) c0) s0)).
  { unfold bind. pose proof (add_cid_b (new T L fuel) HB (2 * length (stream s0) + 3) [] s0 Plist_nil I0) as A.
    destruct (add_cid T (new T L fuel) (2 * length (stream s0) + 3) [] s0) as [[c0|e] s1]; destruct A as [A1 A2];
      cbn [fst snd] in *; [|split; [exact A1|exact Logic.I]].
    apply program_loop_b; assumption. }
  destruct ((c0 <- add_cid T (new T L fuel) (2 * length (stream s0) + 3) [];;
             program_loop T (new T L fuel) (2 * length (stream s0) + 3) c0) s0) as [[content|e] s1];
    destruct PU as [P1 P2]; cbn [fst snd] in *.
  - exact P1.
  - assert (TA : forall s2, Inv s2 ->
              Inv (snd (match try_alts (new T L fuel) (c_alts (entry T c)) s2 with
                        | (Val (Some t), s3) => (Val (Some t), s3)
                        | (Val None, s3) => if seen_code s3 then (@Raise (option tree) ENoMatch, s3) else (Val None, s3)
                        | (Raise e', s3) => (Raise e', s3)
                        end))).
    { intros s2 I2. pose proof (try_alts_b (new T L fuel) HB (c_alts (entry T c)) s2 I2) as A.
      destruct (try_alts (new T L fuel) (c_alts (entry T c)) s2) as [[[t|]|e'] s3]; destruct A as [A1 _];
        cbn [fst snd] in *; [exact A1| |exact A1]. destruct (seen_code s3); exact A1. }
    destruct e; try exact P1.
    pose proof (block_match_b (new T L fuel) HB (main0_fallback_spec T) s1 P1) as B.
    destruct (block_match T (new T L fuel) (main0_fallback_spec T) s1) as [[[ct|]|e'] s2]; destruct B as [B1 _];
      cbn [fst snd] in *; [exact B1|apply TA; exact B1|].
    destruct e'; try exact B1. apply TA. exact B1.
Qed.

End Inv.
