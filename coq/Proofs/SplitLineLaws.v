(* Losslessness laws of the tokeniser-by-substitution primitives: for EVERY line,
   concatenating what splitquote / splitparen return gives back the line, character for character. *)
From Coq Require Import List Bool Arith Ascii Lia.
From FV Require Import SplitLine.
Import ListNotations.

Lemma next_quote_lt_aux q k : forall l n, length l <= k -> next_quote q l = Some n -> n < length l.
Proof.
  induction k as [|k IH]; intros l n Hk.
  - destruct l; [discriminate|cbn in Hk; lia].
  - destruct l as [|c r]; cbn [next_quote]; [discriminate|]. cbn in Hk.
    destruct (is_target q c).
    + destruct q as [x|]; [|intros H; inversion H; cbn; lia].
      destruct r as [|c2 r2]; [intros H; inversion H; cbn; lia|].
      destruct (aeqb c2 c); [|intros H; inversion H; cbn; lia].
      destruct (next_quote (Some x) r2) as [m|] eqn:E; cbn [option_map]; [|discriminate].
      intros H. inversion H; subst. apply IH in E; cbn in *; lia.
    + destruct (next_quote q r) as [m|] eqn:E; cbn [option_map]; [|discriminate].
      intros H. inversion H; subst. apply IH in E; cbn in *; lia.
Qed.
Lemma next_quote_lt q l n : next_quote q l = Some n -> n < length l.
Proof. apply (next_quote_lt_aux q (length l)). lia. Qed.

Lemma qflat_app a b : qflat (a ++ b) = qflat a ++ qflat b.
Proof. unfold qflat. apply flat_map_app. Qed.

(* the while loop, case-preserving: lossless *)
Lemma sq_loop_lossless fuel : forall l, length l < fuel -> qflat (fst (sq_loop fuel false l)) = l.
Proof.
  induction fuel as [|f IH]; intros l Hl; [lia|]. cbn [sq_loop].
  destruct l as [|c0 l0] eqn:EL; [reflexivity|]. rewrite <- EL in *. clear EL c0 l0.
  destruct (next_quote None l) as [st|] eqn:NQ.
  2:{ cbn. now rewrite app_nil_r. }
  pose proof (next_quote_lt _ _ _ NQ) as Hst.
  assert (DEC : firstn st l ++ skipn st l = l) by apply firstn_skipn.
  destruct (skipn st l) as [|qc body] eqn:SK.
  { cbn. now rewrite app_nil_r. }
  assert (HEAD : qflat (match st with 0 => [] | S _ => [Plain (firstn st l)] end) = firstn st l).
  { destruct st; [reflexivity|]. cbn. now rewrite app_nil_r. }
  destruct (next_quote (Some qc) body) as [e|] eqn:NE.
  - pose proof (next_quote_lt _ _ _ NE) as He.
    destruct (sq_loop f false (skipn (S e) body)) as [segs o] eqn:SL. cbn [fst].
    rewrite qflat_app, HEAD. cbn [qflat flat_map qtext]. fold (qflat segs).
    assert (IHs : qflat segs = skipn (S e) body).
    { replace segs with (fst (sq_loop f false (skipn (S e) body))) by now rewrite SL.
      apply IH. rewrite skipn_length.
      assert (length l = st + length (qc :: body)).
      { rewrite <- DEC at 1. rewrite app_length, firstn_length_le by lia. reflexivity. }
      cbn [length] in *. lia. }
    rewrite IHs. cbn [app]. rewrite (firstn_skipn (S e) body). exact DEC.
  - cbn [fst]. rewrite qflat_app, HEAD. cbn. rewrite app_nil_r. exact DEC.
Qed.

Theorem splitquote_lossless l stop : qflat (fst (splitquote l stop false)) = l.
Proof.
  unfold splitquote. destruct stop as [q|].
  - destruct (next_quote (Some q) l) as [e|] eqn:NQ.
    + destruct (sq_loop (S (length l)) false (skipn (S e) l)) as [segs o] eqn:SL. cbn [fst].
      cbn [qflat flat_map qtext]. fold (qflat segs).
      replace segs with (fst (sq_loop (S (length l)) false (skipn (S e) l))) by now rewrite SL.
      rewrite sq_loop_lossless; [apply firstn_skipn|]. rewrite skipn_length. lia.
    + cbn. now rewrite app_nil_r.
  - apply sq_loop_lossless. lia.
Qed.

(* lower=True only lower-cases the text outside literals *)
Definition low_seg (s : qseg) : qseg := match s with Plain t => Plain (lower t) | Quoted t => Quoted t end.

Lemma sq_loop_lower fuel : forall l,
  sq_loop fuel true l = (map low_seg (fst (sq_loop fuel false l)), snd (sq_loop fuel false l)).
Proof.
  induction fuel as [|f IH]; intros l; [reflexivity|]. cbn [sq_loop].
  destruct l as [|c0 l0] eqn:EL; [reflexivity|]. rewrite <- EL in *. clear EL c0 l0.
  destruct (next_quote None l) as [st|]; [|reflexivity].
  destruct (skipn st l) as [|qc body]; [reflexivity|].
  destruct (next_quote (Some qc) body) as [e|].
  - rewrite IH. destruct (sq_loop f false (skipn (S e) body)) as [segs o]. cbn [fst snd].
    rewrite map_app. destruct st; reflexivity.
  - cbn [fst snd]. rewrite map_app. destruct st; reflexivity.
Qed.

Theorem splitquote_lower l stop :
  fst (splitquote l stop true) = map low_seg (fst (splitquote l stop false)) /\
  snd (splitquote l stop true) = snd (splitquote l stop false).
Proof.
  unfold splitquote. destruct stop as [q|].
  - destruct (next_quote (Some q) l) as [e|]; [|split; reflexivity].
    rewrite sq_loop_lower. destruct (sq_loop (S (length l)) false (skipn (S e) l)) as [segs o].
    split; reflexivity.
  - rewrite sq_loop_lower. split; reflexivity.
Qed.

(* ------------------------------------------------------------------ splitparen *)
Lemma pflat_app a b : pflat (a ++ b) = pflat a ++ pflat b.
Proof. unfold pflat. apply flat_map_app. Qed.

Definition pinv (s : pst) : text := pflat (p_items s) ++ rev (p_cur s).

Lemma pstep_inv s c : pinv (pstep s c) = pinv s ++ [c].
Proof.
  unfold pstep, pinv.
  destruct (aeqb c "\"%char); [cbn; now rewrite <- app_assoc|].
  destruct (p_bs s); [cbn; now rewrite <- app_assoc|].
  destruct (p_q s) as [q|]; [cbn; now rewrite <- app_assoc|].
  destruct (aeqb c squote || aeqb c dquote); [cbn; now rewrite <- app_assoc|].
  destruct (closer_of c) as [cl|].
  - destruct (p_stack s); cbn [p_items p_cur].
    + rewrite pflat_app. cbn. now rewrite app_nil_r, <- app_assoc.
    + cbn. now rewrite <- app_assoc.
  - destruct (p_stack s) as [|top st']; [cbn; now rewrite <- app_assoc|].
    destruct (aeqb c top); [|cbn; now rewrite <- app_assoc].
    destruct st'; cbn [p_items p_cur].
    + rewrite pflat_app. cbn. now rewrite !app_nil_r, <- app_assoc.
    + cbn. now rewrite <- app_assoc.
Qed.

Lemma fold_pstep_inv l : forall s, pinv (fold_left pstep l s) = pinv s ++ l.
Proof.
  induction l as [|c r IH]; intros s; cbn [fold_left]; [now rewrite app_nil_r|].
  rewrite IH, pstep_inv, <- app_assoc. reflexivity.
Qed.

Theorem splitparen_lossless l : pflat (splitparen l) = l.
Proof.
  unfold splitparen. pose proof (fold_pstep_inv l (mkPst [] [] false None [])) as H.
  unfold pinv in H at 2. cbn in H.
  destruct (p_cur (fold_left pstep l (mkPst [] [] false None []))) as [|c r] eqn:E.
  - unfold pinv in H. rewrite E in H. cbn in H. now rewrite app_nil_r in H.
  - unfold pinv in H. rewrite E in H. rewrite pflat_app. cbn [pflat flat_map ptext].
    now rewrite app_nil_r.
Qed.
