(* The arguments the live statement classes hand to EndStmtBase.match / WORDClsBase.match (read off their source by
   tools/translate_stmtbase.py on every run, coq/Gen/StmtBaseGen.v) meet the hypotheses of the laws: the laws hold
   for every live class. *)
From Coq Require Import List Bool Arith Ascii String NArith.
From FV Require Import SplitLine Text Reader StmtBase ReaderJoin StmtBaseLaws StmtBaseGen.
Import ListNotations.

Definition solidb (t : text) : bool := match t with c :: _ => negb (is_space c) | [] => false end.
Lemma solidb_ok t : solidb t = true -> starts_solid t.
Proof. destruct t as [|c r]; [discriminate|]. cbn. intros H. now apply negb_true_iff in H. Qed.

Definition end_entry_ok (e : string * list ascii * bool * bool) : bool :=
  let '(_, stype, _, _) := e in text_eqb (upper stype) stype && solidb stype.
Definition word_entry_ok (e : string * list ascii * bool * bool * bool) : bool :=
  let '(_, kw, _, _, _) := e in solidb kw.

Lemma end_classes_ok : forallb end_entry_ok end_classes = true.
Proof. vm_compute. reflexivity. Qed.
Lemma word_classes_ok : forallb word_entry_ok word_classes = true.
Proof. vm_compute. reflexivity. Qed.

Lemma end_entry cls stype named req : In (cls, stype, named, req) end_classes -> upper stype = stype /\ starts_solid stype.
Proof.
  intros H. pose proof end_classes_ok as OK. rewrite forallb_forall in OK. specialize (OK _ H). cbn in OK.
  apply andb_true_iff in OK as [A B]. split; [apply text_eqb_eq; exact A|apply solidb_ok; exact B].
Qed.
Lemma word_entry cls kw has colons req : In (cls, kw, has, colons, req) word_classes -> starts_solid kw.
Proof.
  intros H. pose proof word_classes_ok as OK. rewrite forallb_forall in OK. specialize (OK _ H). cbn in OK.
  apply solidb_ok; exact OK.
Qed.

(* every live END statement class: what its tostr prints is matched again as the same tuple, whatever the name;
   keyword case and the blanks after END do not matter; a bare END is accepted exactly when the type is optional *)
Theorem live_end_classes cls stype named req : In (cls, stype, named, req) end_classes ->
  (forall n, named = true -> is_name n = true -> end_match stype named req (end_tostr stype (ENamed n)) = ENamed n) /\
  end_match stype named req (end_tostr stype EType) = EType /\
  (forall e b t, upper e = end_kw -> blanks b -> upper t = stype -> end_match stype named req (e ++ b ++ t) = EType) /\
  end_match stype named req (end_tostr stype EBare) = (if req then ENoMatch else EBare) /\
  (forall s n, end_match stype named req s = ENamed n -> upper (firstn 3 s) = end_kw /\ is_name n = true /\ named = true).
Proof.
  intros H. destruct (end_entry _ _ _ _ H) as [U S]. repeat split.
  - intros n -> N. apply end_roundtrip_named; assumption.
  - apply end_roundtrip_type; assumption.
  - intros e b t. apply end_case_and_blanks; assumption.
  - destruct req; [apply end_bare_refused|apply end_roundtrip_bare].
  - apply (end_named_sound stype named req s n H0).
  - apply (end_named_sound stype named req s n H0).
  - apply (end_named_sound stype named req s n H0).
Qed.

(* every live keyword statement class (WORDClsBase with a string keyword) *)
Theorem live_word_classes cls kw has colons req : In (cls, kw, has, colons, req) word_classes ->
  (forall rest, has = true -> starts_solid rest -> (colons = true -> no_colons rest) ->
     word_match kw has colons req (word_tostr kw false (WRest rest)) = WRest rest) /\
  (forall rest, has = true -> colons = true -> starts_solid rest ->
     word_match kw has colons req (word_tostr kw true (WRest rest)) = WRest rest) /\
  (req = false -> word_match kw has colons req (word_tostr kw false WBare) = WBare) /\
  (forall c r, is_alnum_us c = true -> word_match kw has colons req (kw ++ c :: r) = WNoMatch) /\
  (forall k2 rest, upper k2 = upper kw -> starts_solid k2 ->
     word_match kw has colons req (k2 ++ rest) = word_match kw has colons req (kw ++ rest)).
Proof.
  intros H. pose proof (word_entry _ _ _ _ _ H) as S. repeat split.
  - intros rest -> RS NC. apply word_roundtrip; assumption.
  - intros rest -> -> RS. apply word_roundtrip_colons; assumption.
  - intros ->. apply word_roundtrip_bare; assumption.
  - intros c r A. apply word_boundary; assumption.
  - intros k2 rest U S2. apply word_case; assumption.
Qed.

(* ---- literal-string classes and bracket classes *)
Definition string_entry_ok (e : string * list (list ascii) * bool) : bool :=
  let '(_, pats, fold) := e in if fold then forallb (fun p => text_eqb (upper p) p) pats else true.
Definition halves_of (brackets : list ascii) : list ascii * list ascii :=
  let bn := drop_blanks brackets in (firstn (Nat.div2 (List.length bn)) bn, skipn (Nat.div2 (List.length bn)) bn).
Definition bracket_entry_ok (e : string * list ascii * bool * bool) : bool :=
  let '(_, br, _, _) := e in
  let '(l, r) := halves_of br in
  negb (Nat.odd (List.length (drop_blanks br))) && Nat.eqb (List.length r) (List.length l) && solidb l && solidb (rev r).

Lemma string_classes_ok : forallb string_entry_ok string_classes = true.
Proof. vm_compute. reflexivity. Qed.
Lemma bracket_classes_ok : forallb bracket_entry_ok bracket_classes = true.
Proof. vm_compute. reflexivity. Qed.

(* every live literal-string class: each of its patterns is matched and returned as it is (the printed text of the
   node), in any case when the class folds; nothing else is accepted *)
Theorem live_string_classes cls pats fold : In (cls, pats, fold) string_classes ->
  (forall p, In p pats -> strings_match pats fold p = Some p) /\
  (fold = true -> forall s s', upper s = upper s' -> strings_match pats fold s = strings_match pats fold s') /\
  (forall s u, strings_match pats fold s = Some u -> In u pats /\ u = (if fold then upper s else s)).
Proof.
  intros H. pose proof string_classes_ok as OK. rewrite forallb_forall in OK. specialize (OK _ H). cbn in OK.
  repeat split.
  - intros p I. apply strings_roundtrip; [exact I|]. intros ->. rewrite forallb_forall in OK. apply text_eqb_eq. apply OK. exact I.
  - intros -> s s' E. apply strings_case. exact E.
  - apply (strings_sound pats fold s u H0).
  - apply (strings_sound pats fold s u H0).
Qed.

(* every live bracket class: left ++ inner ++ right is matched again with the same inner text; the empty pair is
   accepted where the content is optional; what is accepted is bracketed *)
Theorem live_bracket_classes cls br has req : In (cls, br, has, req) bracket_classes ->
  let l := fst (halves_of br) in let r := snd (halves_of br) in
  (forall inner, has = true -> starts_solid inner -> bracket_match br has req (bracket_tostr br (BIn inner)) = BIn inner) /\
  (req = false -> bracket_match br has req (bracket_tostr br BEmpty) = BEmpty) /\
  (forall s inner, bracket_match br has req s = BIn inner ->
     starts_with l (strip s) = true /\ ends_with r (strip s) = true /\ has = true /\ inner <> []).
Proof.
  intros H l r. pose proof bracket_classes_ok as OK. rewrite forallb_forall in OK. specialize (OK _ H).
  unfold bracket_entry_ok in OK. fold l r in OK. unfold halves_of in *. cbn [fst snd] in *.
  set (bn := drop_blanks br) in *.
  apply andb_true_iff in OK as [OK RS]. apply andb_true_iff in OK as [OK LS]. apply andb_true_iff in OK as [EV SM].
  apply Nat.eqb_eq in SM. apply solidb_ok in LS. apply solidb_ok in RS.
  assert (HV : drop_blanks br = l ++ r) by (unfold l, r; fold bn; now rewrite firstn_skipn).
  repeat split.
  - intros inner -> IS. apply (bracket_roundtrip br l r HV SM LS RS inner req IS).
  - intros ->. apply (bracket_roundtrip_empty br l r HV SM LS RS has).
  - apply (bracket_sound br l r HV SM has req s inner H0).
  - apply (bracket_sound br l r HV SM has req s inner H0).
  - apply (bracket_sound br l r HV SM has req s inner H0).
  - apply (bracket_sound br l r HV SM has req s inner H0).
Qed.

(* ---- Name and Label: the live classes are the modelled calls with the modelled regular expressions *)
Lemma name_and_label_tied : name_class_tied = true /\ label_class_tied = true.
Proof. split; reflexivity. Qed.

Theorem live_name_class :
  name_class_tied = true /\
  (forall n, is_name n = true -> name_match n = Some n) /\
  (forall b1 b2 n, blanks b1 -> blanks b2 -> is_name n = true -> name_match (b1 ++ n ++ b2) = Some n) /\
  (forall s n, name_match s = Some n -> is_name n = true /\ n = strip s) /\
  label_class_tied = true /\
  (forall s l, label_match s = Some l -> l = s /\ 1 <= List.length s <= 5 /\ forallb is_digit s = true).
Proof.
  destruct name_and_label_tied as [A B]. repeat split; try assumption.
  - apply name_roundtrip.
  - apply name_blanks_around.
  - apply (name_sound s n H).
  - apply (name_sound s n H).
  - apply (label_sound s l H).
  - apply (label_sound s l H).
  - apply (label_sound s l H).
  - apply (label_sound s l H).
Qed.
