(* The arguments the live statement classes hand to EndStmtBase.match / WORDClsBase.match (read off their source by
   tools/translate_stmtbase.py on every run, coq/Gen/StmtBaseGen.v) meet the hypotheses of the laws: the laws hold
   for every live class. *)
From Coq Require Import List Bool Arith Ascii String NArith.
From FV Require Import SplitLine Text Reader StmtBase ReaderJoin StmtBaseLaws StmtBaseGen.
Import ListNotations.

Definition solidb (t : text) : bool := match t with c :: _ => negb (is_space c) | [] => false end.
Lemma solidb_ok t : solidb t = true -> starts_solid t.
Proof. destruct t as [|c r]; [discriminate|]. cbn. intros H. now apply negb_true_iff in H. Qed.

Definition end_entry_ok (e : string * list ascii * bool * bool) : bool :=
  let '(_, stype, _, _) := e in text_eqb (upper stype) stype && solidb stype.
Definition word_entry_ok (e : string * list ascii * bool * bool * bool) : bool :=
  let '(_, kw, _, _, _) := e in solidb kw.

Lemma end_classes_ok : forallb end_entry_ok end_classes = true.
Proof. vm_compute. reflexivity. Qed.
Lemma word_classes_ok : forallb word_entry_ok word_classes = true.
Proof. vm_compute. reflexivity. Qed.

Lemma end_entry cls stype named req : In (cls, stype, named, req) end_classes -> upper stype = stype /\ starts_solid stype.
Proof.
  intros H. pose proof end_classes_ok as OK. rewrite forallb_forall in OK. specialize (OK _ H). cbn in OK.
  apply andb_true_iff in OK as [A B]. split; [apply text_eqb_eq; exact A|apply solidb_ok; exact B].
Qed.
Lemma word_entry cls kw has colons req : In (cls, kw, has, colons, req) word_classes -> starts_solid kw.
Proof.
  intros H. pose proof word_classes_ok as OK. rewrite forallb_forall in OK. specialize (OK _ H). cbn in OK.
  apply solidb_ok; exact OK.
Qed.

(* every live END statement class: what its tostr prints is matched again as the same tuple, whatever the name;
   keyword case and the blanks after END do not matter; a bare END is accepted exactly when the type is optional *)
Theorem live_end_classes cls stype named req : In (cls, stype, named, req) end_classes ->
  (forall n, named = true -> is_name n = true -> end_match stype named req (end_tostr stype (ENamed n)) = ENamed n) /\
  end_match stype named req (end_tostr stype EType) = EType /\
  (forall e b t, upper e = end_kw -> blanks b -> upper t = stype -> end_match stype named req (e ++ b ++ t) = EType) /\
  end_match stype named req (end_tostr stype EBare) = (if req then ENoMatch else EBare) /\
  (forall s n, end_match stype named req s = ENamed n -> upper (firstn 3 s) = end_kw /\ is_name n = true /\ named = true).
Proof.
  intros H. destruct (end_entry _ _ _ _ H) as [U S]. repeat split.
  - intros n -> N. apply end_roundtrip_named; assumption.
  - apply end_roundtrip_type; assumption.
  - intros e b t. apply end_case_and_blanks; assumption.
  - destruct req; [apply end_bare_refused|apply end_roundtrip_bare].
  - apply (end_named_sound stype named req s n H0).
  - apply (end_named_sound stype named req s n H0).
  - apply (end_named_sound stype named req s n H0).
Qed.

(* every live keyword statement class (WORDClsBase with a string keyword) *)
Theorem live_word_classes cls kw has colons req : In (cls, kw, has, colons, req) word_classes ->
  (forall rest, has = true -> starts_solid rest -> (colons = true -> no_colons rest) ->
     word_match kw has colons req (word_tostr kw false (WRest rest)) = WRest rest) /\
  (forall rest, has = true -> colons = true -> starts_solid rest ->
     word_match kw has colons req (word_tostr kw true (WRest rest)) = WRest rest) /\
  (req = false -> word_match kw has colons req (word_tostr kw false WBare) = WBare) /\
  (forall c r, is_alnum_us c = true -> word_match kw has colons req (kw ++ c :: r) = WNoMatch) /\
  (forall k2 rest, upper k2 = upper kw -> starts_solid k2 ->
     word_match kw has colons req (k2 ++ rest) = word_match kw has colons req (kw ++ rest)).
Proof.
  intros H. pose proof (word_entry _ _ _ _ _ H) as S. repeat split.
  - intros rest -> RS NC. apply word_roundtrip; assumption.
  - intros rest -> -> RS. apply word_roundtrip_colons; assumption.
  - intros ->. apply word_roundtrip_bare; assumption.
  - intros c r A. apply word_boundary; assumption.
  - intros k2 rest U S2. apply word_case; assumption.
Qed.
