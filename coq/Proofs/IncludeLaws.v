(* Laws of the INCLUDE model: push-back goes to the innermost reader and is invisible; the first
   directory that has a file wins; an unresolvable INCLUDE line is delivered as an item. *)
From Coq Require Import List Bool Arith Lia.
From FV Require Import Include.
Import ListNotations.

(* reading after push-back returns the pushed item and the previous nest of readers -- whatever the
   nesting depth, as long as the item is not itself an INCLUDE line that now resolves *)
Theorem aget_after_put fs it r outer fuel :
  (forall f, it = AInc f -> fs f = None) ->
  anext (S fuel) fs (aput it (r :: outer)) = (Some it, r :: outer).
Proof.
  intros H. cbn [aput anext own_next a_fifo a_src]. destruct it as [n|f].
  - destruct r; reflexivity.
  - rewrite (H f eq_refl). destruct r; reflexivity.
Qed.

Theorem first_dir_first_match d dirs f l : d f = Some l -> first_dir (d :: dirs) f = Some l.
Proof. intros H. cbn. now rewrite H. Qed.
Theorem first_dir_skips_missing d dirs f : d f = None -> first_dir (d :: dirs) f = first_dir dirs f.
Proof. intros H. cbn. now rewrite H. Qed.

(* an INCLUDE line whose file is not found is handed out unchanged, at its position *)
Theorem unresolved_include_kept fs f src outer fuel :
  fs f = None ->
  anext (S fuel) fs (mkArdr [] (AInc f :: src) :: outer) = (Some (AInc f), mkArdr [] src :: outer).
Proof. intros H. cbn. now rewrite H. Qed.

