(* K8 (exception flow).  Which exceptions can leave the engine, as a function of what the
   statement-level matchers (leaf oracle) raise.  [raises_only P L]: every exception L raises
   satisfies P.  The engine itself adds exactly: ESyntax (name checks of BlockBase.match),
   ENoMatch (Base.__new__ when every alternative failed), EExit (reader.error() when the table says
   it terminates the process), EOther (SymbolTableError from exit_scope/remove, the AttributeError
   of the trailing name check when the start statement has no name, startcls(reader) with
   startcls None) and the model's EFuel. *)
From Coq Require Import List Bool Arith NArith Lia.
From FV Require Import Scope Engine StmtError.
Import ListNotations.

Section Flow.
Variable T : table.
Variable L : item -> cls -> list cls -> leafres.
Variable P : exn -> Prop.
Hypothesis HL : forall i c p e, L i c p = LRaise e -> P e.
Hypothesis P_syntax : P ESyntax.
Hypothesis P_nomatch : P ENoMatch.
Hypothesis P_exit : P EExit.
Hypothesis P_other : P EOther.
Hypothesis P_fuel : P EFuel.

Definition okx {A} (r : res A * est) : Prop := match fst r with Raise e => P e | _ => True end.
Definition XContract (rec : matcher) : Prop := forall c s, okx (rec c s).

Lemma comment_x s : okx (comment T s).
Proof. unfold comment, okx. destruct (get_item s) as [[i|] s1]; [destruct (ikd i)|]; exact I. Qed.
Lemma directive_x s : okx (directive T s).
Proof. unfold directive, okx. destruct (get_item s) as [[i|] s1]; [destruct (ikd i); [|destruct (idir i)|]|]; exact I. Qed.
Lemma leaf_x c s : okx (leaf L c s).
Proof.
  unfold leaf, okx. destruct (get_item s) as [[i|] s1]; [|exact I].
  destruct (ikd i); try exact I;
  (destruct (cache_find (iid i) c (cache s1)) as [[inf|]|]; try exact I;
   destruct (L i c (pcls s1)) as [|e|inf] eqn:E; try exact I; destruct e; try exact I; cbn; eapply HL; eauto).
Qed.

Lemma bind_x {A B} (m : M A) (k : A -> M B) s : okx (m s) -> (forall a s1, okx (k a s1)) -> okx (bind m k s).
Proof. unfold bind, okx. destruct (m s) as [[a|e] s1]; cbn; intros H K; [apply K|exact H]. Qed.
Lemma ret_x {A} (a : A) s : okx (ret a s). Proof. exact I. Qed.
Lemma lift_x f s : okx (lift f s). Proof. exact I. Qed.
Lemma catch_x {A} (m : M (option A)) s : okx (m s) -> okx (catch_nomatch m s).
Proof. unfold catch_nomatch, okx. destruct (m s) as [[a|e] s1]; cbn; intros H; [exact I|destruct e; try exact H; exact I]. Qed.
Lemma exit_x s : okx (do_exit_scope s).
Proof. unfold do_exit_scope, okx. destruct (exit_scope (sc s)); [exact I|exact P_other]. Qed.
Lemma remove_x n s : okx (do_remove n s).
Proof. unfold do_remove, okx. destruct (remove_scope n (sc s)); [exact I|exact P_other]. Qed.

Section WithRec.
Variable rec : matcher.
Hypothesis HX : XContract rec.

Lemma call_x c s : okx (call rec c s).
Proof. unfold call, okx. pose proof (HX c (set_pcls [] s)) as H. destruct (rec c (set_pcls [] s)) as [r s1]. exact H. Qed.
Lemma first_of_x cs : forall s, okx (first_of rec cs s).
Proof.
  induction cs as [|c r IH]; intros s; cbn [first_of]; [exact I|].
  apply bind_x; [apply call_x|]. intros [t|] s1; [exact I|apply IH].
Qed.
Lemma cpp_x s : okx (cpp T rec s).
Proof. unfold cpp. destruct (get_item s) as [[i|] s1]; [|exact I]. destruct (ikd i); try exact I. apply first_of_x. Qed.
Lemma coi_x s : okx (comment_or_include T rec s).
Proof.
  unfold comment_or_include. apply bind_x; [destruct (procdir s); [apply directive_x|exact I]|].
  intros [t|] s1; [exact I|]. apply bind_x; [apply comment_x|]. intros [t|] s2; [exact I|apply call_x].
Qed.
Lemma cid_step_x s : okx (cid_step T rec s).
Proof. unfold cid_step. apply bind_x; [apply coi_x|]. intros [t|] s1; [exact I|apply cpp_x]. Qed.
Lemma add_cid_x k : forall content s, okx (add_cid T rec k content s).
Proof.
  induction k as [|k IH]; intros content s; cbn [add_cid]; [exact P_fuel|].
  apply bind_x; [apply cid_step_x|]. intros [t|] s1; [apply IH|exact I].
Qed.
Lemma call_l_x lc s : okx (call_l T rec lc s).
Proof.
  destruct lc as [c|]; cbn [call_l]; [|apply cpp_x].
  destruct (N.eqb c (t_comment T)); [apply comment_x|]. destruct (N.eqb c (t_directive T)); [apply directive_x|apply call_x].
Qed.

Lemma block_step_x b start_idx cont lc : (forall st s, okx (cont st s)) ->
  forall st s, okx (block_step T rec b start_idx cont lc st s).
Proof.
  intros HC st s. unfold block_step.
  apply bind_x.
  - destruct (b_do_hook b); [|exact I]. destruct (b_start b); [|exact P_other].
    apply bind_x; [apply call_x|]. intros [t|] s1; [|exact I].
    destruct (c_has_start_label (entry T (tcls t))); [|exact I].
    destruct (oN_eqb _ _); [exact I|]. apply bind_x; [apply lift_x|intros; exact I].
  - intros [t|] s1; [apply HC|].
    apply bind_x; [apply catch_x, call_l_x|]. intros [t|] s2; [|apply HC].
    destruct (b_labeldo_abort b && _ && _ && _).
    { apply bind_x; [apply lift_x|]. intros. apply bind_x; [apply lift_x|intros; exact I]. }
    match goal with |- context [match ?e1 with Some e => raise e | None => _ end] => destruct e1 as [e1'|] eqn:E1 end.
    { assert (e1' = ESyntax) as -> by (exact (stmt_error_syntax T _ _ _ _ _ E1)).
      exact P_syntax. }
    destruct (_ && b_match_labels b && _); [apply HC|].
    destruct (match b_end b with Some _ => mem (tcls t) (b_endall b) | None => false end); [|apply HC].
    match goal with |- context [match ?e2 with Some e => raise e | None => _ end] => destruct e2 as [e2'|] eqn:E2 end; [|exact I].
    assert (e2' = ESyntax) as ->.
    { destruct (b_match_names b); [|discriminate]. unfold name_check in E2.
      destruct (end_name (tinfo t)), (start_name _); try destruct (N.eqb _ _); try destruct (b_strict_names b); congruence. }
    exact P_syntax.
Qed.

Lemma block_loop_x b classes start_idx k : forall st s, okx (block_loop T rec b classes start_idx k st s).
Proof.
  induction k as [|k IH]; intros st s; cbn [block_loop]; [exact P_fuel|].
  destruct (nth_error classes (l_i st)); [|exact I].
  apply bind_x; [unfold hook_cid; destruct (b_do_hook b); [apply add_cid_x|exact I]|].
  intros cm s1. apply block_step_x. exact IH.
Qed.

Lemma block_body_x b content start_idx tn s : okx (block_body T rec b content start_idx tn s).
Proof.
  unfold block_body. pose proof (block_loop_x b (block_classes T b s) start_idx
     (loop_bound (length (block_classes T b s)) s) (mkLst content 0 false (b_if_hook b) (b_where_hook b)) s) as LP.
  destruct (block_loop T rec b (block_classes T b s) start_idx _ _ s) as [[[content' had fe|]|e] s1]; unfold okx in LP; cbn [fst] in LP.
  - apply bind_x; [destruct tn; [apply exit_x|exact I]|]. intros _ s2.
    destruct (_ && _).
    + apply bind_x; [destruct tn; [apply remove_x|exact I]|]. intros. apply bind_x; [apply lift_x|intros; exact I].
    + destruct content'; [exact I|]. destruct (b_start b); [|exact I]. destruct (b_end b); [|exact I].
      match goal with |- context [if ?c then _ else _] => destruct c end; [|exact I].
      destruct (unit_name _); [|exact I].
      match goal with |- context [match unit_name ?x with _ => _ end] => destruct (unit_name x) end;
        [|destruct (t_exits T); [exact P_exit|exact I]].
      destruct (N.eqb _ _); [exact I|]. destruct (t_exits T); [exact P_exit|exact I].
  - exact I.
  - destruct (match e with ESyntax => true | _ => t_cleanup_all T && is_exception e end); [|exact LP].
    destruct tn as [n|]; [|exact LP].
    unfold bind. pose proof (exit_x s1) as X. destruct (do_exit_scope s1) as [[[]|e1] s2]; unfold okx in *; cbn [fst] in *;
      [|exact X]. pose proof (remove_x n s2) as R. destruct (do_remove n s2) as [[[]|e2] s3]; cbn [fst] in *; [exact LP|exact R].
Qed.

Lemma block_match_x b s : okx (block_match T rec b s).
Proof.
  unfold block_match. destruct (b_start b) as [stc|]; [|apply block_body_x].
  apply bind_x; [apply add_cid_x|]. intros cm s1. apply bind_x; [apply catch_x, call_x|].
  intros [o|] s2; [|apply bind_x; [apply lift_x|intros; exact I]].
  destruct (c_scoping (entry T (tcls o))); (apply bind_x; [exact I|intros; apply block_body_x]).
Qed.

Lemma main0_x b s : okx (main0 T rec b s).
Proof.
  unfold main0. pose proof (block_match_x b (set_sc (enter_scope (t_main_name T) (sc s)) s)) as B.
  destruct (block_match T rec b _) as [[r|e] s2]; unfold okx in B; cbn [fst] in B.
  - apply bind_x; [apply exit_x|]. intros _ s3. destruct r; [exact I|]. apply bind_x; [apply remove_x|intros; exact I].
  - destruct (t_main0_guarded T && is_exception e); [|exact B].
    unfold bind. pose proof (exit_x s2) as X. destruct (do_exit_scope s2) as [[[]|e1] s3]; unfold okx in *; cbn [fst] in *;
      [|exact X]. pose proof (remove_x (t_main_name T) s3) as R. destruct (do_remove _ s3) as [[[]|e2] s4]; cbn [fst] in *;
      [exact B|exact R].
Qed.

Lemma seq_match_x cs : forall acc s, okx (seq_match T rec cs acc s).
Proof.
  induction cs as [|c r IH]; intros acc s; cbn [seq_match]; [exact I|].
  apply bind_x; [destruct (t_shared_restores T); [apply catch_x|]; apply call_x|].
  intros [t|] s1; [apply IH|]. apply bind_x; [destruct (t_shared_restores T); exact I|intros; exact I].
Qed.
Lemma loop_match_x c k : forall acc s, okx (loop_match rec c k acc s).
Proof.
  induction k as [|k IH]; intros acc s; cbn [loop_match]; [exact P_fuel|].
  apply bind_x; [apply catch_x, call_x|]. intros [t|] s1; [apply IH|exact I].
Qed.
Lemma try_alts_x alts : forall s, okx (try_alts rec alts s).
Proof.
  induction alts as [|a r IH]; intros s; cbn [try_alts]; [exact I|].
  destruct (mem a (pcls s)); [apply IH|]. apply bind_x; [apply catch_x, HX|]. intros [t|] s1; [exact I|apply IH].
Qed.
Lemma program_loop_x k : forall content s, okx (program_loop T rec k content s).
Proof.
  induction k as [|k IH]; intros content s; cbn [program_loop]; [exact P_fuel|].
  apply bind_x; [apply call_x|]. intros o s1. apply bind_x; [apply add_cid_x|]. intros c2 s2.
  destruct (stream s2) as [|hd tl]; [exact I|]. destruct (get_item s2) as [[it0|] s3]; [apply IH|exact I].
Qed.
End WithRec.

Theorem new_x : forall fuel, XContract (new T L fuel).
Proof.
  induction fuel as [|f IH]; intros c s; cbn [new]; [exact P_fuel|].
  destruct (N.eqb c (t_comment T)); [apply comment_x|]. destruct (N.eqb c (t_directive T)); [apply directive_x|].
  set (s1 := if mem c (pcls (tick s)) then tick s else set_pcls (pcls (tick s) ++ [c]) (tick s)).
  assert (FIN : forall (m : M (option (list tree))), okx (m s1) ->
    okx (match catch_nomatch m s1 with
         | (Raise e', s2) => (@Raise (option tree) e', s2)
         | (Val (Some content), s2) => (Val (Some (TBlock c content)), s2)
         | (Val None, s2) =>
             match try_alts (new T L f) (c_alts (entry T c)) s2 with
             | (Val (Some t), s3) => (Val (Some t), s3)
             | (Val None, s3) => if seen_code s3 then (Raise ENoMatch, s3) else (Val None, s3)
             | (Raise e', s3) => (Raise e', s3)
             end
         end)).
  { intros m Hm. pose proof (catch_x m s1 Hm) as C. destruct (catch_nomatch m s1) as [[[ct|]|e] s2]; unfold okx in *; cbn [fst] in *;
      [exact I| |exact C].
    pose proof (try_alts_x (new T L f) IH (c_alts (entry T c)) s2) as A.
    destruct (try_alts (new T L f) (c_alts (entry T c)) s2) as [[[t|]|e] s3]; unfold okx in *; cbn [fst] in *;
      [exact I| |exact A]. destruct (seen_code s3); [exact P_nomatch|exact I]. }
  destruct (c_kind (entry T c)) as [| |b|b|cs|c'|].
  - apply leaf_x.
  - apply FIN. exact I.
  - apply FIN. apply block_match_x. exact IH.
  - apply FIN. apply main0_x. exact IH.
  - apply FIN. apply seq_match_x. exact IH.
  - apply FIN. apply loop_match_x. exact IH.
  - apply FIN. exact I.
Qed.

Theorem program_top_x fuel c s : okx (program_top T L fuel c s).
Proof.
  pose proof (new_x fuel) as HX. unfold program_top.
  assert (PM : okx (program_match T (new T L fuel) (set_pcls [c] (tick s)))).
  { unfold program_match, program_units.
    assert (PU : okx ((c0 <- add_cid T (new T L fuel) (2 * length (stream (set_pcls [c] (tick s))) + 3) [];;
                       program_loop T (new T L fuel) (2 * length (stream (set_pcls [c] (tick s))) + 3) c0)
                        (set_pcls [c] (tick s)))).
    { apply bind_x; [apply add_cid_x; exact HX|]. intros. apply program_loop_x. exact HX. }
    match type of PU with okx ?X => destruct X as [[ct|e] s1] end; unfold okx in PU; cbn [fst] in PU; [exact I|].
    destruct e; try exact PU. apply block_match_x. exact HX. }
  pose proof (catch_x _ _ PM) as C.
  destruct (catch_nomatch (program_match T (new T L fuel)) (set_pcls [c] (tick s))) as [[[ct|]|e] s1];
    unfold okx in *; cbn [fst] in *; [exact I| |exact C].
  pose proof (try_alts_x (new T L fuel) HX (c_alts (entry T c)) s1) as A.
  destruct (try_alts (new T L fuel) (c_alts (entry T c)) s1) as [[[t|]|e] s2]; unfold okx in *; cbn [fst] in *;
    [exact I| |exact A]. destruct (seen_code s2); [exact P_nomatch|exact I].
Qed.

End Flow.

(* What can escape the whole parse (Program.__new__ turns NoMatchError and InternalSyntaxError into
   FortranSyntaxError): if the statement-level matchers raise nothing but NoMatchError,
   FortranSyntaxError and InternalSyntaxError, then the only things that are not a tree / nothing /
   a FortranSyntaxError are: process termination by reader.error() (EExit), a SymbolTableError or
   the AttributeError of the trailing name check (EOther), and the model's out-of-fuel value. *)
Theorem program_new_escapes T (L : item -> cls -> list cls -> leafres) fuel c s :
  (forall i c p e, L i c p = LRaise e -> e = ENoMatch \/ e = ESyntax \/ e = EInternalSyntax) ->
  match fst (program_new T L fuel c s) with
  | OEscape e => e = EExit \/ e = EOther \/ e = EFuel
  | _ => True
  end.
Proof.
  intros HL.
  assert (X : okx (fun e => e = ENoMatch \/ e = ESyntax \/ e = EInternalSyntax \/ e = EExit \/
                               e = EOther \/ e = EFuel) (program_top T L fuel c s)).
  { apply program_top_x; cbn beta; auto 10.
    intros i c0 p e H. destruct (HL i c0 p e H) as [ -> | [ -> | -> ] ]; auto 10. }
  unfold program_new. unfold okx in X.
  destruct (program_top T L fuel c s) as [[[t|]|e] s']; cbn [fst] in *; try exact I.
  destruct e; cbn; try exact I; destruct X as [X|[X|[X|[X|[X|X]]]]]; try discriminate; auto.
Qed.
