(* The arguments the live classes hand to SequenceBase.match (read off by tools/translate_srm.py on every run,
   coq/Gen/SrmGen.v) meet the hypotheses of the laws: every live list class cuts at the comma. *)
From Coq Require Import List Bool Arith Ascii String.
From FV Require Import SplitLine Text StmtBase Srm SrmLaws SrmGen.
Import ListNotations.

Lemma seq_classes_comma : forallb (fun e : string * ascii => aeqb (snd e) comma) seq_classes = true.
Proof. vm_compute. reflexivity. Qed.

Theorem live_seq_classes cls sep : In (cls, sep) seq_classes ->
  (forall s, nb (join_text sep (seq_match sep s)) = nb s) /\
  (forall s, Forall (fun e => existsb (is_c2 sep) e = false) (split2 sep (srm s))) /\
  (forall es, es <> [] -> forallb good_entry es = true -> seq_match sep (seq_tostr sep es) = es).
Proof.
  intros H. pose proof seq_classes_comma as OK. rewrite forallb_forall in OK. specialize (OK _ H). cbn in OK.
  apply Ascii.eqb_eq in OK. subst sep. repeat split.
  - intros s. now apply seq_match_keeps_nonblank.
  - intros s. apply seq_entries_sealed.
  - apply seq_roundtrip.
Qed.
