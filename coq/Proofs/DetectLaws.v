(* When does the detector answer fixed, when free?  Exact characterisation by line shape. *)
From Coq Require Import List Bool Arith Ascii Lia.
From FV Require Import SplitLine Text Detect.
Import ListNotations.

(* A line "looks fixed" to the detector: blank, a '!' line, a C/c/* comment line, or columns 1-5
   hold only blanks and digits -- and the line does not end in '&'. *)
Definition cols15_blank_or_digit (line : text) : bool :=
  forallb (fun c => aeqb c " "%char || is_digit c) (firstn 5 line).
Definition looks_fixed (l : text) : bool :=
  let line := rstrip l in
  match line with
  | [] => true
  | c :: _ =>
      aeqb c "!"%char
      || ((aeqb c "c"%char || aeqb c "C"%char || aeqb c "*"%char || cols15_blank_or_digit line)
          && negb (ends_with_char "&"%char line))
  end.

Lemma space_is_space c : aeqb c " "%char = true -> is_space c = true.
Proof. unfold aeqb. intros H. apply Ascii.eqb_eq in H. subst. reflexivity. Qed.

Lemma drop_space_digit r : forallb (fun c => aeqb c " "%char || is_digit c) r = true ->
  match drop_while is_space r with x :: _ => negb (is_space x) && negb (is_digit x) | [] => false end = false.
Proof.
  induction r as [|x t IH]; cbn; intros H; [reflexivity|]. apply andb_true_iff in H as [H1 H2].
  destruct (is_space x) eqn:S; [apply IH; exact H2|].
  apply orb_true_iff in H1 as [H1|H1]; [apply space_is_space in H1; congruence|]. rewrite S, H1. reflexivity.
Qed.

Lemma looks_fixed_not_free l : looks_fixed l = true -> line_says_free l = false.
Proof.
  unfold looks_fixed, line_says_free. destruct (rstrip l) as [|c r] eqn:E; [reflexivity|].
  destruct (aeqb c "!"%char) eqn:B; [reflexivity|]. cbn [orb]. intros H.
  apply andb_true_iff in H as [H1 H2]. apply negb_true_iff in H2. rewrite H2, orb_false_r.
  unfold free_start. cbn [firstn].
  destruct (aeqb c "c"%char) eqn:C1; [reflexivity|]. destruct (aeqb c "C"%char) eqn:C2; [reflexivity|].
  destruct (aeqb c "*"%char) eqn:C3; [reflexivity|]. cbn [orb] in *. rewrite B. cbn [negb andb].
  unfold cols15_blank_or_digit in H1. cbn [firstn forallb] in H1. apply andb_true_iff in H1 as [_ H1].
  apply drop_space_digit. exact H1.
Qed.

(* every line looks fixed  ==>  the source is detected as fixed form *)
Theorem all_fixed_detected_fixed lines : forallb looks_fixed lines = true -> detect_free lines = false.
Proof.
  unfold detect_free. induction lines as [|l r IH]; cbn; intros H; [reflexivity|].
  apply andb_true_iff in H as [H1 H2]. now rewrite (looks_fixed_not_free l H1), (IH H2).
Qed.

(* some line has, within columns 1-5, a first character other than c C * ! followed (after blanks)
   by a character that is neither blank nor digit  ==>  detected as free form *)
Definition starts_free (l : text) : bool :=
  match rstrip l with
  | c :: r => negb (aeqb c "!"%char) && free_start (firstn 5 (c :: r))
  | [] => false
  end.
Theorem some_free_start_detected_free lines : existsb starts_free lines = true -> detect_free lines = true.
Proof.
  unfold detect_free. induction lines as [|l r IH]; cbn; intros H; [discriminate|].
  apply orb_true_iff in H as [H|H]; [|rewrite (IH H); apply orb_true_r].
  unfold starts_free in H. unfold line_says_free. destruct (rstrip l) as [|c t]; [discriminate|].
  apply andb_true_iff in H as [H1 H2]. apply negb_true_iff in H1. rewrite H1, H2. reflexivity.
Qed.

(* and conversely the detector answers free ONLY for one of the two reasons *)
Theorem detected_free_reason lines : detect_free lines = true ->
  exists l, In l lines /\ (starts_free l = true \/
                           (ends_with_char "&"%char (rstrip l) = true)).
Proof.
  unfold detect_free. intros H. apply existsb_exists in H as [l [I H]]. exists l. split; [exact I|].
  unfold line_says_free in H. unfold starts_free. destruct (rstrip l) as [|c t]; [discriminate|].
  destruct (aeqb c "!"%char); [discriminate|]. cbn [negb andb]. apply orb_true_iff in H as [H|H]; auto.
Qed.
