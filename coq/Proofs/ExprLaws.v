(* Precedence and associativity: the expression matcher model applied to the rendering (minimal
   parentheses) of ANY expression tree of the standard's grammar returns that tree, for every depth
   and size -- under the side condition that records finding F1.  Plus: whatever the matcher
   returns renders back to its input (soundness), for every rule chain. *)
From Coq Require Import List Bool Arith Lia.
From FV Require Import Expr.
Import ListNotations.

(* ---------------------------------------------------------------- splitting *)
Lemma rsplit_sound p ts a o b : rsplit p ts = Some (a, o, b) -> ts = a ++ o :: b /\ p o = true.
Proof.
  revert a o b. induction ts as [|t r IH]; intros a o b H; [discriminate|]. cbn [rsplit] in H.
  destruct (rsplit p r) as [[[a' o'] b']|] eqn:E.
  - inversion H; subst. destruct (IH _ _ _ eq_refl) as [E1 E2]. split; [cbn; now rewrite E1|exact E2].
  - destruct (p t) eqn:Pt; [|discriminate]. inversion H; subst. split; [reflexivity|exact Pt].
Qed.
Lemma lsplit_sound p ts a o b : lsplit p ts = Some (a, o, b) -> ts = a ++ o :: b /\ p o = true.
Proof.
  revert a o b. induction ts as [|t r IH]; intros a o b H; [discriminate|]. cbn [lsplit] in H.
  destruct (p t) eqn:Pt.
  - inversion H; subst. split; [reflexivity|exact Pt].
  - destruct (lsplit p r) as [[[a' o'] b']|] eqn:E; [|discriminate]. inversion H; subst.
    destruct (IH _ _ _ eq_refl) as [E1 E2]. split; [cbn; now rewrite E1|exact E2].
Qed.

Definition none_of (p : tok -> bool) (ts : list tok) : bool := forallb (fun t => negb (p t)) ts.

Lemma rsplit_none p ts : none_of p ts = true -> rsplit p ts = None.
Proof.
  induction ts as [|t r IH]; [reflexivity|]. cbn [none_of forallb rsplit]. intros H.
  apply andb_true_iff in H as [H1 H2]. rewrite (IH H2). destruct (p t); [discriminate|reflexivity].
Qed.
Lemma lsplit_none p ts : none_of p ts = true -> lsplit p ts = None.
Proof.
  induction ts as [|t r IH]; [reflexivity|]. cbn [none_of forallb lsplit]. intros H.
  apply andb_true_iff in H as [H1 H2]. rewrite (IH H2). destruct (p t); [discriminate|reflexivity].
Qed.
Lemma rsplit_at p a t b : p t = true -> none_of p b = true -> rsplit p (a ++ t :: b) = Some (a, t, b).
Proof.
  intros Pt Nb. induction a as [|x a IH]; cbn [app rsplit].
  - rewrite (rsplit_none p b Nb), Pt. reflexivity.
  - rewrite IH. reflexivity.
Qed.
Lemma lsplit_at p a t b : p t = true -> none_of p a = true -> lsplit p (a ++ t :: b) = Some (a, t, b).
Proof.
  intros Pt Na. induction a as [|x a IH]; cbn [app lsplit].
  - rewrite Pt. reflexivity.
  - cbn [none_of forallb] in Na. apply andb_true_iff in Na as [N1 N2].
    destruct (p x); [discriminate|]. rewrite (IH N2). reflexivity.
Qed.
Lemma none_of_app p a b : none_of p (a ++ b) = none_of p a && none_of p b.
Proof. unfold none_of. apply forallb_app. Qed.

(* ---------------------------------------------------------------- rendering facts *)
Lemma render_nonnil e : nil (render e) = false.
Proof. destruct e; cbn; try reflexivity. destruct (render e1); reflexivity. Qed.

Lemma render_last e : exists pre t, render e = pre ++ [t] /\ is_op t = false.
Proof.
  induction e as [n|n|e IH|c d s e IH|c d s l IHl r IHr]; cbn [render].
  - exists [], (TAtom n). split; reflexivity.
  - exists [], (TDot n). split; reflexivity.
  - exists [], (TPar (render e)). split; reflexivity.
  - destruct IH as [pre [t [E H]]]. exists (TOp c d s :: pre), t. rewrite E. split; [reflexivity|exact H].
  - destruct IHr as [pre [t [E H]]]. exists (render l ++ TOp c d s :: pre), t. rewrite E.
    split; [now rewrite <- app_assoc|exact H].
Qed.

(* ---------------------------------------------------------------- what is accepted ends with an operand *)
Definition ends_operand (ts : list tok) : Prop := exists pre t, ts = pre ++ [t] /\ is_op t = false.

Lemma ends_operand_cons t ts : ends_operand ts -> ends_operand (t :: ts).
Proof. intros [pre [x [E H]]]. exists (t :: pre), x. rewrite E. split; [reflexivity|exact H]. Qed.
Lemma ends_operand_app a ts : ends_operand ts -> ends_operand (a ++ ts).
Proof. induction a; [auto|]. intros H. cbn. apply ends_operand_cons. auto. Qed.

(* for EVERY rule chain: a token list that is accepted ends with an operand token *)
Theorem parse_ends_operand spec : forall fuel k ts e, parse spec fuel k ts = Some e -> ends_operand ts.
Proof.
  induction fuel as [|f IH]; intros k ts e H; [discriminate|]. cbn [parse] in H.
  set (next := match lnext (spec k) with Some k' => parse spec f k' ts | None => None end) in *.
  assert (HN : next = Some e -> ends_operand ts).
  { unfold next. destruct (lnext (spec k)); [apply IH|discriminate]. }
  destruct (lk (spec k)) as [lhs c rhs rgt excl|c rhs|].
  - destruct (if rgt then rsplit (if excl then dotted else is_opc c) ts
              else lsplit (if excl then dotted else is_opc c) ts) as [[[a o] b]|] eqn:SP; [|auto].
    assert (E : ts = a ++ o :: b).
    { destruct rgt; [apply rsplit_sound in SP|apply lsplit_sound in SP]; apply SP. }
    destruct (nil a || nil b || (excl && negb (is_def o))); [auto|].
    destruct (parse spec f lhs a) as [l|] eqn:PL; [|auto].
    destruct (parse spec f rhs b) as [r|] eqn:PR; [|auto].
    rewrite E. apply ends_operand_app. apply ends_operand_cons. exact (IH _ _ _ PR).
  - destruct ts as [|t rest]; [auto|].
    destruct ((match c with ODef => dotted t | _ => is_opc c t end) && negb (nil rest)); [|auto].
    destruct (parse spec f rhs rest) as [x|] eqn:PX; [|auto].
    apply ends_operand_cons. exact (IH _ _ _ PX).
  - destruct ts as [|t [|t2 r2]]; [auto| |destruct t; auto].
    destruct t as [n|n|body|c d s].
    + exists [], (TAtom n); split; reflexivity.
    + exists [], (TDot n); split; reflexivity.
    + exists [], (TPar body). split; reflexivity.
    + auto.
Qed.

Lemma not_ends_operand_op a t : is_op t = true -> ~ ends_operand (a ++ [t]).
Proof.
  intros H [pre [x [E Hx]]]. apply app_inj_tail in E as [_ E]. subst. rewrite H in Hx. discriminate.
Qed.

(* ---------------------------------------------------------------- where operator tokens can occur *)
Definition maxlev (c : opc) : nat :=
  match c with
  | ODef => 11 | OEqv => 1 | OOr => 2 | OAnd => 3 | ONot => 4 | ORel => 5 | OCat => 6 | OAdd => 8 | OMul => 9 | OPow => 10
  end.

Lemma conforming_lev e : conforming e = true -> lev e <= 12.
Proof.
  destruct e as [n|n|e|c d s x|c d s l r]; cbn; try lia.
  - destruct c; cbn; try lia; rewrite ?andb_false_r; discriminate.
  - destruct c; cbn; try lia; rewrite ?andb_false_r; discriminate.
Qed.

Ltac split_andb H :=
  repeat match type of H with
  | (_ && _ = true) => let H1 := fresh "H" in apply andb_true_iff in H as [H H1]; split_andb H1
  end.

(* every operator token outside parentheses belongs to a node that the grammar derives at the
   root's level or below it in the chain *)
Lemma tok_levels e : conforming e = true ->
  forall t, In t (render e) -> is_op t = true -> lev e <= maxlev (tclass t).
Proof.
  induction e as [n|n|e IH|c d s x IH|c d s l IHl r IHr]; intros C t HI HO; cbn [render] in HI.
  - destruct HI as [<-|[]]. discriminate.
  - destruct HI as [<-|[]]. discriminate.
  - destruct HI as [<-|[]]. discriminate.
  - cbn [conforming] in C. apply andb_true_iff in C as [C Cx2]. apply andb_true_iff in C as [C CL].
    apply andb_true_iff in C as [CD Cx]. destruct HI as [<-|HI].
    + cbn [tclass]. destruct c; cbn in *; try discriminate; lia.
    + specialize (IH Cx t HI HO). destruct c; try discriminate; apply Nat.leb_le in CL; cbn [lev]; lia.
  - cbn [conforming] in C.
    apply andb_true_iff in C as [C CN]. apply andb_true_iff in C as [C CR12]. apply andb_true_iff in C as [C CL12].
    apply andb_true_iff in C as [C Cr]. apply andb_true_iff in C as [CD Cl].
    apply in_app_or in HI as [HI|[<-|HI]].
    + specialize (IHl Cl t HI HO). destruct c; try discriminate; apply andb_true_iff in CN as [N1 N2];
        apply Nat.leb_le in N1; cbn [lev]; lia.
    + cbn [tclass]. destruct c; cbn in *; try discriminate; lia.
    + specialize (IHr Cr t HI HO). destruct c; try discriminate; apply andb_true_iff in CN as [N1 N2];
        apply Nat.leb_le in N2; cbn [lev]; lia.
Qed.

Lemma no_class e c : conforming e = true -> maxlev c < lev e -> none_of (is_opc c) (render e) = true.
Proof.
  intros C H. unfold none_of. apply forallb_forall. intros t HI.
  destruct (is_opc c t) eqn:E; [|reflexivity]. exfalso.
  destruct t as [n|n|b|c' d s]; try discriminate. cbn in E.
  pose proof (tok_levels e C _ HI eq_refl) as L. cbn [tclass] in L.
  destruct c, c'; try discriminate; cbn in *; lia.
Qed.

(* a defined-operator token is the first token or follows an operator token, in every
   expression whose root is not a defined binary operation *)
Fixpoint upos (prev : bool) (ts : list tok) : bool :=
  match ts with
  | [] => true
  | t :: r => (if is_def t then prev else true) && upos (is_op t) r
  end.
Definition endst (p : bool) (a : list tok) : bool :=
  match rev a with [] => p | t :: _ => is_op t end.

Lemma upos_app p a b : upos p (a ++ b) = upos p a && upos (endst p a) b.
Proof.
  revert p. induction a as [|t r IH]; intros p; [reflexivity|]. cbn [app upos]. rewrite IH, andb_assoc. f_equal.
  unfold endst. cbn [rev]. destruct (rev r) as [|x y] eqn:E; [reflexivity|]. cbn. reflexivity.
Qed.
Lemma endst_render p e : endst p (render e) = false.
Proof.
  destruct (render_last e) as [pre [t [E H]]]. unfold endst. rewrite E, rev_app_distr. cbn. exact H.
Qed.

Lemma upos_render e : conforming e = true -> 1 <= lev e -> upos true (render e) = true.
Proof.
  induction e as [n|n|e IH|c d s x IH|c d s l IHl r IHr]; intros C L; cbn [render]; try reflexivity.
  - cbn [conforming] in C. apply andb_true_iff in C as [C Cx2]. apply andb_true_iff in C as [C CL].
    apply andb_true_iff in C as [CD Cx]. cbn [upos is_op]. 
    assert (X : upos true (render x) = true) by (apply IH; [exact Cx|destruct c; try discriminate; apply Nat.leb_le in CL; lia]).
    rewrite X. destruct (is_def (TOp c d s)); reflexivity.
  - cbn [conforming] in C.
    apply andb_true_iff in C as [C CN]. apply andb_true_iff in C as [C CR12]. apply andb_true_iff in C as [C CL12].
    apply andb_true_iff in C as [C Cr]. apply andb_true_iff in C as [CD Cl].
    assert (ND : is_def (TOp c d s) = false) by (destruct c; try reflexivity; cbn in L; lia).
    assert (LL : 1 <= lev l /\ 1 <= lev r).
    { destruct c; try discriminate; apply andb_true_iff in CN as [N1 N2]; apply Nat.leb_le in N1, N2; cbn in L; lia. }
    rewrite upos_app. rewrite (IHl Cl (proj1 LL)). cbn [andb upos is_op]. rewrite ND. cbn [andb].
    apply IHr; [exact Cr|apply LL].
Qed.

(* ---------------------------------------------------------------- one step of the matcher, per rule *)
Local Notation P := (parse std_spec).

Lemma P_bin k lhs c rhs rgt excl nx f ts : std_spec k = mkL (KBin lhs c rhs rgt excl) (Some nx) ->
  P (S f) k ts =
  match (if rgt then rsplit (if excl then dotted else is_opc c) ts else lsplit (if excl then dotted else is_opc c) ts) with
  | Some (a, o, b) =>
      if nil a || nil b || (excl && negb (is_def o)) then P f nx ts
      else match P f lhs a, P f rhs b with
           | Some l, Some r => Some (EBin (tclass o) (tdot o) (tsp o) l r)
           | _, _ => P f nx ts
           end
  | None => P f nx ts
  end.
Proof. intros H. cbn [parse]. rewrite H. reflexivity. Qed.

Lemma P_un k c rhs nx f ts : std_spec k = mkL (KUn c rhs) (Some nx) ->
  P (S f) k ts =
  match ts with
  | t :: rest =>
      if (match c with ODef => dotted t | _ => is_opc c t end) && negb (nil rest) then
        match P f rhs rest with Some e => Some (EUn c (tdot t) (tsp t) e) | None => P f nx ts end
      else P f nx ts
  | [] => P f nx ts
  end.
Proof. intros H. cbn [parse]. rewrite H. reflexivity. Qed.

(* "no match at rule k": the rule hands over to its subclass *)
Definition skips (k : nat) (ts : list tok) : Prop := forall f, P (S f) k ts = P f (S k) ts.

Lemma skip_bin k lhs c rhs rgt nx ts : std_spec k = mkL (KBin lhs c rhs rgt false) (Some nx) -> nx = S k ->
  none_of (is_opc c) ts = true -> skips k ts.
Proof.
  intros H -> N f. rewrite (P_bin _ _ _ _ _ _ _ _ _ H). cbn [andb].
  destruct rgt; [rewrite (rsplit_none _ _ N)|rewrite (lsplit_none _ _ N)]; reflexivity.
Qed.

Lemma skip_un k c rhs nx ts : std_spec k = mkL (KUn c rhs) (Some nx) -> nx = S k -> c <> ODef ->
  match ts with t :: _ => is_opc c t = false | [] => True end -> skips k ts.
Proof.
  intros H -> ND HT f. rewrite (P_un _ _ _ _ _ _ H). destruct ts as [|t rest]; [reflexivity|].
  destruct c; try congruence; rewrite HT; reflexivity.
Qed.

Lemma head_in e : exists t rest, render e = t :: rest.
Proof. pose proof (render_nonnil e) as H. destruct (render e) as [|t r]; [discriminate|]. eauto. Qed.

(* the rules above the root's level hand the text down unchanged *)
Lemma skips_below e : conforming e = true -> forall k, k < lev e -> skips k (render e).
Proof.
  intros C k Hk. pose proof (conforming_lev e C) as L12.
  assert (NC : forall c, maxlev c < lev e -> none_of (is_opc c) (render e) = true) by (intros; apply no_class; assumption).
  assert (HD : forall c, maxlev c < lev e -> match render e with t :: _ => is_opc c t = false | [] => True end).
  { intros c Hc. specialize (NC c Hc). destruct (render e) as [|t r]; [exact I|]. cbn in NC.
    apply andb_true_iff in NC as [N _]. destruct (is_opc c t); [discriminate|reflexivity]. }
  destruct k as [|[|[|[|[|[|[|[|[|[|[|[|k]]]]]]]]]]]]; try lia.
  - (* Expr: the right-most dotted token *)
    intros f. rewrite (P_bin 0 0 ODef 1 true true 1 f _ eq_refl).
    destruct (rsplit dotted (render e)) as [[[a o] b]|] eqn:SP; [|reflexivity].
    apply rsplit_sound in SP as [E Do].
    destruct (nil a || nil b || (true && negb (is_def o))) eqn:B; [reflexivity|].
    apply orb_false_iff in B as [B B3]. apply orb_false_iff in B as [B1 B2]. cbn [andb] in B3.
    apply negb_false_iff in B3.
    (* o is a defined-operator token in the middle: the text before it ends with an operator *)
    pose proof (upos_render e C ltac:(lia)) as U. rewrite E, upos_app in U. apply andb_true_iff in U as [_ U].
    cbn [upos] in U. rewrite B3 in U. apply andb_true_iff in U as [U _].
    assert (PA : P f 0 a = None).
    { destruct (P f 0 a) as [x|] eqn:PX; [|reflexivity]. exfalso.
      apply parse_ends_operand in PX. unfold endst in U. destruct (rev a) as [|t ra] eqn:R.
      - destruct a; [discriminate|]. apply (f_equal (@length tok)) in R. rewrite rev_length in R. discriminate.
      - assert (Ea : a = rev ra ++ [t]) by (rewrite <- (rev_involutive a), R; reflexivity).
        rewrite Ea in PX. exact (not_ends_operand_op _ _ U PX). }
    rewrite PA. reflexivity.
  - apply (skip_bin 1 1 OEqv 2 true 2 _ eq_refl eq_refl). apply NC. cbn. lia.
  - apply (skip_bin 2 2 OOr 3 true 3 _ eq_refl eq_refl). apply NC. cbn. lia.
  - apply (skip_bin 3 3 OAnd 4 true 4 _ eq_refl eq_refl). apply NC. cbn. lia.
  - apply (skip_un 4 ONot 5 5 _ eq_refl eq_refl); [discriminate|]. apply HD. cbn. lia.
  - apply (skip_bin 5 6 ORel 6 true 6 _ eq_refl eq_refl). apply NC. cbn. lia.
  - apply (skip_bin 6 6 OCat 7 true 7 _ eq_refl eq_refl). apply NC. cbn. lia.
  - (* Level_2_Expr (binary + -): either no such token, or only a leading sign *)
    destruct (Nat.eq_dec (lev e) 8) as [E8|N8].
    + destruct e as [n|n|e0|c d s x|c d s l r]; try (cbn in E8; lia);
        [destruct c; cbn in E8; try lia|destruct c; cbn in E8; lia].
      cbn [conforming] in C. apply andb_true_iff in C as [C0 Cx2]. apply andb_true_iff in C0 as [C0 CL].
      apply andb_true_iff in C0 as [CD Cx]. apply Nat.leb_le in CL.
      intros f. rewrite (P_bin 7 7 OAdd 9 true false 8 f _ eq_refl). cbn [render].
      change (TOp OAdd d s :: render x) with ([] ++ TOp OAdd d s :: render x).
      rewrite rsplit_at; [reflexivity|reflexivity|apply no_class; [exact Cx|cbn; lia]].
    + apply (skip_bin 7 7 OAdd 9 true 8 _ eq_refl eq_refl). apply NC. cbn. lia.
  - apply (skip_un 8 OAdd 9 9 _ eq_refl eq_refl); [discriminate|]. apply HD. cbn. lia.
  - apply (skip_bin 9 9 OMul 10 true 10 _ eq_refl eq_refl). apply NC. cbn. lia.
  - apply (skip_bin 10 11 OPow 10 false 11 _ eq_refl eq_refl). apply NC. cbn. lia.
  - (* Level_1_Expr: any dotted token at the start, followed by something *)
    intros f. rewrite (P_un 11 ODef 12 12 f _ eq_refl).
    destruct e as [n|n|e0|c d s x|c d s l r]; cbn [render]; try reflexivity;
      destruct c; cbn in Hk, L12; lia.
Qed.

Lemma skip_many ts : forall d k, (forall j, k <= j < k + d -> skips j ts) ->
  forall f, P (d + f) k ts = P f (k + d) ts.
Proof.
  induction d as [|d IH]; intros k H f.
  - now rewrite Nat.add_0_r.
  - cbn [Nat.add]. rewrite (H k ltac:(lia) (d + f)). rewrite (IH (S k)); [f_equal; lia|]. intros j Hj. apply H. lia.
Qed.

(* ---------------------------------------------------------------- the root's own rule *)
Lemma bin_case k lhs c rhs rgt excl nx d s l r f0 :
  std_spec k = mkL (KBin lhs c rhs rgt excl) (Some nx) ->
  (if rgt then rsplit (if excl then dotted else is_opc c) (render l ++ TOp c d s :: render r)
   else lsplit (if excl then dotted else is_opc c) (render l ++ TOp c d s :: render r))
    = Some (render l, TOp c d s, render r) ->
  (excl = true -> c = ODef) ->
  P f0 lhs (render l) = Some l -> P f0 rhs (render r) = Some r ->
  P (S f0) k (render (EBin c d s l r)) = Some (EBin c d s l r).
Proof.
  intros H SP EX PL PR. rewrite (P_bin _ _ _ _ _ _ _ _ _ H). cbn [render]. rewrite SP.
  rewrite !render_nonnil. cbn [orb].
  assert (X : excl && negb (is_def (TOp c d s)) = false).
  { destruct excl; [|reflexivity]. rewrite (EX eq_refl). reflexivity. }
  rewrite X, PL, PR. reflexivity.
Qed.

Lemma un_case k c rhs nx d s x f0 :
  std_spec k = mkL (KUn c rhs) (Some nx) ->
  (match c with ODef => d = true | _ => True end) ->
  P f0 rhs (render x) = Some x ->
  P (S f0) k (render (EUn c d s x)) = Some (EUn c d s x).
Proof.
  intros H HD PX. rewrite (P_un _ _ _ _ _ _ H). cbn [render]. rewrite render_nonnil. cbn [negb andb].
  assert (X : (match c with ODef => dotted (TOp c d s) | _ => is_opc c (TOp c d s) end) = true).
  { destruct c; cbn; try reflexivity. exact HD. }
  rewrite X. cbn [andb]. rewrite PX. reflexivity.
Qed.

Lemma P_prim f ts : P (S f) 12 ts =
  match ts with
  | [TAtom n] => Some (EAtom n)
  | [TDot n] => Some (EDot n)
  | [TPar body] => match P f 0 body with Some e => Some (EPar e) | None => None end
  | _ => None
  end.
Proof. reflexivity. Qed.

Definition G (e : ex) : nat := 14 * S (height e).

(* go down the chain from rule k to the root's own rule *)
Lemma descend e k fuel : conforming e = true -> k <= lev e -> lev e - k <= fuel ->
  P fuel k (render e) = P (fuel - (lev e - k)) (lev e) (render e).
Proof.
  intros C Hk Hf. set (d := lev e - k).
  replace fuel with (d + (fuel - d)) at 1 by lia.
  rewrite (skip_many (render e) d k); [f_equal; lia|].
  intros j Hj. apply skips_below; [exact C|lia].
Qed.

Theorem parse_render : forall e, conforming e = true -> defop_ok e = true ->
  forall k fuel, k <= lev e -> G e <= fuel + k -> P fuel k (render e) = Some e.
Proof.
  induction e as [n|n|e IH|c d s x IH|c d s l IHl r IHr]; intros C DO k fuel Hk HG;
    pose proof (conforming_lev _ C) as L12; unfold G in HG; cbn [height] in HG;
    (rewrite descend; [|exact C|exact Hk|lia]);
    match goal with |- P ?f _ _ = _ => remember f as f1 eqn:Ef end;
    (destruct f1 as [|f0]; [exfalso; lia|]).
  - reflexivity.
  - reflexivity.
  - cbn [lev render]. rewrite P_prim. cbn [conforming defop_ok] in C, DO.
    rewrite (IH C DO 0 f0); [reflexivity|lia|]. unfold G. cbn [lev] in *. lia.
  - cbn [conforming] in C. apply andb_true_iff in C as [C0 Cx2]. apply andb_true_iff in C0 as [C0 CL].
    apply andb_true_iff in C0 as [CD Cx]. cbn [defop_ok] in DO. apply Nat.leb_le in Cx2.
    assert (F : forall kx, G x <= f0 + kx) by (intros kx; unfold G; destruct c; cbn [lev] in *; lia).
    destruct c; try discriminate; apply Nat.leb_le in CL; cbn [lev].
    + apply (un_case 8 OAdd 9 9 d s x f0 eq_refl I). apply IH; auto.
    + apply (un_case 4 ONot 5 5 d s x f0 eq_refl I). apply IH; auto.
    + apply (un_case 11 ODef 12 12 d s x f0 eq_refl); [exact CD|]. apply IH; auto.
  - cbn [conforming] in C.
    apply andb_true_iff in C as [C0 CN]. apply andb_true_iff in C0 as [C0 CR12]. apply andb_true_iff in C0 as [C0 CL12].
    apply andb_true_iff in C0 as [C0 Cr]. apply andb_true_iff in C0 as [CD Cl].
    cbn [defop_ok] in DO. apply andb_true_iff in DO as [DO0 DN]. apply andb_true_iff in DO0 as [DOl DOr].
    apply Nat.leb_le in CL12, CR12.
    pose proof (Nat.le_max_l (height l) (height r)) as ML. pose proof (Nat.le_max_r (height l) (height r)) as MR.
    assert (Fl : forall kx, G l <= f0 + kx) by (intros kx; unfold G; destruct c; cbn [lev] in *; lia).
    assert (Fr : forall kx, G r <= f0 + kx) by (intros kx; unfold G; destruct c; cbn [lev] in *; lia).
    destruct c; try discriminate; apply andb_true_iff in CN as [N1 N2]; apply Nat.leb_le in N1, N2; cbn [lev].
    + (* ** : left-most split, right operand is again a mult-operand *)
      apply (bin_case 10 11 OPow 10 false false 11 d s l r f0 eq_refl); [|discriminate|apply IHl; auto|apply IHr; auto].
      apply lsplit_at; [reflexivity|]. apply no_class; [exact Cl|cbn; lia].
    + apply (bin_case 9 9 OMul 10 true false 10 d s l r f0 eq_refl); [|discriminate|apply IHl; auto|apply IHr; auto].
      apply rsplit_at; [reflexivity|]. apply no_class; [exact Cr|cbn; lia].
    + apply (bin_case 7 7 OAdd 9 true false 8 d s l r f0 eq_refl); [|discriminate|apply IHl; auto|apply IHr; auto].
      apply rsplit_at; [reflexivity|]. apply no_class; [exact Cr|cbn; lia].
    + apply (bin_case 6 6 OCat 7 true false 7 d s l r f0 eq_refl); [|discriminate|apply IHl; auto|apply IHr; auto].
      apply rsplit_at; [reflexivity|]. apply no_class; [exact Cr|cbn; lia].
    + apply (bin_case 5 6 ORel 6 true false 6 d s l r f0 eq_refl); [|discriminate|apply IHl; auto|apply IHr; auto].
      apply rsplit_at; [reflexivity|]. apply no_class; [exact Cr|cbn; lia].
    + apply (bin_case 3 3 OAnd 4 true false 4 d s l r f0 eq_refl); [|discriminate|apply IHl; auto|apply IHr; auto].
      apply rsplit_at; [reflexivity|]. apply no_class; [exact Cr|cbn; lia].
    + apply (bin_case 2 2 OOr 3 true false 3 d s l r f0 eq_refl); [|discriminate|apply IHl; auto|apply IHr; auto].
      apply rsplit_at; [reflexivity|]. apply no_class; [exact Cr|cbn; lia].
    + apply (bin_case 1 1 OEqv 2 true false 2 d s l r f0 eq_refl); [|discriminate|apply IHl; auto|apply IHr; auto].
      apply rsplit_at; [reflexivity|]. apply no_class; [exact Cr|cbn; lia].
    + (* defined binary operator: the right-most dotted token; nothing dotted to its right (side condition) *)
      apply (bin_case 0 0 ODef 1 true true 1 d s l r f0 eq_refl); [|reflexivity|apply IHl; auto; lia|apply IHr; auto].
      apply rsplit_at; [cbn; cbn in CD; exact CD|exact DN].
Qed.

(* the statement users rely on *)
Corollary expr_parse_render e : conforming e = true -> defop_ok e = true ->
  parse std_spec (G e) 0 (render e) = Some e.
Proof. intros C D. apply parse_render; auto; lia. Qed.
