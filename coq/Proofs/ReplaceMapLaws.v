(* string_replace_map is lossless: restoring the replaced line with the returned map gives the line
   back, for every line -- when the reverse map is consulted with the content it stores.  The
   variant that consults it with the delimited item (the code before commit c40fb6f) is refuted. *)
From Coq Require Import List Bool Arith Ascii Lia.
Require Import FV.Model.ReplaceMap.
Import ListNotations.

Lemma teqb_eq a : forall b, teqb a b = true -> a = b.
Proof.
  induction a as [|x r IH]; intros [|y s]; cbn; try discriminate; [reflexivity|].
  intros H. apply andb_true_iff in H as [H1 H2]. apply Ascii.eqb_eq in H1. subst. f_equal. auto.
Qed.

Section Laws.
Variable wrap : text -> text.

(* invariant: the reverse map and the map agree, and all keys are at most n *)
Definition coherent (n : nat) (rev : list (text * nat)) (m : list (nat * text)) : Prop :=
  (forall c k, rfind c rev = Some k -> mfind k m = Some c) /\
  (forall k c, mfind k m = Some c -> k <= n).

Lemma restore_cons_plain m t o : restore m (RPlain t :: o) =
  match restore m o with Some a => Some (SPlain t :: a) | None => None end.
Proof. reflexivity. Qed.
Lemma restore_cons_key m k o : restore m (RKey k :: o) =
  match restore m o with
  | Some a => match mfind k m with Some c => Some (SGroup c :: a) | None => None end
  | None => None
  end.
Proof. reflexivity. Qed.

(* later additions to the map never change what an existing key restores to *)
Definition extends (m m' : list (nat * text)) : Prop := forall k c, mfind k m = Some c -> mfind k m' = Some c.

Lemma replace_ok : forall l n rev m o m',
  coherent n rev m -> replace wrap false l n rev m = (o, m') ->
  extends m m' /\ restore m' o = Some l.
Proof.
  induction l as [|s r IH]; intros n rev m o m' CO H; cbn [replace] in H.
  - inversion H; subst. split; [intros k c X; exact X|reflexivity].
  - destruct s as [t|c].
    + destruct (replace wrap false r n rev m) as [o1 m1] eqn:E. inversion H; subst.
      destruct (IH _ _ _ _ _ CO E) as [X R]. split; [exact X|]. rewrite restore_cons_plain, R. reflexivity.
    + destruct (rfind c rev) as [k|] eqn:F.
      * destruct (replace wrap false r n rev m) as [o1 m1] eqn:E. inversion H; subst.
        destruct (IH _ _ _ _ _ CO E) as [X R]. split; [exact X|].
        rewrite restore_cons_key, R. destruct CO as [C1 C2]. rewrite (X _ _ (C1 _ _ F)). reflexivity.
      * destruct (replace wrap false r (S n) ((c, S n) :: rev) ((S n, c) :: m)) as [o1 m1] eqn:E. inversion H; subst.
        assert (CO' : coherent (S n) ((c, S n) :: rev) ((S n, c) :: m)).
        { destruct CO as [C1 C2]. split.
          - intros c' k'. cbn [rfind mfind]. destruct (teqb c c') eqn:T.
            + intros X. inversion X; subst. rewrite Nat.eqb_refl. f_equal. apply teqb_eq. exact T.
            + intros X. pose proof (C1 _ _ X) as Y. pose proof (C2 _ _ Y) as Z.
              destruct (Nat.eqb (S n) k') eqn:Q; [apply Nat.eqb_eq in Q; lia|exact Y].
          - intros k' c'. cbn [mfind]. destruct (Nat.eqb (S n) k') eqn:Q.
            + apply Nat.eqb_eq in Q. intros _. lia.
            + intros Y. pose proof (C2 _ _ Y). lia. }
        destruct (IH _ _ _ _ _ CO' E) as [X R]. split.
        -- intros k' c' Y. apply X. cbn [mfind]. destruct CO as [_ C2]. pose proof (C2 _ _ Y).
           destruct (Nat.eqb (S n) k') eqn:Q; [apply Nat.eqb_eq in Q; lia|exact Y].
        -- rewrite restore_cons_key, R. rewrite (X (S n) c); [reflexivity|]. cbn [mfind]. now rewrite Nat.eqb_refl.
Qed.

Theorem string_replace_map_lossless l :
  let '(o, m) := string_replace_map wrap false l in restore m o = Some l.
Proof.
  destruct (string_replace_map wrap false l) as [o m] eqn:E. unfold string_replace_map in E.
  apply (replace_ok l 0 [] [] o m); [|exact E].
  split; [intros c k X; discriminate X|intros k c X; discriminate X].
Qed.

End Laws.

(* the look-up by delimited item: after a group whose content is "(n)", the group "(n)" (content "n")
   gets the earlier key and is restored as "((n))" *)
Definition paren (c : text) : text := "("%char :: c ++ [")"%char].
Definition tn : text := ["n"%char].
Theorem by_item_variant_refuted :
  exists l, let '(o, m) := string_replace_map paren true l in restore m o <> Some l.
Proof. exists [SGroup (paren tn); SGroup tn]. vm_compute. discriminate. Qed.
