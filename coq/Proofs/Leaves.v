(* Leaves of a well-nested tree: the comment / directive nodes are exactly the comment items. *)
From Coq Require Import List Bool Arith NArith Lia.
From FV Require Import Scope Engine EngineContracts EngineShape.
Import ListNotations.

Section TreeInd.
Variable P : tree -> Prop.
Hypothesis Hleaf : forall c i inf, P (TLeaf c i inf).
Hypothesis Hblock : forall c ks, Forall P ks -> P (TBlock c ks).
Fixpoint tree_ind2 (t : tree) : P t :=
  match t with
  | TLeaf c i inf => Hleaf c i inf
  | TBlock c ks => Hblock c ks ((fix go (l : list tree) : Forall P l :=
                                   match l with
                                   | [] => Forall_nil P
                                   | k :: r => Forall_cons k (tree_ind2 k) (go r)
                                   end) ks)
  end.
End TreeInd.

Section Leaves.
Variable T : table.

Definition is_comment_item (i : item) : bool := match ikd i with IKComment => true | _ => false end.
Definition is_cpp_item (i : item) : bool := match ikd i with IKCpp => true | _ => false end.

(* items of the Comment / Directive nodes of a tree, in source order (= walk(tree, (Comment, Directive))) *)
Fixpoint comment_nodes (t : tree) : list item :=
  match t with
  | TLeaf c i _ => if N.eqb c (t_comment T) || N.eqb c (t_directive T) then [i] else []
  | TBlock _ ks => (fix go (l : list tree) := match l with [] => [] | k :: r => comment_nodes k ++ go r end) ks
  end.
(* items of the Directive nodes *)
Fixpoint directive_nodes (t : tree) : list item :=
  match t with
  | TLeaf c i _ => if N.eqb c (t_directive T) && negb (N.eqb c (t_comment T)) then [i] else []
  | TBlock _ ks => (fix go (l : list tree) := match l with [] => [] | k :: r => directive_nodes k ++ go r end) ks
  end.

Lemma comment_nodes_block c ks : comment_nodes (TBlock c ks) = flat_map comment_nodes ks.
Proof. cbn [comment_nodes]. induction ks as [|k r IH]; cbn [flat_map]; [reflexivity|now rewrite IH]. Qed.
Lemma directive_nodes_block c ks : directive_nodes (TBlock c ks) = flat_map directive_nodes ks.
Proof. cbn [directive_nodes]. induction ks as [|k r IH]; cbn [flat_map]; [reflexivity|now rewrite IH]. Qed.

Lemma WN_kids c ks : WN T (TBlock c ks) -> Forall (WN T) ks.
Proof. intros H. inversion H; assumption. Qed.

Theorem comment_nodes_are_comment_items t :
  WN T t -> comment_nodes t = filter is_comment_item (yield t).
Proof.
  induction t as [c i inf|c ks IH] using tree_ind2; intros W.
  - inversion W as [c' i' inf' LK|]; subst. cbn [comment_nodes yield filter]. unfold is_comment_item.
    unfold leaf_ok in LK. destruct (ikd i).
    + destruct LK as [NC ND]. apply N.eqb_neq in NC. apply N.eqb_neq in ND. now rewrite NC, ND.
    + destruct LK as [->|[-> _]]; [now rewrite N.eqb_refl|rewrite N.eqb_refl, orb_true_r; reflexivity].
    + destruct LK as [NC ND]. apply N.eqb_neq in NC. apply N.eqb_neq in ND. now rewrite NC, ND.
  - rewrite comment_nodes_block, yield_block. apply WN_kids in W. unfold yields.
    induction ks as [|k r IHr]; cbn [flat_map]; [reflexivity|].
    inversion IH; subst. inversion W; subst. rewrite filter_app. f_equal; auto.
Qed.

Theorem directive_nodes_are_directive_form t :
  WN T t -> Forall (fun i => ikd i = IKComment /\ idir i = true) (directive_nodes t).
Proof.
  induction t as [c i inf|c ks IH] using tree_ind2; intros W.
  - inversion W as [c' i' inf' LK|]; subst. cbn [directive_nodes].
    destruct (N.eqb c (t_directive T)) eqn:ED; cbn [andb]; [|constructor].
    destruct (N.eqb c (t_comment T)) eqn:EC; cbn [negb]; [constructor|].
    apply N.eqb_eq in ED. apply N.eqb_neq in EC. constructor; [|constructor].
    unfold leaf_ok in LK. destruct (ikd i); try (destruct LK as [_ ND]; congruence).
    destruct LK as [C|[_ D]]; [congruence|auto].
  - rewrite directive_nodes_block. apply WN_kids in W.
    induction ks as [|k r IHr]; cbn [flat_map]; [constructor|].
    inversion IH; subst. inversion W; subst. apply Forall_app. split; auto.
Qed.

End Leaves.
