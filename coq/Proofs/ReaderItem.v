(* From the continuation loop to the item: get_source_item applied to a free-form statement written over
   n+2 physical lines delivers ONE line item with the joined text, the label and construct name of the
   first line, and the exact span. *)
From Coq Require Import List Bool Arith Ascii String Lia.
From FV Require Import SplitLine Text Reader ReaderLaws ReaderJoin.
Import ListNotations.
Close Scope string_scope.

Lemma mids_length ms : List.length (mids ms) = List.length ms.
Proof. induction ms as [|[b p] r IH]; [reflexivity|]. cbn [mids List.length]. now rewrite IH. Qed.

Section Item.
Variable ign : bool.

Theorem item_of_continued_statement line lab l1 nm p1 ms bn pn src lc fifo :
  stripped line -> line <> [] -> starts_with ["#"%char] (lstrip line) = false ->
  extract_label line = (lab, l1) -> extract_construct_name l1 = (nm, p1 ++ [amp]) ->
  plain p1 -> mids_ok ms -> blanks bn -> plain pn -> pn <> [] -> negb (is_blank pn) = true ->
  stripped (last_line bn pn) ->
  strip (p1 ++ List.concat (map snd ms) ++ pn) <> [] ->
  get_source_item (st ign (line :: mids ms ++ last_line bn pn :: src) lc fifo)
  = (Some (RLine (strip (p1 ++ List.concat (map snd ms) ++ pn)) lab nm (S lc) (S (S lc) + List.length ms)),
     st ign src (S (S lc) + List.length ms) fifo).
Proof.
  intros SL NE NH EL EN P1 OK Bn Pn PNE NB SLL NS.
  unfold get_source_item. rewrite (gsl ign _ line lc fifo SL).
  assert (X : (match line with [] => false | _ => true end) && starts_with ["#"%char] (lstrip line) = false)
    by (rewrite NH; apply andb_false_r).
  rewrite X. cbn [r_free st r_omp r_linecount]. unfold free_item. rewrite EL, EN.
  cbn [r_linecount st].
  set (fuel := S (S (List.length (r_src (st ign (line :: mids ms ++ last_line bn pn :: src) lc fifo)) +
                     List.length (r_filo (st ign (line :: mids ms ++ last_line bn pn :: src) lc fifo))))).
  assert (F : exists f, fuel = S f /\ S (List.length ms) < f).
  { unfold fuel. cbn [r_src r_filo st]. cbn [List.length]. rewrite app_length. cbn [List.length].
    eexists. split; [reflexivity|]. rewrite mids_length. lia. }
  destruct F as [f [-> LT]].
  rewrite (join_pieces ign p1 ms bn pn src (S lc) fifo (S lc) f P1 OK Bn Pn PNE NB SLL LT).
  destruct (strip (p1 ++ List.concat (map snd ms) ++ pn)) as [|c t] eqn:ST; [contradiction|].
  reflexivity.
Qed.

End Item.

(* ---- and through ';' splitting and next(): the reader's public interface *)
Lemma split_at_semis_none t : forall mq mp cur, mem_char ";"%char t = false ->
  split_at_semis t mq mp cur = [rev cur ++ t].
Proof.
  induction t as [|c r IH]; intros mq mp cur H; cbn [split_at_semis].
  - now rewrite app_nil_r.
  - cbn [mem_char existsb] in H. unfold mem_char in H. cbn [existsb] in H. apply orb_false_iff in H as [H1 H2].
    assert (E : aeqb c ";"%char = false).
    { unfold aeqb in *. rewrite Ascii.eqb_sym. exact H1. }
    rewrite E. cbn [andb]. rewrite IH by exact H2. cbn [rev]. now rewrite <- app_assoc.
Qed.

Lemma semi_split_none t : mem_char ";"%char t = false -> semi_split t = [t].
Proof. intros H. unfold semi_split. rewrite split_at_semis_none by exact H. reflexivity. Qed.

Section Next.
Variable ign : bool.

Theorem next_item_of_continued_statement line lab l1 nm p1 ms bn pn src lc :
  stripped line -> line <> [] -> starts_with ["#"%char] (lstrip line) = false ->
  extract_label line = (lab, l1) -> extract_construct_name l1 = (nm, p1 ++ [amp]) ->
  plain p1 -> mids_ok ms -> blanks bn -> plain pn -> pn <> [] -> negb (is_blank pn) = true ->
  stripped (last_line bn pn) ->
  strip (p1 ++ List.concat (map snd ms) ++ pn) <> [] ->
  mem_char ";"%char (strip (p1 ++ List.concat (map snd ms) ++ pn)) = false ->
  next_item (st ign (line :: mids ms ++ last_line bn pn :: src) lc [])
  = (Some (RLine (strip (p1 ++ List.concat (map snd ms) ++ pn)) lab nm (S lc) (S (S lc) + List.length ms)),
     st ign src (S (S lc) + List.length ms) []).
Proof.
  intros SL NE NH EL EN P1 OK Bn Pn PNE NB SLL NS NSEMI.
  unfold next_item. cbn [next_raw r_fifo st].
  rewrite (item_of_continued_statement ign line lab l1 nm p1 ms bn pn src lc [] SL NE NH EL EN P1 OK Bn Pn PNE NB SLL NS).
  unfold split_item. rewrite (semi_split_none _ NSEMI). reflexivity.
Qed.

End Next.
