(* The general splice theorem for the INCLUDE model: reading a source through any nest of include
   files (any nesting depth, any number of files, unresolvable includes among them) delivers exactly
   the textual inlining of the files, item by item, in order. *)
From Coq Require Import List Bool Arith Lia.
From FV Require Import Include.
Import ListNotations.

Section Splice.
Variable fs : fsys.

(* every chain of resolvable includes starting in items ends within depth d *)
Fixpoint expandable (d : nat) (items : list aitem) : bool :=
  forallb (fun it => match it with
                     | AInc f => match fs f with
                                 | Some l => match d with 0 => false | S d' => expandable d' l end
                                 | None => true
                                 end
                     | AStmt _ => true
                     end) items.

Fixpoint wt (d : nat) (items : list aitem) : nat :=
  list_sum (map (fun it => match it with
                           | AInc f => match fs f with
                                       | Some l => match d with 0 => 1 | S d' => 2 + wt d' l end
                                       | None => 1
                                       end
                           | AStmt _ => 1
                           end) items).

Lemma expandable_cons d it r : expandable d (it :: r) =
  (match it with
   | AInc f => match fs f with Some l => match d with 0 => false | S d' => expandable d' l end | None => true end
   | AStmt _ => true end) && expandable d r.
Proof. destruct d; reflexivity. Qed.
Lemma expandable_app d a b : expandable d (a ++ b) = expandable d a && expandable d b.
Proof. destruct d; cbn [expandable]; apply forallb_app. Qed.
Lemma wt_cons d it r : wt d (it :: r) =
  (match it with
   | AInc f => match fs f with Some l => match d with 0 => 1 | S d' => 2 + wt d' l end | None => 1 end
   | AStmt _ => 1 end) + wt d r.
Proof. destruct d; reflexivity. Qed.
Lemma wt_app d a b : wt d (a ++ b) = wt d a + wt d b.
Proof. induction a as [|x a IH]; [destruct d; reflexivity|]. cbn [app]. rewrite !wt_cons, IH. lia. Qed.
Lemma expand_cons d it r : expand (S d) fs (it :: r) =
  (match it with AInc f => match fs f with Some l => expand d fs l | None => [AInc f] end | a => [a] end)
  ++ expand (S d) fs r.
Proof. reflexivity. Qed.
Lemma expand_app d a b : expand d fs (a ++ b) = expand d fs a ++ expand d fs b.
Proof. destruct d; [reflexivity|]. cbn [expand]. apply flat_map_app. Qed.

(* one more level changes nothing once everything is expandable *)
Lemma mono d : forall items, expandable d items = true ->
  expandable (S d) items = true /\ expand (S d) fs items = expand d fs items /\ wt (S d) items = wt d items.
Proof.
  induction d as [|d IH]; intros items H.
  - induction items as [|it r IHr]; [repeat split; reflexivity|].
    rewrite expandable_cons in H. apply andb_true_iff in H as [H1 H2]. destruct (IHr H2) as [A [B C]].
    rewrite expandable_cons, expand_cons, !wt_cons, A, B, C. cbn [expand] in *.
    destruct it as [n|f]; [repeat split; reflexivity|]. destruct (fs f); [discriminate|]. repeat split; reflexivity.
  - induction items as [|it r IHr]; [repeat split; reflexivity|].
    rewrite expandable_cons in H. apply andb_true_iff in H as [H1 H2]. destruct (IHr H2) as [A [B C]].
    rewrite expandable_cons, !expand_cons, !wt_cons, A, B, C.
    destruct it as [n|f]; [repeat split; reflexivity|]. destruct (fs f) as [l|]; [|repeat split; reflexivity].
    destruct (IH l H1) as [A1 [B1 C1]]. rewrite A1, B1, C1. repeat split; reflexivity.
Qed.

Definition contents (r : ardr) : list aitem := a_fifo r ++ a_src r.
Definition den (d : nat) (st : list ardr) : list aitem := flat_map (fun r => expand d fs (contents r)) st.
Definition mu (d : nat) (st : list ardr) : nat := list_sum (map (fun r => 1 + wt d (contents r)) st).
Definition all_ok (d : nat) (st : list ardr) : Prop := Forall (fun r => expandable d (contents r) = true) st.

Lemma own_next_spec r :
  match own_next r with
  | (None, r') => contents r = [] /\ r' = r
  | (Some it, r') => contents r = it :: contents r'
  end.
Proof.
  unfold own_next, contents. destruct r as [f s]; cbn [a_fifo a_src].
  destruct f as [|it f]; [destruct s as [|it s]|]; cbn; auto.
Qed.

(* the head of the stack of readers delivers the head of the inlined text *)
Lemma anext_spec d : forall fuel st, all_ok (S d) st -> mu (S d) st <= fuel ->
  match den (S d) st with
  | [] => fst (anext fuel fs st) = None
  | x :: xs => exists st', anext fuel fs st = (Some x, st') /\ den (S d) st' = xs /\ all_ok (S d) st' /\
                           mu (S d) st' < mu (S d) st
  end.
Proof.
  induction fuel as [|k IH]; intros st OK Hf.
  - destruct st as [|r outer]; [reflexivity|]. exfalso. unfold mu in Hf. cbn [map list_sum fold_right] in Hf. 
    match type of Hf with ?a <= 0 => assert (0 < a) by (cbn; apply Nat.lt_0_succ) end. lia.
  - destruct st as [|r outer]; [reflexivity|]. cbn [anext].
    inversion OK as [|r0 o0 OKr OKo]; subst.
    pose proof (own_next_spec r) as ON. destruct (own_next r) as [[it|] r'].
    + (* an item *)
      assert (Er : expandable (S d) (contents r') = true /\
                   (match it with AInc f => match fs f with Some l => expandable d l = true | None => True end | _ => True end)).
      { rewrite ON, expandable_cons in OKr. apply andb_true_iff in OKr as [A B]. split; [exact B|].
        destruct it as [n|f]; [exact I|]. destruct (fs f); [exact A|exact I]. }
      destruct Er as [Er Ei].
      assert (DEN : den (S d) (r :: outer) =
                    (match it with AInc f => match fs f with Some l => expand d fs l | None => [AInc f] end | a => [a] end)
                    ++ den (S d) (r' :: outer)).
      { unfold den. cbn [flat_map]. rewrite ON, expand_cons, <- app_assoc. reflexivity. }
      assert (MU : mu (S d) (r :: outer) =
                   (match it with AInc f => match fs f with Some l => 2 + wt d l | None => 1 end | AStmt _ => 1 end)
                   + mu (S d) (r' :: outer)).
      { unfold mu. cbn [map list_sum fold_right]. rewrite ON, wt_cons. destruct it as [n|f]; cbn beta iota; [lia|destruct (fs f); lia]. }
      assert (OK' : all_ok (S d) (r' :: outer)) by (constructor; assumption).
      destruct it as [n|f].
      * rewrite DEN. cbn [app]. exists (r' :: outer). repeat split; auto. rewrite MU. lia.
      * destruct (fs f) as [l|] eqn:F.
        -- (* enter the file *)
           destruct (mono d l Ei) as [A1 [B1 C1]].
           set (st2 := mkArdr [] l :: r' :: outer).
           assert (OK2 : all_ok (S d) st2) by (constructor; [exact A1|exact OK']).
           assert (MU2 : mu (S d) st2 = 1 + wt d l + mu (S d) (r' :: outer)).
           { unfold st2, mu. cbn [map list_sum fold_right contents a_fifo a_src app]. rewrite C1. lia. }
           assert (DEN2 : den (S d) st2 = expand d fs l ++ den (S d) (r' :: outer)).
           { unfold st2, den. cbn [flat_map contents a_fifo a_src app]. rewrite B1. reflexivity. }
           specialize (IH st2 OK2 ltac:(rewrite MU2; rewrite MU in Hf; lia)).
           rewrite DEN, <- DEN2. destruct (den (S d) st2) as [|x xs]; [exact IH|].
           destruct IH as [st' [E [D [O M]]]]. exists st'. repeat split; auto. rewrite MU. rewrite MU2 in M. lia.
        -- rewrite DEN. cbn [app]. exists (r' :: outer). repeat split; auto. rewrite MU. lia.
    + (* the innermost reader is exhausted *)
      destruct ON as [EC ->].
      assert (DEN : den (S d) (r :: outer) = den (S d) outer).
      { unfold den. cbn [flat_map]. rewrite EC. reflexivity. }
      assert (MU : mu (S d) (r :: outer) = 1 + mu (S d) outer).
      { unfold mu. cbn [map list_sum fold_right]. rewrite EC. reflexivity. }
      destruct outer as [|r2 o2].
      * rewrite DEN. reflexivity.
      * specialize (IH (r2 :: o2) OKo ltac:(rewrite MU in Hf; lia)). rewrite DEN.
        destruct (den (S d) (r2 :: o2)) as [|x xs]; [exact IH|].
        destruct IH as [st' [E [D [O M]]]]. exists st'. repeat split; auto. rewrite MU. lia.
Qed.

Theorem aread_is_inlining d : forall fuel st, all_ok (S d) st -> mu (S d) st < fuel ->
  aread fuel fs st = den (S d) st.
Proof.
  induction fuel as [|k IH]; intros st OK Hf; [lia|].
  cbn [aread]. pose proof (anext_spec d (S k) st OK ltac:(lia)) as SP.
  destruct (den (S d) st) as [|x xs].
  - destruct (anext (S k) fs st) as [[it|] st']; [discriminate|reflexivity].
  - destruct SP as [st' [E [D [O M]]]]. rewrite E. f_equal. rewrite <- D. apply IH; [exact O|lia].
Qed.

(* the statement for one source text *)
Corollary read_is_inlining d items fuel : expandable (S d) items = true -> 1 + wt (S d) items < fuel ->
  aread fuel fs [mkArdr [] items] = expand (S d) fs items.
Proof.
  intros H Hf. rewrite (aread_is_inlining d fuel).
  - unfold den. cbn [flat_map contents a_fifo a_src app]. now rewrite app_nil_r.
  - constructor; [exact H|constructor].
  - unfold mu. cbn [map list_sum fold_right contents a_fifo a_src app]. lia.
Qed.

End Splice.
