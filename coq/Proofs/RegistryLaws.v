(* Soundness of the decidable comparison of two registries. *)
From Coq Require Import List Bool NArith.
Require Import FV.Model.Registry.
Import ListNotations.

Lemma memN_In x l : memN x l = true <-> In x l.
Proof.
  unfold memN. rewrite existsb_exists. split.
  - intros [y [Hy E]]. apply N.eqb_eq in E. now subst.
  - intros H. exists x. split; [exact H|apply N.eqb_refl].
Qed.

(* if key k is not among the narrowed keys, every 2003 alternative of k is (by name) a 2008 alternative *)
Theorem not_narrowed_sound ds r03 r08 k alts03 :
  In (k, alts03) r03 -> ~ In k (narrowed_keys ds r03 r08) ->
  forall c, In c alts03 -> In (name_of ds c) (map (name_of ds) (alts r08 k)).
Proof.
  intros Hin Hn c Hc. unfold narrowed_keys in Hn.
  destruct (forallb (fun c0 => memN (name_of ds c0) (map (name_of ds) (alts r08 k))) alts03) eqn:E.
  - rewrite forallb_forall in E. apply memN_In. apply E. exact Hc.
  - exfalso. apply Hn. apply in_map_iff. exists (k, alts03). split; [reflexivity|].
    apply filter_In. split; [exact Hin|]. cbn [fst snd]. now rewrite E.
Qed.
