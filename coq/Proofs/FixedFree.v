(* The same pieces written as a fixed-form statement and as a free-form statement give items with the
   same text and construct name. *)
From Coq Require Import List Bool Arith Ascii String NArith Lia.
From FV Require Import SplitLine Text Reader ReaderJoin ReaderItem FixedJoin.
Import ListNotations.
Close Scope string_scope.

Definition fixed_cont (m : ascii) (p : text) : text := repeat " "%char 5 ++ m :: p.
Lemma ftext_combine : forall (ps : list text) (marks : list ascii), List.length marks = List.length ps ->
  List.concat (map (fun x : ascii * text => skipn 6 (fixed_cont (fst x) (snd x))) (combine marks ps)) = List.concat ps.
Proof.
  induction ps as [|p r IH]; intros marks LL.
  - destruct marks; [reflexivity|discriminate].
  - destruct marks as [|m mr]; [discriminate|]. cbn [combine map List.concat fst snd]. f_equal. apply IH. now injection LL.
Qed.
Theorem fixed_free_same_statement :
  forall ign (l5 : text) c6 lab line1 l1 nm p1 (ms : list (text * text)) bn pn marks src lc fifo tail,
    (* fixed rendering *)
    List.length l5 = 5 -> forallb space_or_digit l5 = true ->
    stripped (l5 ++ c6 :: p1) -> starts_with ["#"%char] (lstrip (l5 ++ c6 :: p1)) = false ->
    is_fix_comment (l5 ++ c6 :: p1) = false -> extract_construct_name p1 = (None, p1) ->
    is_blank p1 = false -> List.length marks = S (List.length ms) ->
    Forall fgood (map (fun mp => FCont (fixed_cont (fst mp) (snd mp))) (combine marks (map snd ms ++ [pn]))) ->
    tail_ok tail ->
    (* free rendering *)
    stripped line1 -> line1 <> [] -> starts_with ["#"%char] (lstrip line1) = false ->
    extract_label line1 = (lab, l1) -> extract_construct_name l1 = (nm, p1 ++ [amp]) ->
    plain p1 -> mids_ok ms -> blanks bn -> plain pn -> pn <> [] -> negb (is_blank pn) = true ->
    stripped (last_line bn pn) -> strip (p1 ++ List.concat (map snd ms) ++ pn) <> [] ->
    exists a b a' b' s s' labf,
      get_source_item (fx ign ((l5 ++ c6 :: p1) :: map fphys (map (fun mp => FCont (fixed_cont (fst mp) (snd mp)))
                                                              (combine marks (map snd ms ++ [pn]))) ++ tail) [] lc fifo)
      = (Some (RLine (strip (p1 ++ List.concat (map snd ms) ++ pn)) labf None a b), s) /\
      get_source_item (ReaderJoin.st ign (line1 :: mids ms ++ last_line bn pn :: src) lc fifo)
      = (Some (RLine (strip (p1 ++ List.concat (map snd ms) ++ pn)) lab nm a' b'), s') /\
      a = a' /\ b' = a' + S (List.length ms).
Proof.
  intros ign l5 c6 lab line1 l1 nm p1 ms bn pn marks src lc fifo tail
         L5 SD R NH K EN NB LM G T SL NE NH1 EL EN1 P1 OK Bn Pn PNE NBn SLL NS.
  set (fls := map (fun mp => FCont (fixed_cont (fst mp) (snd mp))) (combine marks (map snd ms ++ [pn]))) in *.
  assert (FT : ftext fls = List.concat (map snd ms) ++ pn).
  { unfold fls, ftext. rewrite map_map. rewrite ftext_combine.
    - rewrite concat_app. cbn. now rewrite app_nil_r.
    - rewrite app_length, map_length. cbn. Lia.lia. }
  pose proof (fixed_item ign l5 c6 p1 None p1 fls tail lc fifo L5 SD R NH K EN P1) as FI.
  cbn beta iota zeta in FI. rewrite FT in FI. specialize (FI NS NB G T).
  pose proof (item_of_continued_statement ign line1 lab l1 nm p1 ms bn pn src lc fifo SL NE NH1 EL EN1 P1 OK Bn Pn PNE NBn SLL NS) as FR.
  do 7 eexists. split; [exact FI|]. split; [exact FR|]. split; [reflexivity|Lia.lia].
Qed.

(* ---- column 6 and the label field (the two places repaired in the code with commits b269106 and a8fb4fc) *)
Lemma zero_in_column_six_is_an_initial_line a1 a2 a3 a4 a5 rest :
  is_fix_cont (a1 :: a2 :: a3 :: a4 :: a5 :: "0"%char :: rest) = false.
Proof.
  unfold is_fix_cont. cbn [nth]. change (aeqb "0"%char "0"%char) with true. cbn [negb].
  rewrite andb_false_r. reflexivity.
Qed.
Lemma blank_in_column_six_is_an_initial_line a1 a2 a3 a4 a5 rest :
  is_fix_cont (a1 :: a2 :: a3 :: a4 :: a5 :: " "%char :: rest) = false.
Proof.
  unfold is_fix_cont. cbn [nth]. change (aeqb " "%char " "%char) with true. cbn [negb].
  rewrite andb_false_r. reflexivity.
Qed.
Lemma label_chars_app a b : label_chars (a ++ b) = label_chars a ++ label_chars b.
Proof. apply filter_app. Qed.
(* blanks anywhere in the label field do not change the label *)
Lemma label_chars_blanks a b t : blanks b -> label_chars (a ++ b ++ t) = label_chars (a ++ t).
Proof.
  intros B. rewrite !label_chars_app. f_equal.
  assert (E : label_chars b = []).
  { unfold blanks in B. unfold label_chars. induction b as [|x r IH]; [reflexivity|]. cbn in *.
    apply andb_true_iff in B as [B1 B2]. rewrite B1. cbn. apply IH. exact B2. }
  now rewrite E.
Qed.
