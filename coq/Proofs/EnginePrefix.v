(* Prefix determinism of the engine.  Two inputs that agree on a prefix (and have the same length) are
   parsed identically -- same results, same state apart from the unread rest of the input -- until
   the first item that differs has been handed out by the reader.  Consequently, if the first input
   parses without an exception, every exception raised on the second input is raised after the first
   differing item has been read: the reported line (the reader's line count) is not before the line
   of the statement that was changed.  Every table, every leaf oracle. *)
From Coq Require Import List Bool Arith NArith Lia.
From FV Require Import Scope Engine StmtError EngineContracts EngineInv.
Import ListNotations.

Section Prefix.
Variable T : table.
Variable L : item -> cls -> list cls -> leafres.
Variables r1 r2 : list item.          (* the two inputs from the first differing item on *)
Hypothesis HL : length r1 = length r2.

Definition same_rest (s1 s2 : est) : Prop :=
  pcls s1 = pcls s2 /\ cache s1 = cache s2 /\ sc s1 = sc s2 /\ cost s1 = cost s2 /\ lcost s1 = lcost s2 /\
  maxread s1 = maxread s2 /\ seen_code s1 = seen_code s2 /\ procdir s1 = procdir s2.
Definition sim (s1 s2 : est) : Prop :=
  exists p, stream s1 = p ++ r1 /\ stream s2 = p ++ r2 /\ same_rest s1 s2.

(* the second run has been handed the first differing item *)
Definition touched (s : est) : Prop := match r2 with i :: _ => ilast i <= maxread s | [] => True end.

Definition rel2 {X} (x1 x2 : X * est) : Prop :=
  (fst x1 = fst x2 /\ sim (snd x1) (snd x2)) \/ touched (snd x2).

(* ---- touched is never undone: the generic invariant pass *)
Lemma t_pcls p s : touched s -> touched (set_pcls p s). Proof. exact (fun H => H). Qed.
Lemma t_tick s : touched s -> touched (tick s). Proof. exact (fun H => H). Qed.
Lemma t_sc x s : touched s -> touched (set_sc x s). Proof. exact (fun H => H). Qed.
Lemma t_get s i s1 : touched s -> get_item s = (Some i, s1) -> True /\ touched s1.
Proof.
  unfold get_item. destruct (stream s); intros H E; inversion E; subst. split; [exact I|].
  unfold touched in *. destruct r2; [exact I|]. cbn [maxread]. lia.
Qed.
Lemma t_put i s : True -> touched s -> touched (put_item i s). Proof. exact (fun _ H => H). Qed.
Lemma t_cache i c v s : True -> touched s -> cache_find (iid i) c (cache s) = None -> touched (add_cache i c v s).
Proof. exact (fun _ H _ => H). Qed.

Definition Pt (_ : item) : Prop := True.
Lemma Plist_any l : Plist Pt l.
Proof. unfold Plist. apply Forall_forall. intros; exact I. Qed.

Lemma sim_len s1 s2 : sim s1 s2 -> length (stream s1) = length (stream s2).
Proof. intros [p [E1 [E2 _]]]. rewrite E1, E2, !app_length. lia. Qed.
Lemma sim_nil s1 s2 : sim s1 s2 -> (stream s1 = [] <-> stream s2 = []).
Proof.
  intros S. pose proof (sim_len _ _ S). split; intros E; rewrite E in H; cbn in H;
    [destruct (stream s2)|destruct (stream s1)]; try reflexivity; discriminate.
Qed.

(* ---- state updates applied to both runs keep them similar *)
Lemma sim_set_pcls p s1 s2 : sim s1 s2 -> sim (set_pcls p s1) (set_pcls p s2).
Proof. intros [q [E1 [E2 [A R]]]]. exists q. repeat split; try assumption; cbn; tauto. Qed.
Lemma sim_pcls s1 s2 : sim s1 s2 -> pcls s1 = pcls s2. Proof. intros [q [_ [_ [A _]]]]. exact A. Qed.
Lemma sim_procdir s1 s2 : sim s1 s2 -> procdir s1 = procdir s2. Proof. intros [q [_ [_ R]]]. apply R. Qed.
Lemma sim_sc s1 s2 : sim s1 s2 -> sc s1 = sc s2. Proof. intros [q [_ [_ R]]]. apply R. Qed.
Lemma sim_seen s1 s2 : sim s1 s2 -> seen_code s1 = seen_code s2. Proof. intros [q [_ [_ R]]]. apply R. Qed.
Lemma sim_cache s1 s2 : sim s1 s2 -> cache s1 = cache s2. Proof. intros [q [_ [_ R]]]. apply R. Qed.
Lemma sim_tick s1 s2 : sim s1 s2 -> sim (tick s1) (tick s2).
Proof. intros [q [E1 [E2 R]]]. exists q. unfold same_rest in *. cbn. intuition congruence. Qed.
Lemma sim_set_sc x s1 s2 : sim s1 s2 -> sim (set_sc x s1) (set_sc x s2).
Proof. intros [q [E1 [E2 R]]]. exists q. unfold same_rest in *. cbn. intuition congruence. Qed.
Lemma sim_put i s1 s2 : sim s1 s2 -> sim (put_item i s1) (put_item i s2).
Proof.
  intros [q [E1 [E2 R]]]. exists (i :: q). unfold same_rest in *. cbn. rewrite E1, E2. intuition congruence.
Qed.
Lemma sim_restore c s1 s2 : sim s1 s2 -> sim (restore c s1) (restore c s2).
Proof.
  intros [q [E1 [E2 R]]]. exists (yields c ++ q). unfold same_rest, restore in *. cbn. rewrite E1, E2, !app_assoc.
  intuition congruence.
Qed.
Lemma sim_add_cache i c v s1 s2 : sim s1 s2 -> sim (add_cache i c v s1) (add_cache i c v s2).
Proof. intros [q [E1 [E2 R]]]. exists q. unfold same_rest in *. cbn. intuition congruence. Qed.

(* ---- the one place where the inputs are looked at *)
Lemma get_item_rel s1 s2 : sim s1 s2 -> rel2 (get_item s1) (get_item s2).
Proof.
  intros [q [E1 [E2 R]]]. unfold get_item. rewrite E1, E2. destruct q as [|i q'].
  - right. cbn [app]. unfold touched. destruct r2 as [|i2 t2]; [exact I|].
    cbn [snd maxread]. lia.
  - left. cbn [app fst snd]. split; [reflexivity|]. exists q'. unfold same_rest in *. cbn. intuition congruence.
Qed.

(* ---- combinators *)
Lemma rel2_agree {X} (a : X) s1 s2 : sim s1 s2 -> rel2 (a, s1) (a, s2).
Proof. intros S. left. split; [reflexivity|exact S]. Qed.

Definition Mono {A} (m : M A) : Prop := forall s, touched s -> touched (snd (m s)).
Lemma rel2_bind {A B} (m : M A) (k : A -> M B) s1 s2 :
  rel2 (m s1) (m s2) ->
  (forall a s1' s2', sim s1' s2' -> rel2 (k a s1') (k a s2')) ->
  (forall a, Mono (k a)) ->
  rel2 (bind m k s1) (bind m k s2).
Proof.
  intros [[E S]|Tc] K M2; unfold bind.
  - destruct (m s1) as [[a|e] s1'], (m s2) as [[a'|e'] s2']; cbn [fst snd] in *; try discriminate.
    + inversion E; subst. apply K. exact S.
    + inversion E; subst. left. split; [reflexivity|exact S].
  - destruct (m s1) as [x1 s1']. destruct (m s2) as [[a'|e'] s2']; cbn [snd] in Tc.
    + right. destruct x1 as [a|e]; [|]; apply M2; exact Tc.
    + right. destruct x1; exact Tc.
Qed.

(* a computation that reads the input only through get_item *)
Lemma via_get {X} (f0 : est -> X * est) (f1 : item -> est -> X * est) s1 s2 :
  (forall s1 s2, sim s1 s2 -> rel2 (f0 s1) (f0 s2)) ->
  (forall i s1 s2, sim s1 s2 -> rel2 (f1 i s1) (f1 i s2)) ->
  (forall s, touched s -> touched (snd (f0 s))) -> (forall i s, touched s -> touched (snd (f1 i s))) ->
  sim s1 s2 ->
  rel2 (match get_item s1 with (None, s) => f0 s | (Some i, s) => f1 i s end)
       (match get_item s2 with (None, s) => f0 s | (Some i, s) => f1 i s end).
Proof.
  intros H0 H1 M0 M1 S. destruct (get_item_rel s1 s2 S) as [[E S']|Tc].
  - destruct (get_item s1) as [[i|] s1'], (get_item s2) as [[i'|] s2']; cbn [fst snd] in *; try discriminate.
    + inversion E; subst. apply H1; exact S'.
    + apply H0; exact S'.
  - right. destruct (get_item s2) as [[i'|] s2']; cbn [snd] in Tc; [apply M1|apply M0]; exact Tc.
Qed.

Ltac tsame := intros; repeat match goal with |- context [match ?x with _ => _ end] => destruct x end; cbn; assumption.

Lemma comment_p s1 s2 : sim s1 s2 -> rel2 (comment T s1) (comment T s2).
Proof.
  intros S. unfold comment. apply via_get; try exact S; try tsame.
  - intros. apply rel2_agree. assumption.
  - intros i a b Sab. destruct (ikd i); apply rel2_agree; auto using sim_put.
Qed.
Lemma directive_p s1 s2 : sim s1 s2 -> rel2 (directive T s1) (directive T s2).
Proof.
  intros S. unfold directive. apply via_get; try exact S; try tsame.
  - intros. apply rel2_agree. assumption.
  - intros i a b Sab. destruct (ikd i); [|destruct (idir i)|]; apply rel2_agree; auto using sim_put.
Qed.
Lemma leaf_p c s1 s2 : sim s1 s2 -> rel2 (leaf L c s1) (leaf L c s2).
Proof.
  intros S. unfold leaf. apply via_get; try exact S; try tsame.
  - intros. apply rel2_agree. assumption.
  - intros i a b Sab. rewrite (sim_cache _ _ Sab), (sim_pcls _ _ Sab).
    destruct (ikd i); try (apply rel2_agree; auto using sim_put);
    (destruct (cache_find (iid i) c (cache b)) as [[inf|]|]; try (apply rel2_agree; auto using sim_put);
     destruct (L i c (pcls b)) as [|e|inf]; try (apply rel2_agree; auto using sim_put, sim_add_cache);
     destruct e; apply rel2_agree; auto using sim_put, sim_add_cache).
Qed.

Lemma mono_ret {A} (a : A) : Mono (ret a). Proof. exact (fun s H => H). Qed.
Lemma mono_raise {A} e : Mono (@raise A e). Proof. exact (fun s H => H). Qed.
Lemma mono_lift f : (forall s, touched s -> touched (f s)) -> Mono (lift f). Proof. exact (fun H s K => H s K). Qed.
Lemma mono_bind {A B} (m : M A) (k : A -> M B) : Mono m -> (forall a, Mono (k a)) -> Mono (bind m k).
Proof.
  intros Hm Hk s H. unfold bind. specialize (Hm s H). destruct (m s) as [[a|e] s1]; cbn [snd] in *; [apply Hk|]; exact Hm.
Qed.
Lemma mono_catch {A} (m : M (option A)) : Mono m -> Mono (catch_nomatch m).
Proof. intros Hm s H. unfold catch_nomatch. specialize (Hm s H). destruct (m s) as [[a|e] s1]; [exact Hm|destruct e; exact Hm]. Qed.
Lemma mono_restore c s : touched s -> touched (restore c s). Proof. exact (fun H => H). Qed.

Lemma rel2_catch {A} (m : M (option A)) s1 s2 : rel2 (m s1) (m s2) -> rel2 (catch_nomatch m s1) (catch_nomatch m s2).
Proof.
  unfold catch_nomatch. intros [[E S]|Tc].
  - destruct (m s1) as [x1 a], (m s2) as [x2 b]; cbn [fst snd] in *; subst. left.
    destruct x2 as [o|e]; [|destruct e]; split; try reflexivity; exact S.
  - right. destruct (m s2) as [[o|e] b]; [exact Tc|destruct e; exact Tc].
Qed.

Section WithRec.
Variable rec : matcher.
Hypothesis HM : forall c, Mono (rec c).
Hypothesis HP : forall c s1 s2, sim s1 s2 -> rel2 (rec c s1) (rec c s2).

Lemma call_m c : Mono (call rec c).
Proof. intros s H. unfold call. pose proof (HM c (set_pcls [] s) H) as K. destruct (rec c (set_pcls [] s)); exact K. Qed.
Lemma call_p c s1 s2 : sim s1 s2 -> rel2 (call rec c s1) (call rec c s2).
Proof.
  intros S. unfold call. rewrite (sim_pcls _ _ S).
  destruct (HP c _ _ (sim_set_pcls [] _ _ S)) as [[E S']|Tc].
  - destruct (rec c (set_pcls [] s1)) as [x1 a], (rec c (set_pcls [] s2)) as [x2 b]; cbn [fst snd] in *; subst.
    apply rel2_agree. apply sim_set_pcls. exact S'.
  - right. destruct (rec c (set_pcls [] s2)); exact Tc.
Qed.

Lemma first_of_m cs : Mono (first_of rec cs).
Proof.
  induction cs as [|c r IH]; cbn [first_of]; [apply mono_ret|].
  apply mono_bind; [apply call_m|]. intros [t|]; [apply mono_ret|exact IH].
Qed.
Lemma first_of_p cs : forall s1 s2, sim s1 s2 -> rel2 (first_of rec cs s1) (first_of rec cs s2).
Proof.
  induction cs as [|c r IH]; intros s1 s2 S; cbn [first_of]; [apply rel2_agree; exact S|].
  apply rel2_bind; [apply call_p; exact S| |].
  - intros [t|] a b Sab; [apply rel2_agree; exact Sab|apply IH; exact Sab].
  - intros [t|]; [apply mono_ret|apply first_of_m].
Qed.

Lemma cpp_m : Mono (cpp T rec).
Proof.
  intros s H. unfold cpp. destruct (get_item s) as [[i|] s1] eqn:G.
  - destruct (t_get s i s1 H G) as [_ H1]. destruct (ikd i); try exact H1. apply first_of_m. exact H1.
  - unfold get_item in G. destruct (stream s); inversion G; subst. exact H.
Qed.
Lemma cpp_p s1 s2 : sim s1 s2 -> rel2 (cpp T rec s1) (cpp T rec s2).
Proof.
  intros S. unfold cpp. apply via_get; try exact S.
  - intros. apply rel2_agree. assumption.
  - intros i a b Sab. destruct (ikd i); try (apply rel2_agree; auto using sim_put).
    apply first_of_p. apply sim_put. exact Sab.
  - tsame.
  - intros i s H. destruct (ikd i); try exact H. apply first_of_m. exact H.
Qed.

Lemma comment_m : Mono (comment T).
Proof. intros s H. unfold comment. destruct (get_item s) as [[i|] s1] eqn:G.
  - destruct (t_get s i s1 H G) as [_ H1]. destruct (ikd i); exact H1.
  - unfold get_item in G. destruct (stream s); inversion G; subst. exact H. Qed.
Lemma directive_m : Mono (directive T).
Proof. intros s H. unfold directive. destruct (get_item s) as [[i|] s1] eqn:G.
  - destruct (t_get s i s1 H G) as [_ H1]. destruct (ikd i); [|destruct (idir i)|]; exact H1.
  - unfold get_item in G. destruct (stream s); inversion G; subst. exact H. Qed.
Lemma leaf_m c : Mono (leaf L c).
Proof. intros s H. unfold leaf. destruct (get_item s) as [[i|] s1] eqn:G.
  - destruct (t_get s i s1 H G) as [_ H1].
    destruct (ikd i); try exact H1;
    (destruct (cache_find (iid i) c (cache s1)) as [[inf|]|]; try exact H1;
     destruct (L i c (pcls s1)) as [|e|inf]; try exact H1; destruct e; exact H1).
  - unfold get_item in G. destruct (stream s); inversion G; subst. exact H. Qed.

Lemma coi_m : Mono (comment_or_include T rec).
Proof.
  intros s H. unfold comment_or_include. revert s H. 
  assert (X : forall pd : bool, Mono (bind (if pd then directive T else ret None)
     (fun o1 : option tree => match o1 with
       | Some t => ret (Some t)
       | None => bind (comment T) (fun o2 : option tree =>
                   match o2 with Some t => ret (Some t) | None => call rec (t_include T) end)
       end))).
  { intros pd. apply mono_bind; [destruct pd; [apply directive_m|apply mono_ret]|].
    intros [t|]; [apply mono_ret|]. apply mono_bind; [apply comment_m|]. intros [t|]; [apply mono_ret|apply call_m]. }
  intros s H. apply X. exact H.
Qed.
Lemma coi_p s1 s2 : sim s1 s2 -> rel2 (comment_or_include T rec s1) (comment_or_include T rec s2).
Proof.
  intros S. unfold comment_or_include. rewrite (sim_procdir _ _ S). apply rel2_bind.
  - destruct (procdir s2); [apply directive_p; exact S|apply rel2_agree; exact S].
  - intros [t|] a b Sab; [apply rel2_agree; exact Sab|]. apply rel2_bind; [apply comment_p; exact Sab| |].
    + intros [t|] a' b' S'; [apply rel2_agree; exact S'|apply call_p; exact S'].
    + intros [t|]; [apply mono_ret|apply call_m].
  - intros [t|]; [apply mono_ret|]. apply mono_bind; [apply comment_m|]. intros [t|]; [apply mono_ret|apply call_m].
Qed.

Lemma cid_step_m : Mono (cid_step T rec).
Proof. unfold cid_step. apply mono_bind; [apply coi_m|]. intros [t|]; [apply mono_ret|apply cpp_m]. Qed.
Lemma cid_step_p s1 s2 : sim s1 s2 -> rel2 (cid_step T rec s1) (cid_step T rec s2).
Proof.
  intros S. unfold cid_step. apply rel2_bind; [apply coi_p; exact S| |].
  - intros [t|] a b Sab; [apply rel2_agree; exact Sab|apply cpp_p; exact Sab].
  - intros [t|]; [apply mono_ret|apply cpp_m].
Qed.

Lemma add_cid_m k : forall content, Mono (add_cid T rec k content).
Proof.
  induction k as [|k IH]; intros content; cbn [add_cid]; [apply mono_raise|].
  apply mono_bind; [apply cid_step_m|]. intros [t|]; [apply IH|apply mono_ret].
Qed.
Lemma add_cid_p k : forall content s1 s2, sim s1 s2 -> rel2 (add_cid T rec k content s1) (add_cid T rec k content s2).
Proof.
  induction k as [|k IH]; intros content s1 s2 S; cbn [add_cid]; [apply rel2_agree; exact S|].
  apply rel2_bind; [apply cid_step_p; exact S| |].
  - intros [t|] a b Sab; [apply IH; exact Sab|apply rel2_agree; exact Sab].
  - intros [t|]; [apply add_cid_m|apply mono_ret].
Qed.


Lemma rel2_lift f s1 s2 : (forall a b, sim a b -> sim (f a) (f b)) -> sim s1 s2 -> rel2 (lift f s1) (lift f s2).
Proof. intros H S. apply rel2_agree. apply H. exact S. Qed.

Lemma hook_cid_m b content : Mono (hook_cid T rec b content).
Proof. unfold hook_cid. destruct (b_do_hook b); [intros s; apply add_cid_m|apply mono_ret]. Qed.
Lemma hook_cid_p b content s1 s2 : sim s1 s2 -> rel2 (hook_cid T rec b content s1) (hook_cid T rec b content s2).
Proof.
  intros S. unfold hook_cid. destruct (b_do_hook b); [|apply rel2_agree; exact S].
  rewrite (sim_len _ _ S). apply add_cid_p. exact S.
Qed.

Lemma call_l_m lc : Mono (call_l T rec lc).
Proof.
  destruct lc as [c|]; cbn [call_l]; [|apply cpp_m].
  destruct (N.eqb c (t_comment T)); [apply comment_m|]. destruct (N.eqb c (t_directive T)); [apply directive_m|apply call_m].
Qed.
Lemma call_l_p lc s1 s2 : sim s1 s2 -> rel2 (call_l T rec lc s1) (call_l T rec lc s2).
Proof.
  intros S. destruct lc as [c|]; cbn [call_l]; [|apply cpp_p; exact S].
  destruct (N.eqb c (t_comment T)); [apply comment_p; exact S|].
  destruct (N.eqb c (t_directive T)); [apply directive_p; exact S|apply call_p; exact S].
Qed.

Ltac mono_auto :=
  repeat first
    [ apply mono_ret | apply mono_raise | apply mono_lift; intros; assumption | apply mono_catch | apply mono_bind
    | match goal with
      | |- forall _, Mono _ => intro
      | |- Mono (match ?x with _ => _ end) => destruct x
      | |- Mono (if ?x then _ else _) => destruct x
      end
    | assumption
    | solve [eauto 2 using call_m, first_of_m, cpp_m, comment_m, directive_m, leaf_m, coi_m, cid_step_m, add_cid_m, call_l_m, hook_cid_m] ].

Lemma block_step_m b start_idx cont lc st : (forall st, Mono (cont st)) -> Mono (block_step T rec b start_idx cont lc st).
Proof. intros HCm. unfold block_step. cbv zeta. mono_auto. Qed.

Lemma block_step_p b start_idx cont lc st :
  (forall st, Mono (cont st)) -> (forall st s1 s2, sim s1 s2 -> rel2 (cont st s1) (cont st s2)) ->
  forall s1 s2, sim s1 s2 ->
  rel2 (block_step T rec b start_idx cont lc st s1) (block_step T rec b start_idx cont lc st s2).
Proof.
  intros HCm HCp s1 s2 S. unfold block_step. cbv zeta. apply rel2_bind.
  - destruct (b_do_hook b); [|apply rel2_agree; exact S].
    destruct (b_start b) as [stc|]; [|apply rel2_agree; exact S].
    apply rel2_bind; [apply call_p; exact S| |].
    + intros [t|] a b0 Sab; [|apply rel2_agree; exact Sab].
      destruct (c_has_start_label (entry T (tcls t))); [|apply rel2_agree; exact Sab].
      destruct (oN_eqb _ _); [apply rel2_agree; exact Sab|].
      apply rel2_bind; [apply rel2_lift; [intros; apply sim_restore; assumption|exact Sab]| |].
      * intros _ a' b' S'. apply rel2_agree; exact S'.
      * intros _. apply mono_ret.
    + mono_auto.
  - intros [t|] a b0 Sab; [apply HCp; exact Sab|].
    apply rel2_bind; [apply rel2_catch, call_l_p; exact Sab| |].
    + intros [t|] a' b' S'; [|apply HCp; exact S'].
      match goal with |- context [if ?c then _ else _] => destruct c end.
      * apply rel2_bind; [apply rel2_lift; [intros; apply sim_restore; assumption|exact S']| |].
        -- intros _ a2 b2 S2. apply rel2_bind; [apply rel2_lift; [intros; apply sim_restore; assumption|exact S2]| |].
           ++ intros _ a3 b3 S3. apply rel2_agree; exact S3.
           ++ intros _. apply mono_ret.
        -- mono_auto.
      * destruct (stmt_error T b _ t _); [apply rel2_agree; exact S'|].
        match goal with |- context [if ?c then _ else _] => destruct c end; [apply HCp; exact S'|].
        match goal with |- context [if ?c then _ else _] => destruct c end; [|apply HCp; exact S'].
        match goal with |- context [match ?c with Some _ => _ | None => _ end] => destruct c end;
          apply rel2_agree; exact S'.
    + mono_auto.
  - mono_auto.
Qed.


Lemma block_loop_m b classes start_idx : forall k st, Mono (block_loop T rec b classes start_idx k st).
Proof.
  induction k as [|k IH]; intros st; cbn [block_loop]; [apply mono_raise|].
  destruct (nth_error classes (l_i st)) as [lc|]; [|apply mono_ret].
  apply mono_bind; [apply hook_cid_m|]. intros cm. apply block_step_m. exact IH.
Qed.
Lemma block_loop_p b classes start_idx : forall k st s1 s2, sim s1 s2 ->
  rel2 (block_loop T rec b classes start_idx k st s1) (block_loop T rec b classes start_idx k st s2).
Proof.
  induction k as [|k IH]; intros st s1 s2 S; cbn [block_loop]; [apply rel2_agree; exact S|].
  destruct (nth_error classes (l_i st)) as [lc|]; [|apply rel2_agree; exact S].
  apply rel2_bind; [apply hook_cid_p; exact S| |].
  - intros cm a b0 Sab. apply block_step_p; [apply block_loop_m|exact IH|exact Sab].
  - intros cm. apply block_step_m. apply block_loop_m.
Qed.

Lemma do_exit_m : Mono do_exit_scope.
Proof. intros s H. unfold do_exit_scope. destruct (exit_scope (sc s)); exact H. Qed.
Lemma do_remove_m n : Mono (do_remove n).
Proof. intros s H. unfold do_remove. destruct (remove_scope n (sc s)); exact H. Qed.
Lemma do_exit_p s1 s2 : sim s1 s2 -> rel2 (do_exit_scope s1) (do_exit_scope s2).
Proof.
  intros S. unfold do_exit_scope. rewrite (sim_sc _ _ S). destruct (exit_scope (sc s2)); apply rel2_agree; auto using sim_set_sc.
Qed.
Lemma do_remove_p n s1 s2 : sim s1 s2 -> rel2 (do_remove n s1) (do_remove n s2).
Proof.
  intros S. unfold do_remove. rewrite (sim_sc _ _ S). destruct (remove_scope n (sc s2)); apply rel2_agree; auto using sim_set_sc.
Qed.

(* the tail of BlockBase.match after the loop, as a function of the loop's result *)
Definition block_tail (b : bspec) (start_idx : nat) (tn : option name) (r : res lout * est)
  : res (option (list tree)) * est :=
  match r with
  | (Raise e, s1) =>
      if (match e with ESyntax => true | _ => t_cleanup_all T && is_exception e end) then
        match tn with
        | Some n => match (do_exit_scope ;;; do_remove n) s1 with
                    | (Val _, s2) => (Raise e, s2)
                    | (Raise e', s2) => (Raise e', s2)
                    end
        | None => (Raise e, s1)
        end
      else (Raise e, s1)
  | (Val LAbort, s1) => (Val None, s1)
  | (Val (LBreak content' had found_end), s1) =>
      ((match tn with Some _ => do_exit_scope | None => ret tt end) ;;;
       (if (negb had || (match b_end b with Some _ => negb found_end | None => false end))
           && (match b_end b with Some _ => true | None => false end)
        then (match tn with Some n => do_remove n | None => ret tt end) ;;;
             lift (restore content') ;;; ret None
        else
          match content' with
          | [] => ret None
          | _ =>
            match b_start b, b_end b with
            | Some _, Some _ =>
                let st := match nth_error content' start_idx with Some t => t | None => TBlock 0%N [] end in
                let en := last content' (TBlock 0%N []) in
                if mem (tcls en) (b_endall b) && c_has_name (entry T (tcls en))
                   && c_has_name (entry T (tcls st))
                then match unit_name (tinfo en) with
                     | Some ne =>
                         match unit_name (tinfo st) with
                         | Some ns => if N.eqb ns ne then ret (Some content')
                                      else if t_exits T then raise EExit else ret (Some content')
                         | None => if t_exits T then raise EExit else ret (Some content')
                         end
                     | None => ret (Some content')
                     end
                else ret (Some content')
            | _, _ => ret (Some content')
            end
          end)) s1
  end.

Lemma block_body_tail b content start_idx tn s :
  block_body T rec b content start_idx tn s =
  block_tail b start_idx tn
    (block_loop T rec b (block_classes T b s) start_idx (loop_bound (length (block_classes T b s)) s)
       (mkLst content 0 false (b_if_hook b) (b_where_hook b)) s).
Proof. reflexivity. Qed.

Lemma block_tail_m b start_idx tn r : touched (snd r) -> touched (snd (block_tail b start_idx tn r)).
Proof.
  destruct r as [[[content' had fe|]|e] s1]; cbn [snd block_tail]; intros LP.
  - unfold bind at 1.
    assert (EX : touched (snd ((match tn with Some _ => do_exit_scope | None => ret tt end) s1))).
    { destruct tn; [apply do_exit_m|]; exact LP. }
    destruct ((match tn with Some _ => do_exit_scope | None => ret tt end) s1) as [[[]|e] s2]; cbn [snd] in EX; [|exact EX].
    match goal with |- context [if ?c then _ else _] => destruct c end.
    + unfold bind at 1.
      assert (RM : touched (snd ((match tn with Some n => do_remove n | None => ret tt end) s2))).
      { destruct tn; [apply do_remove_m|]; exact EX. }
      destruct ((match tn with Some n => do_remove n | None => ret tt end) s2) as [[[]|e] s3]; cbn [snd] in RM; [|exact RM].
      exact RM.
    + repeat match goal with
             | |- context [match ?x with _ => _ end] => destruct x
             end; exact EX.
  - exact LP.
  - destruct (match e with ESyntax => true | _ => t_cleanup_all T && is_exception e end); [|exact LP].
    destruct tn as [n|]; [|exact LP].
    assert (X : touched (snd ((do_exit_scope ;;; do_remove n) s1))).
    { apply (mono_bind do_exit_scope (fun _ => do_remove n)); [apply do_exit_m|intros _; apply do_remove_m|exact LP]. }
    destruct ((do_exit_scope ;;; do_remove n) s1) as [[u|e'] s2]; exact X.
Qed.

Lemma block_body_m b content start_idx tn : Mono (block_body T rec b content start_idx tn).
Proof. intros s H. rewrite block_body_tail. apply block_tail_m. apply block_loop_m. exact H. Qed.

Lemma block_tail_p b start_idx tn x1 x2 : rel2 x1 x2 -> rel2 (block_tail b start_idx tn x1) (block_tail b start_idx tn x2).
Proof.
  intros [[E S]|Tc]; [|right; apply block_tail_m; exact Tc].
  destruct x1 as [o1 a], x2 as [o2 b0]; cbn [fst snd] in *; subst o2.
  destruct o1 as [[content' had fe|]|e]; cbn [block_tail].
  - apply rel2_bind.
    + destruct tn; [apply do_exit_p; exact S|apply rel2_agree; exact S].
    + intros _ a' b' S'. match goal with |- context [if ?c then _ else _] => destruct c end.
      * apply rel2_bind.
        -- destruct tn; [apply do_remove_p; exact S'|apply rel2_agree; exact S'].
        -- intros _ a2 b2 S2. apply rel2_bind; [apply rel2_lift; [intros; apply sim_restore; assumption|exact S2]| |].
           ++ intros _ a3 b3 S3. apply rel2_agree; exact S3.
           ++ intros _. apply mono_ret.
        -- intros _. mono_auto.
      * repeat match goal with
               | |- context [match ?x with _ => _ end] => destruct x
               end; apply rel2_agree; exact S'.
    + intros _. match goal with |- Mono (if ?c then _ else _) => destruct c end.
      * apply mono_bind; [destruct tn; [apply do_remove_m|apply mono_ret]|]. intros _. mono_auto.
      * repeat match goal with
               | |- Mono (match ?x with _ => _ end) => destruct x
               | |- Mono (if ?x then _ else _) => destruct x
               end; first [apply mono_ret|apply mono_raise].
  - apply rel2_agree; exact S.
  - destruct (match e with ESyntax => true | _ => t_cleanup_all T && is_exception e end); [|apply rel2_agree; exact S].
    destruct tn as [n|]; [|apply rel2_agree; exact S].
    assert (X : rel2 ((do_exit_scope ;;; do_remove n) a) ((do_exit_scope ;;; do_remove n) b0)).
    { apply rel2_bind; [apply do_exit_p; exact S|intros _ a' b' S'; apply do_remove_p; exact S'|intros _; apply do_remove_m]. }
    destruct X as [[E2 S2]|Tc].
    + destruct ((do_exit_scope ;;; do_remove n) a) as [y1 a'], ((do_exit_scope ;;; do_remove n) b0) as [y2 b'];
        cbn [fst snd] in *; subst y2. destruct y1; apply rel2_agree; exact S2.
    + right. destruct ((do_exit_scope ;;; do_remove n) b0) as [[u|e'] b']; exact Tc.
Qed.

Lemma block_body_p b content start_idx tn s1 s2 : sim s1 s2 ->
  rel2 (block_body T rec b content start_idx tn s1) (block_body T rec b content start_idx tn s2).
Proof.
  intros S. rewrite !block_body_tail. apply block_tail_p.
  assert (E1 : block_classes T b s1 = block_classes T b s2) by (unfold block_classes; now rewrite (sim_procdir _ _ S)).
  assert (E2 : forall n, loop_bound n s1 = loop_bound n s2) by (intros; unfold loop_bound; now rewrite (sim_len _ _ S)).
  rewrite E1, E2. apply block_loop_p. exact S.
Qed.


Lemma block_match_m b : Mono (block_match T rec b).
Proof.
  intros s H. unfold block_match. destruct (b_start b) as [stc|]; [|apply block_body_m; exact H].
  revert s H. apply mono_bind; [intros s; apply add_cid_m|]. intros cm.
  apply mono_bind; [apply mono_catch, call_m|]. intros [o|]; [|mono_auto].
  cbv zeta. apply mono_bind.
  - destruct (c_scoping (entry T (tcls o))); [intros s H; exact H|apply mono_ret].
  - intros _. apply block_body_m.
Qed.
Lemma block_match_p b s1 s2 : sim s1 s2 -> rel2 (block_match T rec b s1) (block_match T rec b s2).
Proof.
  intros S. unfold block_match. destruct (b_start b) as [stc|]; [|apply block_body_p; exact S].
  rewrite (sim_len _ _ S). apply rel2_bind; [apply add_cid_p; exact S| |].
  - intros cm a b0 Sab. apply rel2_bind; [apply rel2_catch, call_p; exact Sab| |].
    + intros [o|] a' b' S'.
      * cbv zeta. apply rel2_bind.
        -- destruct (c_scoping (entry T (tcls o))); [|apply rel2_agree; exact S'].
           unfold do_enter. apply rel2_lift; [|exact S']. intros x y Sxy. rewrite (sim_sc _ _ Sxy). apply sim_set_sc. exact Sxy.
        -- intros _ a2 b2 S2. apply block_body_p. exact S2.
        -- intros _. apply block_body_m.
      * apply rel2_bind; [apply rel2_lift; [intros; apply sim_restore; assumption|exact S']| |].
        -- intros _ a2 b2 S2. apply rel2_agree; exact S2.
        -- intros _. apply mono_ret.
    + intros [o|]; [|mono_auto]. cbv zeta. apply mono_bind.
      * destruct (c_scoping (entry T (tcls o))); [intros s H; exact H|apply mono_ret].
      * intros _. apply block_body_m.
  - intros cm. apply mono_bind; [apply mono_catch, call_m|]. intros [o|]; [|mono_auto]. cbv zeta. apply mono_bind.
    + destruct (c_scoping (entry T (tcls o))); [intros s H; exact H|apply mono_ret].
    + intros _. apply block_body_m.
Qed.

Lemma main0_m b : Mono (main0 T rec b).
Proof.
  intros s H. unfold main0.
  pose proof (block_match_m b (set_sc (enter_scope (t_main_name T) (sc s)) s) H) as B.
  destruct (block_match T rec b (set_sc (enter_scope (t_main_name T) (sc s)) s)) as [[r|e] s2]; cbn [snd] in B.
  - revert s2 B. apply mono_bind; [apply do_exit_m|]. intros _. destruct r; [apply mono_ret|].
    apply mono_bind; [apply do_remove_m|]. intros _. apply mono_ret.
  - destruct (t_main0_guarded T && is_exception e); [|exact B].
    assert (X : touched (snd ((do_exit_scope ;;; do_remove (t_main_name T)) s2))).
    { apply (mono_bind do_exit_scope (fun _ => do_remove (t_main_name T))); [apply do_exit_m|intros _; apply do_remove_m|exact B]. }
    destruct ((do_exit_scope ;;; do_remove (t_main_name T)) s2) as [[u|e'] s3]; exact X.
Qed.
Lemma main0_p b s1 s2 : sim s1 s2 -> rel2 (main0 T rec b s1) (main0 T rec b s2).
Proof.
  intros S. unfold main0. rewrite (sim_sc _ _ S).
  set (n := t_main_name T).
  destruct (block_match_p b _ _ (sim_set_sc (enter_scope n (sc s2)) _ _ S)) as [[E S']|Tc].
  - destruct (block_match T rec b (set_sc (enter_scope n (sc s2)) s1)) as [x1 a],
             (block_match T rec b (set_sc (enter_scope n (sc s2)) s2)) as [x2 b0]; cbn [fst snd] in *; subst x2.
    destruct x1 as [r|e].
    + apply rel2_bind; [apply do_exit_p; exact S'| |].
      * intros _ a' b' S2. destruct r; [apply rel2_agree; exact S2|].
        apply rel2_bind; [apply do_remove_p; exact S2|intros _ a3 b3 S3; apply rel2_agree; exact S3|intros _; apply mono_ret].
      * intros _. destruct r; [apply mono_ret|]. apply mono_bind; [apply do_remove_m|intros _; apply mono_ret].
    + destruct (t_main0_guarded T && is_exception e); [|apply rel2_agree; exact S'].
      assert (X : rel2 ((do_exit_scope ;;; do_remove n) a) ((do_exit_scope ;;; do_remove n) b0)).
      { apply rel2_bind; [apply do_exit_p; exact S'|intros _ a' b' S2; apply do_remove_p; exact S2|intros _; apply do_remove_m]. }
      destruct X as [[E2 S2]|Tc].
      * destruct ((do_exit_scope ;;; do_remove n) a) as [y1 a'], ((do_exit_scope ;;; do_remove n) b0) as [y2 b'];
          cbn [fst snd] in *; subst y2. destruct y1; apply rel2_agree; exact S2.
      * right. destruct ((do_exit_scope ;;; do_remove n) b0) as [[u|e'] b']; exact Tc.
  - right. (* the second run alone, from the state after the loop *)
    destruct (block_match T rec b (set_sc (enter_scope n (sc s2)) s2)) as [[r|e] b0]; cbn [snd] in Tc.
    + revert b0 Tc. apply mono_bind; [apply do_exit_m|]. intros _. destruct r; [apply mono_ret|].
      apply mono_bind; [apply do_remove_m|]. intros _. apply mono_ret.
    + destruct (t_main0_guarded T && is_exception e); [|exact Tc].
      assert (X : touched (snd ((do_exit_scope ;;; do_remove n) b0))).
      { apply (mono_bind do_exit_scope (fun _ => do_remove n)); [apply do_exit_m|intros _; apply do_remove_m|exact Tc]. }
      destruct ((do_exit_scope ;;; do_remove n) b0) as [[u|e'] s3]; exact X.
Qed.

Lemma seq_match_m cs : forall acc, Mono (seq_match T rec cs acc).
Proof.
  induction cs as [|c r IH]; intros acc; cbn [seq_match]; [apply mono_ret|].
  apply mono_bind; [destruct (t_shared_restores T); [apply mono_catch|]; apply call_m|].
  intros [t|]; [apply IH|]. destruct (t_shared_restores T); mono_auto.
Qed.
Lemma seq_match_p cs : forall acc s1 s2, sim s1 s2 -> rel2 (seq_match T rec cs acc s1) (seq_match T rec cs acc s2).
Proof.
  induction cs as [|c r IH]; intros acc s1 s2 S; cbn [seq_match]; [apply rel2_agree; exact S|].
  apply rel2_bind.
  - destruct (t_shared_restores T); [apply rel2_catch|]; apply call_p; exact S.
  - intros [t|] a b0 Sab; [apply IH; exact Sab|].
    destruct (t_shared_restores T).
    + apply rel2_bind; [apply rel2_lift; [intros; apply sim_restore; assumption|exact Sab]| |].
      * intros _ a2 b2 S2. apply rel2_agree; exact S2.
      * intros _. apply mono_ret.
    + apply rel2_bind; [apply rel2_agree; exact Sab| |].
      * intros _ a2 b2 S2. apply rel2_agree; exact S2.
      * intros _. apply mono_ret.
  - intros [t|]; [apply seq_match_m|]. destruct (t_shared_restores T); mono_auto.
Qed.

Lemma loop_match_m c k : forall acc, Mono (loop_match rec c k acc).
Proof.
  induction k as [|k IH]; intros acc; cbn [loop_match]; [apply mono_raise|].
  apply mono_bind; [apply mono_catch, call_m|]. intros [t|]; [apply IH|apply mono_ret].
Qed.
Lemma loop_match_p c k : forall acc s1 s2, sim s1 s2 -> rel2 (loop_match rec c k acc s1) (loop_match rec c k acc s2).
Proof.
  induction k as [|k IH]; intros acc s1 s2 S; cbn [loop_match]; [apply rel2_agree; exact S|].
  apply rel2_bind; [apply rel2_catch, call_p; exact S| |].
  - intros [t|] a b0 Sab; [apply IH; exact Sab|apply rel2_agree; exact Sab].
  - intros [t|]; [apply loop_match_m|apply mono_ret].
Qed.

Lemma try_alts_m alts : Mono (try_alts rec alts).
Proof.
  induction alts as [|a r IH]; cbn [try_alts]; [apply mono_ret|].
  intros s H. destruct (mem a (pcls s)); [apply IH; exact H|].
  revert s H. apply mono_bind; [apply mono_catch, HM|]. intros [t|]; [apply mono_ret|exact IH].
Qed.
Lemma try_alts_p alts : forall s1 s2, sim s1 s2 -> rel2 (try_alts rec alts s1) (try_alts rec alts s2).
Proof.
  induction alts as [|a r IH]; intros s1 s2 S; cbn [try_alts]; [apply rel2_agree; exact S|].
  rewrite (sim_pcls _ _ S). destruct (mem a (pcls s2)); [apply IH; exact S|].
  apply rel2_bind; [apply rel2_catch, HP; exact S| |].
  - intros [t|] x y Sxy; [apply rel2_agree; exact Sxy|apply IH; exact Sxy].
  - intros [t|]; [apply mono_ret|apply try_alts_m].
Qed.


(* the tail of Base.__new__ after the class's own match *)
Definition finish (c : cls) (x : res (option (list tree)) * est) : res (option tree) * est :=
  match x with
  | (Raise e', s1) => (Raise e', s1)
  | (Val (Some content), s1) => (Val (Some (TBlock c content)), s1)
  | (Val None, s1) =>
      match try_alts rec (c_alts (entry T c)) s1 with
      | (Val (Some t), s2) => (Val (Some t), s2)
      | (Val None, s2) => if seen_code s2 then (Raise ENoMatch, s2) else (Val None, s2)
      | (Raise e', s2) => (Raise e', s2)
      end
  end.

Lemma finish_m c x : touched (snd x) -> touched (snd (finish c x)).
Proof.
  destruct x as [[[content|]|e] s1]; cbn [snd finish]; intros H; try exact H.
  pose proof (try_alts_m (c_alts (entry T c)) s1 H) as A.
  destruct (try_alts rec (c_alts (entry T c)) s1) as [[[t|]|e] s2]; cbn [snd] in *; try exact A.
  destruct (seen_code s2); exact A.
Qed.
Lemma finish_p c x1 x2 : rel2 x1 x2 -> rel2 (finish c x1) (finish c x2).
Proof.
  intros [[E S]|Tc]; [|right; apply finish_m; exact Tc].
  destruct x1 as [o1 a], x2 as [o2 b0]; cbn [fst snd] in *; subst o2.
  destruct o1 as [[content|]|e]; cbn [finish]; try (apply rel2_agree; exact S).
  destruct (try_alts_p (c_alts (entry T c)) a b0 S) as [[E2 S2]|Tc].
  - destruct (try_alts rec (c_alts (entry T c)) a) as [y1 a'], (try_alts rec (c_alts (entry T c)) b0) as [y2 b'];
      cbn [fst snd] in *; subst y2. destruct y1 as [[t|]|e]; try (apply rel2_agree; exact S2).
    rewrite (sim_seen _ _ S2). destruct (seen_code b'); apply rel2_agree; exact S2.
  - right. destruct (try_alts rec (c_alts (entry T c)) b0) as [[[t|]|e] b']; cbn [snd] in *; try exact Tc.
    destruct (seen_code b'); exact Tc.
Qed.

End WithRec.

(* ---- Base.__new__ *)
Theorem new_prefix : forall fuel,
  (forall c, Mono (new T L fuel c)) /\
  (forall c s1 s2, sim s1 s2 -> rel2 (new T L fuel c s1) (new T L fuel c s2)).
Proof.
  induction fuel as [|f [IM IP]]; [split; [intros c; apply mono_raise|intros c s1 s2 S; apply rel2_agree; exact S]|].
  split.
  - intros c s H. cbn [new].
    destruct (N.eqb c (t_comment T)); [apply comment_m; exact H|].
    destruct (N.eqb c (t_directive T)); [apply directive_m; exact H|].
    set (s' := if mem c (pcls (tick s)) then tick s else set_pcls (pcls (tick s) ++ [c]) (tick s)).
    assert (H' : touched s') by (unfold s'; destruct (mem c (pcls (tick s))); exact H).
    destruct (c_kind (entry T c)) as [| |b|b|cs|c'|] eqn:K.
    + apply leaf_m. exact H'.
    + apply (finish_m (new T L f) IM c). apply mono_catch; [apply mono_ret|exact H'].
    + apply (finish_m (new T L f) IM c). apply mono_catch; [apply block_match_m; exact IM|exact H'].
    + apply (finish_m (new T L f) IM c). apply mono_catch; [apply main0_m; exact IM|exact H'].
    + apply (finish_m (new T L f) IM c). apply mono_catch; [apply seq_match_m; exact IM|exact H'].
    + apply (finish_m (new T L f) IM c). apply mono_catch; [intros x; apply loop_match_m; exact IM|exact H'].
    + apply (finish_m (new T L f) IM c). apply mono_catch; [apply mono_ret|exact H'].
  - intros c s1 s2 S. cbn [new].
    destruct (N.eqb c (t_comment T)); [apply comment_p; exact S|].
    destruct (N.eqb c (t_directive T)); [apply directive_p; exact S|].
    rewrite (sim_pcls _ _ (sim_tick _ _ S)).
    set (a := if mem c (pcls (tick s2)) then tick s1 else set_pcls (pcls (tick s2) ++ [c]) (tick s1)).
    set (b0 := if mem c (pcls (tick s2)) then tick s2 else set_pcls (pcls (tick s2) ++ [c]) (tick s2)).
    assert (Sab : sim a b0).
    { unfold a, b0. destruct (mem c (pcls (tick s2))); [apply sim_tick; exact S|apply sim_set_pcls, sim_tick; exact S]. }
    destruct (c_kind (entry T c)) as [| |b|b|cs|c'|] eqn:K.
    + apply leaf_p. exact Sab.
    + apply (finish_p (new T L f) IM IP c). apply rel2_catch. apply rel2_agree. exact Sab.
    + apply (finish_p (new T L f) IM IP c). apply rel2_catch. apply block_match_p; assumption.
    + apply (finish_p (new T L f) IM IP c). apply rel2_catch. apply main0_p; assumption.
    + apply (finish_p (new T L f) IM IP c). apply rel2_catch. apply seq_match_p; assumption.
    + apply (finish_p (new T L f) IM IP c). apply rel2_catch. rewrite (sim_len _ _ Sab). apply loop_match_p; assumption.
    + apply (finish_p (new T L f) IM IP c). apply rel2_catch. apply rel2_agree. exact Sab.
Qed.


(* ---- Program.match and the top level *)
Section Top.
Variable rec : matcher.
Hypothesis HM : forall c, Mono (rec c).
Hypothesis HP : forall c s1 s2, sim s1 s2 -> rel2 (rec c s1) (rec c s2).

Definition after_cid (k' : nat) (content2 : list tree) (pl : nat -> list tree -> M (list tree)) : M (list tree) :=
  fun s => match stream s with
           | [] => (Val content2, s)
           | _ :: _ => match get_item s with
                       | (Some i, s1) => pl k' content2 (put_item i s1)
                       | (None, s1) => (Val content2, s1)
                       end
           end.

Lemma program_loop_m k : forall content, Mono (program_loop T rec k content).
Proof.
  induction k as [|k IH]; intros content; cbn [program_loop]; [apply mono_raise|].
  apply mono_bind; [apply call_m; exact HM|]. intros o. cbv zeta.
  apply mono_bind; [apply add_cid_m; exact HM|]. intros content2 s H.
  destruct (stream s) eqn:E; [exact H|].
  destruct (get_item s) as [[gi|] s1] eqn:G.
  - destruct (t_get s gi s1 H G) as [_ H1]. apply IH. exact H1.
  - unfold get_item in G. rewrite E in G. discriminate.
Qed.

Lemma program_loop_p k : forall content s1 s2, sim s1 s2 ->
  rel2 (program_loop T rec k content s1) (program_loop T rec k content s2).
Proof.
  induction k as [|k IH]; intros content s1 s2 S; cbn [program_loop]; [apply rel2_agree; exact S|].
  apply rel2_bind; [apply call_p; assumption| |].
  - intros o a b0 Sab. cbv zeta. apply rel2_bind; [apply add_cid_p; assumption| |].
    + intros content2 a' b' S'.
      pose proof (sim_nil _ _ S') as NIL.
      destruct (stream a') eqn:Ea.
      * rewrite (proj1 NIL eq_refl). apply rel2_agree. exact S'.
      * destruct (stream b') eqn:Eb; [pose proof (proj2 NIL eq_refl) as X; discriminate X|].
        destruct (get_item_rel a' b' S') as [[E S2]|Tc].
        -- destruct (get_item a') as [[gi|] a2], (get_item b') as [[gi'|] b2]; cbn [fst snd] in *; try discriminate.
           ++ inversion E; subst. apply IH. apply sim_put. exact S2.
           ++ apply rel2_agree. exact S2.
        -- right. destruct (get_item b') as [[gi'|] b2]; cbn [snd] in Tc; [|exact Tc].
           apply program_loop_m. exact Tc.
    + intros content2 s H. destruct (stream s) eqn:E; [exact H|].
      destruct (get_item s) as [[gi|] sx] eqn:G.
      * destruct (t_get s gi sx H G) as [_ H1]. apply program_loop_m. exact H1.
      * unfold get_item in G. rewrite E in G. discriminate.
  - intros o. cbv zeta. apply mono_bind; [apply add_cid_m; exact HM|]. intros content2 s H.
    destruct (stream s) eqn:E; [exact H|].
    destruct (get_item s) as [[gi|] sx] eqn:G.
    + destruct (t_get s gi sx H G) as [_ H1]. apply program_loop_m. exact H1.
    + unfold get_item in G. rewrite E in G. discriminate.
Qed.

Lemma program_units_m : Mono (program_units T rec).
Proof.
  intros s H. unfold program_units. revert H. generalize (2 * length (stream s) + 3) as k. intros k.
  revert s. apply mono_bind; [apply add_cid_m; exact HM|]. intros c0. apply program_loop_m.
Qed.
Lemma program_units_p s1 s2 : sim s1 s2 -> rel2 (program_units T rec s1) (program_units T rec s2).
Proof.
  intros S. unfold program_units. rewrite (sim_len _ _ S).
  apply rel2_bind; [apply add_cid_p; assumption| |].
  - intros c0 a b0 Sab. apply program_loop_p. exact Sab.
  - intros c0. apply program_loop_m.
Qed.

Lemma program_match_m : Mono (program_match T rec).
Proof.
  intros s H. unfold program_match. pose proof (program_units_m s H) as U.
  destruct (program_units T rec s) as [[content|e] s1]; cbn [snd] in U; [exact U|].
  destruct e; try exact U. apply block_match_m; [exact HM|exact U].
Qed.
Lemma program_match_p s1 s2 : sim s1 s2 -> rel2 (program_match T rec s1) (program_match T rec s2).
Proof.
  intros S. unfold program_match. destruct (program_units_p s1 s2 S) as [[E S']|Tc].
  - destruct (program_units T rec s1) as [x1 a], (program_units T rec s2) as [x2 b0]; cbn [fst snd] in *; subst x2.
    destruct x1 as [content|e]; [apply rel2_agree; exact S'|].
    destruct e; try (apply rel2_agree; exact S'). apply block_match_p; assumption.
  - right. destruct (program_units T rec s2) as [[content|e] b0]; cbn [snd] in Tc; [exact Tc|].
    destruct e; try exact Tc. apply block_match_m; [exact HM|exact Tc].
Qed.
End Top.

Theorem program_top_prefix fuel c s1 s2 : sim s1 s2 ->
  rel2 (program_top T L fuel c s1) (program_top T L fuel c s2).
Proof.
  intros S. destruct (new_prefix fuel) as [IM IP]. unfold program_top.
  assert (S' : sim (set_pcls [c] (tick s1)) (set_pcls [c] (tick s2))) by (apply sim_set_pcls, sim_tick; exact S).
  apply (finish_p (new T L fuel) IM IP c). apply rel2_catch. apply program_match_p; assumption.
Qed.

End Prefix.

(* ---- the statement about two inputs *)
Theorem changed_statement_is_reached T (L : item -> cls -> list cls -> leafres) (p r1 r2 : list item) pd fuel c :
  length r1 = length r2 ->
  let x1 := program_top T L fuel c (est0 (p ++ r1) pd) in
  let x2 := program_top T L fuel c (est0 (p ++ r2) pd) in
  fst x1 = fst x2 \/ match r2 with i :: _ => ilast i <= maxread (snd x2) | [] => True end.
Proof.
  intros HL x1 x2.
  assert (S : sim r1 r2 (est0 (p ++ r1) pd) (est0 (p ++ r2) pd)).
  { exists p. cbn. repeat split. }
  destruct (program_top_prefix T L r1 r2 HL fuel c _ _ S) as [[E _]|Tc]; [left; exact E|right; exact Tc].
Qed.

(* In terms of outcomes: if the first input parses to a tree and the second -- the same up to its k-th
   item, of the same length -- ends in a syntax error, the reported line is at least the last line of
   the first item that differs. *)
Theorem error_not_before_change T (L : item -> cls -> list cls -> leafres) (p r1 : list item) g rest2 pd fuel c t s1' line s2' :
  length r1 = length (g :: rest2) ->
  program_new T L fuel c (est0 (p ++ r1) pd) = (OTree t, s1') ->
  program_new T L fuel c (est0 (p ++ g :: rest2) pd) = (OSyntax line, s2') ->
  ilast g <= line.
Proof.
  intros HL P1 P2.
  pose proof (changed_statement_is_reached T L p r1 (g :: rest2) pd fuel c HL) as H. cbv zeta in H.
  unfold program_new in P1, P2.
  destruct (program_top T L fuel c (est0 (p ++ r1) pd)) as [x1 a].
  destruct (program_top T L fuel c (est0 (p ++ g :: rest2) pd)) as [x2 b]. cbn [fst snd] in H.
  destruct H as [E|Tc].
  - subst x2. destruct x1 as [[t'|]|e]; try discriminate. destruct e; discriminate.
  - destruct x2 as [[t'|]|e]; try discriminate; destruct e; try discriminate; inversion P2; subst; exact Tc.
Qed.
