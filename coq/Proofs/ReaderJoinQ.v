(* The continuation loop joins pieces losslessly WHATEVER the character context: the pieces may contain
   character literals, and the statement may be broken inside a literal ( 'ab&  /  &cd' ).  The only
   requirements are that the pieces contain no '&' and that on each physical line the comment handler
   finds no comment (nocom: a decidable fact about the line and the quote state it is entered with --
   it is where '!' inside a literal is told from a comment). *)
From Coq Require Import List Bool Arith Ascii NArith Lia.
From FV Require Import SplitLine Text Reader ReaderJoin.
Import ListNotations.

(* entered with quote state q, the line is returned unchanged, no comment is found, the state becomes q' *)
Definition nocom (l : text) (q q' : option ascii) : Prop :=
  forall n, handle_inline_comment l n q = (l, q', None).

Section JoinQ.
Variable ign : bool.
Notation stt := (st ign).

Lemma step_last_q rest fuel acc endl b1 p lc fifo q q' :
  blanks b1 -> amp_free p -> p <> [] -> negb (is_blank p) = true -> nocom (last_line b1 p) q q' ->
  free_loop (S fuel) false false acc q endl (last_line b1 p) (stt rest lc fifo)
  = (acc ++ p, lc, stt rest lc fifo).
Proof.
  intros B Ap NE NB NC. cbn [free_loop]. unfold last_line in *.
  rewrite (lstrip_blanks_amp b1 p B). cbn [starts_with].
  assert (E1 : aeqb "!"%char amp = false) by reflexivity. rewrite E1. cbn [andb negb].
  destruct (blanks_quiet b1 B) as [Qb Ab].
  cbn [r_linecount st]. rewrite (NC lc). cbn [push_opt].
  rewrite (rfind_last b1 p Ap).
  replace (skipn (S (length b1)) (b1 ++ amp :: p)) with p
    by (rewrite skipn_app, skipn_all2 by lia; replace (S (length b1) - length b1) with 1 by lia; reflexivity).
  destruct (is_blank p) eqn:IB; [discriminate|].
  rewrite firstn_all.
  rewrite (find_char_app_not amp b1 (amp :: p) Ab), find_char_head. cbn [option_map]. rewrite Nat.add_0_r.
  assert (KK : (if Nat.eqb (length b1) 1 then Some (length b1)
                else if is_blank (firstn (length b1) (b1 ++ amp :: p)) then Some (length b1) else None) = Some (length b1)).
  { destruct (Nat.eqb (length b1) 1); [reflexivity|]. rewrite firstn_app, firstn_all, Nat.sub_diag. cbn [firstn].
    rewrite app_nil_r, (blanks_is_blank b1 B). reflexivity. }
  rewrite KK.
  replace (skipn (S (length b1)) (b1 ++ amp :: p)) with p
    by (rewrite skipn_app, skipn_all2 by lia; replace (S (length b1) - length b1) with 1 by lia; reflexivity).
  rewrite firstn_all2; [reflexivity|]. rewrite app_length. cbn [length]. lia.
Qed.

Lemma step_cont_q fuel acc endl b1 p nextl src lc fifo q q' :
  blanks b1 -> amp_free p -> stripped nextl -> nocom (b1 ++ amp :: p ++ [amp]) q q' ->
  free_loop (S fuel) false false acc q endl (b1 ++ amp :: p ++ [amp]) (stt (nextl :: src) lc fifo)
  = free_loop fuel false false (acc ++ p) q' lc nextl (stt src (S lc) fifo).
Proof.
  intros B Ap SN NC. cbn [free_loop].
  rewrite (lstrip_blanks_amp b1 (p ++ [amp]) B). cbn [starts_with].
  assert (E1 : aeqb "!"%char amp = false) by reflexivity. rewrite E1. cbn [andb negb].
  destruct (blanks_quiet b1 B) as [Qb Ab].
  cbn [r_linecount st]. rewrite (NC lc). cbn [push_opt].
  replace (b1 ++ amp :: p ++ [amp]) with ((b1 ++ amp :: p) ++ amp :: []) by (now rewrite <- app_assoc).
  rewrite (rfind_last (b1 ++ amp :: p) [] eq_refl).
  replace (S (length (b1 ++ amp :: p))) with (length ((b1 ++ amp :: p) ++ [amp])) by (rewrite app_length; cbn; lia).
  rewrite skipn_all. cbn [is_blank lstrip].
  rewrite firstn_app_exact.
  rewrite (find_char_app_not amp b1 (amp :: p) Ab), find_char_head. cbn [option_map]. rewrite Nat.add_0_r.
  assert (KK : (if Nat.eqb (length b1) 1 then Some (length b1)
                else if is_blank (firstn (length b1) ((b1 ++ amp :: p) ++ [amp])) then Some (length b1) else None)
               = Some (length b1)).
  { destruct (Nat.eqb (length b1) 1); [reflexivity|]. rewrite <- app_assoc, firstn_app_exact, (blanks_is_blank b1 B).
    reflexivity. }
  rewrite KK.
  assert (PC : firstn (length (b1 ++ amp :: p) - S (length b1)) (skipn (S (length b1)) ((b1 ++ amp :: p) ++ [amp])) = p).
  { rewrite <- app_assoc. replace (S (length b1)) with (length (b1 ++ [amp])) by (rewrite app_length; cbn; lia).
    replace (b1 ++ (amp :: p) ++ [amp]) with ((b1 ++ [amp]) ++ p ++ [amp]) by (rewrite <- app_assoc; reflexivity).
    rewrite skipn_app_exact. rewrite !app_length. cbn [length].
    replace (length b1 + S (length p) - (length b1 + 1)) with (length p) by lia. apply firstn_app_exact. }
  rewrite PC. rewrite (gsl ign src nextl lc fifo SN). reflexivity.
Qed.

Lemma step_first_q fuel endl p1 nextl src lc fifo q1 :
  amp_free p1 -> stripped nextl -> nocom (p1 ++ [amp]) None q1 ->
  free_loop (S fuel) false true [] None endl (p1 ++ [amp]) (stt (nextl :: src) lc fifo)
  = free_loop fuel false false p1 q1 lc nextl (stt src (S lc) fifo).
Proof.
  intros Ap SN NC. cbn [free_loop]. cbn [negb andb r_linecount st]. rewrite (NC lc). cbn [push_opt].
  rewrite (rfind_last p1 [] eq_refl).
  replace (S (length p1)) with (length (p1 ++ [amp])) by (rewrite app_length; cbn; lia).
  rewrite skipn_all. cbn [is_blank lstrip]. rewrite firstn_app_exact.
  rewrite (gsl ign src nextl lc fifo SN). reflexivity.
Qed.

(* the middle lines with the quote state each one leaves *)
Fixpoint mids3 (ms : list (text * text * option ascii)) : list text :=
  match ms with [] => [] | (b, p, _) :: r => (b ++ amp :: p ++ [amp]) :: mids3 r end.
Fixpoint chain_ok (q : option ascii) (ms : list (text * text * option ascii)) (bn pn : text) : Prop :=
  match ms with
  | [] => exists q', nocom (last_line bn pn) q q'
  | (b, p, qo) :: r => blanks b /\ amp_free p /\ nocom (b ++ amp :: p ++ [amp]) q qo /\ chain_ok qo r bn pn
  end.
Definition texts3 (ms : list (text * text * option ascii)) : text := concat (map (fun x => snd (fst x)) ms).

Lemma mids3_length ms : length (mids3 ms) = length ms.
Proof. induction ms as [|[[b p] q] r IH]; [reflexivity|]. cbn. now rewrite IH. Qed.

Lemma join_q bn pn : blanks bn -> amp_free pn -> pn <> [] -> negb (is_blank pn) = true -> stripped (last_line bn pn) ->
  forall ms fuel acc endl q l0 rest src lc fifo,
  mids3 ms ++ [last_line bn pn] = l0 :: rest -> chain_ok q ms bn pn -> length ms < fuel ->
  free_loop (S fuel) false false acc q endl l0 (stt (rest ++ src) lc fifo)
  = (acc ++ texts3 ms ++ pn, lc + length ms, stt src (lc + length ms) fifo).
Proof.
  intros Bn Apn NE NB SL. induction ms as [|[[b p] qo] r IH]; intros fuel acc endl q l0 rest src lc fifo EQ CH LT.
  - cbn [mids3 app] in EQ. inversion EQ; subst. destruct CH as [q' NC]. cbn [app texts3 map concat length].
    rewrite (step_last_q src fuel acc endl bn pn lc fifo q q' Bn Apn NE NB NC). now rewrite Nat.add_0_r.
  - cbn [mids3 app] in EQ. inversion EQ; subst. clear EQ. destruct CH as [Bb [Ap [NC CH']]].
    assert (ST : exists l1 rest1, mids3 r ++ [last_line bn pn] = l1 :: rest1 /\ stripped l1).
    { destruct r as [|[[b' p'] q''] r']; cbn [mids3 app].
      - eexists _, _. split; [reflexivity|exact SL].
      - eexists _, _. split; [reflexivity|]. unfold stripped.
        replace (b' ++ amp :: p' ++ [amp]) with ((b' ++ amp :: p') ++ [amp]) by (now rewrite <- app_assoc). apply rstrip_amp. }
    destruct ST as [l1 [rest1 [E1 S1]]]. rewrite E1. cbn [app].
    rewrite (step_cont_q fuel acc endl b p l1 (rest1 ++ src) lc fifo q qo Bb Ap S1 NC).
    destruct fuel as [|f]; [cbn in LT; lia|].
    rewrite (IH f (acc ++ p) lc qo l1 rest1 src (S lc) fifo E1 CH') by (cbn in LT; lia).
    unfold texts3. cbn [map concat length fst snd]. rewrite <- !app_assoc.
    replace (S lc + length r) with (lc + S (length r)) by lia. reflexivity.
Qed.

Theorem item_of_continued_statement_q line lab l1 nm p1 q1 ms bn pn src lc fifo :
  stripped line -> line <> [] -> starts_with ["#"%char] (lstrip line) = false ->
  extract_label line = (lab, l1) -> extract_construct_name l1 = (nm, p1 ++ [amp]) ->
  amp_free p1 -> nocom (p1 ++ [amp]) None q1 -> chain_ok q1 ms bn pn ->
  blanks bn -> amp_free pn -> pn <> [] -> negb (is_blank pn) = true -> stripped (last_line bn pn) ->
  strip (p1 ++ texts3 ms ++ pn) <> [] ->
  get_source_item (stt (line :: mids3 ms ++ last_line bn pn :: src) lc fifo)
  = (Some (RLine (strip (p1 ++ texts3 ms ++ pn)) lab nm (S lc) (S (S lc) + length ms)),
     stt src (S (S lc) + length ms) fifo).
Proof.
  intros SLn NEl NH EL EN Ap1 NC1 CH Bn Apn PNE NB SLL NS.
  unfold get_source_item. rewrite (gsl ign _ line lc fifo SLn).
  assert (X : (match line with [] => false | _ => true end) && starts_with ["#"%char] (lstrip line) = false)
    by (rewrite NH; apply andb_false_r).
  rewrite X. cbn [r_free st r_omp r_linecount]. unfold free_item. rewrite EL, EN. cbn [r_linecount st].
  cbn [r_src r_filo st length].
  assert (ST : exists l0 rest, mids3 ms ++ [last_line bn pn] = l0 :: rest /\ stripped l0).
  { destruct ms as [|[[b' p'] q''] r']; cbn [mids3 app].
    - eexists _, _. split; [reflexivity|exact SLL].
    - eexists _, _. split; [reflexivity|]. unfold stripped.
      replace (b' ++ amp :: p' ++ [amp]) with ((b' ++ amp :: p') ++ [amp]) by (now rewrite <- app_assoc). apply rstrip_amp. }
  destruct ST as [l0 [rest [E0 S0]]].
  replace (mids3 ms ++ last_line bn pn :: src) with ((l0 :: rest) ++ src) by (rewrite <- E0, <- app_assoc; reflexivity).
  cbn [app length].
  match goal with |- context [free_loop (S ?f) false true] =>
    rewrite (step_first_q f (S lc) p1 l0 (rest ++ src) (S lc) fifo q1 Ap1 S0 NC1) end.
  match goal with |- context [free_loop ?f false false] => destruct f as [|f'] eqn:EF; [lia|] end.
  rewrite (join_q bn pn Bn Apn PNE NB SLL ms f' p1 (S lc) q1 l0 rest src (S (S lc)) fifo E0 CH).
  - destruct (strip (p1 ++ texts3 ms ++ pn)) as [|c t] eqn:STp; [contradiction|]. reflexivity.
  - assert (LL : length (l0 :: rest) = S (length ms)).
    { rewrite <- E0, app_length, mids3_length. cbn. lia. }
    cbn [length] in LL. rewrite app_length in EF. lia.
Qed.

End JoinQ.
