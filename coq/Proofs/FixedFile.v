(* Fixed form, whole files: a source made of statements -- each an initial line (label field, column 6,
   statement field with an optional construct name) followed by any number of continuation lines and
   comment lines -- is delivered as exactly one item per statement, in order, with the joined
   statement fields, label, name and exact span; the comment lines that follow a statement are
   delivered right after it when comments are kept and are invisible when they are ignored.  The
   reader looks one line ahead and pushes it back: the proof carries that push-back buffer. *)
From Coq Require Import List Bool Arith Ascii String NArith Lia.
From FV Require Import SplitLine Text Reader ReaderLaws ReaderJoin ReaderItem FixedJoin.
Import ListNotations.
Close Scope string_scope.

Record fstmt := mkF { f_l5 : text; f_c6 : ascii; f_body : text; f_nm : option text; f_rest : text; f_ls : list fl }.

Definition f_line (x : fstmt) : text := f_l5 x ++ f_c6 x :: f_body x.
Definition f_field (x : fstmt) : text := match f_nm x with Some _ => f_rest x | None => f_body x end.
Definition f_phys (x : fstmt) : list text := f_line x :: map fphys (f_ls x).
Definition f_text (x : fstmt) : text := strip (f_field x ++ ftext (f_ls x)).
Definition f_label (x : fstmt) : option N :=
  match label_chars (f_l5 x) with [] => None | _ => Some (nat_of_digits (label_chars (f_l5 x))) end.

Definition fgoods (x : fstmt) : Prop :=
  List.length (f_l5 x) = 5 /\ forallb space_or_digit (f_l5 x) = true /\
  stripped (f_line x) /\ starts_with ["#"%char] (lstrip (f_line x)) = false /\
  is_fix_comment (f_line x) = false /\ is_fix_cont (f_line x) = false /\
  extract_construct_name (f_body x) = (f_nm x, f_rest x) /\ plain (f_field x) /\
  f_text x <> [] /\ is_blank (f_field x) = false /\ Forall fgood (f_ls x) /\
  mem_char ";"%char (f_text x) = false.

Section FixedFile.
Variable ign : bool.

Definition f_item (x : fstmt) (lc : nat) : ritem :=
  RLine (f_text x) (f_label x) (f_nm x) (S lc) (fend (f_ls x) (S lc) (S lc)).
Definition f_items (x : fstmt) (lc : nat) : list ritem := f_item x lc :: fcoms ign (f_ls x) (S lc).

Fixpoint file_items (xs : list fstmt) (lc : nat) : list ritem :=
  match xs with
  | [] => []
  | x :: r => f_items x lc ++ file_items r (lc + List.length (f_phys x))
  end.

Notation fxs := (fx ign).
Notation aft := (after ign).

Lemma f_phys_length x : List.length (f_phys x) = S (List.length (f_ls x)).
Proof. unfold f_phys. cbn [List.length]. now rewrite map_length. Qed.

(* the line pushed back by the look-ahead is read again exactly as if it had not been read *)
Lemma gsi_pushed_back l r lc fifo : stripped l -> ign && is_fix_comment l = false ->
  get_source_item (fxs r [l] lc fifo) = get_source_item (fxs (l :: r) [] lc fifo).
Proof.
  intros SL NC. unfold get_source_item. rewrite gsl_filo, (gsl_fx ign l r lc fifo SL NC).
  cbn [r_src r_filo fx List.length]. replace (List.length r + 1) with (S (List.length r + 0)) by lia. reflexivity.
Qed.

Lemma tail_ok_next x r rest : fgoods x -> tail_ok (flat_map f_phys (x :: r) ++ rest).
Proof.
  intros [_ [_ [SL [_ [NC [NK _]]]]]]. cbn [flat_map f_phys app tail_ok]. repeat split; assumption.
Qed.

(* one statement, from the state the previous one left *)
Lemma gsi_fstmt x r lc fifo : fgoods x -> Forall fgoods r ->
  get_source_item (aft (flat_map f_phys (x :: r)) lc fifo)
  = (Some (f_item x lc), aft (flat_map f_phys r) (lc + List.length (f_phys x)) (fifo ++ fcoms ign (f_ls x) (S lc))).
Proof.
  intros G Gr. pose proof G as [L5 [SD [SL [NH [NC [NK [EN [P [NS [NB [GL SEMI]]]]]]]]]]].
  cbn [flat_map f_phys app after].
  rewrite (gsi_pushed_back (f_line x) _ lc fifo SL) by (rewrite NC; apply andb_false_r).
  assert (T : tail_ok (flat_map f_phys r)).
  { destruct r as [|y r']; [exact I|]. inversion Gr; subst.
    pose proof (tail_ok_next y r' [] ltac:(assumption)) as K. now rewrite app_nil_r in K. }
  unfold f_line in *.
  pose proof (fixed_item ign (f_l5 x) (f_c6 x) (f_body x) (f_nm x) (f_rest x) (f_ls x) (flat_map f_phys r) lc fifo
             L5 SD SL NH NC EN P NS NB GL T) as FI. cbv zeta in FI. refine (eq_trans FI _).
  unfold f_item, f_text, f_field, f_label. rewrite f_phys_length.
  replace (lc + S (List.length (f_ls x))) with (S lc + List.length (f_ls x)) by lia. reflexivity.
Qed.

Lemma gsi_fend lc : get_source_item (aft [] lc []) = (None, aft [] lc []).
Proof. reflexivity. Qed.

Definition no_semi (it : ritem) : Prop :=
  match it with RLine t _ _ _ _ => mem_char ";"%char t = false | RComment _ _ _ _ => ign = false | RCpp _ _ _ => False end.

Lemma fcoms_ok ls lc : Forall no_semi (fcoms ign ls lc).
Proof.
  revert lc. induction ls as [|e r IH]; intros lc; [constructor|]. destruct e; cbn [fcoms]; [apply IH|].
  destruct ign eqn:I; cbn [app]; [apply IH|]. constructor; [exact I|apply IH].
Qed.

(* pending items come first, unchanged *)
Lemma next_item_pending it q src filo lc : no_semi it ->
  next_item (fxs src filo lc (it :: q)) = (Some it, fxs src filo lc q).
Proof.
  intros D. change (fxs src filo lc (it :: q)) with (put_item it (fxs src filo lc q)).
  apply get_after_put. destruct it as [t lab nm a b|t a b il|t a b]; cbn [deliverable no_semi r_ign fx] in *.
  - split; [intros x Hx; rewrite (semi_split_none _ D) in Hx; now inversion Hx|eexists; apply semi_split_none; exact D].
  - exact D.
  - contradiction.
Qed.

Lemma next_item_fstmt x r lc : fgoods x -> Forall fgoods r ->
  next_item (aft (flat_map f_phys (x :: r)) lc [])
  = (Some (f_item x lc), aft (flat_map f_phys r) (lc + List.length (f_phys x)) (fcoms ign (f_ls x) (S lc))).
Proof.
  intros G Gr. unfold next_item.
  assert (NR : forall fuel, next_raw (S fuel) (aft (flat_map f_phys (x :: r)) lc [])
               = (Some (f_item x lc), aft (flat_map f_phys r) (lc + List.length (f_phys x)) (fcoms ign (f_ls x) (S lc)))).
  { intros fuel. cbn [next_raw].
    assert (F0 : r_fifo (aft (flat_map f_phys (x :: r)) lc []) = []) by reflexivity.
    rewrite F0. rewrite (gsi_fstmt x r lc [] G Gr). reflexivity. }
  rewrite NR. destruct G as [_ [_ [_ [_ [_ [_ [_ [_ [_ [_ [_ SEMI]]]]]]]]]]].
  unfold f_item at 1. unfold split_item. rewrite (semi_split_none _ SEMI). reflexivity.
Qed.

Lemma next_item_fend lc : next_item (aft [] lc []) = (None, aft [] lc []).
Proof. reflexivity. Qed.

Lemma aft_fifo lines lc q : forall src filo, aft lines lc q = fxs src filo lc q -> True.
Proof. intros; exact I. Qed.

(* the queue in an after-state *)
Lemma next_item_pending_aft it q lines lc : no_semi it ->
  next_item (aft lines lc (it :: q)) = (Some it, aft lines lc q).
Proof. intros D. destruct lines as [|l r]; cbn [after]; apply next_item_pending; exact D. Qed.

Theorem read_fixed_file : forall fuel xs q lc, Forall fgoods xs -> Forall no_semi q ->
  List.length (q ++ file_items xs lc) < fuel ->
  read_all fuel (aft (flat_map f_phys xs) lc q) = q ++ file_items xs lc.
Proof.
  induction fuel as [|f IH]; intros xs q lc G Q LT; [lia|].
  cbn [read_all]. destruct q as [|it q'].
  - destruct xs as [|x r].
    + cbn [flat_map]. rewrite next_item_fend. reflexivity.
    + inversion G as [|a b Gx Gr]; subst. rewrite (next_item_fstmt x r lc Gx Gr).
      cbn [app file_items f_items]. f_equal.
      rewrite (IH r (fcoms ign (f_ls x) (S lc)) (lc + List.length (f_phys x)) Gr (fcoms_ok _ _)); [reflexivity|].
      cbn [app file_items f_items List.length] in LT. lia.
  - inversion Q as [|a b Qi Qr]; subst. rewrite (next_item_pending_aft it q' _ lc Qi).
    cbn [app]. f_equal. apply IH; [exact G|exact Qr|cbn [app List.length] in LT; lia].
Qed.

End FixedFile.

(* the public entry point: a file that starts with a statement *)
Lemma f_items_length ign x lc : List.length (f_items ign x lc) <= List.length (f_phys x).
Proof.
  unfold f_items. cbn [List.length]. rewrite f_phys_length.
  assert (H : forall ls k, List.length (fcoms ign ls k) <= List.length ls).
  { induction ls as [|e r IH]; intros k; [cbn; lia|]. destruct e; cbn [fcoms List.length]; [specialize (IH (S k)); lia|].
    rewrite app_length. specialize (IH (S k)). destruct ign; cbn [List.length]; lia. }
  specialize (H (f_ls x) (S lc)). lia.
Qed.
Lemma file_items_length ign : forall xs lc, List.length (file_items ign xs lc) <= List.length (flat_map f_phys xs).
Proof.
  induction xs as [|x r IH]; intros lc; [cbn; lia|]. cbn [file_items flat_map]. rewrite !app_length.
  specialize (IH (lc + List.length (f_phys x))). pose proof (f_items_length ign x lc). lia.
Qed.

Theorem read_source_fixed ign x xs : Forall fgoods (x :: xs) ->
  read_source (flat_map f_phys (x :: xs)) false false ign = file_items ign (x :: xs) 0.
Proof.
  intros G. unfold read_source.
  set (lines := flat_map f_phys (x :: xs)).
  set (fuel := S (S (List.length (List.concat lines) + 2 * List.length lines))).
  assert (E : read_all fuel (rst0 lines false false ign) = read_all fuel (after ign lines 0 [])).
  { destruct fuel as [|f]; [reflexivity|]. cbn [read_all].
    assert (N : next_item (rst0 lines false false ign) = next_item (after ign lines 0 [])).
    { unfold lines. cbn [flat_map f_phys app after]. unfold next_item.
      inversion G as [|a b Gx _]; subst. destruct Gx as [_ [_ [SL [_ [NC _]]]]].
      cbn [r_src r_filo r_fifo fx rst0 List.length].
      replace (S (S (S (List.length (map fphys (f_ls x) ++ flat_map f_phys xs) + 1 + 0))))
        with (S (S (S (S (List.length (map fphys (f_ls x) ++ flat_map f_phys xs)) + 0 + 0)))) by lia.
      cbn [next_raw r_fifo fx rst0].
      change (mkRst (f_line x :: map fphys (f_ls x) ++ flat_map f_phys xs) [] 0 [] false false ign false)
        with (fx ign (f_line x :: map fphys (f_ls x) ++ flat_map f_phys xs) [] 0 []).
      rewrite (gsi_pushed_back ign (f_line x) _ 0 [] SL) by (rewrite NC; apply andb_false_r). reflexivity. }
    rewrite N. reflexivity. }
  rewrite E. unfold lines at 1. rewrite (read_fixed_file ign fuel (x :: xs) [] 0 G (Forall_nil _)); [reflexivity|].
  cbn [app]. pose proof (file_items_length ign (x :: xs) 0). unfold fuel. fold lines in H. lia.
Qed.
