(* From one item to the whole file: a free-form source made of any number of
     - one-line statements (optional label and construct name),
     - statements continued over any number of physical lines,
     - full-line comments (any indentation) and
     - empty lines,
   in any order, is delivered by repeated next() as exactly one item per statement, in order, with the
   exact first and last physical line numbers; comments and empty lines are delivered in place when
   comments are kept and are invisible when they are ignored; after the last item the reader reports
   the end of the input.  Any number of lines, no bound. *)
From Coq Require Import List Bool Arith Ascii String NArith Lia.
From FV Require Import SplitLine Text Reader ReaderLaws ReaderJoin ReaderItem ReaderJoinQ ReaderJoinG SemiLaws.
Import ListNotations.
Close Scope string_scope.


(* what may stand between the first and the last line of a continued statement: a middle piece
   b&p& , a comment line (any indentation), an empty line *)
Inductive celem := CMid (b p : text) | CCom (cl : text) | CBlank.
Definition phys_e (e : celem) : text :=
  match e with CMid b p => b ++ amp :: p ++ [amp] | CCom cl => cl | CBlank => [] end.
Definition egood (e : celem) : Prop :=
  match e with
  | CMid b p => blanks b /\ plain p
  | CCom cl => stripped cl /\ starts_with [bang] (lstrip cl) = true
  | CBlank => True
  end.
Definition etext (es : list celem) : text :=
  List.concat (map (fun e => match e with CMid _ p => p | _ => [] end) es).
Fixpoint ecoms (es : list celem) (lc : nat) : list ritem :=
  match es with
  | [] => []
  | CCom cl :: r => RComment (lstrip cl) lc lc false :: ecoms r (S lc)
  | _ :: r => ecoms r (S lc)
  end.

Inductive lay :=
| LOne (line : text) (lab : option N) (nm : option text) (p : text)
| LOneC (line : text) (lab : option N) (nm : option text) (p c : text)      (* ... with a trailing comment *)
| LCont (line : text) (lab : option N) (nm : option text) (p1 : text) (ms : list (text * text)) (bn pn : text)
| LContQ (line : text) (lab : option N) (nm : option text) (p1 : text) (q1 : option ascii)
         (ms : list (text * text * option ascii)) (bn pn : text)   (* ... in any character context *)
| LContC (line : text) (lab : option N) (nm : option text) (p1 : text) (es : list celem) (bn pn : text)
| LContG (line : text) (lab : option N) (nm : option text) (tl1 p1 b21 : text) (q1 : option ascii) (oc1 : option text)
         (es : list gelem) (bn pn tln : text) (ocn : option text)   (* ... every line may carry a trailing comment *)
| LSemi (line : text) (lab : option N) (nm : option text) (p1 : text) (rest : list text)
        (os : list (text * option N * option text))
| LCom (b c : text)
| LBlank.

(* the further statements of a ';'-joined line, as items *)
Definition mk_other (a b : nat) (o : text * option N * option text) : ritem :=
  RLine (fst (fst o)) (snd (fst o)) (snd o) a b.

Definition phys (l : lay) : list text :=
  match l with
  | LOne line _ _ _ => [line]
  | LOneC line _ _ _ _ => [line]
  | LCont line _ _ _ ms bn pn => line :: mids ms ++ [last_line bn pn]
  | LContQ line _ _ _ _ ms bn pn => line :: mids3 ms ++ [last_line bn pn]
  | LContC line _ _ _ es bn pn => line :: map phys_e es ++ [last_line bn pn]
  | LContG line _ _ _ _ _ _ _ es bn _ tln _ => line :: map phys_g es ++ [bn ++ amp :: tln]
  | LSemi line _ _ _ _ _ => [line]
  | LCom b c => [b ++ bang :: c]
  | LBlank => [[]]
  end.

Definition good (l : lay) : Prop :=
  match l with
  | LOne line lab nm p =>
      stripped line /\ line <> [] /\ starts_with ["#"%char] (lstrip line) = false /\
      (exists l1, extract_label line = (lab, l1) /\ extract_construct_name l1 = (nm, p)) /\
      plain p /\ strip p <> [] /\ mem_char ";"%char (strip p) = false
  | LOneC line lab nm p c =>
      stripped line /\ line <> [] /\ starts_with ["#"%char] (lstrip line) = false /\
      (exists l1, extract_label line = (lab, l1) /\ extract_construct_name l1 = (nm, p ++ bang :: c)) /\
      plain p /\ strip p <> [] /\ is_blank p = false /\ mem_char ";"%char (strip p) = false
  | LCont line lab nm p1 ms bn pn =>
      stripped line /\ line <> [] /\ starts_with ["#"%char] (lstrip line) = false /\
      (exists l1, extract_label line = (lab, l1) /\ extract_construct_name l1 = (nm, p1 ++ [amp])) /\
      plain p1 /\ mids_ok ms /\ blanks bn /\ plain pn /\ pn <> [] /\ negb (is_blank pn) = true /\
      stripped (last_line bn pn) /\
      strip (p1 ++ List.concat (map snd ms) ++ pn) <> [] /\
      mem_char ";"%char (strip (p1 ++ List.concat (map snd ms) ++ pn)) = false
  | LContQ line lab nm p1 q1 ms bn pn =>
      stripped line /\ line <> [] /\ starts_with ["#"%char] (lstrip line) = false /\
      (exists l1, extract_label line = (lab, l1) /\ extract_construct_name l1 = (nm, p1 ++ [amp])) /\
      amp_free p1 /\ nocom (p1 ++ [amp]) None q1 /\ chain_ok q1 ms bn pn /\
      blanks bn /\ amp_free pn /\ pn <> [] /\ negb (is_blank pn) = true /\ stripped (last_line bn pn) /\
      strip (p1 ++ texts3 ms ++ pn) <> [] /\
      mem_char ";"%char (strip (p1 ++ texts3 ms ++ pn)) = false
  | LContC line lab nm p1 es bn pn =>
      stripped line /\ line <> [] /\ starts_with ["#"%char] (lstrip line) = false /\
      (exists l1, extract_label line = (lab, l1) /\ extract_construct_name l1 = (nm, p1 ++ [amp])) /\
      plain p1 /\ Forall egood es /\ blanks bn /\ plain pn /\ pn <> [] /\ negb (is_blank pn) = true /\
      stripped (last_line bn pn) /\
      strip (p1 ++ etext es ++ pn) <> [] /\
      mem_char ";"%char (strip (p1 ++ etext es ++ pn)) = false
  | LContG line lab nm tl1 p1 b21 q1 oc1 es bn pn tln ocn =>
      stripped line /\ line <> [] /\ starts_with ["#"%char] (lstrip line) = false /\
      (exists l1, extract_label line = (lab, l1) /\ extract_construct_name l1 = (nm, tl1)) /\
      amp_free p1 /\ blanks b21 /\ hicr tl1 None (p1 ++ amp :: b21) q1 oc1 /\ chain_g q1 es bn pn tln ocn /\
      blanks bn /\ amp_free pn /\ pn <> [] /\ negb (is_blank pn) = true /\ stripped (bn ++ amp :: tln) /\
      strip (p1 ++ gtext es ++ pn) <> [] /\
      mem_char ";"%char (strip (p1 ++ gtext es ++ pn)) = false
  | LSemi line lab nm p1 rest os =>
      let body := join_semi (p1 :: rest) in
      stripped line /\ line <> [] /\ starts_with ["#"%char] (lstrip line) = false /\
      (exists l1, extract_label line = (lab, l1) /\ extract_construct_name l1 = (nm, body)) /\
      plain body /\ simple body /\ strip body = body /\ body <> [] /\ rest <> [] /\
      Forall (fun p => mem_char ";"%char p = false) (p1 :: rest) /\
      strip p1 <> [] /\ mem_char ";"%char (strip p1) = false /\
      (forall a b, other_parts rest a b = Some (map (mk_other a b) os)) /\
      Forall (fun o => mem_char ";"%char (fst (fst o)) = false) os /\
      List.length os <= List.length line
  | LCom b c => blanks b /\ stripped (b ++ bang :: c)
  | LBlank => True
  end.

Section File.
Variable ign : bool.

(* what get_source_item hands out for a layout element (the item it returns, then what it leaves in
   the queue: the comments met between the lines of a continued statement) *)
Definition rawp (l : lay) (lc : nat) : ritem * list ritem :=
  match l with
  | LOne _ lab nm p => (RLine (strip p) lab nm (S lc) (S lc), [])
  | LOneC _ lab nm p c => (RLine (strip p) lab nm (S lc) (S lc), [RComment (bang :: c) (S lc) (S lc) true])
  | LCont _ lab nm p1 ms _ pn =>
      (RLine (strip (p1 ++ List.concat (map snd ms) ++ pn)) lab nm (S lc) (S (S lc) + List.length ms), [])
  | LContQ _ lab nm p1 _ ms _ pn =>
      (RLine (strip (p1 ++ texts3 ms ++ pn)) lab nm (S lc) (S (S lc) + List.length ms), [])
  | LContC _ lab nm p1 es _ pn =>
      (RLine (strip (p1 ++ etext es ++ pn)) lab nm (S lc) (S (S lc) + List.length es), ecoms es (S (S lc)))
  | LContG _ lab nm _ p1 _ _ oc1 es _ pn _ ocn =>
      (RLine (strip (p1 ++ gtext es ++ pn)) lab nm (S lc) (S (S lc) + List.length es),
       cmtl oc1 (S lc) ++ gcoms es (S (S lc)) ++ cmtl ocn (S (S lc) + List.length es))
  | LSemi _ lab nm p1 rest _ => (RLine (join_semi (p1 :: rest)) lab nm (S lc) (S lc), [])
  | LCom _ c => (RComment (bang :: c) (S lc) (S lc) false, [])
  | LBlank => (RComment [] (S lc) (S lc) false, [])
  end.

(* ... and what next() makes of it: a line item holding several statements is cut at its ';' -- the
   first statement is handed out, the others are put at the front of the queue *)
Definition produced (l : lay) (lc : nat) : ritem * list ritem :=
  match l with
  | LSemi _ lab nm p1 _ os => (RLine (strip p1) lab nm (S lc) (S lc), map (mk_other (S lc) (S lc)) os)
  | _ => rawp l lc
  end.

(* ignored comments are dropped when they reach the front of the queue *)
Definition kept (it : ritem) : bool := match it with RComment _ _ _ _ => negb ign | _ => true end.
Definition keep (l : list ritem) : list ritem := filter kept l.

Definition item (l : lay) (lc : nat) : list ritem := keep (fst (produced l lc) :: snd (produced l lc)).

Fixpoint items (ls : list lay) (lc : nat) : list ritem :=
  match ls with
  | [] => []
  | l :: r => item l lc ++ items r (lc + List.length (phys l))
  end.

Notation stt := (st ign).

(* ---- the one-line statement *)
Lemma free_loop_one fuel endl p s : plain p ->
  free_loop (S fuel) false true [] None endl p s = (p, endl, s).
Proof.
  intros P. cbn [free_loop]. cbn [negb andb].
  destruct (plain_quiet p P) as [[Q1 [Q2 Q3]] Ap]. rewrite (hic_trivial _ _ Q1 Q2 Q3). cbn [push_opt].
  rewrite (rfind_none p Ap). reflexivity.
Qed.

Lemma gsi_one line lab nm p l1 src lc :
  stripped line -> line <> [] -> starts_with ["#"%char] (lstrip line) = false ->
  extract_label line = (lab, l1) -> extract_construct_name l1 = (nm, p) -> plain p -> strip p <> [] ->
  get_source_item (stt (line :: src) lc []) = (Some (RLine (strip p) lab nm (S lc) (S lc)), stt src (S lc) []).
Proof.
  intros SL NE NH EL EN P NS. unfold get_source_item. rewrite (gsl ign _ line lc [] SL).
  assert (X : (match line with [] => false | _ => true end) && starts_with ["#"%char] (lstrip line) = false)
    by (rewrite NH; apply andb_false_r).
  rewrite X. cbn [r_free st r_omp r_linecount]. unfold free_item. rewrite EL, EN. cbn [r_linecount st].
  cbn [r_src r_filo st List.length]. rewrite free_loop_one by exact P.
  destruct (strip p) as [|c t] eqn:ST; [contradiction|]. reflexivity.
Qed.

(* ---- the one-line statement with a trailing comment *)
Lemma hic_trailing p c n : plain p -> is_blank p = false ->
  handle_inline_comment (p ++ bang :: c) n None = (p, None, Some (RComment (bang :: c) n n true)).
Proof.
  intros P NB. unfold handle_inline_comment.
  assert (M : mem_char bang (p ++ bang :: c) = true).
  { rewrite mem_char_app. unfold mem_char at 2. cbn [existsb]. rewrite aeqb_refl. cbn. apply orb_true_r. }
  rewrite M. cbn [negb andb].
  destruct (plain_quiet p P) as [[Q1 [Q2 Q3]] _].
  rewrite (find_char_app_not bang p (bang :: c) Q1), find_char_head. cbn [option_map]. rewrite Nat.add_0_r.
  rewrite firstn_app_exact, skipn_app_exact. rewrite Q2, Q3. cbn [negb andb]. rewrite NB. reflexivity.
Qed.

Lemma hicr_trailing p c : plain p -> is_blank p = false -> hicr (p ++ bang :: c) None p None (Some (bang :: c)).
Proof. intros P NB n. apply hic_trailing; assumption. Qed.

Lemma gsi_onec line lab nm p c l1 src lc :
  stripped line -> line <> [] -> starts_with ["#"%char] (lstrip line) = false ->
  extract_label line = (lab, l1) -> extract_construct_name l1 = (nm, p ++ bang :: c) -> plain p -> strip p <> [] ->
  is_blank p = false ->
  get_source_item (stt (line :: src) lc [])
  = (Some (RLine (strip p) lab nm (S lc) (S lc)), stt src (S lc) [RComment (bang :: c) (S lc) (S lc) true]).
Proof.
  intros SL NE NH EL EN P NS NB. unfold get_source_item. rewrite (gsl ign _ line lc [] SL).
  assert (X : (match line with [] => false | _ => true end) && starts_with ["#"%char] (lstrip line) = false)
    by (rewrite NH; apply andb_false_r).
  rewrite X. cbn [r_free st r_omp r_linecount]. unfold free_item. rewrite EL, EN. cbn [r_linecount st].
  cbn [r_src r_filo st List.length].
  match goal with |- context [free_loop (S ?f) false true] => generalize f; intros fuel end.
  cbn [free_loop]. cbn [negb andb r_linecount st]. rewrite (hic_trailing p c (S lc) P NB). cbn [push_opt r_fifo st app].
  destruct (plain_quiet p P) as [_ Ap]. rewrite (rfind_none p Ap).
  destruct (strip p) as [|c0 t] eqn:ST; [contradiction|]. reflexivity.
Qed.

(* ---- a full-line comment *)
Lemma lstrip_blanks_bang b r : blanks b -> lstrip (b ++ bang :: r) = bang :: r.
Proof.
  unfold blanks. induction b as [|x t IH]; cbn; intros H; [reflexivity|].
  apply andb_true_iff in H as [H1 H2]. apply aeqb_eq in H1. subst. cbn. apply IH. exact H2.
Qed.

Lemma length_lstrip_le l : List.length (lstrip l) <= List.length l.
Proof. induction l as [|c r IH]; cbn; [lia|]. destruct (is_space c); cbn; lia. Qed.

Lemma extract_label_bang b c : blanks b -> extract_label (b ++ bang :: c) = (None, b ++ bang :: c).
Proof. intros B. unfold extract_label. rewrite (lstrip_blanks_bang b c B). reflexivity. Qed.
Lemma extract_name_bang b c : blanks b -> extract_construct_name (b ++ bang :: c) = (None, b ++ bang :: c).
Proof. intros B. unfold extract_construct_name. rewrite (lstrip_blanks_bang b c B). reflexivity. Qed.

Lemma blanks_strip b : blanks b -> strip b = [].
Proof.
  intros B. unfold strip, rstrip.
  assert (R : forall t, blanks t -> lstrip t = []).
  { intros t. unfold blanks. induction t as [|x r IH]; cbn; [reflexivity|]. intros H.
    apply andb_true_iff in H as [H1 H2]. apply aeqb_eq in H1. subst. cbn. apply IH. exact H2. }
  assert (RB : blanks (rev b)).
  { unfold blanks in *. rewrite forallb_forall in *. intros x Hx. apply B. now apply in_rev. }
  rewrite (R _ RB). reflexivity.
Qed.

Lemma hic_comment b c n : blanks b ->
  handle_inline_comment (b ++ bang :: c) n None = (b, None, Some (RComment (bang :: c) n n false)).
Proof.
  intros B. unfold handle_inline_comment.
  assert (M : mem_char bang (b ++ bang :: c) = true).
  { rewrite mem_char_app. unfold mem_char at 2. cbn [existsb]. rewrite aeqb_refl. cbn. apply orb_true_r. }
  rewrite M. cbn [negb andb].
  assert (NB : mem_char bang b = false) by (apply blanks_no; [exact B|reflexivity]).
  rewrite (find_char_app_not bang b (bang :: c) NB), find_char_head. cbn [option_map]. rewrite Nat.add_0_r.
  rewrite firstn_app_exact, skipn_app_exact.
  rewrite (blanks_no dquote b B eq_refl), (blanks_no squote b B eq_refl). cbn [negb andb].
  rewrite (blanks_is_blank b B). reflexivity.
Qed.

Lemma free_loop_comment fuel endl b c src n : blanks b ->
  free_loop (S fuel) false true [] None endl (b ++ bang :: c) (stt src n [])
  = (b, endl, stt src n [RComment (bang :: c) n n false]).
Proof.
  intros B. cbn [free_loop]. cbn [negb andb]. cbn [r_linecount st].
  rewrite (hic_comment b c n B). cbn [push_opt r_fifo st app].
  assert (NA : mem_char amp b = false) by (apply blanks_no; [exact B|reflexivity]).
  rewrite (rfind_none b NA). reflexivity.
Qed.

Lemma gsi_comment b c src lc : blanks b -> stripped (b ++ bang :: c) ->
  get_source_item (stt ((b ++ bang :: c) :: src) lc [])
  = (Some (RComment (bang :: c) (S lc) (S lc) false), stt src (S lc) []).
Proof.
  intros B SL. unfold get_source_item. rewrite (gsl ign _ _ lc [] SL).
  assert (X : (match b ++ bang :: c with [] => false | _ => true end)
              && starts_with ["#"%char] (lstrip (b ++ bang :: c)) = false).
  { rewrite (lstrip_blanks_bang b c B). cbn. apply andb_false_r. }
  rewrite X. cbn [r_free st r_omp r_linecount]. unfold free_item.
  rewrite (extract_label_bang b c B), (extract_name_bang b c B).
  cbn [r_src r_filo st List.length r_linecount].
  rewrite (free_loop_comment _ (S lc) b c src (S lc) B). rewrite (blanks_strip b B). reflexivity.
Qed.

(* ---- an empty line *)
Lemma gsi_blank src lc :
  get_source_item (stt ([] :: src) lc []) = (Some (RComment [] (S lc) (S lc) false), stt src (S lc) []).
Proof. unfold get_source_item. rewrite (gsl ign _ [] lc [] eq_refl). reflexivity. Qed.

(* ---- the end of the input *)
Lemma gsi_end lc : get_source_item (stt [] lc []) = (None, stt [] lc []).
Proof. reflexivity. Qed.

(* ---- a continued statement with comment and empty lines between its lines *)
Lemma phys_es_stripped es bn pn : Forall egood es -> stripped (last_line bn pn) ->
  Forall stripped (map phys_e es ++ [last_line bn pn]).
Proof.
  intros G SL. apply Forall_app. split; [|constructor; [exact SL|constructor]].
  induction G as [|e r Ge Gr IH]; [constructor|]. cbn [map]. constructor; [|exact IH].
  destruct e as [b p|cl|]; cbn [phys_e egood] in *.
  - unfold stripped. replace (b ++ amp :: p ++ [amp]) with ((b ++ amp :: p) ++ [amp]) by (now rewrite <- app_assoc).
    apply rstrip_amp.
  - apply Ge.
  - reflexivity.
Qed.

Lemma join_es bn pn : blanks bn -> plain pn -> pn <> [] -> negb (is_blank pn) = true -> stripped (last_line bn pn) ->
  forall es fuel acc endl lc fifo src l0 rest,
  map phys_e es ++ [last_line bn pn] = l0 :: rest -> Forall egood es -> List.length es < fuel ->
  free_loop (S fuel) false false acc None endl l0 (stt (rest ++ src) lc fifo)
  = (acc ++ etext es ++ pn, lc + List.length es, stt src (lc + List.length es) (fifo ++ ecoms es lc)).
Proof.
  intros Bn Pn NE NB SL. induction es as [|e r IH]; intros fuel acc endl lc fifo src l0 rest EQ G LT.
  - cbn [map app] in EQ. inversion EQ; subst. cbn [app etext map List.concat List.length ecoms].
    rewrite (step_last ign src fuel acc endl bn pn lc fifo Bn Pn NE NB). now rewrite !app_nil_r, Nat.add_0_r.
  - inversion G as [|x y Ge Gr]; subst. cbn [map app] in EQ. inversion EQ; subst. clear EQ.
    pose proof (phys_es_stripped r bn pn Gr SL) as ST.
    destruct (map phys_e r ++ [last_line bn pn]) as [|l1 rest1] eqn:E1; [destruct r; discriminate|].
    inversion ST as [|x y S1 _]; subst. cbn [app].
    destruct fuel as [|f]; [cbn in LT; lia|].
    destruct e as [b p|cl|]; cbn [phys_e egood] in *.
    + destruct Ge as [Bb Pp]. rewrite (step_cont ign (S f) acc endl b p l1 (rest1 ++ src) lc fifo Bb Pp S1).
      rewrite (IH f (acc ++ p) lc (S lc) fifo src l1 rest1 eq_refl Gr) by (cbn in LT; lia).
      cbn [etext map List.concat List.length ecoms]. rewrite <- !app_assoc.
      replace (S lc + List.length r) with (lc + S (List.length r)) by lia. reflexivity.
    + destruct Ge as [Sc Hc]. rewrite (skip_comment_line ign (S f) acc None endl cl l1 (rest1 ++ src) lc fifo Hc S1).
      rewrite (IH f acc endl (S lc) _ src l1 rest1 eq_refl Gr) by (cbn in LT; lia).
      cbn [etext map List.concat List.length ecoms app]. rewrite <- app_assoc.
      replace (S lc + List.length r) with (lc + S (List.length r)) by lia. reflexivity.
    + rewrite (skip_blank_line ign (S f) acc None endl [] l1 (rest1 ++ src) lc fifo eq_refl S1).
      rewrite (IH f acc endl (S lc) fifo src l1 rest1 eq_refl Gr) by (cbn in LT; lia).
      cbn [etext map List.concat List.length ecoms app].
      replace (S lc + List.length r) with (lc + S (List.length r)) by lia. reflexivity.
Qed.

Lemma gsi_contc line lab l1 nm p1 es bn pn src lc :
  stripped line -> line <> [] -> starts_with ["#"%char] (lstrip line) = false ->
  extract_label line = (lab, l1) -> extract_construct_name l1 = (nm, p1 ++ [amp]) ->
  plain p1 -> Forall egood es -> blanks bn -> plain pn -> pn <> [] -> negb (is_blank pn) = true ->
  stripped (last_line bn pn) -> strip (p1 ++ etext es ++ pn) <> [] ->
  get_source_item (stt (line :: map phys_e es ++ last_line bn pn :: src) lc [])
  = (Some (RLine (strip (p1 ++ etext es ++ pn)) lab nm (S lc) (S (S lc) + List.length es)),
     stt src (S (S lc) + List.length es) (ecoms es (S (S lc)))).
Proof.
  intros SLn NEl NH EL EN P1 G Bn Pn PNE NB SLL NS.
  unfold get_source_item. rewrite (gsl ign _ line lc [] SLn).
  assert (X : (match line with [] => false | _ => true end) && starts_with ["#"%char] (lstrip line) = false)
    by (rewrite NH; apply andb_false_r).
  rewrite X. cbn [r_free st r_omp r_linecount]. unfold free_item. rewrite EL, EN. cbn [r_linecount st].
  cbn [r_src r_filo st List.length].
  pose proof (phys_es_stripped es bn pn G SLL) as ST.
  destruct (map phys_e es ++ [last_line bn pn]) as [|l0 rest] eqn:E0; [destruct es; discriminate|].
  inversion ST as [|x y S0 _]; subst.
  replace (map phys_e es ++ last_line bn pn :: src) with ((l0 :: rest) ++ src)
    by (rewrite <- E0, <- app_assoc; reflexivity).
  cbn [app List.length].
  match goal with |- context [free_loop (S ?f) false true] =>
    rewrite (step_first ign f (S lc) p1 l0 (rest ++ src) (S lc) [] P1 S0) end.
  match goal with |- context [free_loop ?f false false] => destruct f as [|f'] eqn:EF; [lia|] end.
  rewrite (join_es bn pn Bn Pn PNE NB SLL es f' p1 (S lc) (S (S lc)) [] src l0 rest E0 G).
  - cbn [app]. destruct (strip (p1 ++ etext es ++ pn)) as [|c t] eqn:STp; [contradiction|]. reflexivity.
  - assert (LL : List.length (l0 :: rest) = S (List.length es)).
    { rewrite <- E0, app_length, map_length. cbn. lia. }
    cbn [List.length] in LL. rewrite app_length in EF. lia.
Qed.

(* ---- one layout element *)
Lemma phys_length_pos l : 0 < List.length (phys l).
Proof. destruct l; cbn; lia. Qed.

Lemma gsi_lay l rest lc : good l ->
  get_source_item (stt (phys l ++ rest) lc [])
  = (Some (fst (rawp l lc)), stt rest (lc + List.length (phys l)) (snd (rawp l lc))).
Proof.
  destruct l as [line lab nm p|line lab nm p cm|line lab nm p1 ms bn pn|line lab nm p1 q1 ms bn pn|line lab nm p1 es bn pn|line lab nm tl1 p1 b21 q1 oc1 es bn pn tln ocn|line lab nm p1 rs os|b c|];
    cbn [good phys rawp fst snd].
  - intros [SL [NE [NH [[l1 [EL EN]] [P [NS SEMI]]]]]]. cbn [app List.length]. rewrite Nat.add_1_r.
    apply (gsi_one line lab nm p l1 rest lc SL NE NH EL EN P NS).
  - intros [SL [NE [NH [[l1 [EL EN]] [P [NS [NB SEMI]]]]]]]. cbn [app List.length]. rewrite Nat.add_1_r.
    apply (gsi_onec line lab nm p cm l1 rest lc SL NE NH EL EN P NS NB).
  - intros [SL [NE [NH [[l1 [EL EN]] [P1 [OK [Bn [Pn [PNE [NB [SLL [NS SEMI]]]]]]]]]]]].
    cbn [app List.length]. rewrite <- app_assoc. cbn [app].
    rewrite (item_of_continued_statement ign line lab l1 nm p1 ms bn pn rest lc [] SL NE NH EL EN P1 OK Bn Pn PNE NB SLL NS).
    f_equal. f_equal. rewrite app_length, mids_length. cbn [List.length]. lia.
  - intros [SL [NE [NH [[l1 [EL EN]] [Ap1 [NC1 [CH [Bn [Apn [PNE [NB [SLL [NS SEMI]]]]]]]]]]]]].
    cbn [app List.length]. rewrite <- app_assoc. cbn [app].
    rewrite (item_of_continued_statement_q ign line lab l1 nm p1 q1 ms bn pn rest lc [] SL NE NH EL EN Ap1 NC1 CH Bn Apn PNE NB SLL NS).
    f_equal. f_equal. rewrite app_length, mids3_length. cbn [List.length]. lia.
  - intros [SL [NE [NH [[l1 [EL EN]] [P1 [G [Bn [Pn [PNE [NB [SLL [NS SEMI]]]]]]]]]]]].
    cbn [app List.length]. rewrite <- app_assoc. cbn [app].
    rewrite (gsi_contc line lab l1 nm p1 es bn pn rest lc SL NE NH EL EN P1 G Bn Pn PNE NB SLL NS).
    f_equal. f_equal. rewrite app_length, map_length. cbn [List.length]. lia.
  - intros [SL [NE [NH [[l1 [EL EN]] [Ap1 [B21 [NC1 [CH [Bn [Apn [PNE [NB [SLL [NS SEMI]]]]]]]]]]]]]].
    cbn [app List.length]. rewrite <- app_assoc. cbn [app].
    etransitivity; [exact (item_of_continued_statement_g ign line lab l1 nm tl1 p1 b21 q1 oc1 es bn pn tln ocn rest lc []
               SL NE NH EL EN Ap1 B21 NC1 CH Bn Apn PNE NB SLL NS)|].
    f_equal. f_equal. rewrite app_length, map_length. cbn [List.length]. lia.
  - cbv zeta. intros [SL [NE [NH [[l1 [EL EN]] [P [SI [SB [BNE _]]]]]]]]. cbn [app List.length]. rewrite Nat.add_1_r.
    rewrite <- SB at 1. apply (gsi_one line lab nm _ l1 rest lc SL NE NH EL EN P). now rewrite SB.
  - intros [B SL]. cbn [app List.length]. rewrite Nat.add_1_r. apply (gsi_comment b c rest lc B SL).
  - intros _. cbn [app List.length]. rewrite Nat.add_1_r. apply gsi_blank.
Qed.

Definition is_comment_item (it : ritem) : bool := match it with RComment _ _ _ _ => true | _ => false end.

(* items waiting in the queue: comments, and statement items without ';' *)
Definition pend_ok (it : ritem) : Prop :=
  match it with RLine t _ _ _ _ => mem_char ";"%char t = false | RCpp _ _ _ => False | RComment _ _ _ _ => True end.

(* what next() makes of the item get_source_item returned: cut at ';' *)
Definition split_ok (ri : ritem) (rq : list ritem) (pi : ritem) (pq : list ritem) : Prop :=
  match ri with
  | RLine t lab nm a b => forall src n, split_item t lab nm a b ri (stt src n rq) = (Some pi, stt src n pq)
  | RComment _ _ _ _ => pi = ri /\ pq = rq
  | RCpp _ _ _ => False
  end.

Lemma split_ok_plain it q : pend_ok it -> split_ok it q it q.
Proof.
  destruct it as [t lab nm a b|t a b il|t a b]; cbn [pend_ok split_ok]; [|auto|auto].
  intros D src n. unfold split_item. rewrite (semi_split_none _ D). reflexivity.
Qed.

Lemma ecoms_pend es lc : Forall pend_ok (ecoms es lc).
Proof. revert lc. induction es as [|e r IH]; intros lc; [constructor|]. destruct e; cbn [ecoms]; try apply IH. constructor; [exact I|apply IH]. Qed.

Lemma cmtl_pend oc n : Forall pend_ok (cmtl oc n).
Proof. destruct oc; cbn [cmtl]; [constructor; [exact I|constructor]|constructor]. Qed.
Lemma gcoms_pend es lc : Forall pend_ok (gcoms es lc).
Proof.
  revert lc. induction es as [|e r IH]; intros lc; [constructor|]. destruct e; cbn [gcoms]; try apply IH.
  - apply Forall_app; split; [apply cmtl_pend|apply IH].
  - constructor; [exact I|apply IH].
Qed.

Lemma others_pend a b os : Forall (fun o => mem_char ";"%char (fst (fst o)) = false) os ->
  Forall pend_ok (map (mk_other a b) os).
Proof. induction 1 as [|o r H F IH]; cbn [map]; constructor; [exact H|exact IH]. Qed.

Lemma split_lay l lc : good l ->
  split_ok (fst (rawp l lc)) (snd (rawp l lc)) (fst (produced l lc)) (snd (produced l lc))
  /\ pend_ok (fst (produced l lc)) /\ Forall pend_ok (snd (produced l lc))
  /\ kept (fst (produced l lc)) = kept (fst (rawp l lc)).
Proof.
  destruct l as [line lab nm p|line lab nm p cm|line lab nm p1 ms bn pn|line lab nm p1 q1 ms bn pn|line lab nm p1 es bn pn|line lab nm tl1 p1 b21 q1 oc1 es bn pn tln ocn|line lab nm p1 rs os|b c|];
    cbn [good rawp produced fst snd].
  - intros [_ [_ [_ [_ [_ [_ SEMI]]]]]]. repeat split; [apply split_ok_plain; exact SEMI|exact SEMI|constructor].
  - intros [_ [_ [_ [_ [_ [_ [_ SEMI]]]]]]]. repeat split; [apply split_ok_plain; exact SEMI|exact SEMI|].
    constructor; [exact I|constructor].
  - intros [_ [_ [_ [_ [_ [_ [_ [_ [_ [_ [_ [_ SEMI]]]]]]]]]]]].
    repeat split; [apply split_ok_plain; exact SEMI|exact SEMI|constructor].
  - intros [_ [_ [_ [_ [_ [_ [_ [_ [_ [_ [_ [_ [_ SEMI]]]]]]]]]]]]].
    repeat split; [apply split_ok_plain; exact SEMI|exact SEMI|constructor].
  - intros [_ [_ [_ [_ [_ [_ [_ [_ [_ [_ [_ [_ SEMI]]]]]]]]]]]].
    repeat split; [apply split_ok_plain; exact SEMI|exact SEMI|apply ecoms_pend].
  - intros [_ [_ [_ [_ [_ [_ [_ [_ [_ [_ [_ [_ [_ [_ SEMI]]]]]]]]]]]]]].
    repeat split; [apply split_ok_plain; exact SEMI|exact SEMI|].
    apply Forall_app; split; [apply cmtl_pend|apply Forall_app; split; [apply gcoms_pend|apply cmtl_pend]].
  - cbv zeta. intros [_ [_ [_ [_ [_ [SI [_ [_ [RNE [NOS [SP1 [SEM1 [OP [OSF _]]]]]]]]]]]]]].
    repeat split; [|exact SEM1|apply others_pend; exact OSF].
    cbn [split_ok]. intros src n. unfold split_item.
    rewrite (semi_split_join (p1 :: rs) ltac:(discriminate) NOS SI).
    destruct rs as [|r0 rs']; [contradiction|].
    destruct (strip p1) as [|c0 t0] eqn:E; [contradiction|].
    rewrite (OP (S lc) (S lc)). cbn [r_fifo st]. rewrite app_nil_r. reflexivity.
  - intros _. repeat split; constructor.
  - intros _. repeat split; constructor.
Qed.

Lemma ecoms_length es : forall k, List.length (ecoms es k) <= List.length es.
Proof.
  induction es as [|e r IH]; intros k; [cbn; lia|].
  destruct e; cbn [ecoms List.length]; specialize (IH (S k)); lia.
Qed.
Lemma cmtl_length oc n : List.length (cmtl oc n) <= 1.
Proof. destruct oc; cbn; lia. Qed.
Lemma gcoms_length es : forall k, List.length (gcoms es k) <= List.length es.
Proof.
  induction es as [|e r IH]; intros k; [cbn; lia|].
  destruct e as [b p b2 tl oc qo|cl|]; cbn [gcoms List.length]; specialize (IH (S k)); [|lia|lia].
  rewrite app_length. pose proof (cmtl_length oc k). lia.
Qed.
Lemma raw_queue_of_comment l lc : is_comment_item (fst (rawp l lc)) = true -> snd (rawp l lc) = [].
Proof. destruct l; cbn [rawp fst snd is_comment_item]; intros H; try discriminate; reflexivity. Qed.

(* ---- the next delivered item, from a queue of pending items and a list of layout elements:
        (what get_source_item / the queue hands to next(), what next() hands out, the rest) *)
Fixpoint first_pend (pend : list ritem) : option (ritem * list ritem) :=
  match pend with
  | [] => None
  | it :: r => if kept it then Some (it, r) else first_pend r
  end.

Definition nxt := (ritem * list ritem * ritem * list ritem * list lay * nat)%type.

Fixpoint first_lay (ls : list lay) (lc : nat) : option nxt :=
  match ls with
  | [] => None
  | l :: r =>
      let lc' := lc + List.length (phys l) in
      if kept (fst (rawp l lc)) then
        Some (fst (rawp l lc), snd (rawp l lc), fst (produced l lc), snd (produced l lc), r, lc')
      else match first_pend (snd (rawp l lc)) with
           | Some (it, q) => Some (it, q, it, q, r, lc')
           | None => first_lay r lc'
           end
  end.

Definition first_gen (pend : list ritem) (ls : list lay) (lc : nat) : option nxt :=
  match first_pend pend with
  | Some (it, q) => Some (it, q, it, q, ls, lc)
  | None => first_lay ls lc
  end.

Fixpoint end_count (ls : list lay) (lc : nat) : nat :=
  match ls with [] => lc | l :: r => end_count r (lc + List.length (phys l)) end.

Lemma next_raw_pend : forall pend fuel src lc, List.length pend < fuel ->
  match first_pend pend with
  | Some (it, q) => next_raw fuel (stt src lc pend) = (Some it, stt src lc q)
  | None => exists f, next_raw fuel (stt src lc pend) = next_raw f (stt src lc []) /\ fuel = f + List.length pend
  end.
Proof.
  induction pend as [|it r IH]; intros fuel src lc LT; cbn [first_pend].
  - exists fuel. split; [reflexivity|cbn; lia].
  - destruct fuel as [|f]; [cbn in LT; lia|]. cbn [next_raw r_fifo st].
    change (upd_fifo r (stt src lc (it :: r))) with (stt src lc r).
    destruct it as [t lab nm a b|t a b il|t a b]; cbn [kept].
    + reflexivity.
    + cbn [r_ign st]. destruct ign; cbn [negb].
      * specialize (IH f src lc ltac:(cbn in LT; lia)). destruct (first_pend r) as [[it' q]|]; [exact IH|].
        destruct IH as [f' [E1 E2]]. exists f'. split; [exact E1|cbn; lia].
      * reflexivity.
    + reflexivity.
Qed.

Lemma next_raw_gen : forall ls pend lc fuel, Forall good ls ->
  List.length pend + List.length ls < fuel ->
  next_raw fuel (stt (flat_map phys ls) lc pend) =
  match first_gen pend ls lc with
  | Some (ri, rq, _, _, r, lc') => (Some ri, stt (flat_map phys r) lc' rq)
  | None => (None, stt [] (end_count ls lc) [])
  end.
Proof.
  induction ls as [|l r IH]; intros pend lc fuel G LT; unfold first_gen.
  - cbn [flat_map]. pose proof (next_raw_pend pend fuel [] lc ltac:(cbn in LT; lia)) as NP.
    destruct (first_pend pend) as [[it q]|]; [exact NP|]. destruct NP as [f [E1 E2]]. rewrite E1.
    destruct f as [|f]; [cbn in LT; lia|]. cbn [flat_map first_lay end_count next_raw r_fifo st]. rewrite gsi_end. reflexivity.
  - inversion G as [|x y Gl Gr]; subst.
    pose proof (next_raw_pend pend fuel (flat_map phys (l :: r)) lc ltac:(cbn in LT; lia)) as NP.
    destruct (first_pend pend) as [[it q]|]; [exact NP|]. destruct NP as [f [E1 E2]]. rewrite E1.
    destruct f as [|f]; [cbn in LT; lia|]. cbn [flat_map next_raw r_fifo st].
    rewrite (gsi_lay l (flat_map phys r) lc Gl). cbn [first_lay end_count].
    set (main := fst (rawp l lc)). set (q0 := snd (rawp l lc)). set (lc' := lc + List.length (phys l)).
    specialize (IH q0 lc' f Gr).
    destruct main as [t lab nm a b|t a b il|t a b] eqn:EM; cbn [kept].
    + reflexivity.
    + cbn [r_ign st]. destruct ign; cbn [negb]; [|reflexivity].
      rewrite IH.
      * unfold first_gen. destruct (first_pend q0) as [[it' q']|]; reflexivity.
      * assert (LQ : q0 = []) by (unfold q0; apply raw_queue_of_comment; fold main; rewrite EM; reflexivity).
        rewrite LQ. cbn [List.length] in *. lia.
    + reflexivity.
Qed.

Lemma first_pend_spec pend : Forall pend_ok pend ->
  match first_pend pend with
  | None => keep pend = []
  | Some (it, q) => keep pend = it :: keep q /\ Forall pend_ok q /\ pend_ok it
  end.
Proof.
  induction 1 as [|it r P F IH]; [reflexivity|]. cbn [first_pend keep filter].
  destruct (kept it) eqn:K.
  - repeat split; auto.
  - fold (keep r). destruct (first_pend r) as [[it' q]|]; exact IH.
Qed.

Lemma first_lay_spec : forall ls lc, Forall good ls ->
  match first_lay ls lc with
  | None => items ls lc = []
  | Some (ri, rq, pi, pq, r, lc') =>
      split_ok ri rq pi pq /\ items ls lc = pi :: keep pq ++ items r lc' /\ Forall pend_ok pq /\ Forall good r
  end.
Proof.
  induction ls as [|l r IH]; intros lc G; [reflexivity|]. inversion G as [|x y Gl Gr]; subst.
  cbn [first_lay items]. unfold item.
  destruct (split_lay l lc Gl) as [SO [P1 [P2 KK]]].
  destruct (kept (fst (rawp l lc))) eqn:K.
  - split; [exact SO|]. cbn [keep filter]. rewrite KK. cbn [app]. repeat split; auto.
  - (* an ignored comment: nothing is cut, the queue is the raw queue *)
    assert (PR : produced l lc = rawp l lc).
    { destruct l; try reflexivity. cbn [rawp fst kept] in K. discriminate. }
    rewrite PR in *. cbn [keep filter]. rewrite K. fold (keep (snd (rawp l lc))).
    pose proof (first_pend_spec (snd (rawp l lc)) P2) as FP.
    destruct (first_pend (snd (rawp l lc))) as [[it q]|].
    + destruct FP as [E [Fq Pi]]. rewrite E. cbn [app]. split; [apply split_ok_plain; exact Pi|]. repeat split; auto.
    + rewrite FP. cbn [app]. apply IH. exact Gr.
Qed.

Lemma first_gen_spec pend ls lc : Forall pend_ok pend -> Forall good ls ->
  match first_gen pend ls lc with
  | None => keep pend ++ items ls lc = []
  | Some (ri, rq, pi, pq, r, lc') =>
      split_ok ri rq pi pq /\ keep pend ++ items ls lc = pi :: keep pq ++ items r lc' /\ Forall pend_ok pq /\ Forall good r
  end.
Proof.
  intros FP G. unfold first_gen. pose proof (first_pend_spec pend FP) as S1.
  destruct (first_pend pend) as [[it q]|].
  - destruct S1 as [E [Fq Pi]]. rewrite E. cbn [app]. split; [apply split_ok_plain; exact Pi|]. repeat split; auto.
  - rewrite S1. cbn [app]. apply first_lay_spec. exact G.
Qed.

Lemma phys_length_pos' l : 0 < List.length (phys l).
Proof. destruct l; cbn; lia. Qed.
Lemma flat_map_phys_length ls : List.length ls <= List.length (flat_map phys ls).
Proof.
  induction ls as [|l r IH]; [reflexivity|]. cbn [flat_map List.length]. rewrite app_length.
  pose proof (phys_length_pos' l). lia.
Qed.

Lemma next_item_gen ls pend lc : Forall pend_ok pend -> Forall good ls ->
  next_item (stt (flat_map phys ls) lc pend) =
  match first_gen pend ls lc with
  | Some (_, _, pi, pq, r, lc') => (Some pi, stt (flat_map phys r) lc' pq)
  | None => (None, stt [] (end_count ls lc) [])
  end.
Proof.
  intros FP G. unfold next_item. cbn [r_src r_filo r_fifo st List.length].
  rewrite (next_raw_gen ls pend lc _ G) by (pose proof (flat_map_phys_length ls); lia).
  pose proof (first_gen_spec pend ls lc FP G) as SP.
  destruct (first_gen pend ls lc) as [[[[[[ri rq] pi] pq] r] lc']|]; [|reflexivity].
  destruct SP as [SO _]. destruct ri as [t lab nm a b|t a b il|t a b]; cbn [split_ok] in SO.
  - apply SO.
  - destruct SO as [-> ->]. reflexivity.
  - contradiction.
Qed.

(* ---- the whole file, from any line count and with any queue of pending items *)
Theorem read_all_layouts : forall fuel ls pend lc, Forall pend_ok pend -> Forall good ls ->
  List.length (keep pend ++ items ls lc) < fuel ->
  read_all fuel (stt (flat_map phys ls) lc pend) = keep pend ++ items ls lc.
Proof.
  induction fuel as [|f IH]; intros ls pend lc FP G LT; [lia|].
  cbn [read_all]. rewrite (next_item_gen ls pend lc FP G).
  pose proof (first_gen_spec pend ls lc FP G) as SP.
  destruct (first_gen pend ls lc) as [[[[[[ri rq] pi] pq] r] lc']|].
  - destruct SP as [_ [A [B C]]]. rewrite A. f_equal. apply IH; [exact B|exact C|]. rewrite A in LT. cbn in LT. lia.
  - now rewrite SP.
Qed.

Lemma keep_length l : List.length (keep l) <= List.length l.
Proof. induction l as [|x r IH]; [reflexivity|]. cbn [keep filter]. fold (keep r). destruct (kept x); cbn; lia. Qed.

(* no more items than characters and lines *)
Lemma item_length l lc : good l -> List.length (item l lc) <= List.length (List.concat (phys l)) + List.length (phys l).
Proof.
  intros G. unfold item. pose proof (keep_length (fst (produced l lc) :: snd (produced l lc))) as K. cbn [List.length] in K.
  destruct l as [line lab nm p|line lab nm p cm|line lab nm p1 ms bn pn|line lab nm p1 q1 ms bn pn|line lab nm p1 es bn pn|line lab nm tl1 p1 b21 q1 oc1 es bn pn tln ocn|line lab nm p1 rs os|b c|];
    cbn [produced rawp snd phys List.length] in *; try lia.
  - destruct G as [_ [NE _]]. cbn [List.concat]. rewrite app_nil_r. destruct line; [contradiction|cbn [List.length] in *; lia].
  - rewrite app_length, map_length in *. cbn [List.length] in *. pose proof (ecoms_length es (S (S lc))). lia.
  - rewrite !app_length, map_length in *. cbn [List.length] in *. pose proof (gcoms_length es (S (S lc))).
    pose proof (cmtl_length oc1 (S lc)). pose proof (cmtl_length ocn (S (S lc) + List.length es)).
    destruct G as [_ [NE _]]. cbn [List.concat]. rewrite app_length. destruct line; [contradiction|cbn [List.length] in *; lia].
  - cbv zeta in G. destruct G as [_ [_ [_ [_ [_ [_ [_ [_ [_ [_ [_ [_ [_ [_ LO]]]]]]]]]]]]]].
    rewrite map_length in K. cbn [List.concat]. rewrite app_nil_r. lia.
Qed.

Lemma items_length : forall ls lc, Forall good ls ->
  List.length (items ls lc) <= List.length (List.concat (flat_map phys ls)) + List.length (flat_map phys ls).
Proof.
  induction ls as [|l r IH]; intros lc G; [cbn; lia|]. inversion G as [|x y Gl Gr]; subst.
  cbn [items flat_map]. rewrite concat_app, !app_length.
  specialize (IH (lc + List.length (phys l)) Gr). pose proof (item_length l lc Gl). lia.
Qed.

Lemma end_count_total ls lc : end_count ls lc = lc + List.length (flat_map phys ls).
Proof.
  revert lc. induction ls as [|l r IH]; intros lc; cbn [end_count flat_map List.length]; [lia|].
  rewrite IH, app_length. lia.
Qed.

End File.

(* ---- the public entry point *)
Theorem read_source_layouts ign ls : Forall good ls ->
  read_source (flat_map phys ls) true false ign = items ign ls 0.
Proof.
  intros G. unfold read_source.
  change (rst0 (flat_map phys ls) true false ign) with (st ign (flat_map phys ls) 0 []).
  rewrite (read_all_layouts ign _ ls [] 0 (Forall_nil _) G); [reflexivity|].
  cbn [keep filter app]. pose proof (items_length ign ls 0 G). lia.
Qed.

(* ---- comments: kept in place, or ignored without effect *)
Definition is_stmt (l : lay) : bool :=
  match l with LCom _ _ | LBlank => false | _ => true end.
Definition stmt_texts (its : list ritem) : list (text * option N * option text) :=
  flat_map (fun it => match it with RLine t lab nm _ _ => [(t, lab, nm)] | _ => [] end) its.
Definition is_comment (it : ritem) : bool := match it with RComment _ _ _ _ => true | _ => false end.
Definition comment_items (its : list ritem) : list ritem := filter is_comment its.

(* every comment of the source with the line it stands on: full-line comments and empty lines where
   they stand, the comments between the lines of a continued statement right after that statement *)
Fixpoint comments_of (ls : list lay) (lc : nat) : list ritem :=
  match ls with
  | [] => []
  | l :: r => comment_items (fst (produced l lc) :: snd (produced l lc)) ++ comments_of r (lc + List.length (phys l))
  end.

Lemma stmt_texts_app a b : stmt_texts (a ++ b) = stmt_texts a ++ stmt_texts b.
Proof. apply flat_map_app. Qed.
Lemma comment_items_app a b : comment_items (a ++ b) = comment_items a ++ comment_items b.
Proof. apply filter_app. Qed.

Lemma keep_false l : keep false l = l.
Proof. induction l as [|x r IH]; [reflexivity|]. cbn [keep filter]. fold (keep false r). rewrite IH. destruct x; reflexivity. Qed.
Lemma comment_items_keep_true l : comment_items (keep true l) = [].
Proof. induction l as [|x r IH]; [reflexivity|]. cbn [keep filter]. fold (keep true r). destruct x; cbn; exact IH. Qed.
Lemma stmt_texts_keep ign l : stmt_texts (keep ign l) = stmt_texts l.
Proof.
  unfold stmt_texts. induction l as [|x r IH]; [reflexivity|]. cbn [keep filter]. fold (keep ign r).
  destruct x as [t lab nm a b|t a b il|t a b]; cbn [kept].
  - cbn [flat_map app]. f_equal. exact IH.
  - destruct (negb ign); cbn [flat_map app]; exact IH.
  - cbn [flat_map app]. exact IH.
Qed.
Lemma stmt_texts_comments l : Forall (fun it => is_comment it = true) l -> stmt_texts l = [].
Proof. induction 1 as [|x r H F IH]; [reflexivity|]. destruct x; try discriminate. exact IH. Qed.
Lemma ecoms_comments es lc : Forall (fun it => is_comment it = true) (ecoms es lc).
Proof. revert lc. induction es as [|e r IH]; intros lc; [constructor|]. destruct e; cbn [ecoms]; try apply IH. constructor; [reflexivity|apply IH]. Qed.
Lemma cmtl_comments oc n : Forall (fun it => is_comment it = true) (cmtl oc n).
Proof. destruct oc; cbn [cmtl]; [constructor; [reflexivity|constructor]|constructor]. Qed.
Lemma gcoms_comments es lc : Forall (fun it => is_comment it = true) (gcoms es lc).
Proof.
  revert lc. induction es as [|e r IH]; intros lc; [constructor|]. destruct e; cbn [gcoms]; try apply IH.
  - apply Forall_app; split; [apply cmtl_comments|apply IH].
  - constructor; [reflexivity|apply IH].
Qed.
Lemma gq_comments oc1 a es b ocn c :
  Forall (fun it => is_comment it = true) (cmtl oc1 a ++ gcoms es b ++ cmtl ocn c).
Proof. apply Forall_app; split; [apply cmtl_comments|apply Forall_app; split; [apply gcoms_comments|apply cmtl_comments]]. Qed.
Lemma stmt_texts_others a b a' b' os : stmt_texts (map (mk_other a b) os) = stmt_texts (map (mk_other a' b') os).
Proof. unfold stmt_texts. induction os as [|o r IH]; [reflexivity|]. cbn [map flat_map mk_other app]. f_equal. exact IH. Qed.

Lemma comments_kept : forall ls lc, comment_items (items false ls lc) = comments_of ls lc.
Proof.
  induction ls as [|l r IH]; intros lc; [reflexivity|]. cbn [items comments_of]. rewrite comment_items_app, IH.
  unfold item. now rewrite keep_false.
Qed.
Lemma comments_ignored : forall ls lc, comment_items (items true ls lc) = [].
Proof.
  induction ls as [|l r IH]; intros lc; [reflexivity|]. cbn [items]. rewrite comment_items_app, IH.
  unfold item. now rewrite comment_items_keep_true.
Qed.

(* the statements delivered do not depend on the comment setting nor on the comment and empty lines
   being there at all (those between the lines of a continued statement included) *)
Definition strip_comments (l : lay) : lay :=
  match l with
  | LContC line lab nm p1 es bn pn => LContC line lab nm p1 (filter (fun e => match e with CMid _ _ => true | _ => false end) es) bn pn
  | LOneC line lab nm p c => LOne (rstrip (firstn (List.length line - S (List.length c)) line)) lab nm p
  | x => x
  end.
Lemma etext_filter es : etext (filter (fun e => match e with CMid _ _ => true | _ => false end) es) = etext es.
Proof.
  unfold etext. induction es as [|e r IH]; [reflexivity|].
  destruct e; cbn [filter map List.concat]; [f_equal; exact IH|exact IH|exact IH].
Qed.

Lemma stmt_texts_items ign1 ign2 : forall ls lc lc',
  stmt_texts (items ign1 ls lc) = stmt_texts (items ign2 (map strip_comments (filter is_stmt ls)) lc').
Proof.
  induction ls as [|l r IH]; intros lc lc'; [reflexivity|].
  cbn [items filter]. rewrite stmt_texts_app. unfold item. rewrite stmt_texts_keep.
  destruct l as [line lab nm p|line lab nm p cm|line lab nm p1 ms bn pn|line lab nm p1 q1 ms bn pn|line lab nm p1 es bn pn|line lab nm tl1 p1 b21 q1 oc1 es bn pn tln ocn|line lab nm p1 rs os|b c|]; cbn [is_stmt map].
  - cbn [items]. rewrite stmt_texts_app. unfold item. rewrite stmt_texts_keep. cbn [produced rawp fst snd strip_comments].
    cbn [stmt_texts flat_map app]. f_equal. apply IH.
  - cbn [items]. rewrite stmt_texts_app. unfold item. rewrite stmt_texts_keep. cbn [produced rawp fst snd strip_comments].
    cbn [stmt_texts flat_map app]. f_equal. apply IH.
  - cbn [items]. rewrite stmt_texts_app. unfold item. rewrite stmt_texts_keep. cbn [produced rawp fst snd strip_comments].
    cbn [stmt_texts flat_map app]. f_equal. apply IH.
  - cbn [items]. rewrite stmt_texts_app. unfold item. rewrite stmt_texts_keep. cbn [produced rawp fst snd strip_comments].
    cbn [stmt_texts flat_map app]. f_equal. apply IH.
  - cbn [items]. rewrite stmt_texts_app. unfold item. rewrite stmt_texts_keep. cbn [produced rawp fst snd strip_comments].
    change (stmt_texts (?a :: ?q)) with (stmt_texts [a] ++ stmt_texts q).
    rewrite !(stmt_texts_comments _ (ecoms_comments _ _)), !app_nil_r. cbn [stmt_texts flat_map app].
    rewrite etext_filter. f_equal. apply IH.
  - cbn [items]. rewrite stmt_texts_app. unfold item. rewrite stmt_texts_keep. cbn [produced rawp fst snd strip_comments].
    change (stmt_texts (?a :: ?q)) with (stmt_texts [a] ++ stmt_texts q).
    rewrite !(stmt_texts_comments _ (gq_comments _ _ _ _ _ _)), !app_nil_r. cbn [stmt_texts flat_map app].
    f_equal. apply IH.
  - cbn [items]. rewrite stmt_texts_app. unfold item. rewrite stmt_texts_keep. cbn [produced fst snd strip_comments].
    change (stmt_texts (?a :: ?q)) with (stmt_texts [a] ++ stmt_texts q).
    rewrite (stmt_texts_others (S lc) (S lc) (S lc') (S lc') os). cbn [stmt_texts flat_map app]. f_equal. f_equal. apply IH.
  - cbn [produced rawp fst snd stmt_texts flat_map app]. apply IH.
  - cbn [produced rawp fst snd stmt_texts flat_map app]. apply IH.
Qed.

Theorem read_comments_kept ls : Forall good ls ->
  comment_items (read_source (flat_map phys ls) true false false) = comments_of ls 0.
Proof. intros G. rewrite (read_source_layouts false ls G). apply comments_kept. Qed.

Theorem read_comments_ignored ls ign : Forall good ls -> Forall good (map strip_comments (filter is_stmt ls)) ->
  comment_items (read_source (flat_map phys ls) true false true) = [] /\
  stmt_texts (read_source (flat_map phys ls) true false ign)
  = stmt_texts (read_source (flat_map phys (map strip_comments (filter is_stmt ls))) true false true).
Proof.
  intros G G'. rewrite (read_source_layouts true ls G), (read_source_layouts ign ls G), (read_source_layouts true _ G').
  split; [apply comments_ignored|apply stmt_texts_items].
Qed.
