(* From one item to the whole file: a free-form source made of any number of
     - one-line statements (optional label and construct name),
     - statements continued over any number of physical lines,
     - full-line comments (any indentation) and
     - empty lines,
   in any order, is delivered by repeated next() as exactly one item per statement, in order, with the
   exact first and last physical line numbers; comments and empty lines are delivered in place when
   comments are kept and are invisible when they are ignored; after the last item the reader reports
   the end of the input.  Any number of lines, no bound. *)
From Coq Require Import List Bool Arith Ascii String NArith Lia.
From FV Require Import SplitLine Text Reader ReaderLaws ReaderJoin ReaderItem.
Import ListNotations.
Close Scope string_scope.

Notation bang := ("!"%char) (only parsing).

Inductive lay :=
| LOne (line : text) (lab : option N) (nm : option text) (p : text)
| LCont (line : text) (lab : option N) (nm : option text) (p1 : text) (ms : list (text * text)) (bn pn : text)
| LCom (b c : text)
| LBlank.

Definition phys (l : lay) : list text :=
  match l with
  | LOne line _ _ _ => [line]
  | LCont line _ _ _ ms bn pn => line :: mids ms ++ [last_line bn pn]
  | LCom b c => [b ++ bang :: c]
  | LBlank => [[]]
  end.

Definition good (l : lay) : Prop :=
  match l with
  | LOne line lab nm p =>
      stripped line /\ line <> [] /\ starts_with ["#"%char] (lstrip line) = false /\
      (exists l1, extract_label line = (lab, l1) /\ extract_construct_name l1 = (nm, p)) /\
      plain p /\ strip p <> [] /\ mem_char ";"%char (strip p) = false
  | LCont line lab nm p1 ms bn pn =>
      stripped line /\ line <> [] /\ starts_with ["#"%char] (lstrip line) = false /\
      (exists l1, extract_label line = (lab, l1) /\ extract_construct_name l1 = (nm, p1 ++ [amp])) /\
      plain p1 /\ mids_ok ms /\ blanks bn /\ plain pn /\ pn <> [] /\ negb (is_blank pn) = true /\
      stripped (last_line bn pn) /\
      strip (p1 ++ List.concat (map snd ms) ++ pn) <> [] /\
      mem_char ";"%char (strip (p1 ++ List.concat (map snd ms) ++ pn)) = false
  | LCom b c => blanks b /\ stripped (b ++ bang :: c)
  | LBlank => True
  end.

Section File.
Variable ign : bool.

Definition item (l : lay) (lc : nat) : list ritem :=
  match l with
  | LOne _ lab nm p => [RLine (strip p) lab nm (S lc) (S lc)]
  | LCont _ lab nm p1 ms _ pn =>
      [RLine (strip (p1 ++ List.concat (map snd ms) ++ pn)) lab nm (S lc) (S (S lc) + List.length ms)]
  | LCom _ c => if ign then [] else [RComment (bang :: c) (S lc) (S lc) false]
  | LBlank => if ign then [] else [RComment [] (S lc) (S lc) false]
  end.

Fixpoint items (ls : list lay) (lc : nat) : list ritem :=
  match ls with
  | [] => []
  | l :: r => item l lc ++ items r (lc + List.length (phys l))
  end.

Notation stt := (st ign).

(* ---- the one-line statement *)
Lemma free_loop_one fuel endl p s : plain p ->
  free_loop (S fuel) false true [] None endl p s = (p, endl, s).
Proof.
  intros P. cbn [free_loop]. cbn [negb andb].
  destruct (plain_quiet p P) as [[Q1 [Q2 Q3]] Ap]. rewrite (hic_trivial _ _ Q1 Q2 Q3). cbn [push_opt].
  rewrite (rfind_none p Ap). reflexivity.
Qed.

Lemma gsi_one line lab nm p l1 src lc :
  stripped line -> line <> [] -> starts_with ["#"%char] (lstrip line) = false ->
  extract_label line = (lab, l1) -> extract_construct_name l1 = (nm, p) -> plain p -> strip p <> [] ->
  get_source_item (stt (line :: src) lc []) = (Some (RLine (strip p) lab nm (S lc) (S lc)), stt src (S lc) []).
Proof.
  intros SL NE NH EL EN P NS. unfold get_source_item. rewrite (gsl ign _ line lc [] SL).
  assert (X : (match line with [] => false | _ => true end) && starts_with ["#"%char] (lstrip line) = false)
    by (rewrite NH; apply andb_false_r).
  rewrite X. cbn [r_free st r_omp r_linecount]. unfold free_item. rewrite EL, EN. cbn [r_linecount st].
  cbn [r_src r_filo st List.length]. rewrite free_loop_one by exact P.
  destruct (strip p) as [|c t] eqn:ST; [contradiction|]. reflexivity.
Qed.

(* ---- a full-line comment *)
Lemma lstrip_blanks_bang b r : blanks b -> lstrip (b ++ bang :: r) = bang :: r.
Proof.
  unfold blanks. induction b as [|x t IH]; cbn; intros H; [reflexivity|].
  apply andb_true_iff in H as [H1 H2]. apply aeqb_eq in H1. subst. cbn. apply IH. exact H2.
Qed.

Lemma length_lstrip_le l : List.length (lstrip l) <= List.length l.
Proof. induction l as [|c r IH]; cbn; [lia|]. destruct (is_space c); cbn; lia. Qed.

Lemma extract_label_bang b c : blanks b -> extract_label (b ++ bang :: c) = (None, b ++ bang :: c).
Proof. intros B. unfold extract_label. rewrite (lstrip_blanks_bang b c B). reflexivity. Qed.
Lemma extract_name_bang b c : blanks b -> extract_construct_name (b ++ bang :: c) = (None, b ++ bang :: c).
Proof. intros B. unfold extract_construct_name. rewrite (lstrip_blanks_bang b c B). reflexivity. Qed.

Lemma blanks_strip b : blanks b -> strip b = [].
Proof.
  intros B. unfold strip, rstrip.
  assert (R : forall t, blanks t -> lstrip t = []).
  { intros t. unfold blanks. induction t as [|x r IH]; cbn; [reflexivity|]. intros H.
    apply andb_true_iff in H as [H1 H2]. apply aeqb_eq in H1. subst. cbn. apply IH. exact H2. }
  assert (RB : blanks (rev b)).
  { unfold blanks in *. rewrite forallb_forall in *. intros x Hx. apply B. now apply in_rev. }
  rewrite (R _ RB). reflexivity.
Qed.

Lemma hic_comment b c n : blanks b ->
  handle_inline_comment (b ++ bang :: c) n None = (b, None, Some (RComment (bang :: c) n n false)).
Proof.
  intros B. unfold handle_inline_comment.
  assert (M : mem_char bang (b ++ bang :: c) = true).
  { rewrite mem_char_app. unfold mem_char at 2. cbn [existsb]. rewrite aeqb_refl. cbn. apply orb_true_r. }
  rewrite M. cbn [negb andb].
  assert (NB : mem_char bang b = false) by (apply blanks_no; [exact B|reflexivity]).
  rewrite (find_char_app_not bang b (bang :: c) NB), find_char_head. cbn [option_map]. rewrite Nat.add_0_r.
  rewrite firstn_app_exact, skipn_app_exact.
  rewrite (blanks_no dquote b B eq_refl), (blanks_no squote b B eq_refl). cbn [negb andb].
  rewrite (blanks_is_blank b B). reflexivity.
Qed.

Lemma free_loop_comment fuel endl b c src n : blanks b ->
  free_loop (S fuel) false true [] None endl (b ++ bang :: c) (stt src n [])
  = (b, endl, stt src n [RComment (bang :: c) n n false]).
Proof.
  intros B. cbn [free_loop]. cbn [negb andb]. cbn [r_linecount st].
  rewrite (hic_comment b c n B). cbn [push_opt r_fifo st app].
  assert (NA : mem_char amp b = false) by (apply blanks_no; [exact B|reflexivity]).
  rewrite (rfind_none b NA). reflexivity.
Qed.

Lemma gsi_comment b c src lc : blanks b -> stripped (b ++ bang :: c) ->
  get_source_item (stt ((b ++ bang :: c) :: src) lc [])
  = (Some (RComment (bang :: c) (S lc) (S lc) false), stt src (S lc) []).
Proof.
  intros B SL. unfold get_source_item. rewrite (gsl ign _ _ lc [] SL).
  assert (X : (match b ++ bang :: c with [] => false | _ => true end)
              && starts_with ["#"%char] (lstrip (b ++ bang :: c)) = false).
  { rewrite (lstrip_blanks_bang b c B). cbn. apply andb_false_r. }
  rewrite X. cbn [r_free st r_omp r_linecount]. unfold free_item.
  rewrite (extract_label_bang b c B), (extract_name_bang b c B).
  cbn [r_src r_filo st List.length r_linecount].
  rewrite (free_loop_comment _ (S lc) b c src (S lc) B). rewrite (blanks_strip b B). reflexivity.
Qed.

(* ---- an empty line *)
Lemma gsi_blank src lc :
  get_source_item (stt ([] :: src) lc []) = (Some (RComment [] (S lc) (S lc) false), stt src (S lc) []).
Proof. unfold get_source_item. rewrite (gsl ign _ [] lc [] eq_refl). reflexivity. Qed.

(* ---- the end of the input *)
Lemma gsi_end lc : get_source_item (stt [] lc []) = (None, stt [] lc []).
Proof. reflexivity. Qed.

(* ---- one layout element *)
Lemma phys_length_pos l : 0 < List.length (phys l).
Proof. destruct l; cbn; lia. Qed.

Lemma gsi_lay l rest lc : good l ->
  exists it, get_source_item (stt (phys l ++ rest) lc []) = (Some it, stt rest (lc + List.length (phys l)) []) /\
    (match it with
     | RComment _ _ _ _ => item l lc = (if ign then [] else [it])
     | RLine t lab nm a b => item l lc = [it] /\ mem_char ";"%char t = false
     | RCpp _ _ _ => False
     end).
Proof.
  destruct l as [line lab nm p|line lab nm p1 ms bn pn|b c|]; cbn [good phys item].
  - intros [SL [NE [NH [[l1 [EL EN]] [P [NS SEMI]]]]]]. cbn [app List.length]. rewrite Nat.add_1_r.
    eexists. split; [apply (gsi_one line lab nm p l1 rest lc SL NE NH EL EN P NS)|]. split; [reflexivity|exact SEMI].
  - intros [SL [NE [NH [[l1 [EL EN]] [P1 [OK [Bn [Pn [PNE [NB [SLL [NS SEMI]]]]]]]]]]]].
    cbn [app List.length]. rewrite <- app_assoc. cbn [app].
    rewrite (item_of_continued_statement ign line lab l1 nm p1 ms bn pn rest lc [] SL NE NH EL EN P1 OK Bn Pn PNE NB SLL NS).
    eexists. split.
    + f_equal. f_equal. rewrite app_length, mids_length. cbn [List.length]. lia.
    + split; [reflexivity|exact SEMI].
  - intros [B SL]. cbn [app List.length]. rewrite Nat.add_1_r.
    eexists. split; [apply (gsi_comment b c rest lc B SL)|]. destruct ign; reflexivity.
  - intros _. cbn [app List.length]. rewrite Nat.add_1_r.
    eexists. split; [apply gsi_blank|]. destruct ign; reflexivity.
Qed.

(* ---- what the next delivered item is, as a function of the layout list *)
Fixpoint first_of (ls : list lay) (lc : nat) : option (ritem * list lay * nat) :=
  match ls with
  | [] => None
  | l :: r => match item l lc with
              | it :: _ => Some (it, r, lc + List.length (phys l))
              | [] => first_of r (lc + List.length (phys l))
              end
  end.

Fixpoint end_count (ls : list lay) (lc : nat) : nat :=
  match ls with [] => lc | l :: r => end_count r (lc + List.length (phys l)) end.

Lemma next_raw_layouts : forall ls lc fuel, Forall good ls -> List.length ls < fuel ->
  next_raw fuel (stt (flat_map phys ls) lc []) =
  match first_of ls lc with
  | Some (it, r, lc') => (Some it, stt (flat_map phys r) lc' [])
  | None => (None, stt [] (end_count ls lc) [])
  end.
Proof.
  induction ls as [|l r IH]; intros lc fuel G LT.
  - destruct fuel as [|f]; [cbn in LT; lia|]. cbn [flat_map first_of end_count next_raw r_fifo st].
    rewrite gsi_end. reflexivity.
  - destruct fuel as [|f]; [cbn in LT; lia|]. inversion G as [|x y Gl Gr]; subst.
    cbn [flat_map next_raw r_fifo st].
    destruct (gsi_lay l (flat_map phys r) lc Gl) as [it [E K]]. rewrite E.
    cbn [first_of end_count].
    destruct it as [t lab nm a b|t a b il|t a b]; [| |contradiction].
    + destruct K as [K _]. rewrite K. reflexivity.
    + cbn [r_ign st]. rewrite K. destruct ign.
      * apply IH; [exact Gr|cbn in LT; lia].
      * reflexivity.
Qed.

Lemma first_of_spec : forall ls lc, Forall good ls ->
  match first_of ls lc with
  | None => items ls lc = []
  | Some (it, r, lc') => items ls lc = it :: items r lc' /\ List.length r < List.length ls /\ Forall good r /\
                         (match it with RLine t _ _ _ _ => mem_char ";"%char t = false | RCpp _ _ _ => False | _ => True end)
  end.
Proof.
  induction ls as [|l r IH]; intros lc G; [reflexivity|]. inversion G as [|x y Gl Gr]; subst.
  cbn [first_of items]. destruct (gsi_lay l [] lc Gl) as [it [_ K]].
  destruct it as [t lab nm a b|t a b il|t a b]; [| |contradiction].
  - destruct K as [K S]. rewrite K. cbn [app]. repeat split; auto.
  - rewrite K. destruct ign.
    + cbn [app]. specialize (IH (lc + List.length (phys l)) Gr).
      destruct (first_of r (lc + List.length (phys l))) as [[[it' r'] lc']|]; [|exact IH].
      destruct IH as [A [B [C D]]]. repeat split; auto. cbn [List.length]. lia.
    + cbn [app]. repeat split; auto.
Qed.

Lemma flat_map_phys_length ls : List.length ls <= List.length (flat_map phys ls).
Proof.
  induction ls as [|l r IH]; [reflexivity|]. cbn [flat_map List.length]. rewrite app_length.
  pose proof (phys_length_pos l). lia.
Qed.

Lemma next_item_layouts ls lc : Forall good ls ->
  next_item (stt (flat_map phys ls) lc []) =
  match first_of ls lc with
  | Some (it, r, lc') => (Some it, stt (flat_map phys r) lc' [])
  | None => (None, stt [] (end_count ls lc) [])
  end.
Proof.
  intros G. unfold next_item. cbn [r_src r_filo r_fifo st List.length].
  rewrite (next_raw_layouts ls lc _ G) by (pose proof (flat_map_phys_length ls); lia).
  pose proof (first_of_spec ls lc G) as SP.
  destruct (first_of ls lc) as [[[it r] lc']|]; [|reflexivity].
  destruct SP as [_ [_ [_ D]]]. destruct it as [t lab nm a b|t a b il|t a b]; [|reflexivity|contradiction].
  unfold split_item. rewrite (semi_split_none _ D). reflexivity.
Qed.

(* ---- the whole file *)
Theorem read_all_layouts : forall fuel ls lc, Forall good ls -> List.length ls < fuel ->
  read_all fuel (stt (flat_map phys ls) lc []) = items ls lc.
Proof.
  induction fuel as [|f IH]; intros ls lc G LT; [lia|].
  cbn [read_all]. rewrite (next_item_layouts ls lc G).
  pose proof (first_of_spec ls lc G) as SP.
  destruct (first_of ls lc) as [[[it r] lc']|].
  - destruct SP as [A [B [C _]]]. rewrite A. f_equal. apply IH; [exact C|lia].
  - now rewrite SP.
Qed.

(* ... and after the last item the reader is at the end of the input, having counted every line *)
Lemma end_count_total ls lc : end_count ls lc = lc + List.length (flat_map phys ls).
Proof.
  revert lc. induction ls as [|l r IH]; intros lc; cbn [end_count flat_map List.length]; [lia|].
  rewrite IH, app_length. lia.
Qed.

End File.

(* ---- comments: kept in place, or ignored without effect *)
Definition is_stmt (l : lay) : bool := match l with LOne _ _ _ _ | LCont _ _ _ _ _ _ _ => true | _ => false end.
Definition stmt_texts (its : list ritem) : list (text * option N * option text) :=
  flat_map (fun it => match it with RLine t lab nm _ _ => [(t, lab, nm)] | _ => [] end) its.
Definition comment_items (its : list ritem) : list ritem :=
  filter (fun it => match it with RComment _ _ _ _ => true | _ => false end) its.

Lemma stmt_texts_app a b : stmt_texts (a ++ b) = stmt_texts a ++ stmt_texts b.
Proof. apply flat_map_app. Qed.

(* the statements delivered do not depend on the comment setting nor on the comment and empty lines
   being there at all *)
Lemma stmt_texts_items ign1 ign2 : forall ls lc lc',
  stmt_texts (items ign1 ls lc) = stmt_texts (items ign2 (filter is_stmt ls) lc').
Proof.
  induction ls as [|l r IH]; intros lc lc'; [reflexivity|].
  cbn [items filter]. rewrite stmt_texts_app.
  destruct l as [line lab nm p|line lab nm p1 ms bn pn|b c|]; cbn [is_stmt].
  - cbn [items]. rewrite stmt_texts_app. cbn [item]. f_equal. apply IH.
  - cbn [items]. rewrite stmt_texts_app. cbn [item]. f_equal. apply IH.
  - cbn [item]. destruct ign1; cbn; apply IH.
  - cbn [item]. destruct ign1; cbn; apply IH.
Qed.

(* with comments ignored no comment item is delivered; with comments kept, each comment or empty line
   is delivered exactly once, in order, as an item spanning exactly its own line *)
Fixpoint comments_of (ls : list lay) (lc : nat) : list ritem :=
  match ls with
  | [] => []
  | l :: r => (match l with
               | LCom _ c => [RComment (bang :: c) (S lc) (S lc) false]
               | LBlank => [RComment [] (S lc) (S lc) false]
               | _ => []
               end) ++ comments_of r (lc + List.length (phys l))
  end.

Lemma comment_items_app a b : comment_items (a ++ b) = comment_items a ++ comment_items b.
Proof. apply filter_app. Qed.

Lemma comments_kept : forall ls lc, comment_items (items false ls lc) = comments_of ls lc.
Proof.
  induction ls as [|l r IH]; intros lc; [reflexivity|]. cbn [items comments_of]. rewrite comment_items_app, IH.
  destruct l; reflexivity.
Qed.
Lemma comments_ignored : forall ls lc, comment_items (items true ls lc) = [].
Proof.
  induction ls as [|l r IH]; intros lc; [reflexivity|]. cbn [items]. rewrite comment_items_app, IH.
  destruct l; reflexivity.
Qed.

(* ---- the public entry point *)
Theorem read_source_layouts ign ls : Forall good ls ->
  read_source (flat_map phys ls) true false ign = items ign ls 0.
Proof.
  intros G. unfold read_source. apply (read_all_layouts ign _ ls 0 G).
  pose proof (flat_map_phys_length ls). lia.
Qed.

Theorem read_comments_kept ls : Forall good ls ->
  comment_items (read_source (flat_map phys ls) true false false) = comments_of ls 0.
Proof. intros G. rewrite (read_source_layouts false ls G). apply comments_kept. Qed.

Theorem read_comments_ignored ls ign : Forall good ls -> Forall good (filter is_stmt ls) ->
  comment_items (read_source (flat_map phys ls) true false true) = [] /\
  stmt_texts (read_source (flat_map phys ls) true false ign)
  = stmt_texts (read_source (flat_map phys (filter is_stmt ls)) true false true).
Proof.
  intros G G'. rewrite (read_source_layouts true ls G), (read_source_layouts ign ls G), (read_source_layouts true _ G').
  split; [apply comments_ignored|apply stmt_texts_items].
Qed.
