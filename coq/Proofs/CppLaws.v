(* A preprocessor directive written over k+1 physical lines (each but the last ending in a backslash)
   is delivered as ONE directive item: the pieces joined without the backslashes, spanning exactly those
   lines; the reader is left on the line after the directive.  Any k, any following source, free or
   fixed form, any comment / OpenMP setting. *)
From Coq Require Import List Bool Arith Ascii String NArith Lia.
From FV Require Import SplitLine Text Reader.
Import ListNotations.
Close Scope string_scope.

Notation bsl := ("\"%char) (only parsing).

(* a physical line as get_single_line hands it out: nothing to strip on the right, and (in fixed form
   with comments ignored or sentinels enabled) not a line that pull_src would drop or rewrite *)
Definition plain_pull (free omp ign : bool) (l : text) : Prop :=
  rstrip l = l /\ (free = true \/ ((ign = false \/ is_fix_comment (if omp then omp_fixed l else l) = false)
                                   /\ (if omp then omp_fixed l else l) = l)).

Lemma gsl_any src l lc fifo free omp ign er : plain_pull free omp ign l ->
  get_single_line (mkRst (l :: src) [] lc fifo free omp ign er) = (Some l, mkRst src [] (S lc) fifo free omp ign er).
Proof.
  intros [R H]. unfold get_single_line. cbn [r_filo r_src r_linecount r_ign r_free r_omp r_fifo r_err pull_src].
  rewrite R. destruct H as [->|[H1 H2]].
  - rewrite !andb_false_r. reflexivity.
  - destruct free; [rewrite !andb_false_r; reflexivity|]. cbn [negb]. rewrite !andb_true_r.
    destruct omp.
    + rewrite H2. destruct ign; [|reflexivity]. destruct H1 as [H1|H1]; [discriminate|]. rewrite H2 in H1. now rewrite H1.
    + destruct ign; [|reflexivity]. destruct H1 as [H1|H1]; [discriminate|]. now rewrite H1.
Qed.

Lemma rstrip_snoc_bsl p : rstrip (p ++ [bsl]) = p ++ [bsl].
Proof. unfold rstrip. rewrite rev_app_distr. simpl. now rewrite rev_involutive. Qed.

Lemma ends_with_snoc c p : ends_with_char c (p ++ [c]) = true.
Proof.
  unfold ends_with_char. rewrite rev_app_distr. cbn. unfold aeqb. now rewrite Ascii.eqb_refl.
Qed.

Definition cont_lines (ps : list text) : list text := map (fun p => p ++ [bsl]) ps.

Lemma cpp_join free omp ign er start : forall ps fuel acc p0 lastl src lc fifo,
  Forall (fun p => plain_pull free omp ign (p ++ [bsl])) ps -> plain_pull free omp ign lastl ->
  ends_with_char bsl lastl = false -> strip (acc ++ p0 ++ List.concat ps ++ lastl) <> [] ->
  List.length ps < fuel ->
  cpp_loop start (S fuel) acc (p0 ++ [bsl]) (mkRst (cont_lines ps ++ lastl :: src) [] lc fifo free omp ign er)
  = (Some (RCpp (strip (acc ++ p0 ++ List.concat ps ++ lastl)) start (S lc + List.length ps)),
     mkRst src [] (S lc + List.length ps) fifo free omp ign er).
Proof.
  unfold cont_lines. induction ps as [|p r IH]; intros fuel acc p0 lastl src lc fifo PS PL NB NE LT.
  - cbn [map app cpp_loop]. rewrite rstrip_snoc_bsl, ends_with_snoc, removelast_last.
    rewrite (gsl_any src lastl lc fifo free omp ign er PL).
    destruct fuel as [|f]; [cbn in LT; lia|]. cbn [cpp_loop].
    destruct PL as [RL _]. rewrite RL, NB. cbn [List.concat app List.length] in *.
    rewrite <- app_assoc. destruct (strip (acc ++ p0 ++ lastl)) eqn:E; [contradiction|].
    cbn [r_linecount]. now rewrite Nat.add_0_r.
  - inversion PS as [|x y Pp Pr]; subst. cbn [map app cpp_loop].
    rewrite rstrip_snoc_bsl, ends_with_snoc, removelast_last.
    rewrite (gsl_any _ (p ++ [bsl]) lc fifo free omp ign er Pp).
    destruct fuel as [|f]; [cbn in LT; lia|].
    rewrite (IH f (acc ++ p0) p lastl src (S lc) fifo Pr PL NB); [| |cbn in LT; lia].
    + cbn [List.concat List.length]. rewrite <- !app_assoc.
      replace (S (S lc) + List.length r) with (S lc + S (List.length r)) by lia. reflexivity.
    + cbn [List.concat] in NE. rewrite <- !app_assoc in *. exact NE.
Qed.

Theorem cpp_item free omp ign er p0 ps lastl src lc fifo :
  plain_pull free omp ign (p0 ++ [bsl]) -> starts_with ["#"%char] (lstrip (p0 ++ [bsl])) = true ->
  Forall (fun p => plain_pull free omp ign (p ++ [bsl])) ps -> plain_pull free omp ign lastl ->
  ends_with_char bsl lastl = false -> strip (p0 ++ List.concat ps ++ lastl) <> [] ->
  get_source_item (mkRst ((p0 ++ [bsl]) :: cont_lines ps ++ lastl :: src) [] lc fifo free omp ign er)
  = (Some (RCpp (strip (p0 ++ List.concat ps ++ lastl)) (S lc) (S (S lc) + List.length ps)),
     mkRst src [] (S (S lc) + List.length ps) fifo free omp ign er).
Proof.
  intros P0 H PS PL NB NE. unfold get_source_item. rewrite (gsl_any _ _ lc fifo free omp ign er P0).
  rewrite H. assert (X : match p0 ++ [bsl] with [] => false | _ => true end = true) by (destruct p0; reflexivity).
  rewrite X. cbn [andb r_linecount r_src r_filo List.length].
  match goal with |- cpp_loop _ (S ?f) _ _ _ = _ => 
    rewrite (cpp_join free omp ign er (S lc) ps f [] p0 lastl src (S lc) fifo PS PL NB NE) end.
  - reflexivity.
  - rewrite app_length. unfold cont_lines. rewrite map_length. cbn [List.length]. lia.
Qed.

(* a directive on one line *)
Theorem cpp_item_one free omp ign er l src lc fifo :
  plain_pull free omp ign l -> l <> [] -> starts_with ["#"%char] (lstrip l) = true ->
  ends_with_char bsl l = false -> strip l <> [] ->
  get_source_item (mkRst (l :: src) [] lc fifo free omp ign er)
  = (Some (RCpp (strip l) (S lc) (S lc)), mkRst src [] (S lc) fifo free omp ign er).
Proof.
  intros P NE H NB NS. unfold get_source_item. rewrite (gsl_any _ _ lc fifo free omp ign er P).
  rewrite H. assert (X : match l with [] => false | _ => true end = true) by (destruct l; [contradiction|reflexivity]).
  rewrite X. cbn [andb r_linecount r_src r_filo List.length cpp_loop].
  destruct P as [R _]. rewrite R, NB. cbn [app]. destruct (strip l); [contradiction|]. reflexivity.
Qed.

(* ---- at next(): a directive item is handed out WHOLE -- next() cuts statement lines at ';', never a directive
        (a ';' in a macro body is text) *)
Theorem cpp_next_whole s t a b s' :
  r_fifo s = [] -> get_source_item s = (Some (RCpp t a b), s') -> next_item s = (Some (RCpp t a b), s').
Proof.
  intros F G. unfold next_item.
  set (fuel := S (S (S (List.length (r_src s) + List.length (r_filo s) + List.length (r_fifo s))))).
  assert (NR : next_raw fuel s = (Some (RCpp t a b), s')).
  { unfold fuel. cbn [next_raw]. rewrite F, G. reflexivity. }
  rewrite NR. reflexivity.
Qed.

Corollary cpp_directive_is_one_item_at_next free omp ign er p0 ps lastl src lc :
  plain_pull free omp ign (p0 ++ [bsl]) -> starts_with ["#"%char] (lstrip (p0 ++ [bsl])) = true ->
  Forall (fun p => plain_pull free omp ign (p ++ [bsl])) ps -> plain_pull free omp ign lastl ->
  ends_with_char bsl lastl = false -> strip (p0 ++ List.concat ps ++ lastl) <> [] ->
  next_item (mkRst ((p0 ++ [bsl]) :: cont_lines ps ++ lastl :: src) [] lc [] free omp ign er)
  = (Some (RCpp (strip (p0 ++ List.concat ps ++ lastl)) (S lc) (S (S lc) + List.length ps)),
     mkRst src [] (S (S lc) + List.length ps) [] free omp ign er).
Proof.
  intros P0 H PS PL NB NE. apply cpp_next_whole; [reflexivity|]. apply cpp_item; assumption.
Qed.
