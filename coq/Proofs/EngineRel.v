(* Relational pass over the engine model for the symbol-table state.  Let R be any relation on the
   symbol-table model that is reflexive and transitive, keeps the current scope path, and is closed
   under the bracket  enter n ; ... ; exit [; remove n] .  Then every rule invocation -- whatever it
   returns, for every table that satisfies the side conditions and every leaf oracle -- relates the
   symbol tables before and after by R.  (K3, "every rule returns to the scope it started in", is
   the instance R x y := cur y = cur x; ScopeFrame.v instantiates R with the frame relation.) *)
From Coq Require Import List Bool Arith NArith Lia.
From FV Require Import Scope Engine StmtError EngineContracts.
Import ListNotations.

Section Rel.
Variable T : table.
Variable L : item -> cls -> list cls -> leafres.
Variable R : scopes -> scopes -> Prop.
Hypothesis R_refl : forall x, R x x.
Hypothesis R_trans : forall x y z, R x y -> R y z -> R x z.
Hypothesis R_cur : forall x y, R x y -> cur y = cur x.
Hypothesis R_exit : forall x n y z, R (enter_scope n x) y -> exit_scope y = Some z -> R x z.
Hypothesis R_remove : forall x n y z w,
  R (enter_scope n x) y -> exit_scope y = Some z -> remove_scope n z = Some w -> R x w.

Hypothesis H_guard : t_main0_guarded T = true.
Hypothesis H_cleanup : t_cleanup_all T = true.
Hypothesis H_inc_leaf : is_leaf T (t_include T).
Hypothesis H_cpp_leaf : forall c, In c (t_cpp T) -> is_leaf T c.
Hypothesis H_hook : forall c b, (c_kind (entry T c) = KBlock b \/ c_kind (entry T c) = KMain0 b) -> hook_ok T b.

Definition Rs (s s' : est) : Prop := R (sc s) (sc s').
Definition okr {A} (s : est) (r : res A * est) : Prop :=
  match r with
  | (Val _, s') => Rs s s'
  | (Raise e, s') => is_exception e = true -> Rs s s'
  end.

Lemma Rs_refl s : Rs s s. Proof. apply R_refl. Qed.
Lemma Rs_trans a b c : Rs a b -> Rs b c -> Rs a c. Proof. apply R_trans. Qed.

Lemma okr_same {A} s (r : res A * est) : sc (snd r) = sc s -> okr s r.
Proof. destruct r as [[a|e] s']; cbn; intros E; [|intros _]; unfold Rs; rewrite E; apply R_refl. Qed.
Lemma okr_shift {A} s s1 (r : res A * est) : sc s1 = sc s -> okr s1 r -> okr s r.
Proof. intros E. destruct r as [[a|e] s']; cbn; unfold Rs; now rewrite E. Qed.
Lemma okr_after {A} s s1 (r : res A * est) : Rs s s1 -> okr s1 r -> okr s r.
Proof. intros E. destruct r as [[a|e] s']; cbn; [|intros H IE; specialize (H IE)]; eauto using Rs_trans. Qed.
Lemma okr_bind {A B} (m : M A) (k : A -> M B) s :
  okr s (m s) -> (forall a s1, m s = (Val a, s1) -> okr s1 (k a s1)) -> okr s (bind m k s).
Proof.
  unfold bind. destruct (m s) as [[a|e] s1]; cbn [okr]; intros H1 H2; [|exact H1].
  eapply okr_after; [exact H1|]. apply H2. reflexivity.
Qed.
Lemma okr_catch {A} (m : M (option A)) s : okr s (m s) -> okr s (catch_nomatch m s).
Proof.
  unfold catch_nomatch. destruct (m s) as [[a|e] s1]; cbn [okr]; intros H; [exact H|].
  destruct e; cbn [okr]; try exact H. apply H. reflexivity.
Qed.

Definition RContract (rec : matcher) : Prop := forall c s, okr s (rec c s).

(* ---- primitive steps: the symbol tables are not touched *)
Lemma gi_sc s o s1 : get_item s = (o, s1) -> sc s1 = sc s.
Proof. unfold get_item. destruct (stream s); intros H; inversion H; reflexivity. Qed.

Lemma comment_r s : okr s (comment T s).
Proof.
  unfold comment. destruct (get_item s) as [[i|] s1] eqn:G; apply gi_sc in G.
  - destruct (ikd i); apply okr_same; cbn; exact G.
  - apply okr_same; exact G.
Qed.
Lemma directive_r s : okr s (directive T s).
Proof.
  unfold directive. destruct (get_item s) as [[i|] s1] eqn:G; apply gi_sc in G.
  - destruct (ikd i); [|destruct (idir i)|]; apply okr_same; cbn; exact G.
  - apply okr_same; exact G.
Qed.
Lemma leaf_r c s : okr s (leaf L c s).
Proof.
  unfold leaf. destruct (get_item s) as [[i|] s1] eqn:G; apply gi_sc in G; [|apply okr_same; exact G].
  destruct (ikd i); try (apply okr_same; cbn; exact G);
  (destruct (cache_find (iid i) c (cache s1)) as [[inf|]|]; try (apply okr_same; cbn; exact G);
   destruct (L i c (pcls s1)) as [|e|inf]; try (apply okr_same; cbn; exact G);
   destruct e; apply okr_same; cbn; exact G).
Qed.

Section WithRec.
Variable rec : matcher.
Hypothesis HR : RContract rec.
Hypothesis HC : Contract T rec.

Lemma call_r c s : okr s (call rec c s).
Proof.
  unfold call. pose proof (HR c (set_pcls [] s)) as H.
  destruct (rec c (set_pcls [] s)) as [[o|e] s']; cbn in *; exact H.
Qed.

Lemma first_of_r cs : forall s, okr s (first_of rec cs s).
Proof.
  induction cs as [|c r IH]; intros s; cbn [first_of]; [apply okr_same; reflexivity|].
  apply okr_bind; [apply call_r|]. intros [t|] s1 _; [apply okr_same; reflexivity|apply IH].
Qed.

Lemma cpp_r s : okr s (cpp T rec s).
Proof.
  unfold cpp. destruct (get_item s) as [[i|] s1] eqn:G; apply gi_sc in G; [|apply okr_same; exact G].
  destruct (ikd i); try (apply okr_same; cbn; exact G).
  eapply okr_shift; [|apply first_of_r]. cbn. exact G.
Qed.

Lemma comment_or_include_r s : okr s (comment_or_include T rec s).
Proof.
  unfold comment_or_include. apply okr_bind.
  - destruct (procdir s); [apply directive_r|apply okr_same; reflexivity].
  - intros [t|] s1 _; [apply okr_same; reflexivity|]. apply okr_bind; [apply comment_r|].
    intros [t|] s2 _; [apply okr_same; reflexivity|apply call_r].
Qed.

Lemma cid_step_r s : okr s (cid_step T rec s).
Proof.
  unfold cid_step. apply okr_bind; [apply comment_or_include_r|].
  intros [t|] s1 _; [apply okr_same; reflexivity|apply cpp_r].
Qed.

Lemma add_cid_r k : forall content s, okr s (add_cid T rec k content s).
Proof.
  induction k as [|k IH]; intros content s; cbn [add_cid]; [apply okr_same; reflexivity|].
  apply okr_bind; [apply cid_step_r|]. intros [t|] s1 _; [apply IH|apply okr_same; reflexivity].
Qed.

Lemma hook_cid_r b content s : okr s (hook_cid T rec b content s).
Proof. unfold hook_cid. destruct (b_do_hook b); [apply add_cid_r|apply okr_same; reflexivity]. Qed.

Lemma call_l_r lc s : okr s (call_l T rec lc s).
Proof.
  destruct lc as [c|]; cbn [call_l]; [|apply cpp_r].
  destruct (N.eqb c (t_comment T)); [apply comment_r|].
  destruct (N.eqb c (t_directive T)); [apply directive_r|apply call_r].
Qed.

(* ---- the loop of BlockBase.match *)
Lemma block_step_r b start_idx cont lc :
  (forall st s, okr s (cont st s)) -> forall st s, okr s (block_step T rec b start_idx cont lc st s).
Proof.
  intros HCn st s. unfold block_step. apply okr_bind.
  - destruct (b_do_hook b); [|apply okr_same; reflexivity].
    destruct (b_start b) as [stc|]; [|apply okr_same; reflexivity].
    apply okr_bind; [apply call_r|]. intros [t|] s1 _; [|apply okr_same; reflexivity].
    destruct (c_has_start_label (entry T (tcls t))); [|apply okr_same; reflexivity].
    destruct (oN_eqb _ _); apply okr_same; reflexivity.
  - intros [t|] s1 _; [apply HCn|].
    apply okr_bind; [apply okr_catch, call_l_r|]. intros [t|] s2 _; [|apply HCn].
    match goal with |- context [if ?c then _ else _] => destruct c end; [apply okr_same; reflexivity|].
    destruct (stmt_error T b _ t _); [apply okr_same; reflexivity|].
    match goal with |- context [if ?c then _ else _] => destruct c end; [apply HCn|].
    match goal with |- context [if ?c then _ else _] => destruct c end; [|apply HCn].
    match goal with |- context [match ?c with Some _ => _ | None => _ end] => destruct c end;
      apply okr_same; reflexivity.
Qed.

Lemma block_loop_r b classes start_idx : forall k st s, okr s (block_loop T rec b classes start_idx k st s).
Proof.
  induction k as [|k IH]; intros st s; cbn [block_loop]; [apply okr_same; reflexivity|].
  destruct (nth_error classes (l_i st)) as [lc|]; [|apply okr_same; reflexivity].
  apply okr_bind; [apply hook_cid_r|]. intros cm s1 _. apply block_step_r. exact IH.
Qed.

Ltac fin H := unfold ret, raise; cbn; try (intros _); exact H.

(* ---- BlockBase.match: the bracket *)
Definition trel (tn : option name) (x0 : scopes) (s : est) : Prop :=
  match tn with Some n => R (enter_scope n x0) (sc s) | None => R x0 (sc s) end.

Lemma exit_ok n x0 y : R (enter_scope n x0) y -> exists z, exit_scope y = Some z /\ R x0 z.
Proof.
  intros H. pose proof (R_cur _ _ H) as C. rewrite cur_enter in C.
  destruct (exit_after _ _ _ C) as [z [E _]]. exists z. split; [exact E|]. eapply R_exit; eauto.
Qed.

Lemma cleanup_r n x0 s1 : R (enter_scope n x0) (sc s1) ->
  forall r s3, (do_exit_scope ;;; do_remove n) s1 = (r, s3) -> R x0 (sc s3).
Proof.
  intros H r s3. destruct (exit_ok n x0 _ H) as [z [E Rz]].
  unfold bind, do_exit_scope. rewrite E. unfold do_remove. cbn [sc set_sc].
  destruct (remove_scope n z) as [w|] eqn:RM; intros Q; inversion Q; subst; cbn [sc set_sc].
  - eapply R_remove; eauto.
  - exact Rz.
Qed.

Lemma block_body_r b content start_idx tn x0 :
  (b_do_hook b = true -> exists stc, b_start b = Some stc /\ is_leaf T stc /\ c_has_start_label (entry T stc) = true) ->
  (b_labeldo_abort b = true -> tn = None) ->
  forall s, trel tn x0 s ->
  match block_body T rec b content start_idx tn s with
  | (Val _, s') => R x0 (sc s')
  | (Raise e, s') => is_exception e = true -> R x0 (sc s')
  end.
Proof.
  intros Hh Ha s TR. unfold block_body.
  set (cl := block_classes T b s).
  set (st0 := mkLst content 0 false (b_if_hook b) (b_where_hook b)).
  pose proof (block_loop_r b cl start_idx (loop_bound (length cl) s) st0 s) as LP.
  pose proof (block_loop_ok T H_inc_leaf H_cpp_leaf rec HC b cl start_idx Hh (loop_bound (length cl) s) st0
                (set_stream (yields content ++ stream s) s) s eq_refl (same_cur_refl _)) as LO.
  destruct (block_loop T rec b cl start_idx (loop_bound (length cl) s) st0 s) as [[[content' had fe|]|e] s1].
  - (* LBreak *)
    cbn [okr] in LP.
    assert (TR1 : trel tn x0 s1) by (destruct tn; cbn [trel] in *; eapply R_trans; eauto).
    destruct tn as [n|]; cbn [trel] in TR1.
    + destruct (exit_ok n x0 _ TR1) as [z [E Rz]].
      unfold bind at 1. unfold do_exit_scope at 1. rewrite E.
      match goal with |- context [if ?c then _ else _] => destruct c end.
      * unfold bind at 1. unfold do_remove. cbn [sc set_sc].
        destruct (remove_scope n z) as [w|] eqn:RM.
        -- unfold bind, lift, ret. cbn [sc set_sc]. rewrite restore_sc. cbn [sc set_sc]. eapply R_remove; eauto.
        -- intros _. exact Rz.
      * destruct content' as [|t0 ct]; [fin Rz|].
        destruct (b_start b); [|fin Rz]. destruct (b_end b); [|fin Rz].
        match goal with |- context [if ?c then _ else _] => destruct c end; [|fin Rz].
        destruct (unit_name (tinfo (last (t0 :: ct) (TBlock 0%N [])))); [|fin Rz].
        match goal with |- context [match unit_name ?x with _ => _ end] => destruct (unit_name x) end.
        -- match goal with |- context [if ?c then _ else _] => destruct c end; [fin Rz|].
           destruct (t_exits T); fin Rz.
        -- destruct (t_exits T); fin Rz.
    + unfold bind at 1. unfold ret at 1.
      match goal with |- context [if ?c then _ else _] => destruct c end.
      * unfold bind, lift, ret. rewrite restore_sc. exact TR1.
      * destruct content' as [|t0 ct]; [fin TR1|].
        destruct (b_start b); [|fin TR1]. destruct (b_end b); [|fin TR1].
        match goal with |- context [if ?c then _ else _] => destruct c end; [|fin TR1].
        destruct (unit_name (tinfo (last (t0 :: ct) (TBlock 0%N [])))); [|fin TR1].
        match goal with |- context [match unit_name ?x with _ => _ end] => destruct (unit_name x) end.
        -- match goal with |- context [if ?c then _ else _] => destruct c end; [fin TR1|].
           destruct (t_exits T); fin TR1.
        -- destruct (t_exits T); fin TR1.
  - (* LAbort *)
    cbn [ok_loop] in LO. destruct LO as [AB _]. rewrite (Ha AB) in TR. cbn [trel okr] in *. eapply R_trans; eauto.
  - (* Raise *)
    cbn [okr] in LP.
    destruct (match e with ESyntax => true | _ => t_cleanup_all T && is_exception e end) eqn:CL.
    + assert (IE : is_exception e = true).
      { destruct e; try reflexivity; rewrite H_cleanup in CL; cbn in CL; discriminate. }
      specialize (LP IE).
      destruct tn as [n|]; cbn [trel] in TR.
      * assert (TR1 : R (enter_scope n x0) (sc s1)) by (eapply R_trans; eauto).
        pose proof (cleanup_r n x0 s1 TR1) as CR.
        destruct ((do_exit_scope ;;; do_remove n) s1) as [[u|e'] s3]; intros; eapply CR; reflexivity.
      * intros _. eapply R_trans; eauto.
    + intros IE. exfalso. destruct e; try discriminate; rewrite H_cleanup in CL; cbn in CL; discriminate.
Qed.

Lemma block_match_r b : hook_ok T b -> forall s, okr s (block_match T rec b s).
Proof.
  intros [Hh Ha] s. unfold block_match. destruct (b_start b) as [stc|] eqn:ST; rewrite <- ST in Hh, Ha.
  - apply okr_bind; [apply add_cid_r|]. intros cm s1 _.
    apply okr_bind; [apply okr_catch, call_r|]. intros [o|] s2 CE; [|apply okr_same; reflexivity].
    destruct (c_scoping (entry T (tcls o))) eqn:SC.
    + unfold bind, do_enter, lift. cbv beta iota.
      assert (HaS : b_labeldo_abort b = true -> Some (scope_name (tinfo o)) = None).
      { intros AB. exfalso. destruct (Ha AB) as [stc' [ST' [LF NS]]].
        rewrite ST' in ST. inversion ST; subst stc'.
        assert (tcls o = stc).
        { apply (call_leaf_cls T rec HC stc s1 o s2 LF). unfold catch_nomatch in CE.
          destruct (call rec stc s1) as [[[o'|]|e'] s'] eqn:CE2; try (destruct e'; discriminate); try discriminate.
          exact CE. }
        congruence. }
      pose proof (block_body_r b (cm ++ [o]) (length cm) (Some (scope_name (tinfo o))) (sc s2) Hh HaS
                    (set_sc (enter_scope (scope_name (tinfo o)) (sc s2)) s2) (R_refl _)) as BB.
      destruct (block_body T rec b (cm ++ [o]) (length cm) (Some (scope_name (tinfo o)))
                  (set_sc (enter_scope (scope_name (tinfo o)) (sc s2)) s2)) as [[a|e] s3]; exact BB.
    + unfold bind, ret. cbv beta iota.
      pose proof (block_body_r b (cm ++ [o]) (length cm) None (sc s2) Hh ltac:(reflexivity) s2 (R_refl _)) as BB.
      destruct (block_body T rec b (cm ++ [o]) (length cm) None s2) as [[a|e] s3]; exact BB.
  - pose proof (block_body_r b [] 0 None (sc s) Hh) as BB.
    assert (HaN : b_labeldo_abort b = true -> @None name = None) by reflexivity.
    specialize (BB HaN s (R_refl _)).
    destruct (block_body T rec b [] 0 None s) as [[a|e] s3]; exact BB.
Qed.

Lemma main0_r b : hook_ok T b -> forall s, okr s (main0 T rec b s).
Proof.
  intros HB s. unfold main0.
  set (n := t_main_name T). set (s1 := set_sc (enter_scope n (sc s)) s).
  pose proof (block_match_r b HB s1) as B.
  destruct (block_match T rec b s1) as [[r|e] s2]; cbn [okr] in B.
  - assert (TR : R (enter_scope n (sc s)) (sc s2)) by exact B.
    destruct (exit_ok n (sc s) _ TR) as [z [E Rz]].
    unfold bind at 1. unfold do_exit_scope at 1. rewrite E.
    destruct r as [c|]; [cbn; exact Rz|].
    unfold bind, do_remove. cbn [sc set_sc]. destruct (remove_scope n z) as [w|] eqn:RM; cbn.
    + eapply R_remove; eauto.
    + intros _. exact Rz.
  - rewrite H_guard. cbn [andb]. destruct (is_exception e) eqn:IE; [|cbn; intros; congruence].
    specialize (B eq_refl). pose proof (cleanup_r n (sc s) s2 B) as CR.
    destruct ((do_exit_scope ;;; do_remove n) s2) as [[u|e'] s3]; cbn; intros; eapply CR; reflexivity.
Qed.

Lemma seq_match_r cs : forall acc s, okr s (seq_match T rec cs acc s).
Proof.
  induction cs as [|c r IH]; intros acc s; cbn [seq_match]; [apply okr_same; reflexivity|].
  apply okr_bind.
  - destruct (t_shared_restores T); [apply okr_catch|]; apply call_r.
  - intros [t|] s1 _; [apply IH|]. destruct (t_shared_restores T); apply okr_same; reflexivity.
Qed.

Lemma loop_match_r c k : forall acc s, okr s (loop_match rec c k acc s).
Proof.
  induction k as [|k IH]; intros acc s; cbn [loop_match]; [apply okr_same; reflexivity|].
  apply okr_bind; [apply okr_catch, call_r|]. intros [t|] s1 _; [apply IH|apply okr_same; reflexivity].
Qed.

Lemma try_alts_r alts : forall s, okr s (try_alts rec alts s).
Proof.
  induction alts as [|a r IH]; intros s; cbn [try_alts]; [apply okr_same; reflexivity|].
  destruct (mem a (pcls s)); [apply IH|].
  apply okr_bind; [apply okr_catch, HR|]. intros [t|] s1 _; [apply okr_same; reflexivity|apply IH].
Qed.

End WithRec.

Lemma finish_r rec (HR : RContract rec) c (m : M (option (list tree))) s : okr s (m s) ->
  okr s (match catch_nomatch m s with
         | (Raise e', s1) => (Raise e', s1)
         | (Val (Some content), s1) => (Val (Some (TBlock c content)), s1)
         | (Val None, s1) =>
             match try_alts rec (c_alts (entry T c)) s1 with
             | (Val (Some t), s2) => (Val (Some t), s2)
             | (Val None, s2) => if seen_code s2 then (Raise ENoMatch, s2) else (Val None, s2)
             | (Raise e', s2) => (Raise e', s2)
             end
         end).
Proof.
  intros H. apply okr_catch in H. destruct (catch_nomatch m s) as [[[content|]|e] s1]; cbn [okr] in *; try exact H.
  pose proof (try_alts_r rec HR (c_alts (entry T c)) s1) as A.
  destruct (try_alts rec (c_alts (entry T c)) s1) as [[[t|]|e] s2]; cbn [okr] in *.
  - eapply Rs_trans; eauto.
  - destruct (seen_code s2); cbn [okr]; [intros _|]; eapply Rs_trans; eauto.
  - intros IE. eapply Rs_trans; eauto.
Qed.

Hypothesis H_restores : t_shared_restores T = true.

Theorem new_rel : forall fuel, RContract (new T L fuel).
Proof.
  induction fuel as [|f IH]; intros c s; [apply okr_same; reflexivity|].
  cbn [new].
  destruct (N.eqb c (t_comment T)); [apply comment_r|].
  destruct (N.eqb c (t_directive T)); [apply directive_r|].
  set (s1 := if mem c (pcls (tick s)) then tick s else set_pcls (pcls (tick s) ++ [c]) (tick s)).
  assert (C1 : sc s1 = sc s) by (unfold s1; destruct (mem c (pcls (tick s))); reflexivity).
  apply (okr_shift s s1 _ C1).
  pose proof (new_contract T L H_restores H_guard H_cleanup H_inc_leaf H_cpp_leaf H_hook f) as HC.
  destruct (c_kind (entry T c)) as [| |b|b|cs|c'|] eqn:K.
  - apply leaf_r.
  - apply (finish_r (new T L f) IH c (ret None) s1). apply okr_same; reflexivity.
  - apply (finish_r (new T L f) IH c (block_match T (new T L f) b) s1).
    apply block_match_r; [exact IH|exact HC|]. eapply H_hook; left; exact K.
  - apply (finish_r (new T L f) IH c (main0 T (new T L f) b) s1).
    apply main0_r; [exact IH|exact HC|]. eapply H_hook; right; exact K.
  - apply (finish_r (new T L f) IH c (seq_match T (new T L f) cs []) s1). apply seq_match_r; exact IH.
  - apply (finish_r (new T L f) IH c (fun s => loop_match (new T L f) c' (length (stream s) + 2) [] s) s1).
    apply loop_match_r; exact IH.
  - apply (finish_r (new T L f) IH c (ret None) s1). apply okr_same; reflexivity.
Qed.

End Rel.
