(* the errors BlockBase.match raises for a matched statement are FortranSyntaxErrors *)
From Coq Require Import List Bool NArith.
From FV Require Import Scope Engine.

Lemma stmt_error_syntax T b startinfo t ie e : stmt_error T b startinfo t ie = Some e -> e = ESyntax.
Proof.
  unfold stmt_error.
  destruct (b_match_names b && mem (tcls t) (b_name_classes b)).
  - destruct (end_name (tinfo t)); [destruct (start_name startinfo); [destruct (N.eqb n n0)|]|];
      try congruence; destruct (_ && _ && _ && _); congruence.
  - destruct (_ && _ && _ && _); congruence.
Qed.
