(* Contracts of the engine model, proved for EVERY table satisfying the decidable side conditions
   below and EVERY leaf oracle L, by induction on fuel:

   K1 (restore)  a call that returns None, or raises NoMatchError, leaves the item stream as it was;
   K2 (yield)    a call that returns a tree consumed exactly the tree's yield, in order;
   K3 (scope)    the current scoping region after a call is the one before it -- on success, on
                 no-match and on every exception that Python's "except Exception" catches.
   Matchers (BlockBase.match, Main_Program0.match, the shared-DO and component-part loops) moreover
   never let a NoMatchError escape. *)
From Coq Require Import List Bool Arith NArith Lia.
From FV Require Import Scope Engine StmtError.
Import ListNotations.

Lemma yield_block c ks : yield (TBlock c ks) = yields ks.
Proof. cbn [yield]. induction ks as [|k r IH]; cbn [yields flat_map]; [reflexivity|now rewrite IH]. Qed.
Lemma yields_app a b : yields (a ++ b) = yields a ++ yields b.
Proof. unfold yields. now rewrite flat_map_app. Qed.
Lemma yields_single t : yields [t] = yield t.
Proof. unfold yields; cbn [flat_map]. now rewrite app_nil_r. Qed.
Lemma yields_snoc a t : yields (a ++ [t]) = yields a ++ yield t.
Proof. now rewrite yields_app, yields_single. Qed.

(* ---------------------------------------------------------------- scopes *)
Lemma cur_enter n x : cur (enter_scope n x) = cur x ++ [n].
Proof. unfold enter_scope. destruct (cur x) eqn:E; [destruct (has_name n (tops x))|]; reflexivity. Qed.
Lemma exit_after p n x : cur x = p ++ [n] -> exists y, exit_scope x = Some y /\ cur y = p.
Proof.
  intros E. unfold exit_scope. rewrite E. destruct (p ++ [n]) eqn:E2.
  - destruct p; discriminate.
  - eexists; split; [reflexivity|]. cbn [cur]. rewrite <- E2. apply removelast_last.
Qed.
Lemma cur_remove n x y : remove_scope n x = Some y -> cur y = cur x.
Proof.
  unfold remove_scope. intros H.
  destruct (cur x) as [|r q] eqn:E.
  - destruct (negb (has_name n (tops x))); [discriminate|]. inversion H. reflexivity.
  - destruct (has_name n (kids_at (r :: q) (tops x))).
    + inversion H. reflexivity.
    + destruct (negb (has_name n (tops x))); [discriminate|].
      destruct (N.eqb r n); [discriminate|]. inversion H. reflexivity.
Qed.

Section Contracts.
Variable T : table.
Variable L : item -> cls -> list cls -> leafres.

Definition same_cur (s s' : est) : Prop := cur (sc s') = cur (sc s).
Lemma same_cur_refl s : same_cur s s. Proof. reflexivity. Qed.
Lemma same_cur_trans a b c : same_cur a b -> same_cur b c -> same_cur a c.
Proof. unfold same_cur; congruence. Qed.

Definition ok_t (s : est) (r : res (option tree) * est) : Prop :=
  match r with
  | (Val (Some t), s') => stream s = yield t ++ stream s' /\ same_cur s s'
  | (Val None, s') => stream s' = stream s /\ same_cur s s'
  | (Raise e, s') => (e = ENoMatch -> stream s' = stream s) /\ (is_exception e = true -> same_cur s s')
  end.

Definition ok_m (s : est) (r : res (option (list tree)) * est) : Prop :=
  match r with
  | (Val (Some c), s') => stream s = yields c ++ stream s' /\ same_cur s s'
  | (Val None, s') => stream s' = stream s /\ same_cur s s'
  | (Raise e, s') => e <> ENoMatch /\ (is_exception e = true -> same_cur s s')
  end.

Definition is_leaf (c : cls) : Prop := c_kind (entry T c) = KLeaf.

Record Contract (rec : matcher) : Prop := {
  ct_ok : forall c s, ok_t s (rec c s);
  ct_leaf_nomatch : forall c s s', is_leaf c -> rec c s <> (Raise ENoMatch, s');
  ct_leaf_cls : forall c s t s', is_leaf c -> rec c s = (Val (Some t), s') -> tcls t = c
}.

(* side conditions on the table: each is a decidable fact about the generated table *)
Hypothesis H_restores : t_shared_restores T = true.
Hypothesis H_guard : t_main0_guarded T = true.
Hypothesis H_cleanup : t_cleanup_all T = true.
Hypothesis H_inc_leaf : is_leaf (t_include T).
Hypothesis H_cpp_leaf : forall c, In c (t_cpp T) -> is_leaf c.
Definition hook_ok (b : bspec) : Prop :=
  (b_do_hook b = true -> exists stc, b_start b = Some stc /\ is_leaf stc /\ c_has_start_label (entry T stc) = true)
  /\ (b_labeldo_abort b = true -> exists stc, b_start b = Some stc /\ is_leaf stc /\ c_scoping (entry T stc) = false).
Hypothesis H_hook : forall c b, (c_kind (entry T c) = KBlock b \/ c_kind (entry T c) = KMain0 b) -> hook_ok b.

(* ---------------------------------------------------------------- primitive steps *)
Lemma get_item_some s i s1 : get_item s = (Some i, s1) ->
  stream s = i :: stream s1 /\ sc s1 = sc s.
Proof. unfold get_item. destruct (stream s) eqn:E; intros H; inversion H; subst; cbn; auto. Qed.
Lemma get_item_none s s1 : get_item s = (None, s1) -> s1 = s /\ stream s = [].
Proof. unfold get_item. destruct (stream s) eqn:E; intros H; inversion H; subst; auto. Qed.

Lemma comment_ok s : ok_t s (comment T s).
Proof.
  unfold comment. destruct (get_item s) as [[i|] s1] eqn:G.
  - apply get_item_some in G as [G1 G2]. destruct (ikd i); cbn [ok_t]; unfold same_cur, put_item; cbn;
      rewrite ?G1, ?G2; auto.
  - apply get_item_none in G as [-> _]. cbn. auto using same_cur_refl.
Qed.
Lemma directive_ok s : ok_t s (directive T s).
Proof.
  unfold directive. destruct (get_item s) as [[i|] s1] eqn:G.
  - apply get_item_some in G as [G1 G2]. destruct (ikd i); [| destruct (idir i) |]; cbn [ok_t];
      unfold same_cur, put_item; cbn; rewrite ?G1, ?G2; auto.
  - apply get_item_none in G as [-> _]. cbn. auto using same_cur_refl.
Qed.
Lemma comment_not_raise s e s' : comment T s <> (Raise e, s').
Proof. unfold comment. destruct (get_item s) as [[i|] s1]; [destruct (ikd i)|]; discriminate. Qed.
Lemma directive_not_raise s e s' : directive T s <> (Raise e, s').
Proof. unfold directive. destruct (get_item s) as [[i|] s1]; [destruct (ikd i); [|destruct (idir i)|]|]; discriminate. Qed.

Lemma leaf_ok c s : ok_t s (leaf L c s).
Proof.
  unfold leaf. destruct (get_item s) as [[i|] s1] eqn:G.
  - apply get_item_some in G as [G1 G2].
    assert (P : forall r, r = (Val None, put_item i s1) -> ok_t s r).
    { intros r ->. cbn. unfold same_cur, put_item; cbn. rewrite G1, G2. auto. }
    destruct (ikd i); [| apply P; reflexivity |];
    (destruct (cache_find (iid i) c (cache s1)) as [[inf|]|];
     [ cbn; unfold same_cur; rewrite G1, G2; auto
     | apply P; reflexivity
     | destruct (L i c (pcls s1)) as [|e|inf];
       [ cbn; unfold same_cur, put_item, add_cache; cbn; rewrite G1, G2; auto
       | destruct e; cbn; unfold same_cur, put_item, add_cache; cbn; rewrite ?G1, ?G2;
         (split; [try discriminate; auto | auto])
       | cbn; unfold same_cur, add_cache; cbn; rewrite G1, G2; auto ] ]).
  - apply get_item_none in G as [-> _]. cbn. auto using same_cur_refl.
Qed.
Lemma leaf_nomatch c s s' : leaf L c s <> (Raise ENoMatch, s').
Proof.
  unfold leaf. destruct (get_item s) as [[i|] s1]; [|discriminate].
  destruct (ikd i); try discriminate;
  (destruct (cache_find (iid i) c (cache s1)) as [[inf|]|]; try discriminate;
   destruct (L i c (pcls s1)) as [|e|inf]; try discriminate; destruct e; discriminate).
Qed.
Lemma leaf_cls c s t s' : leaf L c s = (Val (Some t), s') -> tcls t = c.
Proof.
  unfold leaf. destruct (get_item s) as [[i|] s1]; [|discriminate].
  destruct (ikd i); try discriminate;
  (destruct (cache_find (iid i) c (cache s1)) as [[inf|]|]; try discriminate;
   [ intros H; inversion H; reflexivity
   | destruct (L i c (pcls s1)) as [|e|inf]; try discriminate;
     [destruct e; discriminate | intros H; inversion H; reflexivity] ]).
Qed.

(* ---------------------------------------------------------------- combinators *)
Section WithRec.
Variable rec : matcher.
Hypothesis HR : Contract rec.

Lemma call_ok c s : ok_t s (call rec c s).
Proof.
  unfold call. pose proof (ct_ok rec HR c (set_pcls [] s)) as H.
  destruct (rec c (set_pcls [] s)) as [[[t|]|e] s']; cbn in *; exact H.
Qed.
Lemma call_leaf_nomatch c s s' : is_leaf c -> call rec c s <> (Raise ENoMatch, s').
Proof.
  unfold call. intros Hl. destruct (rec c (set_pcls [] s)) as [r s1] eqn:E. intros H. inversion H; subst.
  eapply (ct_leaf_nomatch rec HR); eauto.
Qed.
Lemma call_leaf_cls c s t s' : is_leaf c -> call rec c s = (Val (Some t), s') -> tcls t = c.
Proof.
  unfold call. intros Hl. destruct (rec c (set_pcls [] s)) as [r s1] eqn:E. intros H. inversion H; subst.
  eapply (ct_leaf_cls rec HR); eauto.
Qed.

(* "never raises NoMatch" + ok_t, for option-tree computations built from leaf calls *)
Definition ok_tn (s : est) (r : res (option tree) * est) : Prop :=
  ok_t s r /\ forall s', r <> (Raise ENoMatch, s').

Lemma ok_t_chain_none s s1 r : stream s1 = stream s -> same_cur s s1 -> ok_t s1 r -> ok_t s r.
Proof.
  intros E C. destruct r as [[[t|]|e] s']; cbn; unfold same_cur in *; intros [A B]; split;
    try congruence; intros; rewrite ?B, ?A; auto; congruence.
Qed.

Lemma first_of_ok cs : (forall c, In c cs -> is_leaf c) -> forall s, ok_tn s (first_of rec cs s).
Proof.
  induction cs as [|c r IH]; intros Hl s; cbn [first_of].
  - split; [cbn; auto using same_cur_refl | discriminate].
  - unfold bind. pose proof (call_ok c s) as H.
    pose proof (call_leaf_nomatch c s) as Hn. specialize (Hn) .
    destruct (call rec c s) as [[[t|]|e] s1] eqn:E.
    + split; [exact H | discriminate].
    + cbn in H. destruct H as [H1 H2].
      destruct (IH (fun c' Hc => Hl c' (or_intror Hc)) s1) as [I1 I2].
      split; [eapply ok_t_chain_none; eauto | exact I2].
    + split; [exact H|]. intros s' Hs. inversion Hs; subst.
      eapply Hn; [apply Hl; now left | reflexivity].
Qed.

Lemma cpp_ok s : ok_tn s (cpp T rec s).
Proof.
  unfold cpp. destruct (get_item s) as [[i|] s1] eqn:G.
  - apply get_item_some in G as [G1 G2].
    assert (E1 : stream (put_item i s1) = stream s) by (unfold put_item; cbn; now rewrite G1).
    assert (E2 : same_cur s (put_item i s1)) by (unfold same_cur, put_item; cbn; now rewrite G2).
    destruct (ikd i).
    + split; [cbn; auto | discriminate].
    + split; [cbn; auto | discriminate].
    + destruct (first_of_ok (t_cpp T) H_cpp_leaf (put_item i s1)) as [I1 I2].
      split; [eapply ok_t_chain_none; eauto | exact I2].
  - apply get_item_none in G as [-> _]. split; [cbn; auto using same_cur_refl | discriminate].
Qed.

Lemma comment_or_include_ok s : ok_tn s (comment_or_include T rec s).
Proof.
  unfold comment_or_include, bind.
  assert (D : exists r1, (if procdir s then directive T else ret None) s = r1 /\ ok_t s r1 /\
                         forall e s', r1 <> (Raise e, s')).
  { destruct (procdir s); eexists; split; try reflexivity; split.
    - apply directive_ok. - intros; apply directive_not_raise.
    - cbn. auto using same_cur_refl. - unfold ret; discriminate. }
  destruct D as [r1 [-> [D1 D2]]]. destruct r1 as [[[t|]|e] s1].
  - split; [exact D1 | discriminate].
  - cbn in D1. destruct D1 as [E1 C1].
    pose proof (comment_ok s1) as K. pose proof (comment_not_raise s1) as Kn.
    destruct (comment T s1) as [[[t|]|e] s2].
    + split; [eapply ok_t_chain_none; eauto | discriminate].
    + cbn in K. destruct K as [E2 C2].
      pose proof (call_ok (t_include T) s2) as I. pose proof (call_leaf_nomatch (t_include T) s2) as In'.
      split.
      * eapply ok_t_chain_none; [| |eapply ok_t_chain_none; [| |exact I]]; eauto.
      * intros s' Hs. eapply In'; eauto.
    + exfalso. eapply Kn; reflexivity.
  - exfalso. eapply D2; reflexivity.
Qed.

Lemma cid_step_ok s : ok_tn s (cid_step T rec s).
Proof.
  unfold cid_step, bind. destruct (comment_or_include_ok s) as [A B].
  destruct (comment_or_include T rec s) as [[[t|]|e] s1].
  - split; [exact A | discriminate].
  - cbn in A. destruct A as [E C]. destruct (cpp_ok s1) as [A2 B2].
    split; [eapply ok_t_chain_none; eauto | exact B2].
  - split; [exact A|]. intros s' Hs. inversion Hs; subst. eapply B; reflexivity.
Qed.

Definition ok_list (content : list tree) (s : est) (r : res (list tree) * est) : Prop :=
  match r with
  | (Val c', s') => exists extra, c' = content ++ extra /\ stream s = yields extra ++ stream s' /\ same_cur s s'
  | (Raise e, s') => e <> ENoMatch /\ (is_exception e = true -> same_cur s s')
  end.

Lemma add_cid_ok k : forall content s, ok_list content s (add_cid T rec k content s).
Proof.
  induction k as [|k IH]; intros content s; cbn [add_cid].
  - cbn. split; [discriminate | discriminate].
  - unfold bind. destruct (cid_step_ok s) as [A B]. destruct (cid_step T rec s) as [[[t|]|e] s1].
    + cbn in A. destruct A as [E C]. specialize (IH (content ++ [t]) s1).
      destruct (add_cid T rec k (content ++ [t]) s1) as [[c'|e] s2]; cbn in *.
      * destruct IH as [extra [-> [E2 C2]]]. exists (t :: extra). split; [now rewrite <- app_assoc|].
        split; [| eapply same_cur_trans; eauto].
        change (t :: extra) with ([t] ++ extra). rewrite yields_app, yields_single, <- app_assoc, <- E2. exact E.
      * destruct IH as [N C2]. split; [exact N|]. intros He. eapply same_cur_trans; eauto.
    + cbn in A. destruct A as [E C]. cbn. exists []. rewrite app_nil_r. cbn. auto.
    + cbn in A. destruct A as [_ C]. cbn. split; [|exact C]. intros ->. eapply B; reflexivity.
Qed.

Lemma call_l_ok lc s : ok_t s (call_l T rec lc s).
Proof.
  destruct lc as [c|]; cbn [call_l].
  - destruct (N.eqb c (t_comment T)); [apply comment_ok|].
    destruct (N.eqb c (t_directive T)); [apply directive_ok | apply call_ok].
  - apply cpp_ok.
Qed.

Lemma catch_ok_t m s : ok_t s (m s) -> ok_t s (catch_nomatch m s) /\ forall s', catch_nomatch m s <> (Raise ENoMatch, s').
Proof.
  unfold catch_nomatch. destruct (m s) as [[[t|]|e] s'] eqn:E; intros H.
  - split; [exact H|discriminate].
  - split; [exact H|discriminate].
  - destruct e; (split; [|discriminate]); try exact H.
    cbn in *. destruct H as [A B]. split; auto.
Qed.

(* ---------------------------------------------------------------- BlockBase.match loop *)
Definition ok_loop (b : bspec) (s0 : est) (r : res lout * est) : Prop :=
  match r with
  | (Val (LBreak content had fe), s') => stream s0 = yields content ++ stream s' /\ same_cur s0 s'
  | (Val LAbort, s') => b_labeldo_abort b = true /\ stream s' = stream s0 /\ same_cur s0 s'
  | (Raise e, s') => e <> ENoMatch /\ (is_exception e = true -> same_cur s0 s')
  end.

Lemma restore_stream c s : stream (restore c s) = yields c ++ stream s.
Proof. reflexivity. Qed.
Lemma restore_sc c s : sc (restore c s) = sc s.
Proof. reflexivity. Qed.

Lemma block_step_ok b start_idx cont lc :
  (b_do_hook b = true -> exists stc, b_start b = Some stc /\ is_leaf stc /\ c_has_start_label (entry T stc) = true) ->
  (forall st s0 s, stream s0 = yields (l_content st) ++ stream s -> same_cur s0 s -> ok_loop b s0 (cont st s)) ->
  forall st s0 s, stream s0 = yields (l_content st) ++ stream s -> same_cur s0 s ->
  ok_loop b s0 (block_step T rec b start_idx cont lc st s).
Proof.
  intros Hh HC st s0 s ES CS. unfold block_step.
    set (startinfo := match nth_error (l_content st) start_idx with Some t => tinfo t | None => noinfo end).
    (* the hook *)
    assert (HK : exists r, (if b_do_hook b
        then match b_start b with
             | Some stc => o <- call rec stc;;
                 match o with
                 | Some t => if c_has_start_label (entry T (tcls t))
                     then if oN_eqb (start_label startinfo) (start_label (tinfo t)) then ret (Some t)
                          else lift (restore [t]);;; ret None
                     else ret None
                 | None => ret None end
             | None => raise EOther end
        else ret None) s = r /\ ok_t s r /\ forall s', r <> (Raise ENoMatch, s')).
    { destruct (b_do_hook b) eqn:Dh.
      - destruct (Hh eq_refl) as [stc [-> [Hl Hs]]]. eexists; split; [reflexivity|].
        unfold bind. pose proof (call_ok stc s) as C. pose proof (call_leaf_nomatch stc s) as Cn.
        pose proof (call_leaf_cls stc s) as Cc.
        destruct (call rec stc s) as [[[t|]|e] s1] eqn:E.
        + rewrite (Cc t s1 Hl eq_refl), Hs.
          destruct (oN_eqb (start_label startinfo) (start_label (tinfo t))).
          * split; [exact C | discriminate].
          * split; [|discriminate]. cbn in *. destruct C as [C1 C2]. split; [|exact C2].
            rewrite app_nil_r. now rewrite C1.
        + split; [exact C | discriminate].
        + split; [exact C|]. intros s' Hs'. inversion Hs'; subst. eapply Cn; eauto.
      - eexists; split; [reflexivity|]. split; [cbn; auto using same_cur_refl | discriminate]. }
    destruct HK as [r [HKe [K1 K2]]]. unfold bind at 1. rewrite HKe. clear HKe. destruct r as [[[t|]|e] s1].
    + (* hook matched: append, continue *)
      cbn in K1. destruct K1 as [E1 C1]. apply HC; cbn [l_content].
      * rewrite yields_snoc, <- app_assoc, <- E1. exact ES.
      * eapply same_cur_trans; eauto.
    + cbn in K1. destruct K1 as [E1 C1]. unfold bind at 1.
      destruct (catch_ok_t (call_l T rec lc) s1 (call_l_ok lc s1)) as [Q1 Q2].
      destruct (catch_nomatch (call_l T rec lc) s1) as [[[t|]|e] s2].
      * cbn in Q1. destruct Q1 as [E2 C2].
        assert (ES2 : stream s0 = yields (l_content st ++ [t]) ++ stream s2).
        { rewrite yields_snoc, <- app_assoc, <- E2, E1. exact ES. }
        assert (CS2 : same_cur s0 s2) by (eapply same_cur_trans; [eapply same_cur_trans|]; eauto).
        destruct (b_labeldo_abort b && c_has_end_label (entry T (tcls t)) &&
                  oN_eqb (start_label startinfo) (end_label (tinfo t)) &&
                  negb (mem (tcls t) (t_enddo_continue T))) eqn:AB.
        { unfold bind, lift, ret. cbv beta iota. cbn [ok_loop].
          split; [apply andb_true_iff in AB as [AB _]; apply andb_true_iff in AB as [AB _];
                  apply andb_true_iff in AB as [AB _]; exact AB|].
          split; [|exact CS2].
          rewrite !restore_stream, yields_single, <- E2, E1. symmetry; exact ES. }
        destruct (stmt_error T b startinfo t
                    (match b_end b with Some _ => mem (tcls t) (b_endall b) | None => false end)) as [e1|] eqn:E1'.
        { assert (e1 = ESyntax) as -> by (exact (stmt_error_syntax _ _ _ _ _ _ E1')).
          cbn. split; [discriminate | intros _; exact CS2]. }
        destruct ((match b_end b with Some _ => mem (tcls t) (b_endall b) | None => false end)
                  && b_match_labels b && negb (oN_eqb (start_label startinfo) (end_label (tinfo t)))).
        { apply HC; cbn [l_content]; assumption. }
        destruct (match b_end b with Some _ => mem (tcls t) (b_endall b) | None => false end).
        { destruct (if b_match_names b
                    then name_check b (start_name startinfo) (end_name (tinfo t)) (b_strict_names b)
                    else None) as [e2|] eqn:E2'.
          - assert (e2 = ESyntax) as ->.
            { destruct (b_match_names b); [|discriminate]. unfold name_check in E2'.
              destruct (end_name (tinfo t)), (start_name startinfo); try destruct (N.eqb n n0);
                try destruct (b_strict_names b); congruence. }
            cbn. split; [discriminate | intros _; exact CS2].
          - cbn. auto. }
        apply HC; cbn [l_content]; assumption.
      * cbn in Q1. destruct Q1 as [E2 C2]. apply HC; cbn [l_content].
        -- rewrite E2, E1. exact ES.
        -- eapply same_cur_trans; [eapply same_cur_trans|]; eauto.
      * cbn in Q1. destruct Q1 as [_ C2]. cbn. split.
        -- intros ->. eapply Q2; reflexivity.
        -- intros He. eapply same_cur_trans; [eapply same_cur_trans|]; eauto.
    + cbn in K1. destruct K1 as [_ C1]. cbn. split.
      * intros ->. eapply K2; reflexivity.
      * intros He. eapply same_cur_trans; eauto.
Qed.

Lemma block_loop_ok b classes start_idx :
  (b_do_hook b = true -> exists stc, b_start b = Some stc /\ is_leaf stc /\ c_has_start_label (entry T stc) = true) ->
  forall k st s0 s, stream s0 = yields (l_content st) ++ stream s -> same_cur s0 s ->
  ok_loop b s0 (block_loop T rec b classes start_idx k st s).
Proof.
  intros Hh. induction k as [|k IH]; intros st s0 s ES CS; cbn [block_loop].
  - cbn. split; discriminate.
  - destruct (nth_error classes (l_i st)) as [lc|]; [|cbn; auto].
    unfold bind at 1.
    assert (CM : ok_list (l_content st) s (hook_cid T rec b (l_content st) s)).
    { unfold hook_cid. destruct (b_do_hook b); [apply add_cid_ok|]. cbn. exists []. rewrite app_nil_r. cbn.
      auto using same_cur_refl. }
    destruct (hook_cid T rec b (l_content st) s) as [[cm|e] s1]; cbn [ok_list] in CM.
    + destruct CM as [extra [-> [E1 C1]]]. cbv beta iota.
      apply block_step_ok; [exact Hh|exact IH| |eapply same_cur_trans; eauto].
      cbn [l_content]. rewrite yields_app, <- app_assoc, <- E1. exact ES.
    + destruct CM as [NE C1]. cbn. split; [exact NE|]. intros IE. eapply same_cur_trans; eauto.
Qed.

(* ---------------------------------------------------------------- BlockBase.match *)
Lemma do_exit_after p n s : cur (sc s) = p ++ [n] ->
  exists s1, do_exit_scope s = (Val tt, s1) /\ stream s1 = stream s /\ cur (sc s1) = p.
Proof.
  intros E. unfold do_exit_scope. destruct (exit_after p n (sc s) E) as [y [Ey Cy]]. rewrite Ey.
  eexists; split; [reflexivity|]. split; [reflexivity|exact Cy].
Qed.
Lemma do_remove_cases n s :
  (exists s1, do_remove n s = (Val tt, s1) /\ stream s1 = stream s /\ cur (sc s1) = cur (sc s))
  \/ do_remove n s = (Raise EOther, s).
Proof.
  unfold do_remove. destruct (remove_scope n (sc s)) as [x|] eqn:E; [left|right; reflexivity].
  eexists; split; [reflexivity|]. split; [reflexivity|]. cbn. eapply cur_remove; eauto.
Qed.

Definition tn_rel (tn : option name) (cur0 : list name) (s : est) : Prop :=
  match tn with Some n => cur (sc s) = cur0 ++ [n] | None => cur (sc s) = cur0 end.

Lemma block_body_ok b content start_idx tn :
  (b_do_hook b = true -> exists stc, b_start b = Some stc /\ is_leaf stc /\ c_has_start_label (entry T stc) = true) ->
  (b_labeldo_abort b = true -> tn = None) ->
  forall s0 s, stream s0 = yields content ++ stream s -> tn_rel tn (cur (sc s0)) s ->
  ok_m s0 (block_body T rec b content start_idx tn s).
Proof.
  intros Hh Ha s0 s ES TR. unfold block_body.
  set (cl := block_classes T b s).
  pose proof (block_loop_ok b cl start_idx Hh (loop_bound (length cl) s)
                (mkLst content 0 false (b_if_hook b) (b_where_hook b)) (set_stream (stream s0) s) s ES
                (same_cur_refl _)) as LP.
  destruct (block_loop T rec b cl start_idx (loop_bound (length cl) s)
              (mkLst content 0 false (b_if_hook b) (b_where_hook b)) s) as [[[content' had fe|]|e] s1].
  - (* LBreak *)
    cbn [ok_loop] in LP. destruct LP as [E1 C1]. unfold same_cur in C1. cbn in E1, C1.
    assert (EX : exists s2, (match tn with Some _ => do_exit_scope | None => ret tt end) s1 = (Val tt, s2)
                            /\ stream s2 = stream s1 /\ cur (sc s2) = cur (sc s0)).
    { destruct tn as [n|]; cbn [tn_rel] in TR.
      - apply do_exit_after with (n := n). now rewrite C1.
      - eexists; split; [reflexivity|]. split; [reflexivity|]. now rewrite C1. }
    destruct EX as [s2 [EX1 [EX2 EX3]]]. unfold bind at 1. rewrite EX1.
    destruct ((negb had || match b_end b with Some _ => negb fe | None => false end)
              && match b_end b with Some _ => true | None => false end).
    + unfold bind at 1.
      assert (RM : (exists s3, (match tn with Some n => do_remove n | None => ret tt end) s2 = (Val tt, s3)
                     /\ stream s3 = stream s2 /\ cur (sc s3) = cur (sc s2))
                   \/ (match tn with Some n => do_remove n | None => ret tt end) s2 = (Raise EOther, s2)).
      { destruct tn as [n|]; [apply do_remove_cases|]. left. eexists; split; [reflexivity|]. auto. }
      destruct RM as [[s3 [R1 [R2 R3]]]|R1]; rewrite R1.
      * unfold bind, lift, ret. cbv beta iota. cbn [ok_m]. split.
        -- rewrite restore_stream, R2, EX2. symmetry; exact E1.
        -- unfold same_cur. rewrite restore_sc, R3. exact EX3.
      * cbn [ok_m]. split; [discriminate|]. intros _. exact EX3.
    + destruct content' as [|t0 ct].
      * cbn. split; [|exact EX3]. rewrite EX2. cbn in E1. symmetry; exact E1.
      * assert (OKS : ok_m s0 (Val (Some (t0 :: ct)), s2)).
        { cbn [ok_m]. split; [|exact EX3]. rewrite EX2. exact E1. }
        destruct (b_start b); [|exact OKS]. destruct (b_end b); [|exact OKS].
        match goal with |- context [if ?c then _ else _] => destruct c end; [|exact OKS].
        destruct (unit_name (tinfo (last (t0 :: ct) (TBlock 0%N [])))); [|exact OKS].
        match goal with |- context [match unit_name ?x with _ => _ end] => destruct (unit_name x) end.
        -- match goal with |- context [if ?c then _ else _] => destruct c end; [exact OKS|].
           destruct (t_exits T); [|exact OKS]. cbn. split; [discriminate|discriminate].
        -- destruct (t_exits T); [|exact OKS]. cbn. split; [discriminate|discriminate].
  - (* LAbort *)
    cbn [ok_loop] in LP. destruct LP as [AB [E1 C1]]. unfold same_cur in C1. cbn in E1, C1.
    rewrite (Ha AB) in TR. cbn in TR. cbn. split; [exact E1|]. unfold same_cur. now rewrite C1.
  - (* Raise *)
    cbn [ok_loop] in LP. destruct LP as [NE C1]. unfold same_cur in C1. cbn in C1.
    destruct (match e with ESyntax => true | _ => t_cleanup_all T && is_exception e end) eqn:CL.
    + assert (IE : is_exception e = true).
      { destruct e; try reflexivity; rewrite H_cleanup in CL; cbn in CL; discriminate. }
      specialize (C1 IE).
      destruct tn as [n|]; cbn [tn_rel] in TR.
      * unfold bind. destruct (do_exit_after (cur (sc s0)) n s1) as [s2 [X1 [X2 X3]]]; [now rewrite C1|].
        rewrite X1. destruct (do_remove_cases n s2) as [[s3 [R1 [R2 R3]]]|R1]; rewrite R1.
        -- cbn. split; [exact NE|]. intros _. unfold same_cur. now rewrite R3.
        -- cbn. split; [discriminate|]. intros _. exact X3.
      * cbn. split; [exact NE|]. intros _. unfold same_cur. now rewrite C1.
    + cbn. split; [exact NE|]. intros IE. exfalso.
      destruct e; try discriminate; rewrite H_cleanup in CL; cbn in CL; discriminate.
Qed.

Lemma block_match_ok b : hook_ok b -> forall s, ok_m s (block_match T rec b s).
Proof.
  intros [Hh Ha] s. unfold block_match. destruct (b_start b) as [stc|] eqn:ST; rewrite <- ST in Hh, Ha.
  - unfold bind at 1. pose proof (add_cid_ok (length (stream s) + 2) [] s) as A.
    destruct (add_cid T rec (length (stream s) + 2) [] s) as [[cm|e] s1]; cbn [ok_list] in A.
    + destruct A as [extra [-> [E1 C1]]]. cbn [app]. unfold bind at 1.
      destruct (catch_ok_t (call rec stc) s1 (call_ok stc s1)) as [Q1 Q2].
      pose proof (call_leaf_cls stc s1) as CL.
      destruct (catch_nomatch (call rec stc) s1) as [[[o|]|e] s2] eqn:CE.
      * cbn in Q1. destruct Q1 as [E2 C2].
        assert (ES : stream s = yields (extra ++ [o]) ++ stream s2).
        { rewrite yields_snoc, <- app_assoc, <- E2. exact E1. }
        destruct (c_scoping (entry T (tcls o))) eqn:SC.
        -- unfold bind, do_enter, lift. cbv beta iota.
           apply block_body_ok; [exact Hh | | exact ES |].
           ++ intros AB. exfalso. destruct (Ha AB) as [stc' [ST' [LF NS]]].
              rewrite ST' in ST. inversion ST; subst stc'.
              assert (tcls o = stc).
              { apply (CL o s2 LF). unfold catch_nomatch in CE.
                destruct (call rec stc s1) as [[[o'|]|e'] s'] eqn:CE2; try (destruct e'; discriminate); try discriminate.
                exact CE. }
              congruence.
           ++ cbn [tn_rel]. cbn. rewrite cur_enter. unfold same_cur in *. now rewrite C2, C1.
        -- unfold bind, ret. cbv beta iota.
           apply block_body_ok; [exact Hh | reflexivity | exact ES |].
           cbn [tn_rel]. unfold same_cur in *. now rewrite C2, C1.
      * cbn in Q1. destruct Q1 as [E2 C2]. unfold bind, lift, ret. cbv beta iota. cbn [ok_m]. split.
        -- rewrite restore_stream, E2. symmetry; exact E1.
        -- unfold same_cur in *. rewrite restore_sc. now rewrite C2, C1.
      * cbn in Q1. destruct Q1 as [_ C2]. cbn. split; [intros Hx; subst; eapply Q2; reflexivity|].
        intros IE. eapply same_cur_trans; eauto.
    + destruct A as [NE C]. cbn. split; [exact NE|exact C].
  - apply block_body_ok; [exact Hh | | reflexivity | reflexivity].
    intros AB. destruct (Ha AB) as [stc' [ST' _]]. congruence.
Qed.

Lemma main0_ok b : hook_ok b -> forall s, ok_m s (main0 T rec b s).
Proof.
  intros HB s. unfold main0.
  set (s1 := set_sc (enter_scope (t_main_name T) (sc s)) s).
  assert (C0 : cur (sc s1) = cur (sc s) ++ [t_main_name T]) by (cbn; apply cur_enter).
  pose proof (block_match_ok b HB s1) as B.
  destruct (block_match T rec b s1) as [[[c|]|e] s2]; cbn [ok_m] in B.
  - destruct B as [E C]. unfold same_cur in C.
    destruct (do_exit_after (cur (sc s)) (t_main_name T) s2) as [s3 [X1 [X2 X3]]]; [now rewrite C|].
    unfold bind. rewrite X1. cbn. split; [now rewrite X2|exact X3].
  - destruct B as [E C]. unfold same_cur in C.
    destruct (do_exit_after (cur (sc s)) (t_main_name T) s2) as [s3 [X1 [X2 X3]]]; [now rewrite C|].
    unfold bind at 1. rewrite X1.
    destruct (do_remove_cases (t_main_name T) s3) as [[s4 [R1 [R2 R3]]]|R1]; unfold bind; rewrite R1.
    + cbn. split; [now rewrite R2, X2|]. unfold same_cur. now rewrite R3.
    + cbn. split; [discriminate|]. intros _. exact X3.
  - destruct B as [NE C]. rewrite H_guard. cbn [andb].
    destruct (is_exception e) eqn:IE.
    + specialize (C eq_refl). unfold same_cur in C.
      destruct (do_exit_after (cur (sc s)) (t_main_name T) s2) as [s3 [X1 [X2 X3]]]; [now rewrite C|].
      unfold bind. rewrite X1.
      destruct (do_remove_cases (t_main_name T) s3) as [[s4 [R1 [R2 R3]]]|R1]; rewrite R1.
      * cbn. split; [exact NE|]. intros _. unfold same_cur. now rewrite R3.
      * cbn. split; [discriminate|]. intros _. exact X3.
    + cbn. split; [exact NE|]. intros; congruence.
Qed.

Lemma seq_match_ok cs : forall acc s0 s, stream s0 = yields acc ++ stream s -> same_cur s0 s ->
  ok_m s0 (seq_match T rec cs acc s).
Proof.
  induction cs as [|c r IH]; intros acc s0 s ES CS; cbn [seq_match].
  - cbn. auto.
  - rewrite H_restores. unfold bind at 1.
    destruct (catch_ok_t (call rec c) s (call_ok c s)) as [Q1 Q2].
    destruct (catch_nomatch (call rec c) s) as [[[t|]|e] s1].
    + cbn in Q1. destruct Q1 as [E C]. apply IH.
      * rewrite yields_snoc, <- app_assoc, <- E. exact ES.
      * eapply same_cur_trans; eauto.
    + cbn in Q1. destruct Q1 as [E C]. unfold bind, lift, ret. cbv beta iota. cbn [ok_m]. split.
      * rewrite restore_stream, E. symmetry; exact ES.
      * unfold same_cur in *. rewrite restore_sc. congruence.
    + cbn in Q1. destruct Q1 as [_ C]. cbn. split; [intros Hx; subst; eapply Q2; reflexivity|].
      intros IE. eapply same_cur_trans; eauto.
Qed.

Lemma loop_match_ok c k : forall acc s0 s, stream s0 = yields acc ++ stream s -> same_cur s0 s ->
  ok_m s0 (loop_match rec c k acc s).
Proof.
  induction k as [|k IH]; intros acc s0 s ES CS; cbn [loop_match].
  - cbn. split; discriminate.
  - unfold bind at 1.
    destruct (catch_ok_t (call rec c) s (call_ok c s)) as [Q1 Q2].
    destruct (catch_nomatch (call rec c) s) as [[[t|]|e] s1].
    + cbn in Q1. destruct Q1 as [E C]. apply IH.
      * rewrite yields_snoc, <- app_assoc, <- E. exact ES.
      * eapply same_cur_trans; eauto.
    + cbn in Q1. destruct Q1 as [E C]. destruct acc as [|a0 ar].
      * cbn. cbn in ES. split; [congruence|]. eapply same_cur_trans; eauto.
      * cbn [ok_m ret]. split; [now rewrite E|]. eapply same_cur_trans; eauto.
    + cbn in Q1. destruct Q1 as [_ C]. cbn. split; [intros Hx; subst; eapply Q2; reflexivity|].
      intros IE. eapply same_cur_trans; eauto.
Qed.

Lemma try_alts_ok alts : forall s, ok_t s (try_alts rec alts s) /\
  forall s', try_alts rec alts s <> (Raise ENoMatch, s').
Proof.
  induction alts as [|a r IH]; intros s; cbn [try_alts].
  - split; [cbn; auto using same_cur_refl|discriminate].
  - destruct (mem a (pcls s)); [apply IH|]. unfold bind.
    destruct (catch_ok_t (rec a) s (ct_ok rec HR a s)) as [Q1 Q2].
    destruct (catch_nomatch (rec a) s) as [[[t|]|e] s1].
    + split; [exact Q1|discriminate].
    + cbn in Q1. destruct Q1 as [E C]. destruct (IH s1) as [I1 I2].
      split; [eapply ok_t_chain_none; eauto|exact I2].
    + split; [exact Q1|]. intros s' Hs. inversion Hs; subst. eapply Q2; reflexivity.
Qed.

End WithRec.

(* ---------------------------------------------------------------- Base.__new__ *)
Lemma ok_t_shift s s1 r : stream s1 = stream s -> sc s1 = sc s -> ok_t s1 r -> ok_t s r.
Proof.
  intros E C. apply ok_t_chain_none; [exact E|]. unfold same_cur. now rewrite C.
Qed.

Lemma finish_ok rec (HR : Contract rec) c (m : M (option (list tree))) s : ok_m s (m s) ->
  ok_t s (match catch_nomatch m s with
          | (Raise e', s1) => (Raise e', s1)
          | (Val (Some content), s1) => (Val (Some (TBlock c content)), s1)
          | (Val None, s1) =>
              match try_alts rec (c_alts (entry T c)) s1 with
              | (Val (Some t), s2) => (Val (Some t), s2)
              | (Val None, s2) => if seen_code s2 then (Raise ENoMatch, s2) else (Val None, s2)
              | (Raise e', s2) => (Raise e', s2)
              end
          end).
Proof.
  intros H. unfold catch_nomatch. destruct (m s) as [[[content|]|e] s1]; cbn [ok_m] in H.
  - cbn [ok_t]. rewrite yield_block. exact H.
  - destruct H as [E C]. destruct (try_alts_ok rec HR (c_alts (entry T c)) s1) as [A _].
    destruct (try_alts rec (c_alts (entry T c)) s1) as [[[t|]|e] s2]; cbn [ok_t] in A.
    + eapply ok_t_chain_none; [exact E|exact C|]. exact A.
    + destruct A as [E2 C2]. destruct (seen_code s2); cbn [ok_t].
      * split; [intros _; congruence|]. intros _. eapply same_cur_trans; eauto.
      * split; [congruence|]. eapply same_cur_trans; eauto.
    + eapply ok_t_chain_none; [exact E|exact C|]. exact A.
  - destruct H as [NE C]. destruct e; try (cbn [ok_t]; split; [intros; congruence|exact C]).
    congruence.
Qed.

Theorem new_contract : forall fuel, Contract (new T L fuel).
Proof.
  induction fuel as [|f IH].
  - constructor.
    + intros c s. cbn. split; [discriminate|discriminate].
    + intros c s s' _. cbn. discriminate.
    + intros c s t s' _. cbn. discriminate.
  - constructor.
    + intros c s. cbn [new].
      destruct (N.eqb c (t_comment T)); [apply comment_ok|].
      destruct (N.eqb c (t_directive T)); [apply directive_ok|].
      set (s1 := if mem c (pcls (tick s)) then tick s else set_pcls (pcls (tick s) ++ [c]) (tick s)).
      assert (E1 : stream s1 = stream s) by (unfold s1; destruct (mem c (pcls (tick s))); reflexivity).
      assert (C1 : sc s1 = sc s) by (unfold s1; destruct (mem c (pcls (tick s))); reflexivity).
      apply (ok_t_shift s s1 _ E1 C1).
      destruct (c_kind (entry T c)) as [| |b|b|cs|c'|] eqn:K.
      * apply leaf_ok.
      * apply (finish_ok (new T L f) IH c (ret None) s1). cbn. auto using same_cur_refl.
      * apply (finish_ok (new T L f) IH c (block_match T (new T L f) b) s1).
        apply block_match_ok; [exact IH|]. eapply H_hook; left; exact K.
      * apply (finish_ok (new T L f) IH c (main0 T (new T L f) b) s1).
        apply main0_ok; [exact IH|]. eapply H_hook; right; exact K.
      * apply (finish_ok (new T L f) IH c (seq_match T (new T L f) cs []) s1).
        apply seq_match_ok; [exact IH| reflexivity | apply same_cur_refl].
      * apply (finish_ok (new T L f) IH c
                 (fun s => loop_match (new T L f) c' (length (stream s) + 2) [] s) s1).
        apply loop_match_ok; [exact IH| reflexivity | apply same_cur_refl].
      * apply (finish_ok (new T L f) IH c (ret None) s1). cbn. auto using same_cur_refl.
    + intros c s s' Hl. cbn [new].
      destruct (N.eqb c (t_comment T)); [apply comment_not_raise|].
      destruct (N.eqb c (t_directive T)); [apply directive_not_raise|].
      unfold is_leaf in Hl. rewrite Hl. apply leaf_nomatch.
    + intros c s t s' Hl. cbn [new].
      destruct (N.eqb c (t_comment T)) eqn:EC.
      { apply N.eqb_eq in EC. subst c. unfold comment.
        destruct (get_item s) as [[i|] s1]; [destruct (ikd i)|]; intros H; inversion H; reflexivity. }
      destruct (N.eqb c (t_directive T)) eqn:ED.
      { apply N.eqb_eq in ED. subst c. unfold directive.
        destruct (get_item s) as [[i|] s1]; [destruct (ikd i); [|destruct (idir i)|]|];
          intros H; inversion H; reflexivity. }
      unfold is_leaf in Hl. rewrite Hl. apply leaf_cls.
Qed.

End Contracts.
