(* Laws of the statement-level base matchers (Model/StmtBase.v): what EndStmtBase.tostr / WORDClsBase.tostr print is
   matched again as the same tuple (the C01 round trip at statement level, for every statement type and name /
   every keyword and remainder), keyword case and the blanks after END do not matter (C04), and what is accepted
   has the shape the rule says (C08: END + type [+ a name]; a keyword glued to a letter is no keyword). *)
From Coq Require Import List Bool Arith Ascii NArith Lia.
From FV Require Import SplitLine Text Reader StmtBase ReaderJoin.
Import ListNotations.

Lemma text_eqb_refl t : text_eqb t t = true.
Proof. induction t as [|c r IH]; [reflexivity|]. cbn. now rewrite aeqb_refl, IH. Qed.
Lemma text_eqb_eq a : forall b, text_eqb a b = true -> a = b.
Proof.
  induction a as [|x r IH]; intros [|y s]; cbn; try discriminate; [reflexivity|].
  intros H. apply andb_true_iff in H as [H1 H2]. apply aeqb_eq in H1. f_equal; [exact H1|apply IH; exact H2].
Qed.

Lemma lstrip_nonspace c r : is_space c = false -> lstrip (c :: r) = c :: r.
Proof. intros H. cbn. now rewrite H. Qed.
Lemma lstrip_space_cons r : lstrip (" "%char :: r) = lstrip r.
Proof. reflexivity. Qed.

(* a text that starts with a non-blank character *)
Definition starts_solid (t : text) : Prop := match t with c :: _ => is_space c = false | [] => False end.
Lemma starts_solid_lstrip t : starts_solid t -> lstrip t = t.
Proof. destruct t as [|c r]; [contradiction|]. apply lstrip_nonspace. Qed.
Lemma starts_solid_app t u : starts_solid t -> starts_solid (t ++ u).
Proof. destruct t; [contradiction|]. exact (fun H => H). Qed.
Lemma starts_solid_ne t : starts_solid t -> t <> [].
Proof. destruct t; [contradiction|discriminate]. Qed.

Lemma alpha_not_space c : is_alpha c = true -> is_space c = false.
Proof.
  destruct c as [b0 b1 b2 b3 b4 b5 b6 b7]. destruct b0, b1, b2, b3, b4, b5, b6, b7; vm_compute; intros H; try discriminate; reflexivity.
Qed.
Lemma upper_not_space c : is_space (upper_char c) = false -> is_space c = false.
Proof.
  destruct c as [b0 b1 b2 b3 b4 b5 b6 b7]. destruct b0, b1, b2, b3, b4, b5, b6, b7; vm_compute; intros H; try discriminate; reflexivity.
Qed.
Lemma name_char_not_space c : is_name_char c = true -> is_space c = false.
Proof.
  destruct c as [b0 b1 b2 b3 b4 b5 b6 b7]. destruct b0, b1, b2, b3, b4, b5, b6, b7; vm_compute; intros H; try discriminate; reflexivity.
Qed.

Lemma is_name_solid n : is_name n = true -> starts_solid n.
Proof. destruct n as [|c r]; [discriminate|]. cbn. intros H. apply andb_true_iff in H as [H _]. now apply alpha_not_space. Qed.

Lemma lstrip_none t : forallb (fun c => negb (is_space c)) t = true -> lstrip t = t.
Proof. destruct t as [|c r]; [reflexivity|]. cbn. intros H. apply andb_true_iff in H as [H _]. apply negb_true_iff in H. now rewrite H. Qed.
Lemma is_name_no_space n : is_name n = true -> forallb (fun c => negb (is_space c)) n = true.
Proof.
  destruct n as [|c r]; [discriminate|]. cbn. intros H. apply andb_true_iff in H as [H1 H2].
  rewrite (alpha_not_space c H1). cbn. rewrite forallb_forall in *. intros x Hx. rewrite (name_char_not_space x (H2 x Hx)). reflexivity.
Qed.
Lemma is_name_strip n : is_name n = true -> strip n = n.
Proof.
  intros H. pose proof (is_name_no_space n H) as NS. unfold strip, rstrip.
  assert (R : forallb (fun c => negb (is_space c)) (rev n) = true).
  { rewrite forallb_forall in *. intros x Hx. apply NS. now apply in_rev. }
  rewrite (lstrip_none _ R), rev_involutive. apply lstrip_none. exact NS.
Qed.

Lemma upper_app a b : upper (a ++ b) = upper a ++ upper b.
Proof. apply map_app. Qed.
Lemma upper_length t : length (upper t) = length t.
Proof. apply map_length. Qed.
Lemma upper_nil t : upper t = [] -> t = [].
Proof. destruct t; [reflexivity|discriminate]. Qed.

Lemma match_ne {A B} (t : list A) (a b : B) : t <> [] -> match t with [] => a | _ :: _ => b end = b.
Proof. destruct t; [contradiction|reflexivity]. Qed.

(* ---- EndStmtBase *)
Section EndLaws.
Variable stype : text.
Hypothesis ST_UP : upper stype = stype.          (* the classes pass the type in upper case *)
Hypothesis ST_SOLID : starts_solid stype.

Lemma end_prefix rest : upper (firstn 3 (end_kw ++ rest)) = end_kw.
Proof. reflexivity. Qed.

Theorem end_roundtrip_named n req : is_name n = true ->
  end_match stype true req (end_tostr stype (ENamed n)) = ENamed n.
Proof.
  intros N. unfold end_match, end_tostr. rewrite end_prefix, text_eqb_refl. cbn [negb].
  change (skipn 3 (end_kw ++ " "%char :: stype ++ " "%char :: n)) with (" "%char :: stype ++ " "%char :: n).
  rewrite lstrip_space_cons, (starts_solid_lstrip _ (starts_solid_app stype _ ST_SOLID)).
  rewrite firstn_app_exact, ST_UP.
  rewrite (match_ne stype _ _ (starts_solid_ne _ ST_SOLID)).
  rewrite text_eqb_refl. cbn [negb]. rewrite skipn_app_exact, lstrip_space_cons.
  rewrite (starts_solid_lstrip n (is_name_solid n N)).
  rewrite (match_ne n _ _ (starts_solid_ne _ (is_name_solid n N))).
  rewrite (is_name_strip n N), N. reflexivity.
Qed.

Theorem end_roundtrip_type named req :
  end_match stype named req (end_tostr stype EType) = EType.
Proof.
  unfold end_match, end_tostr. rewrite end_prefix, text_eqb_refl. cbn [negb].
  change (skipn 3 (end_kw ++ " "%char :: stype)) with (" "%char :: stype).
  rewrite lstrip_space_cons, (starts_solid_lstrip _ ST_SOLID).
  rewrite firstn_all, ST_UP.
  rewrite (match_ne stype _ _ (starts_solid_ne _ ST_SOLID)).
  rewrite text_eqb_refl. cbn [negb]. rewrite skipn_all. reflexivity.
Qed.

Theorem end_roundtrip_bare named :
  end_match stype named false (end_tostr stype EBare) = EBare.
Proof. unfold end_match, end_tostr. cbn. destruct (length stype); reflexivity. Qed.

(* a bare END is refused where the type is required *)
Theorem end_bare_refused named : end_match stype named true end_kw = ENoMatch.
Proof. unfold end_match. cbn. destruct (length stype); reflexivity. Qed.

(* keyword case and the blanks after END do not matter: eNd   tYpE  == END TYPE *)
Theorem end_case_and_blanks e b t named req :
  upper e = end_kw -> blanks b -> upper t = stype ->
  end_match stype named req (e ++ b ++ t) = EType.
Proof.
  intros UE B UT. unfold end_match.
  assert (LE : length e = 3) by (rewrite <- (upper_length e), UE; reflexivity).
  replace (firstn 3 (e ++ b ++ t)) with e by (rewrite <- LE; now rewrite firstn_app_exact).
  rewrite UE, text_eqb_refl. cbn [negb].
  replace (skipn 3 (e ++ b ++ t)) with (b ++ t) by (rewrite <- LE; now rewrite skipn_app_exact).
  assert (LT : length t = length stype) by (rewrite <- UT; now rewrite upper_length).
  assert (TS : starts_solid t).
  { destruct t as [|c r]; [rewrite <- UT in ST_SOLID; contradiction|]. rewrite <- UT in ST_SOLID. cbn in ST_SOLID.
    cbn. apply upper_not_space. exact ST_SOLID. }
  assert (LB : lstrip (b ++ t) = t).
  { clear -B TS. unfold blanks in B. induction b as [|x r IH]; cbn [app]; [apply starts_solid_lstrip; exact TS|].
    cbn in B. apply andb_true_iff in B as [B1 B2]. apply aeqb_eq in B1. subst. rewrite lstrip_space_cons. apply IH. exact B2. }
  rewrite LB, <- LT, firstn_all, UT.
  rewrite (match_ne stype _ _ (starts_solid_ne _ ST_SOLID)).
  rewrite text_eqb_refl. cbn [negb]. rewrite skipn_all. reflexivity.
Qed.

(* what is accepted with a name: the text starts with END (any case) and the name is an identifier *)
Theorem end_named_sound named req s n :
  end_match stype named req s = ENamed n -> upper (firstn 3 s) = end_kw /\ is_name n = true /\ named = true.
Proof.
  unfold end_match. destruct (text_eqb (upper (firstn 3 s)) end_kw) eqn:E; cbn [negb]; [|discriminate].
  apply text_eqb_eq in E.
  destruct (upper (firstn (length stype) (lstrip (skipn 3 s)))) as [|c r]; [destruct req; discriminate|].
  destruct (negb (text_eqb (drop_blanks (c :: r)) (drop_blanks stype))); [discriminate|].
  destruct (lstrip (skipn (length stype) (lstrip (skipn 3 s)))) as [|c2 r2] eqn:L2; [discriminate|].
  destruct named; [|discriminate].
  destruct (is_name (strip (c2 :: r2))) eqn:N; [|discriminate].
  intros H. inversion H; subst. auto.
Qed.
End EndLaws.

(* ---- WORDClsBase (string keyword) *)
Section WordLaws.
Variable kw : text.
Hypothesis KW_SOLID : starts_solid kw.

Lemma word_prefix rest : text_eqb (upper (firstn (length kw) (kw ++ rest))) (upper kw) = true.
Proof. rewrite firstn_app_exact. apply text_eqb_refl. Qed.

Definition no_colons (rest : text) : Prop := starts_with [":"; ":"]%char rest = false.

Theorem word_roundtrip rest colons req :
  starts_solid rest -> (colons = true -> no_colons rest) ->
  word_match kw true colons req (word_tostr kw false (WRest rest)) = WRest rest.
Proof.
  intros RS NC.
  assert (HC : colons && starts_with [":"; ":"]%char rest = false).
  { destruct colons; [|reflexivity]. cbn [andb]. apply NC. reflexivity. }
  destruct rest as [|c r]; [contradiction|]. cbn [word_tostr].
  assert (LR : lstrip (c :: r) = c :: r) by (apply starts_solid_lstrip; exact RS).
  destruct (aeqb c "("%char || aeqb c "*"%char) eqn:PB; unfold word_match.
  - rewrite (starts_solid_lstrip _ (starts_solid_app kw (c :: r) KW_SOLID)), word_prefix. cbn [negb].
    rewrite skipn_app_exact.
    assert (NA : is_alnum_us c = false).
    { apply orb_true_iff in PB as [P|P]; apply aeqb_eq in P; subst; reflexivity. }
    rewrite NA, LR, HC. reflexivity.
  - rewrite (starts_solid_lstrip _ (starts_solid_app kw (" "%char :: c :: r) KW_SOLID)), word_prefix. cbn [negb].
    rewrite skipn_app_exact. change (is_alnum_us " "%char) with false. cbv iota.
    rewrite lstrip_space_cons, LR, HC. reflexivity.
Qed.

Theorem word_roundtrip_colons rest req :
  starts_solid rest ->
  word_match kw true true req (word_tostr kw true (WRest rest)) = WRest rest.
Proof.
  intros RS. unfold word_match, word_tostr.
  rewrite (starts_solid_lstrip _ (starts_solid_app kw _ KW_SOLID)), word_prefix. cbn [negb].
  rewrite skipn_app_exact. cbn [app]. change (is_alnum_us " "%char) with false. cbv iota.
  rewrite lstrip_space_cons. cbn [lstrip is_space]. change (is_space ":"%char) with false. cbv iota.
  cbn [andb starts_with]. rewrite !aeqb_refl. cbn [andb skipn]. rewrite lstrip_space_cons, (starts_solid_lstrip rest RS).
  destruct rest; [contradiction|reflexivity].
Qed.

Theorem word_roundtrip_bare has colons : word_match kw has colons false (word_tostr kw false WBare) = WBare.
Proof.
  unfold word_match, word_tostr. rewrite (starts_solid_lstrip kw KW_SOLID), firstn_all, text_eqb_refl. cbn [negb].
  now rewrite skipn_all.
Qed.

(* a keyword glued to a letter, a digit or an underscore is not that keyword *)
Theorem word_boundary c r has colons req : is_alnum_us c = true ->
  word_match kw has colons req (kw ++ c :: r) = WNoMatch.
Proof.
  intros A. unfold word_match. rewrite (starts_solid_lstrip _ (starts_solid_app kw _ KW_SOLID)), word_prefix. cbn [negb].
  rewrite skipn_app_exact, A. reflexivity.
Qed.

(* the keyword is recognised in any case *)
Theorem word_case k2 rest has colons req : upper k2 = upper kw -> starts_solid k2 ->
  word_match kw has colons req (k2 ++ rest) = word_match kw has colons req (kw ++ rest).
Proof.
  intros U S2. unfold word_match.
  assert (L : length k2 = length kw) by (rewrite <- (upper_length k2), U; apply upper_length).
  rewrite (starts_solid_lstrip _ (starts_solid_app k2 rest S2)), (starts_solid_lstrip _ (starts_solid_app kw rest KW_SOLID)).
  rewrite <- L at 1. rewrite firstn_app_exact, U, text_eqb_refl, word_prefix. cbn [negb].
  rewrite <- L at 1. now rewrite !skipn_app_exact.
Qed.
End WordLaws.

(* ---- STRINGBase / StringBase with literal patterns *)
Lemma existsb_eqb_in u pats : existsb (text_eqb u) pats = true <-> In u pats.
Proof.
  rewrite existsb_exists. split.
  - intros [x [I E]]. apply text_eqb_eq in E. now subst.
  - intros I. exists u. split; [exact I|apply text_eqb_refl].
Qed.

Theorem strings_roundtrip pats fold p : In p pats -> (fold = true -> upper p = p) ->
  strings_match pats fold p = Some p.
Proof.
  intros I U. unfold strings_match. destruct fold.
  - rewrite (U eq_refl). rewrite (proj2 (existsb_eqb_in p pats) I). reflexivity.
  - rewrite (proj2 (existsb_eqb_in p pats) I). reflexivity.
Qed.

Theorem strings_case pats s s' : upper s = upper s' -> strings_match pats true s = strings_match pats true s'.
Proof. intros E. unfold strings_match. now rewrite E. Qed.

Theorem strings_sound pats fold s u : strings_match pats fold s = Some u ->
  In u pats /\ u = (if fold then upper s else s).
Proof.
  unfold strings_match. destruct (existsb (text_eqb (if fold then upper s else s)) pats) eqn:E; [|discriminate].
  intros H. inversion H; subst. split; [apply existsb_eqb_in; exact E|reflexivity].
Qed.

(* ---- BracketBase *)
Lemma starts_with_app_self p t : starts_with p (p ++ t) = true.
Proof. induction p as [|c r IH]; [reflexivity|]. cbn. now rewrite aeqb_refl, IH. Qed.
Lemma div2_double' n : Nat.div2 (n + n) = n.
Proof. induction n as [|n IH]; [reflexivity|]. replace (S n + S n) with (S (S (n + n))) by lia. cbn [Nat.div2]. now rewrite IH. Qed.
Lemma odd_double' n : Nat.odd (n + n) = false.
Proof. rewrite Nat.odd_add. now destruct (Nat.odd n). Qed.
Lemma strip_solid t : starts_solid t -> starts_solid (rev t) -> strip t = t.
Proof.
  intros A B. unfold strip, rstrip. rewrite (starts_solid_lstrip _ B), rev_involutive. apply starts_solid_lstrip. exact A.
Qed.

Section BracketLaws.
Variables (brackets l r : text).
Hypothesis HALVES : drop_blanks brackets = l ++ r.
Hypothesis SAME : length r = length l.
Hypothesis L_SOLID : starts_solid l.
Hypothesis R_SOLID : starts_solid (rev r).

Lemma halves_eq : bracket_halves brackets = (l, r).
Proof.
  unfold bracket_halves. rewrite HALVES, app_length, SAME, div2_double'.
  rewrite firstn_app_exact. replace (length l + length l - length l) with (length l) by lia.
  now rewrite skipn_app_exact.
Qed.

Lemma l_ne : l <> [].
Proof. apply starts_solid_ne. exact L_SOLID. Qed.

Theorem bracket_roundtrip inner req : starts_solid inner ->
  bracket_match brackets true req (bracket_tostr brackets (BIn inner)) = BIn inner.
Proof.
  intros IS. unfold bracket_tostr. rewrite halves_eq. unfold bracket_match. rewrite halves_eq. cbn [negb andb].
  assert (NE : l ++ inner ++ r <> []) by (pose proof l_ne; destruct l; [contradiction|discriminate]).
  rewrite (match_ne (l ++ inner ++ r) _ _ NE).
  assert (ST : strip (l ++ inner ++ r) = l ++ inner ++ r).
  { apply strip_solid; [apply starts_solid_app; exact L_SOLID|].
    rewrite !rev_app_distr, <- app_assoc. apply starts_solid_app. exact R_SOLID. }
  rewrite ST, HALVES.
  assert (NB : l ++ r <> []) by (pose proof l_ne; destruct l; [contradiction|discriminate]).
  rewrite (match_ne (l ++ r) _ _ NB).
  rewrite app_length, SAME, odd_double', div2_double'.
  assert (LEN : length (l ++ inner ++ r) = length l + length inner + length l) by (rewrite !app_length, SAME; lia).
  rewrite LEN.
  replace (length l + length inner + length l <? length l * 2) with false by (symmetry; apply Nat.ltb_ge; lia).
  rewrite starts_with_app_self.
  assert (EW : ends_with r (l ++ inner ++ r) = true).
  { unfold ends_with. rewrite !rev_app_distr, <- app_assoc. apply starts_with_app_self. }
  rewrite EW. cbn [andb negb].
  rewrite skipn_app_exact. replace (length l + length inner + length l - length l - length l) with (length inner) by lia.
  rewrite firstn_app_exact, (starts_solid_lstrip inner IS).
  rewrite (match_ne inner _ _ (starts_solid_ne _ IS)). reflexivity.
Qed.

Theorem bracket_roundtrip_empty has : bracket_match brackets has false (bracket_tostr brackets BEmpty) = BEmpty.
Proof.
  unfold bracket_tostr. rewrite halves_eq. unfold bracket_match. rewrite halves_eq. rewrite andb_false_r.
  assert (NB : l ++ r <> []) by (pose proof l_ne; destruct l; [contradiction|discriminate]).
  rewrite (match_ne (l ++ r) _ _ NB).
  assert (ST : strip (l ++ r) = l ++ r).
  { apply strip_solid; [apply starts_solid_app; exact L_SOLID|]. rewrite rev_app_distr. apply starts_solid_app. exact R_SOLID. }
  rewrite ST, HALVES, (match_ne (l ++ r) _ _ NB).
  rewrite app_length, SAME, odd_double', div2_double'.
  replace (length l + length l <? length l * 2) with false by (symmetry; apply Nat.ltb_ge; lia).
  rewrite starts_with_app_self.
  assert (EW : ends_with r (l ++ r) = true) by (unfold ends_with; rewrite rev_app_distr; apply starts_with_app_self).
  rewrite EW. cbn [andb negb].
  rewrite skipn_app_exact. replace (length l + length l - length l - length l) with 0 by lia. cbn [firstn lstrip].
  rewrite andb_false_r. reflexivity.
Qed.

(* what is accepted is bracketed: the stripped text starts with the left and ends with the right half *)
Theorem bracket_sound has req s inner : bracket_match brackets has req s = BIn inner ->
  starts_with l (strip s) = true /\ ends_with r (strip s) = true /\ has = true /\ inner <> [].
Proof.
  unfold bracket_match. rewrite halves_eq.
  destruct (negb has && req); [discriminate|]. destruct s as [|c0 s0]; [discriminate|].
  destruct (drop_blanks brackets) as [|b0 bs]; [discriminate|].
  destruct (Nat.odd (length (b0 :: bs))); [discriminate|].
  destruct (length (strip (c0 :: s0)) <? Nat.div2 (length (b0 :: bs)) * 2); [discriminate|].
  destruct (starts_with l (strip (c0 :: s0))) eqn:A; [|discriminate].
  destruct (ends_with r (strip (c0 :: s0))) eqn:B; [|discriminate]. cbn [andb negb].
  match goal with |- context [lstrip ?x] => destruct (lstrip x) as [|c1 r1] eqn:LL end.
  - destruct (has && req); discriminate.
  - destruct has; [|discriminate]. intros H. inversion H; subst. repeat split; discriminate.
Qed.
End BracketLaws.

(* ---- Name and Label *)
Theorem name_roundtrip n : is_name n = true -> name_match n = Some n.
Proof. intros N. unfold name_match. now rewrite (is_name_strip n N), N. Qed.
Theorem name_sound s n : name_match s = Some n -> is_name n = true /\ n = strip s.
Proof. unfold name_match. destruct (is_name (strip s)) eqn:E; [|discriminate]. intros H. inversion H; subst. auto. Qed.
Theorem name_blanks_around b1 b2 n : blanks b1 -> blanks b2 -> is_name n = true -> name_match (b1 ++ n ++ b2) = Some n.
Proof.
  intros B1 B2 N. unfold name_match.
  assert (S : strip (b1 ++ n ++ b2) = n).
  { unfold strip, rstrip. rewrite !rev_app_distr, <- app_assoc.
    assert (LB : forall b t, blanks b -> lstrip (b ++ t) = lstrip t).
    { clear. intros b t. unfold blanks. induction b as [|x r IH]; cbn [app]; [reflexivity|]. cbn [forallb]. intros H.
      apply andb_true_iff in H as [H1 H2]. apply aeqb_eq in H1. subst. rewrite lstrip_space_cons. apply IH. exact H2. }
    assert (RB : blanks (rev b2)).
    { unfold blanks in *. rewrite forallb_forall in *. intros x Hx. apply B2. now apply in_rev. }
    rewrite (LB (rev b2) _ RB).
    pose proof (is_name_no_space n N) as NS.
    assert (RN : forallb (fun c => negb (is_space c)) (rev n) = true).
    { rewrite forallb_forall in *. intros x Hx. apply NS. now apply in_rev. }
    destruct (rev n) as [|c r] eqn:ER.
    { apply (f_equal (@rev ascii)) in ER. rewrite rev_involutive in ER. subst. discriminate. }
    cbn [app]. cbn [forallb] in RN. apply andb_true_iff in RN as [C _]. apply negb_true_iff in C.
    rewrite (lstrip_nonspace c _ C). change (c :: r ++ rev b1) with ((c :: r) ++ rev b1). rewrite <- ER.
    rewrite rev_app_distr, !rev_involutive. rewrite (LB b1 n B1). apply starts_solid_lstrip. apply is_name_solid. exact N. }
  now rewrite S, N.
Qed.
Theorem label_sound s l : label_match s = Some l -> l = s /\ 1 <= length s <= 5 /\ forallb is_digit s = true.
Proof.
  unfold label_match, is_label. destruct ((1 <=? length s) && (length s <=? 5) && forallb is_digit s) eqn:E; [|discriminate].
  intros H. inversion H; subst. apply andb_true_iff in E as [E D]. apply andb_true_iff in E as [A B].
  apply Nat.leb_le in A. apply Nat.leb_le in B. auto.
Qed.
