(* Laws of the statement-level base matchers (Model/StmtBase.v): what EndStmtBase.tostr / WORDClsBase.tostr print is
   matched again as the same tuple (the C01 round trip at statement level, for every statement type and name /
   every keyword and remainder), keyword case and the blanks after END do not matter (C04), and what is accepted
   has the shape the rule says (C08: END + type [+ a name]; a keyword glued to a letter is no keyword). *)
From Coq Require Import List Bool Arith Ascii NArith Lia.
From FV Require Import SplitLine Text Reader StmtBase ReaderJoin.
Import ListNotations.

Lemma text_eqb_refl t : text_eqb t t = true.
Proof. induction t as [|c r IH]; [reflexivity|]. cbn. now rewrite aeqb_refl, IH. Qed.
Lemma text_eqb_eq a : forall b, text_eqb a b = true -> a = b.
Proof.
  induction a as [|x r IH]; intros [|y s]; cbn; try discriminate; [reflexivity|].
  intros H. apply andb_true_iff in H as [H1 H2]. apply aeqb_eq in H1. f_equal; [exact H1|apply IH; exact H2].
Qed.

Lemma lstrip_nonspace c r : is_space c = false -> lstrip (c :: r) = c :: r.
Proof. intros H. cbn. now rewrite H. Qed.
Lemma lstrip_space_cons r : lstrip (" "%char :: r) = lstrip r.
Proof. reflexivity. Qed.

(* a text that starts with a non-blank character *)
Definition starts_solid (t : text) : Prop := match t with c :: _ => is_space c = false | [] => False end.
Lemma starts_solid_lstrip t : starts_solid t -> lstrip t = t.
Proof. destruct t as [|c r]; [contradiction|]. apply lstrip_nonspace. Qed.
Lemma starts_solid_app t u : starts_solid t -> starts_solid (t ++ u).
Proof. destruct t; [contradiction|]. exact (fun H => H). Qed.
Lemma starts_solid_ne t : starts_solid t -> t <> [].
Proof. destruct t; [contradiction|discriminate]. Qed.

Lemma alpha_not_space c : is_alpha c = true -> is_space c = false.
Proof.
  destruct c as [b0 b1 b2 b3 b4 b5 b6 b7]. destruct b0, b1, b2, b3, b4, b5, b6, b7; vm_compute; intros H; try discriminate; reflexivity.
Qed.
Lemma upper_not_space c : is_space (upper_char c) = false -> is_space c = false.
Proof.
  destruct c as [b0 b1 b2 b3 b4 b5 b6 b7]. destruct b0, b1, b2, b3, b4, b5, b6, b7; vm_compute; intros H; try discriminate; reflexivity.
Qed.
Lemma name_char_not_space c : is_name_char c = true -> is_space c = false.
Proof.
  destruct c as [b0 b1 b2 b3 b4 b5 b6 b7]. destruct b0, b1, b2, b3, b4, b5, b6, b7; vm_compute; intros H; try discriminate; reflexivity.
Qed.

Lemma is_name_solid n : is_name n = true -> starts_solid n.
Proof. destruct n as [|c r]; [discriminate|]. cbn. intros H. apply andb_true_iff in H as [H _]. now apply alpha_not_space. Qed.

Lemma lstrip_none t : forallb (fun c => negb (is_space c)) t = true -> lstrip t = t.
Proof. destruct t as [|c r]; [reflexivity|]. cbn. intros H. apply andb_true_iff in H as [H _]. apply negb_true_iff in H. now rewrite H. Qed.
Lemma is_name_no_space n : is_name n = true -> forallb (fun c => negb (is_space c)) n = true.
Proof.
  destruct n as [|c r]; [discriminate|]. cbn. intros H. apply andb_true_iff in H as [H1 H2].
  rewrite (alpha_not_space c H1). cbn. rewrite forallb_forall in *. intros x Hx. rewrite (name_char_not_space x (H2 x Hx)). reflexivity.
Qed.
Lemma is_name_strip n : is_name n = true -> strip n = n.
Proof.
  intros H. pose proof (is_name_no_space n H) as NS. unfold strip, rstrip.
  assert (R : forallb (fun c => negb (is_space c)) (rev n) = true).
  { rewrite forallb_forall in *. intros x Hx. apply NS. now apply in_rev. }
  rewrite (lstrip_none _ R), rev_involutive. apply lstrip_none. exact NS.
Qed.

Lemma upper_app a b : upper (a ++ b) = upper a ++ upper b.
Proof. apply map_app. Qed.
Lemma upper_length t : length (upper t) = length t.
Proof. apply map_length. Qed.
Lemma upper_nil t : upper t = [] -> t = [].
Proof. destruct t; [reflexivity|discriminate]. Qed.

Lemma match_ne {A B} (t : list A) (a b : B) : t <> [] -> match t with [] => a | _ :: _ => b end = b.
Proof. destruct t; [contradiction|reflexivity]. Qed.

(* ---- EndStmtBase *)
Section EndLaws.
Variable stype : text.
Hypothesis ST_UP : upper stype = stype.          (* the classes pass the type in upper case *)
Hypothesis ST_SOLID : starts_solid stype.

Lemma end_prefix rest : upper (firstn 3 (end_kw ++ rest)) = end_kw.
Proof. reflexivity. Qed.

Theorem end_roundtrip_named n req : is_name n = true ->
  end_match stype true req (end_tostr stype (ENamed n)) = ENamed n.
Proof.
  intros N. unfold end_match, end_tostr. rewrite end_prefix, text_eqb_refl. cbn [negb].
  change (skipn 3 (end_kw ++ " "%char :: stype ++ " "%char :: n)) with (" "%char :: stype ++ " "%char :: n).
  rewrite lstrip_space_cons, (starts_solid_lstrip _ (starts_solid_app stype _ ST_SOLID)).
  rewrite firstn_app_exact, ST_UP.
  rewrite (match_ne stype _ _ (starts_solid_ne _ ST_SOLID)).
  rewrite text_eqb_refl. cbn [negb]. rewrite skipn_app_exact, lstrip_space_cons.
  rewrite (starts_solid_lstrip n (is_name_solid n N)).
  rewrite (match_ne n _ _ (starts_solid_ne _ (is_name_solid n N))).
  rewrite (is_name_strip n N), N. reflexivity.
Qed.

Theorem end_roundtrip_type named req :
  end_match stype named req (end_tostr stype EType) = EType.
Proof.
  unfold end_match, end_tostr. rewrite end_prefix, text_eqb_refl. cbn [negb].
  change (skipn 3 (end_kw ++ " "%char :: stype)) with (" "%char :: stype).
  rewrite lstrip_space_cons, (starts_solid_lstrip _ ST_SOLID).
  rewrite firstn_all, ST_UP.
  rewrite (match_ne stype _ _ (starts_solid_ne _ ST_SOLID)).
  rewrite text_eqb_refl. cbn [negb]. rewrite skipn_all. reflexivity.
Qed.

Theorem end_roundtrip_bare named :
  end_match stype named false (end_tostr stype EBare) = EBare.
Proof. unfold end_match, end_tostr. cbn. destruct (length stype); reflexivity. Qed.

(* a bare END is refused where the type is required *)
Theorem end_bare_refused named : end_match stype named true end_kw = ENoMatch.
Proof. unfold end_match. cbn. destruct (length stype); reflexivity. Qed.

(* keyword case and the blanks after END do not matter: eNd   tYpE  == END TYPE *)
Theorem end_case_and_blanks e b t named req :
  upper e = end_kw -> blanks b -> upper t = stype ->
  end_match stype named req (e ++ b ++ t) = EType.
Proof.
  intros UE B UT. unfold end_match.
  assert (LE : length e = 3) by (rewrite <- (upper_length e), UE; reflexivity).
  replace (firstn 3 (e ++ b ++ t)) with e by (rewrite <- LE; now rewrite firstn_app_exact).
  rewrite UE, text_eqb_refl. cbn [negb].
  replace (skipn 3 (e ++ b ++ t)) with (b ++ t) by (rewrite <- LE; now rewrite skipn_app_exact).
  assert (LT : length t = length stype) by (rewrite <- UT; now rewrite upper_length).
  assert (TS : starts_solid t).
  { destruct t as [|c r]; [rewrite <- UT in ST_SOLID; contradiction|]. rewrite <- UT in ST_SOLID. cbn in ST_SOLID.
    cbn. apply upper_not_space. exact ST_SOLID. }
  assert (LB : lstrip (b ++ t) = t).
  { clear -B TS. unfold blanks in B. induction b as [|x r IH]; cbn [app]; [apply starts_solid_lstrip; exact TS|].
    cbn in B. apply andb_true_iff in B as [B1 B2]. apply aeqb_eq in B1. subst. rewrite lstrip_space_cons. apply IH. exact B2. }
  rewrite LB, <- LT, firstn_all, UT.
  rewrite (match_ne stype _ _ (starts_solid_ne _ ST_SOLID)).
  rewrite text_eqb_refl. cbn [negb]. rewrite skipn_all. reflexivity.
Qed.

(* what is accepted with a name: the text starts with END (any case) and the name is an identifier *)
Theorem end_named_sound named req s n :
  end_match stype named req s = ENamed n -> upper (firstn 3 s) = end_kw /\ is_name n = true /\ named = true.
Proof.
  unfold end_match. destruct (text_eqb (upper (firstn 3 s)) end_kw) eqn:E; cbn [negb]; [|discriminate].
  apply text_eqb_eq in E.
  destruct (upper (firstn (length stype) (lstrip (skipn 3 s)))) as [|c r]; [destruct req; discriminate|].
  destruct (negb (text_eqb (drop_blanks (c :: r)) (drop_blanks stype))); [discriminate|].
  destruct (lstrip (skipn (length stype) (lstrip (skipn 3 s)))) as [|c2 r2] eqn:L2; [discriminate|].
  destruct named; [|discriminate].
  destruct (is_name (strip (c2 :: r2))) eqn:N; [|discriminate].
  intros H. inversion H; subst. auto.
Qed.
End EndLaws.

(* ---- WORDClsBase (string keyword) *)
Section WordLaws.
Variable kw : text.
Hypothesis KW_SOLID : starts_solid kw.

Lemma word_prefix rest : text_eqb (upper (firstn (length kw) (kw ++ rest))) (upper kw) = true.
Proof. rewrite firstn_app_exact. apply text_eqb_refl. Qed.

Definition no_colons (rest : text) : Prop := starts_with [":"; ":"]%char rest = false.

Theorem word_roundtrip rest colons req :
  starts_solid rest -> (colons = true -> no_colons rest) ->
  word_match kw true colons req (word_tostr kw false (WRest rest)) = WRest rest.
Proof.
  intros RS NC.
  assert (HC : colons && starts_with [":"; ":"]%char rest = false).
  { destruct colons; [|reflexivity]. cbn [andb]. apply NC. reflexivity. }
  destruct rest as [|c r]; [contradiction|]. cbn [word_tostr].
  assert (LR : lstrip (c :: r) = c :: r) by (apply starts_solid_lstrip; exact RS).
  destruct (aeqb c "("%char || aeqb c "*"%char) eqn:PB; unfold word_match.
  - rewrite (starts_solid_lstrip _ (starts_solid_app kw (c :: r) KW_SOLID)), word_prefix. cbn [negb].
    rewrite skipn_app_exact.
    assert (NA : is_alnum_us c = false).
    { apply orb_true_iff in PB as [P|P]; apply aeqb_eq in P; subst; reflexivity. }
    rewrite NA, LR, HC. reflexivity.
  - rewrite (starts_solid_lstrip _ (starts_solid_app kw (" "%char :: c :: r) KW_SOLID)), word_prefix. cbn [negb].
    rewrite skipn_app_exact. change (is_alnum_us " "%char) with false. cbv iota.
    rewrite lstrip_space_cons, LR, HC. reflexivity.
Qed.

Theorem word_roundtrip_colons rest req :
  starts_solid rest ->
  word_match kw true true req (word_tostr kw true (WRest rest)) = WRest rest.
Proof.
  intros RS. unfold word_match, word_tostr.
  rewrite (starts_solid_lstrip _ (starts_solid_app kw _ KW_SOLID)), word_prefix. cbn [negb].
  rewrite skipn_app_exact. cbn [app]. change (is_alnum_us " "%char) with false. cbv iota.
  rewrite lstrip_space_cons. cbn [lstrip is_space]. change (is_space ":"%char) with false. cbv iota.
  cbn [andb starts_with]. rewrite !aeqb_refl. cbn [andb skipn]. rewrite lstrip_space_cons, (starts_solid_lstrip rest RS).
  destruct rest; [contradiction|reflexivity].
Qed.

Theorem word_roundtrip_bare has colons : word_match kw has colons false (word_tostr kw false WBare) = WBare.
Proof.
  unfold word_match, word_tostr. rewrite (starts_solid_lstrip kw KW_SOLID), firstn_all, text_eqb_refl. cbn [negb].
  now rewrite skipn_all.
Qed.

(* a keyword glued to a letter, a digit or an underscore is not that keyword *)
Theorem word_boundary c r has colons req : is_alnum_us c = true ->
  word_match kw has colons req (kw ++ c :: r) = WNoMatch.
Proof.
  intros A. unfold word_match. rewrite (starts_solid_lstrip _ (starts_solid_app kw _ KW_SOLID)), word_prefix. cbn [negb].
  rewrite skipn_app_exact, A. reflexivity.
Qed.

(* the keyword is recognised in any case *)
Theorem word_case k2 rest has colons req : upper k2 = upper kw -> starts_solid k2 ->
  word_match kw has colons req (k2 ++ rest) = word_match kw has colons req (kw ++ rest).
Proof.
  intros U S2. unfold word_match.
  assert (L : length k2 = length kw) by (rewrite <- (upper_length k2), U; apply upper_length).
  rewrite (starts_solid_lstrip _ (starts_solid_app k2 rest S2)), (starts_solid_lstrip _ (starts_solid_app kw rest KW_SOLID)).
  rewrite <- L at 1. rewrite firstn_app_exact, U, text_eqb_refl, word_prefix. cbn [negb].
  rewrite <- L at 1. now rewrite !skipn_app_exact.
Qed.
End WordLaws.
