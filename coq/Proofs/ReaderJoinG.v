(* The continuation loop in full generality: every physical line of a continued statement may carry a
   trailing comment ( a = b + &   ! note ), the pieces may be in any character context, and comment and
   empty lines may stand between the lines.  The joined text is the concatenation of the pieces; every
   comment -- trailing or on a line of its own -- is queued exactly once, in source order, with the
   number of the physical line it stands on.
   What the comment handler does on one physical line is a hypothesis about that line and the quote
   state it is entered with (hicr: code part, new state, trailing comment); it is decidable by
   computation for a concrete line, and ReaderFile.hic_trailing proves it for the common shape. *)
From Coq Require Import List Bool Arith Ascii NArith Lia.
From FV Require Import SplitLine Text Reader ReaderJoin ReaderJoinQ.
Import ListNotations.

Notation bang := ("!"%char) (only parsing).

Definition cmt (oc : option text) (n : nat) : option ritem :=
  match oc with Some c => Some (RComment c n n true) | None => None end.
Definition cmtl (oc : option text) (n : nat) : list ritem :=
  match oc with Some c => [RComment c n n true] | None => [] end.

(* entered with quote state q, the physical line l has code part cd, leaves state q', and carries the
   trailing comment oc *)
Definition hicr (l : text) (q : option ascii) (cd : text) (q' : option ascii) (oc : option text) : Prop :=
  forall n, handle_inline_comment l n q = (cd, q', cmt oc n).

Lemma nocom_hicr l q q' : nocom l q q' <-> hicr l q l q' None.
Proof. unfold nocom, hicr. cbn [cmt]. tauto. Qed.

(* what may stand between the first and the last line *)
Inductive gelem :=
| GMid (b p b2 tl : text) (oc : option text) (qo : option ascii)   (* b & tl  with code part  b & p & b2 *)
| GCom (cl : text)
| GBlank.
Definition phys_g (e : gelem) : text :=
  match e with GMid b _ _ tl _ _ => b ++ amp :: tl | GCom cl => cl | GBlank => [] end.
Definition gtext (es : list gelem) : text :=
  concat (map (fun e => match e with GMid _ p _ _ _ _ => p | _ => [] end) es).
Fixpoint gcoms (es : list gelem) (lc : nat) : list ritem :=
  match es with
  | [] => []
  | GMid _ _ _ _ oc _ :: r => cmtl oc lc ++ gcoms r (S lc)
  | GCom cl :: r => RComment (lstrip cl) lc lc false :: gcoms r (S lc)
  | GBlank :: r => gcoms r (S lc)
  end.

(* the last line:  bn & tln  with code part  bn & pn *)
Definition last_ok (q : option ascii) (bn pn tln : text) (ocn : option text) : Prop :=
  exists q', hicr (bn ++ amp :: tln) q (last_line bn pn) q' ocn.

Fixpoint chain_g (q : option ascii) (es : list gelem) (bn pn tln : text) (ocn : option text) : Prop :=
  match es with
  | [] => last_ok q bn pn tln ocn
  | GMid b p b2 tl oc qo :: r =>
      blanks b /\ amp_free p /\ blanks b2 /\ stripped (b ++ amp :: tl) /\
      hicr (b ++ amp :: tl) q (b ++ amp :: p ++ amp :: b2) qo oc /\ chain_g qo r bn pn tln ocn
  | GCom cl :: r => stripped cl /\ starts_with [bang] (lstrip cl) = true /\ chain_g q r bn pn tln ocn
  | GBlank :: r => chain_g q r bn pn tln ocn
  end.

Section JoinG.
Variable ign : bool.
Notation stt := (st ign).

Lemma push_cmt oc src lc fifo : push_opt (cmt oc lc) (stt src lc fifo) = stt src lc (fifo ++ cmtl oc lc).
Proof. destruct oc; cbn; [reflexivity|now rewrite app_nil_r]. Qed.

Lemma step_last_g rest fuel acc endl b1 p tl lc fifo q q' oc :
  blanks b1 -> amp_free p -> p <> [] -> negb (is_blank p) = true ->
  hicr (b1 ++ amp :: tl) q (last_line b1 p) q' oc ->
  free_loop (S fuel) false false acc q endl (b1 ++ amp :: tl) (stt rest lc fifo)
  = (acc ++ p, lc, stt rest lc (fifo ++ cmtl oc lc)).
Proof.
  intros B Ap NE NB NC. cbn [free_loop]. unfold last_line in *.
  rewrite (lstrip_blanks_amp b1 tl B). cbn [starts_with].
  assert (E1 : aeqb "!"%char amp = false) by reflexivity. rewrite E1. cbn [andb negb].
  destruct (blanks_quiet b1 B) as [Qb Ab].
  cbn [r_linecount st]. rewrite (NC lc). rewrite push_cmt.
  rewrite (rfind_last b1 p Ap).
  replace (skipn (S (length b1)) (b1 ++ amp :: p)) with p
    by (rewrite skipn_app, skipn_all2 by lia; replace (S (length b1) - length b1) with 1 by lia; reflexivity).
  destruct (is_blank p) eqn:IB; [discriminate|].
  rewrite firstn_all.
  rewrite (find_char_app_not amp b1 (amp :: p) Ab), find_char_head. cbn [option_map]. rewrite Nat.add_0_r.
  assert (KK : (if Nat.eqb (length b1) 1 then Some (length b1)
                else if is_blank (firstn (length b1) (b1 ++ amp :: p)) then Some (length b1) else None) = Some (length b1)).
  { destruct (Nat.eqb (length b1) 1); [reflexivity|]. rewrite firstn_app, firstn_all, Nat.sub_diag. cbn [firstn].
    rewrite app_nil_r, (blanks_is_blank b1 B). reflexivity. }
  rewrite KK.
  replace (skipn (S (length b1)) (b1 ++ amp :: p)) with p
    by (rewrite skipn_app, skipn_all2 by lia; replace (S (length b1) - length b1) with 1 by lia; reflexivity).
  rewrite firstn_all2; [reflexivity|]. rewrite app_length. cbn [length]. lia.
Qed.

Lemma cont_shape b1 p b2 : blanks b1 -> amp_free p -> blanks b2 ->
  let l1 := b1 ++ amp :: p ++ amp :: b2 in
  rfind_char amp l1 = Some (length (b1 ++ amp :: p)) /\
  is_blank (skipn (S (length (b1 ++ amp :: p))) l1) = true /\
  firstn (length (b1 ++ amp :: p)) l1 = b1 ++ amp :: p /\
  firstn (length (b1 ++ amp :: p) - S (length b1)) (skipn (S (length b1)) l1) = p.
Proof.
  intros B Ap B2 l1. unfold l1.
  assert (E : b1 ++ amp :: p ++ amp :: b2 = (b1 ++ amp :: p) ++ amp :: b2) by (now rewrite <- app_assoc).
  assert (A2 : mem_char amp b2 = false) by (apply blanks_no; [exact B2|reflexivity]).
  repeat split.
  - rewrite E. apply rfind_last. exact A2.
  - rewrite E. replace (S (length (b1 ++ amp :: p))) with (length ((b1 ++ amp :: p) ++ [amp])) by (rewrite app_length; cbn; lia).
    replace ((b1 ++ amp :: p) ++ amp :: b2) with (((b1 ++ amp :: p) ++ [amp]) ++ b2) by (now rewrite <- app_assoc).
    rewrite skipn_app_exact. apply blanks_is_blank. exact B2.
  - rewrite E. apply firstn_app_exact.
  - replace (S (length b1)) with (length (b1 ++ [amp])) by (rewrite app_length; cbn; lia).
    replace (b1 ++ amp :: p ++ amp :: b2) with ((b1 ++ [amp]) ++ p ++ amp :: b2) by (rewrite <- app_assoc; reflexivity).
    rewrite skipn_app_exact. rewrite !app_length. cbn [length].
    replace (length b1 + S (length p) - (length b1 + 1)) with (length p) by lia. apply firstn_app_exact.
Qed.

Lemma step_cont_g fuel acc endl b1 p b2 tl nextl src lc fifo q q' oc :
  blanks b1 -> amp_free p -> blanks b2 -> stripped nextl ->
  hicr (b1 ++ amp :: tl) q (b1 ++ amp :: p ++ amp :: b2) q' oc ->
  free_loop (S fuel) false false acc q endl (b1 ++ amp :: tl) (stt (nextl :: src) lc fifo)
  = free_loop fuel false false (acc ++ p) q' lc nextl (stt src (S lc) (fifo ++ cmtl oc lc)).
Proof.
  intros B Ap B2 SN NC. cbn [free_loop].
  rewrite (lstrip_blanks_amp b1 tl B). cbn [starts_with].
  assert (E1 : aeqb "!"%char amp = false) by reflexivity. rewrite E1. cbn [andb negb].
  destruct (blanks_quiet b1 B) as [Qb Ab].
  cbn [r_linecount st]. rewrite (NC lc). rewrite push_cmt.
  destruct (cont_shape b1 p b2 B Ap B2) as [R1 [R2 [R3 R4]]]. cbv zeta in *.
  rewrite R1, R2, R3.
  rewrite (find_char_app_not amp b1 (amp :: p) Ab), find_char_head. cbn [option_map]. rewrite Nat.add_0_r.
  assert (KK : (if Nat.eqb (length b1) 1 then Some (length b1)
                else if is_blank (firstn (length b1) (b1 ++ amp :: p ++ amp :: b2)) then Some (length b1) else None)
               = Some (length b1)).
  { destruct (Nat.eqb (length b1) 1); [reflexivity|]. rewrite firstn_app_exact, (blanks_is_blank b1 B). reflexivity. }
  rewrite KK, R4. cbn [r_linecount st]. rewrite (gsl ign src nextl lc _ SN). reflexivity.
Qed.

Lemma step_first_g fuel endl p1 b2 tl nextl src lc fifo q1 oc :
  amp_free p1 -> blanks b2 -> stripped nextl -> hicr tl None (p1 ++ amp :: b2) q1 oc ->
  free_loop (S fuel) false true [] None endl tl (stt (nextl :: src) lc fifo)
  = free_loop fuel false false p1 q1 lc nextl (stt src (S lc) (fifo ++ cmtl oc lc)).
Proof.
  intros Ap B2 SN NC. cbn [free_loop]. cbn [negb andb r_linecount st]. rewrite (NC lc). rewrite push_cmt.
  assert (A2 : mem_char amp b2 = false) by (apply blanks_no; [exact B2|reflexivity]).
  rewrite (rfind_last p1 b2 A2).
  replace (S (length p1)) with (length (p1 ++ [amp])) by (rewrite app_length; cbn; lia).
  replace (p1 ++ amp :: b2) with ((p1 ++ [amp]) ++ b2) by (now rewrite <- app_assoc).
  rewrite skipn_app_exact, (blanks_is_blank b2 B2).
  rewrite <- app_assoc, firstn_app_exact.
  cbn [r_linecount st]. rewrite (gsl ign src nextl lc _ SN). reflexivity.
Qed.

Lemma phys_g_stripped es q bn pn tln ocn : chain_g q es bn pn tln ocn -> stripped (bn ++ amp :: tln) ->
  Forall stripped (map phys_g es ++ [bn ++ amp :: tln]).
Proof.
  intros CH SL. apply Forall_app. split; [|constructor; [exact SL|constructor]].
  revert q CH. induction es as [|e r IH]; intros q CH; [constructor|]. cbn [map].
  destruct e as [b p b2 tl oc qo|cl|]; cbn [chain_g phys_g] in *.
  - destruct CH as [_ [_ [_ [S [_ CH]]]]]. constructor; [exact S|exact (IH _ CH)].
  - destruct CH as [S [_ CH]]. constructor; [exact S|exact (IH _ CH)].
  - constructor; [reflexivity|exact (IH _ CH)].
Qed.

Lemma join_g bn pn tln ocn : blanks bn -> amp_free pn -> pn <> [] -> negb (is_blank pn) = true ->
  stripped (bn ++ amp :: tln) ->
  forall es fuel acc endl q lc fifo src l0 rest,
  map phys_g es ++ [bn ++ amp :: tln] = l0 :: rest -> chain_g q es bn pn tln ocn -> length es < fuel ->
  free_loop (S fuel) false false acc q endl l0 (stt (rest ++ src) lc fifo)
  = (acc ++ gtext es ++ pn, lc + length es,
     stt src (lc + length es) (fifo ++ gcoms es lc ++ cmtl ocn (lc + length es))).
Proof.
  intros Bn Apn NE NB SL. induction es as [|e r IH]; intros fuel acc endl q lc fifo src l0 rest EQ CH LT.
  - cbn [map app] in EQ. inversion EQ; subst. cbn [app gtext map concat length gcoms]. destruct CH as [q' NC].
    rewrite (step_last_g src fuel acc endl bn pn tln lc fifo q q' ocn Bn Apn NE NB NC). now rewrite Nat.add_0_r.
  - cbn [map app] in EQ. inversion EQ; subst. clear EQ.
    assert (ST : Forall stripped (map phys_g r ++ [bn ++ amp :: tln])).
    { pose proof (phys_g_stripped (e :: r) q bn pn tln ocn CH SL) as X. cbn [map app] in X. now inversion X. }
    destruct (map phys_g r ++ [bn ++ amp :: tln]) as [|l1 rest1] eqn:E1; [destruct r; discriminate|].
    inversion ST as [|x y S1 _]; subst. cbn [app].
    destruct fuel as [|f]; [cbn in LT; lia|].
    destruct e as [b p b2 tl oc qo|cl|]; cbn [phys_g chain_g] in *.
    + destruct CH as [Bb [Ap [B2 [_ [NC CH']]]]].
      rewrite (step_cont_g (S f) acc endl b p b2 tl l1 (rest1 ++ src) lc fifo q qo oc Bb Ap B2 S1 NC).
      rewrite (IH f (acc ++ p) lc qo (S lc) _ src l1 rest1 eq_refl CH') by (cbn in LT; lia).
      cbn [gtext map concat length gcoms]. rewrite <- !app_assoc.
      replace (S lc + length r) with (lc + S (length r)) by lia. reflexivity.
    + destruct CH as [Sc [Hc CH']].
      rewrite (skip_comment_line ign (S f) acc q endl cl l1 (rest1 ++ src) lc fifo Hc S1).
      rewrite (IH f acc endl q (S lc) _ src l1 rest1 eq_refl CH') by (cbn in LT; lia).
      cbn [gtext map concat length gcoms app]. rewrite <- !app_assoc. cbn [app].
      replace (S lc + length r) with (lc + S (length r)) by lia. reflexivity.
    + rewrite (skip_blank_line ign (S f) acc q endl [] l1 (rest1 ++ src) lc fifo eq_refl S1).
      rewrite (IH f acc endl q (S lc) fifo src l1 rest1 eq_refl CH) by (cbn in LT; lia).
      cbn [gtext map concat length gcoms app].
      replace (S lc + length r) with (lc + S (length r)) by lia. reflexivity.
Qed.

(* the item of a continued statement, in full generality *)
Theorem item_of_continued_statement_g line lab l1 nm tl1 p1 b21 q1 oc1 es bn pn tln ocn src lc fifo :
  stripped line -> line <> [] -> starts_with ["#"%char] (lstrip line) = false ->
  extract_label line = (lab, l1) -> extract_construct_name l1 = (nm, tl1) ->
  amp_free p1 -> blanks b21 -> hicr tl1 None (p1 ++ amp :: b21) q1 oc1 -> chain_g q1 es bn pn tln ocn ->
  blanks bn -> amp_free pn -> pn <> [] -> negb (is_blank pn) = true -> stripped (bn ++ amp :: tln) ->
  strip (p1 ++ gtext es ++ pn) <> [] ->
  get_source_item (stt (line :: map phys_g es ++ (bn ++ amp :: tln) :: src) lc fifo)
  = (Some (RLine (strip (p1 ++ gtext es ++ pn)) lab nm (S lc) (S (S lc) + length es)),
     stt src (S (S lc) + length es)
         (fifo ++ cmtl oc1 (S lc) ++ gcoms es (S (S lc)) ++ cmtl ocn (S (S lc) + length es))).
Proof.
  intros SLn NEl NH EL EN Ap1 B21 NC1 CH Bn Apn PNE NB SLL NS.
  unfold get_source_item. rewrite (gsl ign _ line lc fifo SLn).
  assert (X : (match line with [] => false | _ => true end) && starts_with ["#"%char] (lstrip line) = false)
    by (rewrite NH; apply andb_false_r).
  rewrite X. cbn [r_free st r_omp r_linecount]. unfold free_item. rewrite EL, EN. cbn [r_linecount st].
  cbn [r_src r_filo st length].
  pose proof (phys_g_stripped es q1 bn pn tln ocn CH SLL) as ST.
  destruct (map phys_g es ++ [bn ++ amp :: tln]) as [|l0 rest] eqn:E0; [destruct es; discriminate|].
  inversion ST as [|x y S0 _]; subst.
  replace (map phys_g es ++ (bn ++ amp :: tln) :: src) with ((l0 :: rest) ++ src)
    by (rewrite <- E0, <- app_assoc; reflexivity).
  cbn [app length].
  match goal with |- context [free_loop (S ?f) false true] =>
    rewrite (step_first_g f (S lc) p1 b21 tl1 l0 (rest ++ src) (S lc) fifo q1 oc1 Ap1 B21 S0 NC1) end.
  match goal with |- context [free_loop ?f false false] => destruct f as [|f'] eqn:EF; [lia|] end.
  rewrite (join_g bn pn tln ocn Bn Apn PNE NB SLL es f' p1 (S lc) q1 (S (S lc)) _ src l0 rest E0 CH).
  - rewrite <- app_assoc. destruct (strip (p1 ++ gtext es ++ pn)) as [|c t] eqn:STp; [contradiction|]. reflexivity.
  - assert (LL : length (l0 :: rest) = S (length es)).
    { rewrite <- E0, app_length, map_length. cbn. lia. }
    cbn [length] in LL. rewrite app_length in EF. lia.
Qed.

End JoinG.
