(* Contracts at the level of a whole parse: Program.match / Program.__new__. *)
From Coq Require Import List Bool Arith NArith Lia.
From FV Require Import Scope Engine EngineContracts EngineShape TableOk.
Import ListNotations.

Section Program.
Variable T : table.
Variable L : item -> cls -> list cls -> leafres.
Hypothesis HT : table_ok T = true.

Let TS := table_ok_sound T HT.

Lemma add_cid_ok' rec (HR : Contract T rec) k content s : ok_list content s (add_cid T rec k content s).
Proof.
  destruct TS. apply (add_cid_ok T ts_inc ts_cpp rec HR).
Qed.

Lemma call_ok' rec (HR : Contract T rec) c s : ok_t s (call rec c s).
Proof. apply (call_ok T rec HR). Qed.

(* Program.match main loop: it only finishes normally when the reader is exhausted *)
Lemma program_loop_ok rec (HR : Contract T rec) k : forall content s,
  match program_loop T rec k content s with
  | (Val c', s') => exists extra, c' = content ++ extra /\ stream s = yields extra /\ stream s' = []
                                  /\ same_cur s s'
  | (Raise e, s') => is_exception e = true -> same_cur s s'
  end.
Proof.
  induction k as [|k IH]; intros content s; cbn [program_loop].
  - cbn. discriminate.
  - unfold bind at 1. pose proof (call_ok' rec HR (t_program_unit T) s) as C.
    destruct (call rec (t_program_unit T) s) as [[o|e] s1]; cbn [ok_t] in C.
    + set (content1 := match o with Some t => content ++ [t] | None => content end).
      assert (E1 : exists ex1, content1 = content ++ ex1 /\ stream s = yields ex1 ++ stream s1 /\ same_cur s s1).
      { destruct o as [t|]; destruct C as [A B].
        - exists [t]. rewrite yields_single. auto.
        - exists []. rewrite app_nil_r. cbn. auto. }
      destruct E1 as [ex1 [E1 [S1 C1]]].
      unfold bind at 1. pose proof (add_cid_ok' rec HR (S k) content1 s1) as A.
      destruct (add_cid T rec (S k) content1 s1) as [[content2|e] s2]; cbn [ok_list] in A.
      * destruct A as [ex2 [E2 [S2 C2]]].
        destruct (stream s2) as [|i r] eqn:ST.
        -- exists (ex1 ++ ex2). rewrite E2, E1, <- app_assoc. split; [reflexivity|].
           rewrite yields_app, S1, S2, ?ST, app_nil_r. split; [reflexivity|]. split; [reflexivity|].
           eapply same_cur_trans; eauto.
        -- unfold get_item. rewrite ST.
           match goal with |- context [program_loop T rec k content2 ?s3] => specialize (IH content2 s3);
             destruct (program_loop T rec k content2 s3) as [[c'|e] s'] eqn:PL end.
           ++ destruct IH as [ex3 [E3 [S3 [N3 C3]]]]. exists (ex1 ++ ex2 ++ ex3).
              rewrite E3, E2, E1, <- !app_assoc. split; [reflexivity|].
              rewrite !yields_app, S1, S2. cbn in S3. rewrite <- S3. split; [reflexivity|].
              split; [exact N3|]. unfold same_cur in *. cbn in C3. congruence.
           ++ intros IE. specialize (IH IE). unfold same_cur in *. cbn in IH. congruence.
      * destruct A as [_ A]. intros IE. eapply same_cur_trans; eauto.
    + destruct C as [_ C]. exact C.
Qed.

Lemma program_units_ok rec (HR : Contract T rec) s :
  match program_units T rec s with
  | (Val c', s') => stream s = yields c' /\ stream s' = [] /\ same_cur s s'
  | (Raise e, s') => is_exception e = true -> same_cur s s'
  end.
Proof.
  unfold program_units, bind.
  pose proof (add_cid_ok' rec HR (2 * length (stream s) + 3) [] s) as A.
  destruct (add_cid T rec (2 * length (stream s) + 3) [] s) as [[c0|e] s1]; cbn [ok_list] in A.
  - destruct A as [ex0 [E0 [S0 C0]]]. cbn in E0. subst c0.
    pose proof (program_loop_ok rec HR (2 * length (stream s) + 3) ex0 s1) as P.
    destruct (program_loop T rec (2 * length (stream s) + 3) ex0 s1) as [[c'|e] s2].
    + destruct P as [ex [E [S1 [N C]]]]. subst c'. rewrite yields_app, S0, S1.
      split; [reflexivity|]. split; [exact N|]. eapply same_cur_trans; eauto.
    + intros IE. eapply same_cur_trans; eauto.
  - destruct A as [_ A]. exact A.
Qed.

Lemma main0_fallback_hook_ok : hook_ok T (main0_fallback_spec T).
Proof. split; cbn; discriminate. Qed.

(* K3 for the whole parse; K2 for the whole parse when the Main_Program0 fall-back is not taken *)
Theorem program_top_ok fuel c s :
  match program_top T L fuel c s with
  | (Val (Some t), s') =>
      same_cur s s' /\
      (forall s1, fst (program_units T (new T L fuel) (set_pcls [c] (tick s))) <> Raise ENoMatch ->
                  s1 = s' -> stream s = yield t /\ stream s' = [])
  | (Val None, s') => same_cur s s'
  | (Raise e, s') => is_exception e = true -> same_cur s s'
  end.
Proof.
  pose proof (engine_contract T L HT fuel) as HR.
  unfold program_top. set (s0 := set_pcls [c] (tick s)).
  assert (C0 : same_cur s s0) by reflexivity. assert (S0 : stream s0 = stream s) by reflexivity.
  unfold catch_nomatch, program_match.
  pose proof (program_units_ok (new T L fuel) HR s0) as U.
  destruct (program_units T (new T L fuel) s0) as [[content|e] s1] eqn:PU.
  - destruct U as [S1 [N1 C1]]. cbn [fst]. split; [eapply same_cur_trans; [exact C0|exact C1]|].
    intros _ _ _. rewrite yield_block, <- S0. auto.
  - assert (FB : e = ENoMatch -> ok_m s0 (block_match T (new T L fuel) (main0_fallback_spec T) s1) ->
            forall r, r = block_match T (new T L fuel) (main0_fallback_spec T) s1 ->
            match (match r with
                   | (Raise ENoMatch, s') => (Val None, s')
                   | r0 => r0 end) with
            | (Raise e', s2) => is_exception e' = true -> same_cur s s2
            | (Val (Some content), s2) => same_cur s s2
            | (Val None, s2) => same_cur s s2 end).
    { intros _ OK r ->. destruct (block_match T (new T L fuel) (main0_fallback_spec T) s1) as [[[ct|]|e'] s2];
        cbn [ok_m] in OK.
      - destruct OK as [_ C]. exact C.
      - destruct OK as [_ C]. exact C.
      - destruct OK as [NE C]. destruct e'; try exact C. congruence. }
    destruct e.
    { (* ENoMatch: fall-back *)
      specialize (U eq_refl).
      assert (OKM : exists r, r = block_match T (new T L fuel) (main0_fallback_spec T) s1 /\
                 (match r with
                  | (Val (Some ct), s2) => same_cur s1 s2
                  | (Val None, s2) => same_cur s1 s2
                  | (Raise e', s2) => e' <> ENoMatch /\ (is_exception e' = true -> same_cur s1 s2) end)).
      { eexists; split; [reflexivity|].
        destruct TS.
        pose proof (block_match_ok T ts_cleanup ts_inc ts_cpp (new T L fuel) HR
                      (main0_fallback_spec T) main0_fallback_hook_ok s1) as B.
        destruct (block_match T (new T L fuel) (main0_fallback_spec T) s1) as [[[ct|]|e'] s2]; cbn [ok_m] in B.
        - apply B. - apply B. - exact B. }
      destruct OKM as [r [<- OK]].
      destruct r as [[[ct|]|e'] s2].
      - split; [eapply same_cur_trans; [exact U|exact OK]|].
        intros s3 NF. cbn [fst] in NF. congruence.
      - pose proof (try_alts_ok T (new T L fuel) HR (c_alts (entry T c)) s2) as [A _].
        destruct (try_alts (new T L fuel) (c_alts (entry T c)) s2) as [[[t|]|e2] s3]; cbn [ok_t] in A.
        + destruct A as [_ A]. split; [eapply same_cur_trans; [eapply same_cur_trans; [exact U|exact OK]|exact A]|].
          intros s4 NF. cbn [fst] in NF. congruence.
        + destruct A as [_ A]. destruct (seen_code s3).
          * intros _. eapply same_cur_trans; [eapply same_cur_trans; [exact U|exact OK]|exact A].
          * eapply same_cur_trans; [eapply same_cur_trans; [exact U|exact OK]|exact A].
        + destruct A as [_ A]. intros IE. eapply same_cur_trans; [eapply same_cur_trans; [exact U|exact OK]|auto].
      - destruct OK as [NE OK]. destruct e'; try congruence;
          (intros IE; eapply same_cur_trans; [exact U|apply OK; exact IE]). }
    all: try (intros IE; eapply same_cur_trans; [exact C0|apply U; exact IE]).
Qed.

(* ---------------------------------------------------------------- corollaries for program_new *)
Definition clean_outcome (o : outcome) : Prop :=
  match o with OEscape EExit => False | OEscape EFuel => False | _ => True end.

(* the fall-back "program without PROGRAM statement" path of Program.match was not taken *)
Definition no_fallback (fuel : nat) (c : cls) (s : est) : Prop :=
  fst (program_units T (new T L fuel) (set_pcls [c] (tick s))) <> Raise ENoMatch.

Theorem program_new_scope fuel c s out s' :
  program_new T L fuel c s = (out, s') -> clean_outcome out -> cur (sc s') = cur (sc s).
Proof.
  unfold program_new. pose proof (program_top_ok fuel c s) as P.
  destruct (program_top T L fuel c s) as [[[t|]|e] s1].
  - intros H _. inversion H; subst. apply P.
  - intros H _. inversion H; subst. apply P.
  - destruct e; intros H CO; inversion H; subst; cbn in CO; try contradiction; apply P; reflexivity.
Qed.

Theorem program_new_yield fuel c s t s' :
  program_new T L fuel c s = (OTree t, s') -> no_fallback fuel c s ->
  yield t = stream s /\ stream s' = [].
Proof.
  unfold program_new, no_fallback. pose proof (program_top_ok fuel c s) as P.
  destruct (program_top T L fuel c s) as [[[t0|]|e] s1].
  - intros H NF. inversion H; subst. destruct P as [_ P]. destruct (P s' NF eq_refl) as [A B]. auto.
  - intros H; inversion H.
  - destruct e; intros H; inversion H.
Qed.

Lemma filter_yield_eq (f : item -> bool) t l : yield t = l -> filter f (yield t) = filter f l.
Proof. now intros ->. Qed.

(* ---------------------------------------------------------------- K4 for the whole parse *)
Lemma program_loop_shape rec (HR : Contract T rec) (HS : ShapeC T rec) k : forall content s c' s',
  Forall (WN T) content -> program_loop T rec k content s = (Val c', s') -> Forall (WN T) c'.
Proof.
  destruct TS.
  induction k as [|k IH]; intros content s c' s' W; cbn [program_loop]; [discriminate|].
  unfold bind at 1. destruct (call rec (t_program_unit T) s) as [[o|e] s1] eqn:C; [|discriminate].
  assert (W1 : Forall (WN T) (match o with Some t => content ++ [t] | None => content end)).
  { destruct o as [t|]; [|exact W]. apply Forall_app; split; [exact W|]. constructor; [|constructor].
    eapply call_shape; eauto. }
  unfold bind at 1.
  destruct (add_cid T rec (S k) (match o with Some t => content ++ [t] | None => content end) s1)
    as [[content2|e] s2] eqn:AC; [|discriminate].
  destruct (add_cid_shape T ts_inc ts_cpp rec HR HS _ _ _ _ _ AC) as [extra [E [W2 _]]].
  assert (W3 : Forall (WN T) content2) by (rewrite E; apply Forall_app; split; assumption).
  destruct (stream s2) as [|i r] eqn:ST.
  - intros H. inversion H; subst. exact W3.
  - unfold get_item. rewrite ST. apply IH. exact W3.
Qed.

Theorem program_top_shape fuel c s t s' :
  c_kind (entry T c) = KProgram ->
  program_top T L fuel c s = (Val (Some t), s') -> WN T t.
Proof.
  intros KP. pose proof (engine_contract T L HT fuel) as HR. pose proof (engine_shape T L HT fuel) as HS.
  destruct TS.
  unfold program_top. set (s0 := set_pcls [c] (tick s)).
  destruct (catch_nomatch (program_match T (new T L fuel)) s0) as [[[content|]|e] s1] eqn:PM; [| |discriminate].
  - intros H. inversion H; subst. apply catch_val in PM. constructor.
    + unfold program_match in PM.
      destruct (program_units T (new T L fuel) s0) as [[ct|e] s2] eqn:PU.
      * inversion PM; subst. unfold program_units, bind in PU.
        destruct (add_cid T (new T L fuel) (2 * length (stream s0) + 3) [] s0) as [[c0|e] s3] eqn:AC; [|discriminate].
        destruct (add_cid_shape T ts_inc ts_cpp _ HR HS _ _ _ _ _ AC) as [extra [E [W _]]]. cbn in E. subst c0.
        eapply program_loop_shape; eauto.
      * destruct e; try discriminate.
        apply (block_match_shape T ts_inc ts_cpp (new T L fuel) HR HS) in PM; [apply PM|].
        intros X. discriminate.
    + intros b [K|K]; rewrite KP in K; discriminate.
  - destruct (try_alts (new T L fuel) (c_alts (entry T c)) s1) as [[[t0|]|e] s2] eqn:TA.
    + intros H. inversion H; subst. eapply try_alts_shape; eauto.
    + destruct (seen_code s2); discriminate.
    + discriminate.
Qed.

Theorem program_new_shape fuel c s t s' :
  c_kind (entry T c) = KProgram ->
  program_new T L fuel c s = (OTree t, s') -> WN T t.
Proof.
  intros KP. unfold program_new. destruct (program_top T L fuel c s) as [[[t0|]|e] s1] eqn:PT.
  - intros H. inversion H; subst. eapply program_top_shape; eauto.
  - discriminate.
  - destruct e; discriminate.
Qed.

End Program.
