(* The frame relation on the symbol-table model and its closure under the enter/exit/remove bracket.
   frame x y :  y has the same current scope as x and -- when x's current path names existing tables --
   y's tables are x's with only the CHILDREN LIST of the current scope's table rewritten: every table
   outside the current scope (other program units, the ancestors' other children, the ancestors
   themselves apart from that one list) is untouched, and the path is still valid.
   EngineRel.new_rel then gives: every rule invocation of the engine is a frame step. *)
From Coq Require Import List Bool Arith NArith Lia.
From FV Require Import Scope Engine StmtError EngineContracts ScopeLaws EngineRel TableOk.
Import ListNotations.

Definition valid (x : scopes) : Prop := valid_path (cur x) (tops x) = true.
Definition frame (x y : scopes) : Prop :=
  cur y = cur x /\ (valid x -> valid y /\ exists F, tops y = upd_path (cur x) F (tops x)).

Lemma upd_last_idf n l : upd_last n (fun t => STab (sname t) (skids t)) l = l.
Proof.
  induction l as [|t r IH]; [reflexivity|]. cbn [upd_last]. rewrite IH.
  destruct (has_name n r); [reflexivity|]. destruct (N.eqb (sname t) n); [|reflexivity]. destruct t; reflexivity.
Qed.
Lemma upd_path_idf p : forall l, upd_path p (fun k => k) l = l.
Proof.
  induction p as [|n q IH]; intros l; cbn [upd_path]; [reflexivity|].
  rewrite (upd_last_ext n _ (fun t => STab (sname t) (skids t))); [apply upd_last_idf|].
  intros t. now rewrite IH.
Qed.

Lemma frame_refl x : frame x x.
Proof. split; [reflexivity|]. intros V. split; [exact V|]. exists (fun k => k). now rewrite upd_path_idf. Qed.

Lemma frame_trans x y z : frame x y -> frame y z -> frame x z.
Proof.
  intros [C1 F1] [C2 F2]. split; [congruence|]. intros V.
  destruct (F1 V) as [Vy [F E1]]. destruct (F2 Vy) as [Vz [G E2]]. split; [exact Vz|].
  exists (fun k => G (F k)). rewrite E2, C1, E1. apply upd_path_comp.
Qed.

Lemma frame_cur x y : frame x y -> cur y = cur x.
Proof. intros [C _]. exact C. Qed.

Lemma exit_scope_some y z : exit_scope y = Some z -> tops z = tops y /\ cur z = removelast (cur y) /\ cur y <> [].
Proof.
  unfold exit_scope. destruct (cur y) eqn:E; [discriminate|]. intros H. inversion H. cbn. repeat split. discriminate.
Qed.

(* what the bracket has done to the tables, in the nested case *)
Lemma bracket_tops x n y z : cur x <> [] -> valid x ->
  frame (enter_scope n x) y -> exit_scope y = Some z ->
  cur z = cur x /\ exists F : list stab -> list stab, tops z = upd_path (cur x) (fun k => k ++ [STab n (F [])]) (tops x).
Proof.
  intros NE V [C FR] EX. destruct (exit_scope_some _ _ EX) as [TZ [CZ _]].
  rewrite cur_enter in C. rewrite C, removelast_last in CZ. split; [exact CZ|].
  rewrite (enter_nested n x NE) in FR. cbn [cur tops] in FR.
  assert (V1 : valid (mkScopes (upd_path (cur x) (fun k => k ++ [STab n []]) (tops x)) (cur x ++ [n]))).
  { unfold valid. cbn [cur tops]. apply valid_path_snoc. exact V. }
  destruct (FR V1) as [_ [F E]]. exists F. rewrite TZ, E.
  rewrite upd_path_app, upd_path_comp. apply upd_path_ext. intros k.
  cbn [upd_path]. rewrite upd_last_snoc. reflexivity.
Qed.

Lemma frame_exit x n y z : frame (enter_scope n x) y -> exit_scope y = Some z -> frame x z.
Proof.
  intros FR EX. destruct (cur x) as [|r q] eqn:CX.
  - (* top level: the frame at the empty path says nothing about the tables *)
    destruct FR as [C _]. destruct (exit_scope_some _ _ EX) as [_ [CZ _]].
    rewrite cur_enter, CX in C. rewrite C in CZ. cbn in CZ.
    split; [congruence|]. intros _. split; [unfold valid; rewrite CZ; reflexivity|].
    exists (fun _ => tops z). rewrite CX. reflexivity.
  - assert (NE : cur x <> []) by (rewrite CX; discriminate).
    split.
    + destruct FR as [C _]. destruct (exit_scope_some _ _ EX) as [_ [CZ _]].
      rewrite cur_enter in C. rewrite C, removelast_last in CZ. congruence.
    + intros V. destruct (bracket_tops x n y z NE V FR EX) as [CZ [F E]]. split.
      * unfold valid. rewrite CZ, E. apply valid_path_upd. exact V.
      * eexists. exact E.
Qed.

Lemma remove_in_cur n z w : cur z <> [] -> has_name n (kids_at (cur z) (tops z)) = true ->
  remove_scope n z = Some w -> w = mkScopes (upd_path (cur z) (del_first n) (tops z)) (cur z).
Proof.
  unfold remove_scope. intros NE IC. destruct (cur z) eqn:C; [congruence|]. rewrite IC.
  intros H; inversion H; reflexivity.
Qed.

Lemma frame_remove x n y z w :
  frame (enter_scope n x) y -> exit_scope y = Some z -> remove_scope n z = Some w -> frame x w.
Proof.
  intros FR EX RM. pose proof (frame_exit x n y z FR EX) as FZ.
  pose proof (cur_remove n z w RM) as CW. destruct FZ as [CZ FZ].
  split; [congruence|]. intros V.
  assert (D : cur x = [] \/ cur x <> []) by (destruct (cur x); [left; reflexivity|right; discriminate]).
  destruct D as [CX|NE].
  - split; [unfold valid; rewrite CW, CZ, CX; reflexivity|]. exists (fun _ => tops w). rewrite CX. reflexivity.
  - destruct (bracket_tops x n y z NE V FR EX) as [_ [F E]].
    (* the table entered by this bracket is still a child of the current scope: remove takes it there *)
    assert (IC : has_name n (kids_at (cur z) (tops z)) = true).
    { rewrite CZ, E, kids_at_upd by exact V. rewrite has_name_app. cbn [has_name existsb sname].
      rewrite N.eqb_refl. apply orb_true_r. }
    assert (NZ : cur z <> []) by congruence.
    rewrite (remove_in_cur n z w NZ IC RM). cbn [cur tops]. split.
    + unfold valid. cbn [cur tops]. rewrite CZ, E, upd_path_comp. apply valid_path_upd. exact V.
    + eexists. rewrite CZ, E. apply upd_path_comp.
Qed.

(* ---- every rule invocation is a frame step: for every table that passes the check, every oracle *)
Theorem engine_frame T (L : item -> cls -> list cls -> leafres) :
  table_ok T = true -> forall fuel c s,
    match new T L fuel c s with
    | (Val _, s') => frame (sc s) (sc s')
    | (Raise e, s') => is_exception e = true -> frame (sc s) (sc s')
    end.
Proof.
  intros H fuel c s. destruct (table_ok_sound T H).
  pose proof (new_rel T L frame frame_refl frame_trans frame_cur frame_exit frame_remove) as NR.
  specialize (NR ltac:(assumption) ltac:(assumption) ltac:(assumption) ltac:(assumption) ltac:(assumption)
                 ltac:(assumption) fuel c s).
  unfold okr, Rs in NR. destruct (new T L fuel c s) as [[o|e] s']; exact NR.
Qed.

(* a readable consequence: below a program unit, no other program unit's table is touched *)
Lemma last_named_upd_last_other n m F l : keeps_names F -> N.eqb m n = false ->
  last_named m (upd_last n F l) = last_named m l.
Proof.
  intros K NE. induction l as [|t r IH]; [reflexivity|]. cbn [upd_last].
  destruct (has_name n r).
  - cbn [last_named]. now rewrite IH.
  - destruct (N.eqb (sname t) n) eqn:E; [|reflexivity]. cbn [last_named]. rewrite K.
    destruct (last_named m r); [reflexivity|].
    apply N.eqb_eq in E. rewrite E, N.eqb_sym, NE. reflexivity.
Qed.

Theorem other_units_untouched x y u q m :
  frame x y -> valid x -> cur x = u :: q -> N.eqb m u = false ->
  last_named m (tops y) = last_named m (tops x).
Proof.
  intros [_ FR] V CX NE. destruct (FR V) as [_ [F E]]. rewrite E, CX. cbn [upd_path].
  apply last_named_upd_last_other; [intros t; reflexivity|exact NE].
Qed.

Theorem rules_inside_a_unit T (L : item -> cls -> list cls -> leafres) : table_ok T = true ->
  forall fuel c s s' o u q m,
    new T L fuel c s = (Val o, s') ->
    valid (sc s) -> cur (sc s) = u :: q -> N.eqb m u = false ->
    cur (sc s') = cur (sc s) /\ valid (sc s') /\
    last_named m (tops (sc s')) = last_named m (tops (sc s)).
Proof.
  intros OK fuel c s s' o u q m E V CX NE.
  pose proof (engine_frame T L OK fuel c s) as F. rewrite E in F.
  split; [apply (frame_cur _ _ F)|]. split; [exact (proj1 (proj2 F V))|].
  exact (other_units_untouched _ _ u q m F V CX NE).
Qed.

Theorem failed_rule_frame T (L : item -> cls -> list cls -> leafres) : table_ok T = true ->
  forall fuel c s e s', new T L fuel c s = (Raise e, s') -> is_exception e = true -> frame (sc s) (sc s').
Proof. intros OK fuel c s e s' E IE. pose proof (engine_frame T L OK fuel c s) as F. rewrite E in F. exact (F IE). Qed.
