(* Laws of the reader's item interface: reading an item, pushing it back and reading again returns
   the same item and leaves the reader in the state it had after the first read; hence any
   consumer that reads k items ahead and restores them (in reverse order) sees an unchanged stream. *)
From Coq Require Import List Bool Arith Ascii NArith Lia.
From FV Require Import SplitLine Text Reader.
Import ListNotations.

Lemma rst_eta s : mkRst (r_src s) (r_filo s) (r_linecount s) (r_fifo s) (r_free s) (r_omp s) (r_ign s) (r_err s) = s.
Proof. destruct s; reflexivity. Qed.
Lemma upd_put it s : upd_fifo (r_fifo s) (put_item it s) = s.
Proof. unfold upd_fifo, put_item. cbn. apply rst_eta. Qed.

(* an item that next_item would hand out unchanged when it finds it at the front of the FIFO:
   not an ignored comment, and without a ';' outside character / parenthesis context *)
Definition deliverable (ign : bool) (it : ritem) : Prop :=
  match it with
  | RLine t _ _ _ _ => (forall x, semi_split t = [x] -> x = t) /\ (exists x, semi_split t = [x])
  | RCpp _ _ _ => True
  | RComment _ _ _ _ => ign = false
  end.

Lemma split_single t lab nm a b orig s x : semi_split t = [x] ->
  split_item t lab nm a b orig s = (Some orig, s).
Proof. unfold split_item. intros ->. reflexivity. Qed.

Theorem get_after_put it s : deliverable (r_ign s) it -> next_item (put_item it s) = (Some it, s).
Proof.
  intros D. unfold next_item.
  set (fuel := S (S (S (length (r_src (put_item it s)) + length (r_filo (put_item it s)) +
                        length (r_fifo (put_item it s)))))).
  assert (NR : next_raw fuel (put_item it s) = (Some it, s)).
  { unfold fuel. cbn [next_raw]. cbn [r_fifo put_item upd_fifo]. rewrite upd_put.
    destruct it as [t lab nm a b|t a b inl|t a b]; [reflexivity| |reflexivity].
    cbn in D. cbn [r_ign put_item upd_fifo]. change (r_ign s) with (r_ign s). now rewrite D. }
  rewrite NR. destruct it as [t lab nm a b|t a b inl|t a b]; [|reflexivity|reflexivity].
  destruct D as [_ [x Hx]]. eapply split_single; eauto.
Qed.

(* push back a list of items, last read first (what restore_reader does) *)
Definition put_back (items : list ritem) (s : rst) : rst := fold_left (fun st it => put_item it st) (rev items) s.

Lemma put_back_cons it items s : put_back (it :: items) s = put_item it (put_back items s).
Proof. unfold put_back. cbn [rev]. rewrite fold_left_app. reflexivity. Qed.
Lemma put_back_ign items s : r_ign (put_back items s) = r_ign s.
Proof. induction items as [|it r IH]; [reflexivity|]. rewrite put_back_cons. cbn. exact IH. Qed.

(* read n items *)
Fixpoint gets (n : nat) (s : rst) : list ritem * rst :=
  match n with
  | 0 => ([], s)
  | S k => match next_item s with
           | (Some it, s1) => let '(r, s2) := gets k s1 in (it :: r, s2)
           | (None, s1) => ([], s1)
           end
  end.

(* Reading the pushed-back items again yields exactly those items and the state they were pushed
   onto: the look-ahead is invisible to whoever reads next. *)
Theorem reread_after_put_back items : forall s,
  Forall (deliverable (r_ign s)) items ->
  gets (length items) (put_back items s) = (items, s).
Proof.
  induction items as [|it r IH]; intros s F; [reflexivity|].
  inversion F as [|x y D FR]; subst. rewrite put_back_cons. cbn [length gets].
  rewrite get_after_put; [|now rewrite put_back_ign]. rewrite IH; [reflexivity|exact FR].
Qed.
