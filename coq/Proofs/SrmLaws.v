(* Laws of the model of string_replace_map and of the separator-cutting matchers (Model/Srm.v), for EVERY text:
   - pass 1 is lossless; the replaced line restores to the text up to the blanks just inside a replaced bracket pair:
     every non-blank character is kept, once, in order (srm_keeps_nonblank);
   - str.split: the pieces joined with the separator are the line, no piece contains the separator (split2_join,
     split2_no_sep);
   - SequenceBase.match hands every non-blank character of the text, in order, to exactly one sub-rule call -- all
     but the separators it cut at (seq_match_keeps_nonblank); the same for SeparatorBase.match and KeywordValueBase.match. *)
From Coq Require Import List Bool Arith Ascii Lia.
From FV Require Import SplitLine Text StmtBase Srm SplitLineLaws.
Import ListNotations.

Definition nb (t : text) : text := filter (fun c => negb (is_space c)) t.

Lemma nb_app a b : nb (a ++ b) = nb a ++ nb b.
Proof. apply filter_app. Qed.

Lemma nb_cons c l : is_space c = false -> nb (c :: l) = c :: nb l.
Proof. intros H. cbn. now rewrite H. Qed.

(* ---------------------------------------------------------------- pass 1 *)
Lemma flat1_app a b : flat1 (a ++ b) = flat1 a ++ flat1 b.
Proof. unfold flat1. apply flat_map_app. Qed.
Lemma flat1_C1 t : flat1 (map C1 t) = t.
Proof. induction t as [|c r IH]; cbn; [reflexivity|]. unfold flat1 in IH. now rewrite IH. Qed.

Lemma rev_cons_inv {A} (r : list A) x m : rev r = x :: m -> r = rev m ++ [x].
Proof. intros H. rewrite <- (rev_involutive r), H. reflexivity. Qed.

Lemma flat1_quoted_item t : flat1 (quoted_item t) = t.
Proof.
  destruct t as [|c0 r]; [reflexivity|]. unfold quoted_item.
  destruct (rev r) as [|cl midr] eqn:E; [apply flat1_C1|].
  destruct (all_word midr); [apply flat1_C1|].
  apply rev_cons_inv in E. subst r. cbn. rewrite ?app_nil_r. reflexivity.
Qed.

Theorem stage1_lossless s : flat1 (stage1 s) = s.
Proof.
  unfold stage1. rewrite <- (splitquote_lossless s None) at 2.
  induction (fst (splitquote s None false)) as [|q r IH]; [reflexivity|].
  cbn [flat_map]. rewrite flat1_app, IH. unfold qflat. cbn [flat_map].
  destruct q as [t|t]; cbn [qtext]; [now rewrite flat1_C1|now rewrite flat1_quoted_item].
Qed.

(* ---------------------------------------------------------------- pass 2 *)
Lemma flat2_app a b : flat2 (a ++ b) = flat2 a ++ flat2 b.
Proof. unfold flat2. apply flat_map_app. Qed.
Lemma flat2_cons t l : flat2 (t :: l) = flat2 [t] ++ flat2 l.
Proof. unfold flat2. cbn [flat_map]. now rewrite app_nil_r. Qed.
Lemma flat1_cons t l : flat1 (t :: l) = flat1 [t] ++ flat1 l.
Proof. unfold flat1. cbn [flat_map]. now rewrite app_nil_r. Qed.
Lemma flat2_lift l : flat2 (map lift l) = flat1 l.
Proof.
  induction l as [|t r IH]; [reflexivity|]. cbn [map]. rewrite flat2_cons, flat1_cons, IH. destruct t; reflexivity.
Qed.

Definition blank1 (l : list tok1) : Prop := Forall (fun t => is_sp1 t = true) l.
Lemma nb_blank1 l : blank1 l -> nb (flat1 l) = [].
Proof.
  induction 1 as [|t r H _ IH]; [reflexivity|]. destruct t as [c|b]; [|discriminate]. cbn in H.
  change (flat1 (C1 c :: r)) with (c :: flat1 r). cbn. now rewrite H.
Qed.
Lemma lstrip1_split l : exists b, blank1 b /\ l = b ++ lstrip1 l.
Proof.
  induction l as [|t r [b [B E]]]; [exists []; split; [constructor|reflexivity]|]. cbn [lstrip1].
  destruct (is_sp1 t) eqn:S.
  - exists (t :: b). split; [constructor; assumption|]. cbn. now rewrite <- E.
  - exists []. split; [constructor|reflexivity].
Qed.
Lemma blank1_rev b : blank1 b -> blank1 (rev b).
Proof. intros H. apply Forall_rev. exact H. Qed.

Lemma strip1_split l : exists b1 b2, blank1 b1 /\ blank1 b2 /\ l = b1 ++ strip1 l ++ b2.
Proof.
  unfold strip1. destruct (lstrip1_split (rev l)) as [b [B E]].
  remember (lstrip1 (rev l)) as X eqn:EX. clear EX.
  destruct (lstrip1_split (rev X)) as [b' [B' E']].
  exists b', (rev b). split; [exact B'|]. split; [apply blank1_rev; exact B|].
  remember (lstrip1 (rev X)) as Y eqn:EY. clear EY.
  rewrite <- (rev_involutive l), E, rev_app_distr, E', <- app_assoc. reflexivity.
Qed.
Lemma nb_strip1 l : nb (flat1 (strip1 l)) = nb (flat1 l).
Proof.
  destruct (strip1_split l) as [b1 [b2 [B1 [B2 E]]]]. rewrite E at 2.
  rewrite !flat1_app, !nb_app, (nb_blank1 _ B1), (nb_blank1 _ B2), app_nil_r. reflexivity.
Qed.

Lemma flat2_lift1 t : flat2 [lift t] = flat1 [t].
Proof. destruct t; reflexivity. Qed.

Lemma nb_paren_item ts : nb (flat2 (paren_item ts)) = nb (flat1 ts).
Proof.
  destruct ts as [|c0 r]; [reflexivity|]. unfold paren_item.
  destruct (rev r) as [|cl midr] eqn:E; [now rewrite flat2_lift|].
  destruct (name_like _); [now rewrite flat2_lift|].
  apply rev_cons_inv in E. subst r.
  rewrite flat2_cons, (flat2_cons (P2 _)), flat1_cons, flat1_app, !nb_app, !flat2_lift1.
  f_equal. f_equal. cbn [flat2 flat_map]. rewrite app_nil_r. apply nb_strip1.
Qed.

Lemma plen_app a b : length (pflat (a ++ b)) = length (pflat a) + length (pflat b).
Proof. rewrite pflat_app, app_length. reflexivity. Qed.

Lemma nb_cut_like segs : forall toks, length (pflat segs) = length toks ->
  nb (flat2 (cut_like segs toks)) = nb (flat1 toks).
Proof.
  induction segs as [|sg r IH]; intros toks H.
  - destruct toks; [reflexivity|discriminate].
  - assert (L : length (ptext sg) <= length toks /\ length (pflat r) = length (skipn (length (ptext sg)) toks)).
    { change (pflat (sg :: r)) with (ptext sg ++ pflat r) in H. rewrite app_length in H. rewrite skipn_length. lia. }
    destruct L as [L1 L2].
    rewrite <- (firstn_skipn (length (ptext sg)) toks) at 2. rewrite flat1_app, nb_app, <- (IH _ L2).
    destruct sg as [t|t]; cbn [cut_like ptext] in *; rewrite flat2_app, nb_app; f_equal.
    + now rewrite flat2_lift.
    + apply nb_paren_item.
Qed.

(* the replaced line restores to the text, up to blanks just inside replaced brackets *)
Theorem srm_keeps_nonblank s : nb (flat2 (srm s)) = nb s.
Proof.
  unfold srm. rewrite nb_cut_like; [now rewrite stage1_lossless|].
  rewrite splitparen_lossless, map_length. reflexivity.
Qed.

(* ---------------------------------------------------------------- str.split / strip on the replaced line *)
Definition join2 (sep : ascii) (l : list (list tok2)) : list tok2 :=
  match l with [] => [] | x :: r => x ++ flat_map (fun y => C2 sep :: y) r end.

Lemma is_c2_true sep t : is_c2 sep t = true -> t = C2 sep.
Proof. destruct t as [c| |]; cbn; try discriminate. intros H. apply Ascii.eqb_eq in H. now subst. Qed.

Lemma split2_nonempty sep l : split2 sep l <> [].
Proof.
  induction l as [|t r IH]; cbn [split2]; [discriminate|].
  destruct (split2 sep r) as [|cur rest]; [discriminate|]. destruct (is_c2 sep t); discriminate.
Qed.

Theorem split2_join sep l : join2 sep (split2 sep l) = l.
Proof.
  induction l as [|t r IH]; [reflexivity|]. cbn [split2].
  pose proof (split2_nonempty sep r) as NE.
  destruct (split2 sep r) as [|cur rest]; [congruence|].
  destruct (is_c2 sep t) eqn:C.
  - apply is_c2_true in C. subst t. cbn [join2 flat_map app]. cbn [join2] in IH. now rewrite IH.
  - cbn [join2] in *. cbn [app]. now rewrite IH.
Qed.

Theorem split2_no_sep sep l : Forall (fun e => existsb (is_c2 sep) e = false) (split2 sep l).
Proof.
  induction l as [|t r IH]; cbn [split2]; [repeat constructor|].
  pose proof (split2_nonempty sep r) as NE.
  destruct (split2 sep r) as [|cur rest]; [congruence|].
  inversion IH as [|? ? H1 H2]; subst.
  destruct (is_c2 sep t) eqn:C.
  - constructor; [reflexivity|]. constructor; assumption.
  - constructor; [cbn; now rewrite C, H1|assumption].
Qed.

Lemma split2_clean sep a : existsb (is_c2 sep) a = false -> split2 sep a = [a].
Proof.
  induction a as [|t r IH]; [reflexivity|]. cbn [existsb split2]. intros H. apply orb_false_iff in H as [H1 H2].
  rewrite (IH H2), H1. reflexivity.
Qed.
Lemma split2_app sep a b : existsb (is_c2 sep) a = false -> split2 sep (a ++ C2 sep :: b) = a :: split2 sep b.
Proof.
  induction a as [|t r IH]; intros H.
  - cbn [app split2]. pose proof (split2_nonempty sep b) as NE. destruct (split2 sep b); [congruence|].
    cbn. unfold aeqb. now rewrite Ascii.eqb_refl.
  - cbn [existsb] in H. apply orb_false_iff in H as [H1 H2]. cbn [app split2]. rewrite (IH H2), H1. reflexivity.
Qed.

Definition blank2 (l : list tok2) : Prop := Forall (fun t => is_sp2 t = true) l.
Lemma nb_blank2 l : blank2 l -> nb (flat2 l) = [].
Proof.
  induction 1 as [|t r H _ IH]; [reflexivity|]. destruct t as [c|b|b]; try discriminate. cbn in H.
  change (flat2 (C2 c :: r)) with (c :: flat2 r). cbn. now rewrite H.
Qed.
Lemma lstrip2_split l : exists b, blank2 b /\ l = b ++ lstrip2 l.
Proof.
  induction l as [|t r [b [B E]]]; [exists []; split; [constructor|reflexivity]|]. cbn [lstrip2].
  destruct (is_sp2 t) eqn:S.
  - exists (t :: b). split; [constructor; assumption|]. cbn. now rewrite <- E.
  - exists []. split; [constructor|reflexivity].
Qed.
Lemma rstrip2_split l : exists b, blank2 b /\ l = rstrip2 l ++ b.
Proof.
  unfold rstrip2. destruct (lstrip2_split (rev l)) as [b [B E]]. exists (rev b). split; [apply Forall_rev; exact B|].
  remember (lstrip2 (rev l)) as X eqn:EX. clear EX.
  rewrite <- (rev_involutive l), E, rev_app_distr. reflexivity.
Qed.
Lemma nb_lstrip2 l : nb (flat2 (lstrip2 l)) = nb (flat2 l).
Proof. destruct (lstrip2_split l) as [b [B E]]. rewrite E at 2. now rewrite flat2_app, nb_app, (nb_blank2 _ B). Qed.
Lemma nb_rstrip2 l : nb (flat2 (rstrip2 l)) = nb (flat2 l).
Proof. destruct (rstrip2_split l) as [b [B E]]. rewrite E at 2. now rewrite flat2_app, nb_app, (nb_blank2 _ B), app_nil_r. Qed.
Lemma nb_strip2 l : nb (flat2 (strip2 l)) = nb (flat2 l).
Proof. unfold strip2. now rewrite nb_lstrip2, nb_rstrip2. Qed.

(* ---------------------------------------------------------------- SequenceBase.match *)
Definition join_text (sep : ascii) (l : list text) : text :=
  match l with [] => [] | x :: r => x ++ flat_map (fun y => sep :: y) r end.

Lemma nb_join_entries sep (es : list (list tok2)) : is_space sep = false ->
  nb (join_text sep (map (fun e => flat2 (strip2 e)) es)) = nb (flat2 (join2 sep es)).
Proof.
  intros SP. destruct es as [|x r]; [reflexivity|]. cbn [map join_text join2].
  rewrite flat2_app, !nb_app, nb_strip2. f_equal.
  induction r as [|y r IH]; [reflexivity|]. cbn [map flat_map].
  change (flat2 ((C2 sep :: y) ++ flat_map (fun y0 => C2 sep :: y0) r))
    with (flat2 ((C2 sep :: y) ++ flat_map (fun y0 => C2 sep :: y0) r)).
  rewrite flat2_app, !nb_app, IH. f_equal.
  change (flat2 (C2 sep :: y)) with (sep :: flat2 y). cbn [app nb filter]. rewrite SP. cbn [negb].
  fold (nb (flat2 (strip2 y))). fold (nb (flat2 y)). now rewrite nb_strip2.
Qed.

(* every non-blank character of the text reaches exactly one sub-rule call, in order; what is cut out are the
   separators *)
Theorem seq_match_keeps_nonblank sep s : is_space sep = false ->
  nb (join_text sep (seq_match sep s)) = nb s.
Proof.
  intros SP. unfold seq_match. rewrite (nb_join_entries sep _ SP), split2_join. apply srm_keeps_nonblank.
Qed.

(* no entry has the separator outside its literals and brackets: cutting it again changes nothing *)
Theorem seq_entries_sealed sep s : Forall (fun e => existsb (is_c2 sep) e = false) (split2 sep (srm s)).
Proof. apply split2_no_sep. Qed.

(* ---------------------------------------------------------------- SeparatorBase.match *)
Lemma break2_join sep l a b : break2 sep l = Some (a, b) -> l = a ++ C2 sep :: b.
Proof.
  revert a b. induction l as [|t r IH]; intros a b; cbn [break2]; [discriminate|].
  destruct (is_c2 sep t) eqn:C.
  - intros H. inversion H; subst. apply is_c2_true in C. now subst.
  - destruct (break2 sep r) as [[a' b']|]; [|discriminate]. intros H. inversion H; subst. cbn. f_equal. now apply IH.
Qed.
Lemma break2_first sep l a b : break2 sep l = Some (a, b) -> existsb (is_c2 sep) a = false.
Proof.
  revert a b. induction l as [|t r IH]; intros a b; cbn [break2]; [discriminate|].
  destruct (is_c2 sep t) eqn:C.
  - intros H. inversion H; subst. reflexivity.
  - destruct (break2 sep r) as [[a' b']|] eqn:E; [|discriminate]. intros H. inversion H; subst. cbn. rewrite C. eapply IH. reflexivity.
Qed.

Definition otext (o : option text) : text := match o with Some t => t | None => [] end.

Theorem sep_match_keeps_nonblank hl hr ql qr s l r :
  sep_match hl hr ql qr s = SepOk l r -> nb (otext l ++ ":"%char :: otext r) = nb s.
Proof.
  unfold sep_match. destruct (break2 ":"%char (srm s)) as [[a b]|] eqn:B; [|discriminate].
  destruct (_ || _); [discriminate|]. intros H. inversion H; subst. clear H.
  rewrite <- (srm_keeps_nonblank s), (break2_join _ _ _ _ B), flat2_app, !nb_app.
  change (flat2 (C2 ":"%char :: b)) with (":"%char :: flat2 b).
  assert (X : nb (otext match rstrip2 a with [] => None | _ :: _ => Some (flat2 (rstrip2 a)) end) = nb (flat2 a)).
  { rewrite <- nb_rstrip2. destruct (rstrip2 a); reflexivity. }
  assert (Y : nb (otext match lstrip2 b with [] => None | _ :: _ => Some (flat2 (lstrip2 b)) end) = nb (flat2 b)).
  { rewrite <- nb_lstrip2. destruct (lstrip2 b); reflexivity. }
  rewrite X. f_equal. rewrite !nb_cons by reflexivity. f_equal. exact Y.
Qed.

(* ---------------------------------------------------------------- KeywordValueBase.match *)
Lemma find_char_split c s i : find_char c s = Some i -> s = firstn i s ++ c :: skipn (S i) s.
Proof.
  revert i. induction s as [|x r IH]; intros i; cbn [find_char]; [discriminate|].
  destruct (aeqb x c) eqn:E.
  - intros H. inversion H; subst. apply Ascii.eqb_eq in E. now subst.
  - destruct (find_char c r) as [k|]; [|discriminate]. intros H. inversion H; subst. cbn. f_equal. now apply IH.
Qed.

Lemma lstrip_split l : exists b, Forall (fun c => is_space c = true) b /\ l = b ++ lstrip l.
Proof.
  induction l as [|t r [b [B E]]]; [exists []; split; [constructor|reflexivity]|]. cbn [lstrip].
  destruct (is_space t) eqn:S.
  - exists (t :: b). split; [constructor; assumption|]. cbn. now rewrite <- E.
  - exists []. split; [constructor|reflexivity].
Qed.
Lemma nb_blanks b : Forall (fun c => is_space c = true) b -> nb b = [].
Proof. induction 1 as [|c r H _ IH]; [reflexivity|]. cbn. now rewrite H. Qed.
Lemma nb_lstrip l : nb (lstrip l) = nb l.
Proof. destruct (lstrip_split l) as [b [B E]]. rewrite E at 2. now rewrite nb_app, (nb_blanks _ B). Qed.
Lemma nb_rev l : nb (rev l) = rev (nb l).
Proof.
  induction l as [|c r IH]; [reflexivity|]. cbn [rev]. rewrite nb_app, IH. cbn. destruct (is_space c); cbn; [now rewrite app_nil_r|reflexivity].
Qed.
Lemma nb_strip l : nb (strip l) = nb l.
Proof. unfold strip, rstrip. now rewrite nb_lstrip, nb_rev, nb_lstrip, nb_rev, rev_involutive. Qed.

(* a class on the left of '=' : the two texts handed on hold every non-blank character but that '=' *)
Theorem kv_match_keeps_nonblank rq up s l r :
  kv_match None rq up s = KvOk l r -> nb (match l with Some x => x ++ ["="%char] | None => [] end ++ r) = nb s.
Proof.
  unfold kv_match. destruct (find_char "="%char s) as [i|] eqn:F.
  - destruct (strip (skipn (S i) s)) as [|c t] eqn:E; [discriminate|]. intros H. inversion H; subst. clear H.
    rewrite <- E. pose proof (find_char_split _ _ _ F) as D.
    transitivity (nb (firstn i s ++ "="%char :: skipn (S i) s)); [|now rewrite <- D].
    rewrite <- app_assoc, !nb_app. cbn [app]. rewrite !(nb_cons "="%char) by reflexivity. now rewrite !nb_strip.
  - destruct rq; [discriminate|]. destruct (strip s) as [|c t] eqn:E; [discriminate|]. intros H. inversion H; subst.
    cbn [app]. rewrite <- E. apply nb_strip.
Qed.

(* ================================================================ composition: texts without quotation marks and
   backslashes.  The replaced line of a ++ b is the replaced line of a followed by that of b as soon as a leaves no
   bracket open -- proved by running the splitparen automaton from two start states in lockstep. *)
Definition pinit : pst := mkPst [] [] false None [].
Definition qchar (c : ascii) : bool := aeqb c squote || aeqb c dquote || aeqb c "\"%char.
Definition qfree (e : text) : bool := forallb (fun c => negb (qchar c)) e.
Definition closed (e : text) : bool := match p_stack (fold_left pstep e pinit) with [] => true | _ => false end.

Definition seg_toks (sg : pseg) : list tok2 :=
  match sg with Flat t => map C2 t | Paren t => paren_item (map C1 t) end.
Definition Tst (st : pst) : list tok2 := flat_map seg_toks (p_items st) ++ map C2 (rev (p_cur st)).

Lemma lift_C1 t : map lift (map C1 t) = map C2 t.
Proof. rewrite map_map. reflexivity. Qed.
Lemma cls1_C1 t : map cls1 (map C1 t) = t.
Proof. rewrite map_map. cbn. apply map_id. Qed.

Lemma firstn_exact {A} (a b : list A) : firstn (length a) (a ++ b) = a.
Proof. rewrite firstn_app, Nat.sub_diag, firstn_all. cbn. apply app_nil_r. Qed.
Lemma skipn_exact {A} (a b : list A) : skipn (length a) (a ++ b) = b.
Proof. rewrite skipn_app, Nat.sub_diag, skipn_all. reflexivity. Qed.

Lemma cut_like_pflat segs : cut_like segs (map C1 (pflat segs)) = flat_map seg_toks segs.
Proof.
  induction segs as [|sg r IH]; [reflexivity|].
  change (pflat (sg :: r)) with (ptext sg ++ pflat r). rewrite map_app.
  destruct sg as [t|t]; cbn [cut_like flat_map ptext seg_toks];
    rewrite <- (map_length C1 t), firstn_exact, skipn_exact, IH; [now rewrite lift_C1|reflexivity].
Qed.

Lemma next_quote_qfree e : qfree e = true -> next_quote None e = None.
Proof.
  induction e as [|c r IH]; [reflexivity|]. cbn [qfree forallb]. intros H. apply andb_true_iff in H as [H1 H2].
  cbn [next_quote is_target]. unfold qchar in H1. apply negb_true_iff in H1. apply orb_false_iff in H1 as [H1 _].
  rewrite H1. now rewrite (IH H2).
Qed.
Lemma stage1_qfree e : qfree e = true -> stage1 e = map C1 e.
Proof.
  intros H. unfold stage1, splitquote. destruct e as [|c r]; [reflexivity|].
  cbn [sq_loop length]. rewrite (next_quote_qfree _ H). cbn. now rewrite app_nil_r.
Qed.

Lemma srm_qfree e : qfree e = true -> srm e = Tst (fold_left pstep e pinit).
Proof.
  intros H. unfold srm. rewrite (stage1_qfree _ H), cls1_C1.
  rewrite <- (splitparen_lossless e) at 2. rewrite cut_like_pflat.
  unfold splitparen, Tst. fold pinit. destruct (p_cur (fold_left pstep e pinit)) as [|c r].
  - cbn. now rewrite app_nil_r.
  - rewrite flat_map_app. cbn [flat_map seg_toks]. now rewrite app_nil_r.
Qed.

Lemma qfree_app a b : qfree (a ++ b) = qfree a && qfree b.
Proof. apply forallb_app. Qed.

Lemma pstep_qfree st c : qchar c = false -> p_bs st = false -> p_q st = None ->
  p_bs (pstep st c) = false /\ p_q (pstep st c) = None.
Proof.
  intros Q B N. unfold qchar in Q. apply orb_false_iff in Q as [Q Q3].
  unfold pstep. rewrite Q3, B, N, Q.
  destruct (closer_of c); destruct (p_stack st) as [|top st']; cbn; auto.
  destruct (aeqb c top); [destruct st'|]; cbn; auto.
Qed.
Lemma run_qfree e : forall st, qfree e = true -> p_bs st = false -> p_q st = None ->
  p_bs (fold_left pstep e st) = false /\ p_q (fold_left pstep e st) = None.
Proof.
  induction e as [|c r IH]; intros st H B N; [auto|]. cbn [qfree forallb] in H. apply andb_true_iff in H as [H1 H2].
  apply negb_true_iff in H1. destruct (pstep_qfree st c H1 B N) as [B' N']. cbn [fold_left]. apply IH; assumption.
Qed.

(* two runs of the automaton over the same text: A starts with finished parts [items] and pending text [cur] (no bracket
   open), B starts from nothing *)
Definition rel (items : list pseg) (cur : text) (A B : pst) : Prop :=
  p_bs A = p_bs B /\ p_q A = p_q B /\ p_stack A = p_stack B /\
  ((p_items B = [] /\ p_stack B = [] /\ p_items A = items /\ p_cur A = p_cur B ++ cur)
   \/ (exists x rest, p_items B = Flat x :: rest /\ p_items A = items ++ Flat (rev cur ++ x) :: rest /\ p_cur A = p_cur B)).

Lemma rel_step items cur A B c : rel items cur A B -> rel items cur (pstep A c) (pstep B c).
Proof.
  destruct A as [ia ca ba qa sa], B as [ib cb bb qb sb]. unfold rel. cbn [p_items p_cur p_bs p_q p_stack].
  intros (Hb & Hq & Hs & H). subst ba qa sa. unfold pstep. cbn [p_items p_cur p_bs p_q p_stack].
  destruct (aeqb c "\"%char).
  { cbn. repeat split. destruct H as [(H1 & H2 & H3 & H4)|(x & rest & H1 & H2 & H3)]; subst.
    - left. auto.
    - right. exists x, rest. auto. }
  destruct bb.
  { cbn. repeat split. destruct H as [(H1 & H2 & H3 & H4)|(x & rest & H1 & H2 & H3)]; subst.
    - left. auto.
    - right. exists x, rest. auto. }
  destruct qb as [q|].
  { cbn. repeat split. destruct H as [(H1 & H2 & H3 & H4)|(x & rest & H1 & H2 & H3)]; subst.
    - left. auto.
    - right. exists x, rest. auto. }
  destruct (aeqb c squote || aeqb c dquote).
  { cbn. repeat split. destruct H as [(H1 & H2 & H3 & H4)|(x & rest & H1 & H2 & H3)]; subst.
    - left. auto.
    - right. exists x, rest. auto. }
  destruct (closer_of c) as [cl|].
  - destruct sb as [|top st'].
    + cbn. repeat split. right. destruct H as [(H1 & H2 & H3 & H4)|(x & rest & H1 & H2 & H3)]; subst.
      * exists (rev cb), []. cbn. rewrite rev_app_distr. auto.
      * exists x, (rest ++ [Flat (rev cb)]). cbn. rewrite <- app_assoc. auto.
    + cbn. repeat split. destruct H as [(H1 & H2 & H3 & H4)|(x & rest & H1 & H2 & H3)]; subst; [discriminate|].
      right. exists x, rest. auto.
  - destruct sb as [|top st'].
    + cbn. repeat split. destruct H as [(H1 & H2 & H3 & H4)|(x & rest & H1 & H2 & H3)]; subst.
      * left. auto.
      * right. exists x, rest. auto.
    + destruct (aeqb c top).
      * destruct st'; cbn; repeat split; (destruct H as [(H1 & H2 & H3 & H4)|(x & rest & H1 & H2 & H3)]; subst; [discriminate|]); right.
        -- exists x, (rest ++ [Paren (rev (c :: cb))]). cbn. rewrite <- app_assoc. auto.
        -- exists x, rest. auto.
      * cbn. repeat split. destruct H as [(H1 & H2 & H3 & H4)|(x & rest & H1 & H2 & H3)]; subst; [discriminate|].
        right. exists x, rest. auto.
Qed.

Lemma rel_run items cur e : forall A B, rel items cur A B -> rel items cur (fold_left pstep e A) (fold_left pstep e B).
Proof. induction e as [|c r IH]; intros A B H; [exact H|]. cbn [fold_left]. apply IH, rel_step, H. Qed.

Lemma map_C2_app a b : map C2 (a ++ b) = map C2 a ++ map C2 b.
Proof. apply map_app. Qed.

Lemma rel_Tst items cur A B : rel items cur A B ->
  Tst A = (flat_map seg_toks items ++ map C2 (rev cur)) ++ Tst B.
Proof.
  intros (_ & _ & _ & H). unfold Tst. destruct H as [(H1 & H2 & H3 & H4)|(x & rest & H1 & H2 & H3)].
  - rewrite H1, H3, H4, rev_app_distr, map_C2_app. cbn [flat_map app]. now rewrite <- app_assoc.
  - rewrite H1, H2, H3, flat_map_app. cbn [flat_map seg_toks]. rewrite map_C2_app. now rewrite <- !app_assoc.
Qed.

Theorem srm_app a b : qfree a = true -> qfree b = true -> closed a = true -> srm (a ++ b) = srm a ++ srm b.
Proof.
  intros Qa Qb Ca.
  assert (Qab : qfree (a ++ b) = true) by now rewrite qfree_app, Qa, Qb.
  rewrite (srm_qfree _ Qab), (srm_qfree _ Qa), (srm_qfree _ Qb), fold_left_app.
  destruct (run_qfree a pinit Qa eq_refl eq_refl) as [B N].
  unfold closed in Ca. remember (fold_left pstep a pinit) as st eqn:E. clear E.
  destruct st as [ia ca ba qa sa]. cbn [p_bs p_q p_stack] in *. subst ba qa. destruct sa; [|discriminate].
  assert (R : rel ia ca (mkPst ia ca false None []) pinit).
  { unfold rel, pinit. cbn. repeat split. left. auto. }
  rewrite (rel_Tst _ _ _ _ (rel_run ia ca b _ _ R)). reflexivity.
Qed.

(* characters that the automaton only collects *)
Definition plainc (c : ascii) : bool :=
  negb (qchar c) && match closer_of c with Some _ => false | None => true end.
Lemma srm_plain1 c : plainc c = true -> srm [c] = [C2 c].
Proof.
  intros H. unfold plainc in H. apply andb_true_iff in H as [H1 H2]. apply negb_true_iff in H1.
  assert (Q : qfree [c] = true) by (cbn; now rewrite H1).
  rewrite (srm_qfree _ Q). cbn [fold_left]. unfold pstep, pinit. cbn [p_items p_cur p_bs p_q p_stack].
  unfold qchar in H1. apply orb_false_iff in H1 as [H1 H3]. rewrite H3, H1.
  destruct (closer_of c); [discriminate|]. reflexivity.
Qed.
Lemma closed_plain1 c : plainc c = true -> closed [c] = true.
Proof.
  intros H. unfold plainc in H. apply andb_true_iff in H as [H1 H2]. apply negb_true_iff in H1.
  unfold closed. cbn [fold_left]. unfold pstep, pinit. cbn [p_items p_cur p_bs p_q p_stack].
  unfold qchar in H1. apply orb_false_iff in H1 as [H1 H3]. rewrite H3, H1.
  destruct (closer_of c); [discriminate|]. reflexivity.
Qed.

(* ================================================================ SequenceBase: what tostr prints is cut into the
   same entries again *)
Definition comma : ascii := ","%char.
Definition solid2 (l : list tok2) : bool :=
  match l with t :: _ => negb (is_sp2 t) | [] => true end && match rev l with t :: _ => negb (is_sp2 t) | [] => true end.
Definition good_entry (e : text) : bool :=
  qfree e && closed e && negb (existsb (is_c2 comma) (srm e)) && solid2 (srm e) && text_eqb (flat2 (srm e)) e.

Lemma lstrip2_nonsp t r : is_sp2 t = false -> lstrip2 (t :: r) = t :: r.
Proof. intros H. cbn. now rewrite H. Qed.
Lemma strip2_solid l : solid2 l = true -> strip2 l = l.
Proof.
  unfold solid2, strip2, rstrip2. intros H. apply andb_true_iff in H as [H1 H2].
  destruct (rev l) as [|t r] eqn:E.
  - apply (f_equal (@rev tok2)) in E. rewrite rev_involutive in E. subst l. reflexivity.
  - apply negb_true_iff in H2. rewrite (lstrip2_nonsp _ _ H2), <- E, rev_involutive.
    destruct l as [|x y]; [reflexivity|]. apply negb_true_iff in H1. now apply lstrip2_nonsp.
Qed.
Lemma lstrip2_snoc_sp m sp : is_sp2 sp = true ->
  lstrip2 (m ++ [sp]) = match lstrip2 m with [] => [] | x => x ++ [sp] end.
Proof.
  intros S. induction m as [|t r IH]; cbn [app lstrip2]; [now rewrite S|].
  destruct (is_sp2 t); [exact IH|reflexivity].
Qed.
Lemma strip2_cons_sp sp l : is_sp2 sp = true -> strip2 (sp :: l) = strip2 l.
Proof.
  intros S. unfold strip2, rstrip2. cbn [rev]. rewrite (lstrip2_snoc_sp _ _ S).
  destruct (lstrip2 (rev l)) as [|x y]; [reflexivity|].
  rewrite rev_app_distr. cbn [rev app lstrip2]. now rewrite S.
Qed.

Lemma text_eqb_eq a : forall b, text_eqb a b = true -> a = b.
Proof.
  induction a as [|x r IH]; intros [|y t]; cbn; try discriminate; [reflexivity|].
  intros H. apply andb_true_iff in H as [H1 H2]. apply Ascii.eqb_eq in H1. subst. f_equal. auto.
Qed.

Lemma good_entry_spec e : good_entry e = true ->
  qfree e = true /\ closed e = true /\ existsb (is_c2 comma) (srm e) = false /\ strip2 (srm e) = srm e /\ flat2 (srm e) = e.
Proof.
  unfold good_entry. intros H. repeat (apply andb_true_iff in H as [H ?]).
  repeat split; try assumption; [now apply negb_true_iff|now apply strip2_solid|now apply text_eqb_eq].
Qed.

Definition entry_text (l : list tok2) : text := flat2 (strip2 l).

Lemma qfree_tostr es : forallb good_entry es = true -> qfree (seq_tostr comma es) = true.
Proof.
  destruct es as [|e r]; [reflexivity|]. cbn [forallb seq_tostr]. intros H. apply andb_true_iff in H as [H1 H2].
  apply good_entry_spec in H1 as (Q & _). rewrite qfree_app, Q. cbn [andb]. clear Q e.
  induction r as [|y r IH]; [reflexivity|]. cbn [forallb] in H2. apply andb_true_iff in H2 as [H2 H3].
  apply good_entry_spec in H2 as (Q & _). cbn [flat_map]. unfold comma at 1. cbn [aeqb Ascii.eqb]. 
  rewrite !qfree_app, Q, (IH H3). reflexivity.
Qed.

Lemma split2_cons_sp l : split2 comma (C2 " "%char :: l) =
  match split2 comma l with cur :: rest => (C2 " "%char :: cur) :: rest | [] => [[C2 " "%char]] end.
Proof. reflexivity. Qed.

(* the text that SequenceBase.tostr prints for entries that are well formed in the sense of good_entry is cut into
   exactly these entries again *)
Theorem seq_roundtrip es : es <> [] -> forallb good_entry es = true ->
  seq_match comma (seq_tostr comma es) = es.
Proof.
  destruct es as [|e r]; [congruence|]. intros _. revert e.
  induction r as [|e' r IH]; intros e H.
  - cbn [forallb] in H. apply andb_true_iff in H as [H _]. apply good_entry_spec in H as (Q & C & NS & ST & FL).
    cbn [seq_tostr flat_map]. rewrite app_nil_r. unfold seq_match. rewrite (split2_clean _ _ NS). cbn [map].
    now rewrite ST, FL.
  - pose proof H as H0. cbn [forallb] in H. apply andb_true_iff in H as [H HR].
    apply good_entry_spec in H as (Q & C & NS & ST & FL).
    assert (QR : qfree (seq_tostr comma (e' :: r)) = true) by now apply qfree_tostr.
    specialize (IH e' HR).
    assert (E : seq_tostr comma (e :: e' :: r) = e ++ [comma] ++ [" "%char] ++ seq_tostr comma (e' :: r)).
    { cbn [seq_tostr flat_map]. unfold comma at 1. cbn [aeqb Ascii.eqb]. cbn [app]. now rewrite <- !app_assoc. }
    rewrite E. unfold seq_match in *.
    assert (Q1 : qfree ([" "%char] ++ seq_tostr comma (e' :: r)) = true) by (rewrite qfree_app, QR; reflexivity).
    assert (Q2 : qfree ([comma] ++ [" "%char] ++ seq_tostr comma (e' :: r)) = true) by (rewrite qfree_app, Q1; reflexivity).
    rewrite (srm_app e _ Q Q2 C), (srm_app [comma] _ eq_refl Q1 eq_refl), (srm_app [" "%char] _ eq_refl QR eq_refl).
    rewrite (srm_plain1 comma eq_refl), (srm_plain1 " "%char eq_refl). cbn [app].
    rewrite (split2_app _ _ _ NS), split2_cons_sp.
    pose proof (split2_nonempty comma (srm (seq_tostr comma (e' :: r)))) as NE.
    destruct (split2 comma (srm (seq_tostr comma (e' :: r)))) as [|cur rest]; [congruence|].
    cbn [map] in *. rewrite ST, FL. f_equal. rewrite (strip2_cons_sp (C2 " "%char)) by reflexivity. exact IH.
Qed.
