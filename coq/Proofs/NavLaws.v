(* walk() and _set_parent() agree on what the children of a node are; deep copy of a well-formed tree
   is a well-formed, structurally identical tree on fresh node identities. *)
From Coq Require Import List Bool Arith Lia.
Require Import FV.Model.Nav.
Import ListNotations.

Section ValInd.
Variable P : val -> Prop.
Hypothesis Hn : forall n, P (VNode n).
Hypothesis Ha : P VAtom.
Hypothesis Ho : P VNone.
Hypothesis Ht : forall l, Forall P l -> P (VTuple l).
Hypothesis Hl : forall l, Forall P l -> P (VList l).
Fixpoint val_ind2 (v : val) : P v :=
  match v with
  | VNode n => Hn n | VAtom => Ha | VNone => Ho
  | VTuple l => Ht l ((fix go (l : list val) : Forall P l :=
                         match l with [] => Forall_nil P | x :: r => Forall_cons x (val_ind2 x) (go r) end) l)
  | VList l => Hl l ((fix go (l : list val) : Forall P l :=
                        match l with [] => Forall_nil P | x :: r => Forall_cons x (val_ind2 x) (go r) end) l)
  end.
End ValInd.

(* when both functions treat lists like tuples, the nodes walk() finds under a node are exactly the
   nodes whose parent link _set_parent() set to it -- for every nesting of lists and tuples *)
Theorem walk_children_are_adopted v : reached true v = adopted true v.
Proof.
  induction v as [n| | |l IH|l IH] using val_ind2; try reflexivity; cbn [reached adopted];
    (induction l as [|x r IHr]; [reflexivity|]; inversion IH; subst; f_equal; auto).
Qed.

(* and a variant in which exactly one of them skips lists is refuted by a one-element list *)
Theorem walk_skipping_lists_misses_children :
  exists v, reached false v <> adopted true v.
Proof. exists (VList [VNode 0]). cbn. discriminate. Qed.

(* ---- deep copy *)
Section TreeInd.
Variable P : ptree -> Prop.
Hypothesis H : forall i c p kids, Forall P kids -> P (PNode i c p kids).
Fixpoint ptree_ind2 (t : ptree) : P t :=
  match t with
  | PNode i c p kids => H i c p kids ((fix go (l : list ptree) : Forall P l :=
      match l with [] => Forall_nil P | k :: r => Forall_cons k (ptree_ind2 k) (go r) end) kids)
  end.
End TreeInd.

Fixpoint copy_kids (me : nat) (l : list ptree) (n : nat) : list ptree * nat :=
  match l with
  | [] => ([], n)
  | k :: r => let '(k', n1) := copy_tree n (Some me) k in
              let '(r', n2) := copy_kids me r n1 in (k' :: r', n2)
  end.
Lemma copy_tree_unfold next np i c p kids :
  copy_tree next np (PNode i c p kids) =
  (let '(kids', nxt) := copy_kids next kids (S next) in (PNode next c np kids', nxt)).
Proof.
  cbn [copy_tree].
  match goal with |- (let '(a, b) := ?F kids (S next) in _) = _ =>
    assert (E : forall l n, F l n = copy_kids next l n) end.
  { induction l as [|k r IH]; intros n; [reflexivity|]. cbn [copy_kids].
    destruct (copy_tree n (Some next) k) as [k' n1]. rewrite IH. reflexivity. }
  rewrite E. reflexivity.
Qed.

Definition good_copy (t : ptree) : Prop :=
  forall next np, let '(t', nxt) := copy_tree next np t in
    pshape t' = pshape t /\ pwf np t' = true /\ next < nxt /\
    (forall j, In j (pids t') -> next <= j < nxt) /\ pid t' = next.

Lemma pshape_node i c p kids : pshape (PNode i c p kids) = c :: 7 :: flat_map pshape kids ++ [8].
Proof.
  cbn [pshape].
  assert (E : forall l, (fix go (l : list ptree) := match l with [] => [] | k :: r => pshape k ++ go r end) l
                        = flat_map pshape l) by (induction l as [|k r IH]; cbn; [reflexivity|now rewrite IH]).
  now rewrite E.
Qed.
Lemma pids_node i c p kids : pids (PNode i c p kids) = i :: flat_map pids kids.
Proof.
  cbn [pids].
  assert (E : forall l, (fix go (l : list ptree) := match l with [] => [] | k :: r => pids k ++ go r end) l
                        = flat_map pids l) by (induction l as [|k r IH]; cbn; [reflexivity|now rewrite IH]).
  now rewrite E.
Qed.
Lemma pwf_node e i c p kids : pwf e (PNode i c p kids) =
  (match p, e with Some a, Some b => Nat.eqb a b | None, None => true | _, _ => false end) && forallb (pwf (Some i)) kids.
Proof.
  cbn [pwf].
  assert (E : forall l, (fix go (l : list ptree) := match l with [] => true | k :: r => pwf (Some i) k && go r end) l
                        = forallb (pwf (Some i)) l) by (induction l as [|k r IH]; cbn; [reflexivity|now rewrite IH]).
  now rewrite E.
Qed.

Lemma copy_kids_good me kids : Forall good_copy kids -> forall n,
  let '(kids', nxt) := copy_kids me kids n in
  flat_map pshape kids' = flat_map pshape kids /\ forallb (pwf (Some me)) kids' = true /\ n <= nxt /\
  (forall j, In j (flat_map pids kids') -> n <= j < nxt).
Proof.
  induction 1 as [|k r Hk Hr IH]; intros n; cbn [copy_kids].
  - cbn. repeat split; auto; try lia; try (intros x []); contradiction.
  - specialize (Hk n (Some me)). destruct (copy_tree n (Some me) k) as [k' n1].
    destruct Hk as [S1 [W1 [L1 [I1 _]]]]. specialize (IH n1).
    destruct (copy_kids me r n1) as [r' n2]. destruct IH as [S2 [W2 [L2 I2]]].
    cbn [flat_map forallb]. rewrite S1, S2, W1, W2. split; [reflexivity|]. split; [reflexivity|]. split; [lia|].
    intros j Hj. apply in_app_or in Hj as [Hj|Hj]; [specialize (I1 j Hj)|specialize (I2 j Hj)]; lia.
Qed.

Theorem copy_tree_good t : good_copy t.
Proof.
  induction t as [i c p kids IH] using ptree_ind2. intros next np. rewrite copy_tree_unfold.
  pose proof (copy_kids_good next kids IH (S next)) as K.
  destruct (copy_kids next kids (S next)) as [kids' nxt]. destruct K as [S1 [W1 [L1 I1]]].
  rewrite !pshape_node, S1, pwf_node, W1, pids_node. split; [reflexivity|]. split.
  { destruct np; [now rewrite Nat.eqb_refl|reflexivity]. }
  split; [lia|]. split; [|reflexivity].
  intros j [<-|Hj]; [lia|]. specialize (I1 j Hj). lia.
Qed.
