(* Fixed form: the continuation loop joins the statement field (columns 7..) of the initial line and of
   every continuation line (five blanks, any non-blank mark in column 6) losslessly; comment lines
   between them are queued (comments kept) or invisible (comments ignored) and do not change the
   joined text or the recorded end line; the loop stops in front of the first line that is neither a
   continuation nor a comment, which it leaves in the push-back buffer.  Any number of lines. *)
From Coq Require Import List Bool Arith Ascii String NArith Lia.
From FV Require Import SplitLine Text Reader ReaderJoin.
Import ListNotations.
Close Scope string_scope.

Section Fixed.
Variable ign : bool.

Definition fx (src filo : list text) (lc : nat) (fifo : list ritem) : rst := mkRst src filo lc fifo false false ign false.

Lemma gsl_fx l src lc fifo : stripped l -> ign && is_fix_comment l = false ->
  get_single_line (fx (l :: src) [] lc fifo) = (Some l, fx src [] (S lc) fifo).
Proof.
  intros R H. unfold get_single_line, fx. cbn [r_filo r_src r_linecount r_ign r_free r_omp r_fifo r_err pull_src negb].
  rewrite R. destruct ign; cbn [andb negb] in *; [rewrite H|]; reflexivity.
Qed.

Lemma gsl_fx_skip l src lc fifo : stripped l -> ign = true -> is_fix_comment l = true ->
  get_single_line (fx (l :: src) [] lc fifo) = get_single_line (fx src [] (S lc) fifo).
Proof.
  intros R I H. unfold get_single_line, fx. cbn [r_filo r_src r_linecount r_ign r_free r_omp r_fifo r_err pull_src negb].
  rewrite R, I. cbn [andb negb]. rewrite H. reflexivity.
Qed.

Lemma gsl_filo l f src lc fifo : get_single_line (fx src (l :: f) lc fifo) = (Some l, fx src f (S lc) fifo).
Proof. reflexivity. Qed.

Lemma gnl_fx l src lc fifo : stripped l -> ign && is_fix_comment l = false ->
  get_next_line (fx (l :: src) [] lc fifo) = (Some l, fx src [l] lc fifo).
Proof.
  intros R H. unfold get_next_line. rewrite (gsl_fx l src lc fifo R H). unfold put_single_line, fx.
  cbn [r_src r_filo r_linecount r_fifo r_free r_omp r_ign r_err]. f_equal. f_equal. lia.
Qed.

Lemma gnl_fx_skip l src lc fifo : stripped l -> ign = true -> is_fix_comment l = true ->
  get_next_line (fx (l :: src) [] lc fifo) = get_next_line (fx src [] (S lc) fifo).
Proof. intros R I H. unfold get_next_line. now rewrite (gsl_fx_skip l src lc fifo R I H). Qed.

Lemma gnl_eof lc fifo : get_next_line (fx [] [] lc fifo) = (None, fx [] [] lc fifo).
Proof. reflexivity. Qed.

(* ---- single steps of the loop *)
Lemma fix_cont_step f acc endl l src lc fifo :
  stripped l -> is_fix_cont l = true -> is_fix_comment l = false -> plain (skipn 6 l) ->
  fix_loop (S f) acc None endl (fx (l :: src) [] lc fifo)
  = fix_loop f (acc ++ skipn 6 l) None (S lc) (fx src [] (S lc) fifo).
Proof.
  intros R C K P. cbn [fix_loop]. rewrite (gnl_fx l src lc fifo R) by (rewrite K; apply andb_false_r).
  rewrite C. cbn [orb]. rewrite gsl_filo, K. cbn [r_linecount fx].
  destruct (plain_quiet _ P) as [[Q1 [Q2 Q3]] _]. rewrite (hic_trivial _ _ Q1 Q2 Q3). reflexivity.
Qed.

Lemma fix_comment_kept f acc q endl l src lc fifo :
  stripped l -> ign = false -> is_fix_comment l = true ->
  fix_loop (S f) acc q endl (fx (l :: src) [] lc fifo)
  = fix_loop f acc q endl (fx src [] (S lc) (fifo ++ [RComment l (S lc) (S lc) false])).
Proof.
  intros R I K. cbn [fix_loop]. rewrite (gnl_fx l src lc fifo R) by (rewrite I; reflexivity).
  rewrite K, orb_true_r. rewrite gsl_filo, K. reflexivity.
Qed.

Lemma fix_comment_ignored f acc q endl l src lc fifo :
  stripped l -> ign = true -> is_fix_comment l = true ->
  fix_loop (S f) acc q endl (fx (l :: src) [] lc fifo) = fix_loop (S f) acc q endl (fx src [] (S lc) fifo).
Proof. intros R I K. cbn [fix_loop]. now rewrite (gnl_fx_skip l src lc fifo R I K). Qed.

Lemma fix_stop f acc q endl l src lc fifo :
  stripped l -> is_fix_cont l = false -> is_fix_comment l = false ->
  fix_loop (S f) acc q endl (fx (l :: src) [] lc fifo) = (acc, endl, fx src [l] lc fifo).
Proof.
  intros R C K. cbn [fix_loop]. rewrite (gnl_fx l src lc fifo R) by (rewrite K; apply andb_false_r).
  rewrite C, K. reflexivity.
Qed.

Lemma fix_eof f acc q endl lc fifo : fix_loop (S f) acc q endl (fx [] [] lc fifo) = (acc, endl, fx [] [] lc fifo).
Proof. reflexivity. Qed.

(* ---- the lines after the initial line *)
Inductive fl := FCont (l : text) | FCom (l : text).
Definition fphys (x : fl) : text := match x with FCont l => l | FCom l => l end.
Definition fgood (x : fl) : Prop :=
  match x with
  | FCont l => stripped l /\ is_fix_cont l = true /\ is_fix_comment l = false /\ plain (skipn 6 l)
  | FCom l => stripped l /\ is_fix_comment l = true
  end.
Definition ftext (ls : list fl) : text :=
  List.concat (map (fun x => match x with FCont l => skipn 6 l | FCom _ => [] end) ls).
Fixpoint fend (ls : list fl) (lc endl : nat) : nat :=
  match ls with
  | [] => endl
  | FCont _ :: r => fend r (S lc) (S lc)
  | FCom _ :: r => fend r (S lc) endl
  end.
Fixpoint fcoms (ls : list fl) (lc : nat) : list ritem :=
  match ls with
  | [] => []
  | FCont _ :: r => fcoms r (S lc)
  | FCom l :: r => (if ign then [] else [RComment l (S lc) (S lc) false]) ++ fcoms r (S lc)
  end.
Definition tail_ok (tail : list text) : Prop :=
  match tail with [] => True | nl :: _ => stripped nl /\ is_fix_cont nl = false /\ is_fix_comment nl = false end.
Definition after (tail : list text) (lc : nat) (fifo : list ritem) : rst :=
  match tail with [] => fx [] [] lc fifo | nl :: r => fx r [nl] lc fifo end.

Theorem fix_join : forall ls fuel acc endl lc fifo tail,
  Forall fgood ls -> tail_ok tail -> List.length ls < fuel ->
  fix_loop fuel acc None endl (fx (map fphys ls ++ tail) [] lc fifo)
  = (acc ++ ftext ls, fend ls lc endl, after tail (lc + List.length ls) (fifo ++ fcoms ls lc)).
Proof.
  induction ls as [|x r IH]; intros fuel acc endl lc fifo tail G T LT.
  - destruct fuel as [|f]; [cbn in LT; lia|]. cbn [map app ftext List.concat fend fcoms List.length].
    rewrite !app_nil_r, Nat.add_0_r. destruct tail as [|nl tl].
    + apply fix_eof.
    + destruct T as [R [C K]]. apply fix_stop; assumption.
  - destruct fuel as [|f]; [cbn in LT; lia|]. inversion G as [|y z Gx Gr]; subst.
    cbn [map app List.length]. destruct x as [l|l]; cbn [fphys fgood] in *.
    + destruct Gx as [R [C [K P]]]. rewrite (fix_cont_step f acc endl l _ lc fifo R C K P).
      rewrite (IH f (acc ++ skipn 6 l) (S lc) (S lc) fifo tail Gr T) by (cbn in LT; lia).
      cbn [ftext map List.concat fend fcoms]. rewrite <- app_assoc.
      replace (S lc + List.length r) with (lc + S (List.length r)) by lia. reflexivity.
    + destruct Gx as [R K]. destruct ign eqn:I.
      * rewrite (fix_comment_ignored f acc None endl l _ lc fifo R I K).
        rewrite (IH (S f) acc endl (S lc) fifo tail Gr T) by (cbn in LT; lia).
        cbn [ftext map List.concat fend fcoms app]. rewrite I. cbn [app].
        replace (S lc + List.length r) with (lc + S (List.length r)) by lia. reflexivity.
      * rewrite (fix_comment_kept f acc None endl l _ lc fifo R I K).
        rewrite (IH f acc endl (S lc) _ tail Gr T) by (cbn in LT; lia).
        cbn [ftext map List.concat fend fcoms app]. rewrite I. rewrite <- app_assoc.
        replace (S lc + List.length r) with (lc + S (List.length r)) by lia. reflexivity.
Qed.

(* ---- the item: label field, optional construct name, statement field, continuation lines *)
Theorem fixed_item l5 c6 body nm rest ls tail lc fifo :
  let line := l5 ++ c6 :: body in
  let field := match nm with Some _ => rest | None => body end in
  List.length l5 = 5 -> forallb space_or_digit l5 = true ->
  stripped line -> starts_with ["#"%char] (lstrip line) = false -> is_fix_comment line = false ->
  extract_construct_name body = (nm, rest) -> plain field -> strip (field ++ ftext ls) <> [] -> is_blank field = false ->
  Forall fgood ls -> tail_ok tail ->
  get_source_item (fx (line :: map fphys ls ++ tail) [] lc fifo)
  = (Some (RLine (strip (field ++ ftext ls))
                 (match label_chars l5 with [] => None | _ => Some (nat_of_digits (label_chars l5)) end) nm
                 (S lc) (fend ls (S lc) (S lc))),
     after tail (S lc + List.length ls) (fifo ++ fcoms ls (S lc))).
Proof.
  intros line field L5 SD R NH K EN P NS NB G T. subst field.
  destruct l5 as [|a1 [|a2 [|a3 [|a4 [|a5 [|]]]]]]; try discriminate L5.
  cbn [forallb] in SD. apply andb_true_iff in SD as [S1 SD]. apply andb_true_iff in SD as [S2 SD].
  apply andb_true_iff in SD as [S3 SD]. apply andb_true_iff in SD as [S4 SD]. apply andb_true_iff in SD as [S5 _].
  unfold get_source_item. rewrite (gsl_fx line _ lc fifo R) by (rewrite K; apply andb_false_r).
  rewrite NH, andb_false_r. cbn [r_free fx]. rewrite K.
  unfold line. cbn [app nth_error filter]. rewrite S1. cbn [negb].
  cbn [filter nth_error]. rewrite S2, S3, S4, S5. cbn [negb List.length Nat.leb Nat.eqb firstn skipn].
  rewrite EN. cbn [r_linecount fx r_src r_filo List.length].
  assert (FJ : forall lbl fld fuel, S (List.length ls) < fuel -> plain fld -> strip (fld ++ ftext ls) <> [] ->
     (let '(nl, q, cm) := handle_inline_comment fld (S lc) None in
      let '(txt, endl, s3) := fix_loop fuel nl q (S lc) (push_opt cm (fx (map fphys ls ++ tail) [] (S lc) fifo)) in
      mk_line txt lbl nm (S lc) endl s3)
     = (Some (RLine (strip (fld ++ ftext ls)) lbl
                    nm (S lc) (fend ls (S lc) (S lc))),
        after tail (S lc + List.length ls) (fifo ++ fcoms ls (S lc)))).
  { intros lbl fld fuel LT Pf NSf. destruct (plain_quiet _ Pf) as [[Q1 [Q2 Q3]] _]. rewrite (hic_trivial _ _ Q1 Q2 Q3).
    cbn [push_opt]. rewrite (fix_join ls fuel fld (S lc) (S lc) fifo tail G T) by lia.
    unfold mk_line. destruct (strip (fld ++ ftext ls)) eqn:E; [contradiction|]. reflexivity. }
  destruct nm as [n|]; cbn beta iota in *; rewrite NB; apply FJ; auto; rewrite app_length, map_length; lia.
Qed.

End Fixed.
