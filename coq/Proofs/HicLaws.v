(* The in-line comment handler never loses or alters a character: for EVERY physical line and every quote state it
   is entered with, the code part it returns followed by the text of the comment it splits off (if any) is the line,
   the comment starts with '!' and carries the number of the line; without a comment the line is returned as it is.
   (No hypothesis on the line: literals, doubled quotes, a literal left open -- all covered through
   splitquote_lossless.) *)
From Coq Require Import List Bool Arith Ascii NArith Lia.
From FV Require Import SplitLine Text Reader SplitLineLaws ReaderJoin ReaderJoinQ ReaderJoinG.
Import ListNotations.


(* the scan over the segments of splitquote (the local fix of handle_inline_comment) *)
Fixpoint hscan (ss : list qseg) (keep : text) : text * option text :=
  match ss with
  | [] => (keep, None)
  | Quoted t :: r => hscan r (keep ++ t)
  | Plain t :: r =>
      match find_char bang t with
      | None => hscan r (keep ++ t)
      | Some j => (keep ++ firstn j t, Some (skipn j t ++ qflat r))
      end
  end.

Lemma find_char_nth c : forall l i, find_char c l = Some i -> starts_with [c] (skipn i l) = true.
Proof.
  induction l as [|x r IH]; intros i H; [discriminate|]. cbn in H.
  destruct (aeqb x c) eqn:E.
  - inversion H; subst. cbn. apply aeqb_eq in E. subst. now rewrite aeqb_refl.
  - destruct (find_char c r) as [k|] eqn:F; [|discriminate]. inversion H; subst. cbn [skipn]. apply IH. reflexivity.
Qed.

Lemma hscan_spec ss : forall keep,
  match hscan ss keep with
  | (k, None) => k = keep ++ qflat ss
  | (k, Some cm) => k ++ cm = keep ++ qflat ss /\ starts_with [bang] cm = true
  end.
Proof.
  induction ss as [|s r IH]; intros keep; cbn [hscan].
  - cbn. now rewrite app_nil_r.
  - destruct s as [t|t].
    + destruct (find_char bang t) as [j|] eqn:F.
      * split.
        -- unfold qflat. cbn [flat_map qtext]. rewrite <- !app_assoc. f_equal. rewrite app_assoc, firstn_skipn. reflexivity.
        -- pose proof (find_char_nth bang t j F) as N. destruct (skipn j t) as [|c0 r0]; [discriminate|]. exact N.
      * specialize (IH (keep ++ t)). destruct (hscan r (keep ++ t)) as [k [cm|]];
          unfold qflat in *; cbn [flat_map qtext]; rewrite <- app_assoc in IH; exact IH.
    + specialize (IH (keep ++ t)). destruct (hscan r (keep ++ t)) as [k [cm|]];
        unfold qflat in *; cbn [flat_map qtext]; rewrite <- app_assoc in IH; exact IH.
Qed.

Theorem hic_lossless l n q cd q' oc : handle_inline_comment l n q = (cd, q', oc) ->
  match oc with
  | None => cd = l
  | Some (RComment cm a b _) => cd ++ cm = l /\ a = n /\ b = n /\ starts_with [bang] cm = true
  | Some _ => False
  end.
Proof.
  unfold handle_inline_comment.
  destruct ((match q with None => true | Some _ => false end) && negb (mem_char bang l) && negb (mem_char dquote l)
            && negb (mem_char squote l)) eqn:FAST.
  - intros H. inversion H; subst. reflexivity.
  - set (quick := match q, find_char bang l with
                  | None, Some idx =>
                      if negb (mem_char dquote (firstn idx l)) && negb (mem_char squote (firstn idx l))
                      then Some (firstn idx l, RComment (skipn idx l) n n (negb (is_blank (firstn idx l)))) else None
                  | _, _ => None end).
    destruct quick as [[pre c]|] eqn:Q.
    + unfold quick in Q. destruct q as [x|]; [discriminate|].
      destruct (find_char bang l) as [idx|] eqn:F; [|discriminate].
      destruct (negb (mem_char dquote (firstn idx l)) && negb (mem_char squote (firstn idx l))); [|discriminate].
      inversion Q; subst. intros H. inversion H; subst.
      repeat split; [apply firstn_skipn|apply (find_char_nth bang l idx F)].
    + destruct (splitquote l q false) as [segs newq] eqn:SQ.
      change ((fix scan (ss : list qseg) (keep : text) {struct ss} : text * option text :=
                 match ss with
                 | [] => (keep, None)
                 | Quoted t :: r => scan r (keep ++ t)
                 | Plain t :: r =>
                     match find_char bang t with
                     | None => scan r (keep ++ t)
                     | Some j => (keep ++ firstn j t, Some (skipn j t ++ qflat r))
                     end
                 end) segs []) with (hscan segs []).
      pose proof (hscan_spec segs []) as HS. pose proof (splitquote_lossless l q) as LL. rewrite SQ in LL. cbn [fst] in LL.
      cbn [app] in HS. rewrite LL in HS. clear LL SQ.
      destruct (hscan segs []) as [keep [cm|]]; intros H; inversion H; subst.
      * destruct HS as [E S]. repeat split; assumption.
      * reflexivity.
Qed.

(* ... so the relation hicr of ReaderJoinG determines the physical line: it is the code part followed by the comment *)
Corollary hicr_line l q cd q' oc : hicr l q cd q' oc ->
  l = cd ++ match oc with Some c => c | None => [] end /\
  match oc with Some c => starts_with [bang] c = true | None => True end.
Proof.
  intros H. pose proof (hic_lossless l 0 q cd q' (cmt oc 0) (H 0)) as L. destruct oc as [c|]; cbn [cmt] in L.
  - destruct L as [E [_ [_ S]]]. split; [symmetry; exact E|exact S].
  - split; [now rewrite app_nil_r|exact I].
Qed.
