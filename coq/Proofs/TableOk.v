(* Decidable well-formedness of a generated grammar table, and its soundness: when the boolean
   computes to true (by vm_compute on the table regenerated from the live classes), every side
   condition the engine contracts need holds. *)
From Coq Require Import List Bool Arith NArith Lia.
From FV Require Import Scope Engine EngineContracts EngineShape.
Import ListNotations.

Definition is_leafb (T : table) (c : cls) : bool :=
  match c_kind (entry T c) with KLeaf => true | _ => false end.

Definition hook_okb (T : table) (b : bspec) : bool :=
  implb (b_do_hook b)
        (match b_start b with
         | Some stc => is_leafb T stc && c_has_start_label (entry T stc) | None => false end)
  && implb (b_labeldo_abort b)
           (match b_start b with
            | Some stc => is_leafb T stc && negb (c_scoping (entry T stc)) | None => false end).

Definition nostart_okb (b : bspec) : bool :=
  match b_start b with
  | None => negb (b_match_labels b) && negb (b_match_names b)
  | Some _ => true
  end.

Definition entry_okb (T : table) (ce : cls * centry) : bool :=
  match c_kind (snd ce) with
  | KBlock b => hook_okb T b && nostart_okb b
  | KMain0 b => hook_okb T b && nostart_okb b
  | _ => true
  end.

(* the three variant flags are selected by the translator's probes of the real methods *)
Definition table_ok (T : table) : bool :=
  t_shared_restores T && t_main0_guarded T && t_cleanup_all T
  && is_leafb T (t_include T) && forallb (is_leafb T) (t_cpp T)
  && forallb (entry_okb T) (t_entries T).

Lemma is_leafb_sound T c : is_leafb T c = true -> is_leaf T c.
Proof. unfold is_leafb, is_leaf. destruct (c_kind (entry T c)); congruence. Qed.

Lemma assoc_in c l : assoc c l = centry0 \/ exists k, In (k, assoc c l) l.
Proof.
  induction l as [|[k e] r IH]; cbn [assoc]; [now left|].
  destruct (N.eqb k c).
  - right. exists k. now left.
  - destruct IH as [IH|[k' IH]]; [now left|]. right. exists k'. now right.
Qed.

Lemma hook_okb_sound T b : hook_okb T b = true -> hook_ok T b.
Proof.
  unfold hook_okb, hook_ok. intros H. apply andb_true_iff in H as [H1 H2]. split; intros Hb; rewrite Hb in *;
    cbn [implb] in *.
  - destruct (b_start b) as [stc|]; [|discriminate]. apply andb_true_iff in H1 as [A B].
    exists stc. repeat split; auto using is_leafb_sound.
  - destruct (b_start b) as [stc|]; [|discriminate]. apply andb_true_iff in H2 as [A B].
    exists stc. repeat split; auto using is_leafb_sound. now apply negb_true_iff in B.
Qed.

Record TableSound (T : table) : Prop := {
  ts_restores : t_shared_restores T = true;
  ts_guard : t_main0_guarded T = true;
  ts_cleanup : t_cleanup_all T = true;
  ts_inc : is_leaf T (t_include T);
  ts_cpp : forall c, In c (t_cpp T) -> is_leaf T c;
  ts_hook : forall c b, (c_kind (entry T c) = KBlock b \/ c_kind (entry T c) = KMain0 b) -> hook_ok T b;
  ts_nostart : forall c b, (c_kind (entry T c) = KBlock b \/ c_kind (entry T c) = KMain0 b) -> nostart_ok b
}.

Lemma nostart_okb_sound b : nostart_okb b = true -> nostart_ok b.
Proof.
  unfold nostart_okb, nostart_ok. intros H E. rewrite E in H. apply andb_true_iff in H as [A B].
  split; now apply negb_true_iff.
Qed.

Theorem table_ok_sound T : table_ok T = true -> TableSound T.
Proof.
  unfold table_ok. intros H.
  repeat (apply andb_true_iff in H as [H ?]).
  constructor; auto using is_leafb_sound.
  - intros c Hc. apply is_leafb_sound. eapply forallb_forall in H1; eauto.
  - intros c b Hk. unfold entry in Hk.
    destruct (assoc_in c (t_entries T)) as [E|[k E]].
    + rewrite E in Hk. cbn in Hk. destruct Hk; discriminate.
    + eapply forallb_forall in H0; [|exact E]. unfold entry_okb in H0. cbn [snd] in H0.
      apply hook_okb_sound. destruct Hk as [Hk|Hk]; rewrite Hk in H0;
        apply andb_true_iff in H0 as [H0 _]; exact H0.
  - intros c b Hk. unfold entry in Hk.
    destruct (assoc_in c (t_entries T)) as [E|[k E]].
    + rewrite E in Hk. cbn in Hk. destruct Hk; discriminate.
    + eapply forallb_forall in H0; [|exact E]. unfold entry_okb in H0. cbn [snd] in H0.
      apply nostart_okb_sound. destruct Hk as [Hk|Hk]; rewrite Hk in H0;
        apply andb_true_iff in H0 as [_ H0]; exact H0.
Qed.

(* The engine contract for every table that passes the check and every leaf oracle. *)
Theorem engine_contract T (L : item -> cls -> list cls -> leafres) :
  table_ok T = true -> forall fuel, Contract T (new T L fuel).
Proof.
  intros H fuel. destruct (table_ok_sound T H).
  apply new_contract; assumption.
Qed.

(* K4 for every table that passes the check and every leaf oracle. *)
Theorem engine_shape T (L : item -> cls -> list cls -> leafres) :
  table_ok T = true -> forall fuel, ShapeC T (new T L fuel).
Proof.
  intros H. pose proof (engine_contract T L H) as HC. destruct (table_ok_sound T H).
  apply new_shape; assumption.
Qed.
