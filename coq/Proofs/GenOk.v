(* Per-run obligations on the tables regenerated from /repo: the decidable side conditions of the
   engine contracts, closed by computation (a finite computation over the generated table). *)
From Coq Require Import List Bool NArith.
From FV Require Import Scope Engine EngineContracts TableOk Table03 Table08.

Lemma table03_ok : table_ok Table03.tbl = true.
Proof. vm_compute. reflexivity. Qed.
Lemma table08_ok : table_ok Table08.tbl = true.
Proof. vm_compute. reflexivity. Qed.
