(* Extraction of the executable models for the correspondence checks (Leg C / Leg E).
   Directives used: ExtrOcamlBasic (bool, option, unit, list, prod, sumbool -> OCaml natives)
   and ExtrOcamlString (ascii -> char, string -> char list).  No Extract Constant.
   nat, N, positive stay the extracted inductive types. *)
From Coq Require Extraction ExtrOcamlBasic ExtrOcamlString.
From FV Require Import Scope Engine SplitLine Text Reader Detect Include One Expr ReplaceMap.
Extraction Language OCaml.
Cd "../ocaml/extracted".

Separate Extraction Engine.program_new Engine.est0 Engine.shape Engine.mkTable Engine.mkCentry
  Engine.mkBspec Engine.mkItem Engine.mkInfo Scope.depth Engine.yield
  SplitLine.splitquote SplitLine.splitparen Reader.read_source Reader.rst0 Reader.next_item Reader.put_item
  Text.extract_label Text.extract_construct_name Detect.detect_free Include.aread Include.mkArdr
  One.fill One.oshape One.flattens One.mkOItem One.mkOBlock
  Expr.parse Expr.std_spec Expr.render Expr.conforming Expr.defop_ok
  ReplaceMap.string_replace_map ReplaceMap.restore.
