! leading comment
module m
  use iso_c_binding, only: c_int
  implicit none
  integer, parameter :: n = 10
  type :: t
    integer :: a
    real :: b(3)
  end type t
contains
  subroutine s(x, y)
    real, intent(in) :: x
    real, intent(out) :: y
    integer :: i, j
    ! inner comment
    outer: do i = 1, n
      if (x > 0.0) then
        y = x * 2.0
      else if (x < -1.0) then
        y = -x
      else
        y = 0.0
      end if
      do 10 j = 1, 3
        y = y + 1.0
10    continue
    end do outer
    select case (i)
    case (1)
      y = 1.0
    case default
      y = 2.0
    end select
    where (arr > 0) arr = 0
  end subroutine s
  function f(a) result(r)
    integer :: a, r
    r = a + 1
  end function f
end module m
#ifdef FOO
program p
  use m
  real :: z
  !$omp parallel
  call s(1.0, z) ! trailing
  do 20 i=1,2
  do 20 j=1,2
20 z = z + 1
  print *, z
end program p
#endif
