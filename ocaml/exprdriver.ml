(* Line driver around the extracted expression model (coq/Model/Expr.v).
   input : one expression per line as blank-separated tokens  A<n> | D<n> | O<c>:<d>:<sp> | ( | )
           optionally preceded by "L <levels...>" lines?  (no: the chain is Expr.std_levels)
   output: N  (no match)  or the tree, fully bracketed:  A<n> | D<n> | [ e ] (retained parentheses)
           | { O e } (unary) | { e O e } (binary) *)
open Datatypes
open Expr

let rec nat_of_int n = if n <= 0 then O else S (nat_of_int (n - 1))
let rec int_of_nat = function O -> 0 | S n -> 1 + int_of_nat n
let opc_of_int = function 0 -> OPow | 1 -> OMul | 2 -> OAdd | 3 -> OCat | 4 -> ORel | 5 -> ONot | 6 -> OAnd | 7 -> OOr | 8 -> OEqv | _ -> ODef
let int_of_opc = function OPow -> 0 | OMul -> 1 | OAdd -> 2 | OCat -> 3 | ORel -> 4 | ONot -> 5 | OAnd -> 6 | OOr -> 7 | OEqv -> 8 | ODef -> 9
let split_ws s = Stdlib.List.filter (fun x -> x <> "") (String.split_on_char ' ' s)

let rec toks ws = match ws with
  | [] -> ([], [])
  | ")" :: r -> ([], r)
  | "(" :: r -> let (body, r1) = toks r in let (rest, r2) = toks r1 in (TPar body :: rest, r2)
  | w :: r ->
      let t = (match w.[0] with
        | 'A' -> TAtom (nat_of_int (int_of_string (String.sub w 1 (String.length w - 1))))
        | 'D' -> TDot (nat_of_int (int_of_string (String.sub w 1 (String.length w - 1))))
        | 'O' -> (match String.split_on_char ':' (String.sub w 1 (String.length w - 1)) with
                  | [c; d; s] -> TOp (opc_of_int (int_of_string c), d = "1", nat_of_int (int_of_string s))
                  | _ -> failwith "bad op")
        | _ -> failwith ("bad token " ^ w)) in
      let (rest, r2) = toks r in (t :: rest, r2)

let op c d s = Printf.sprintf "O%d:%d:%d" (int_of_opc c) (if d then 1 else 0) (int_of_nat s)
let rec show = function
  | EAtom n -> Printf.sprintf "A%d" (int_of_nat n)
  | EDot n -> Printf.sprintf "D%d" (int_of_nat n)
  | EPar e -> "[ " ^ show e ^ " ]"
  | EUn (c, d, s, e) -> "{ " ^ op c d s ^ " " ^ show e ^ " }"
  | EBin (c, d, s, l, r) -> "{ " ^ show l ^ " " ^ op c d s ^ " " ^ show r ^ " }"

let () =
  print_string "READY\n"; flush stdout;
  try
    while true do
      let line = input_line stdin in
      if line = "QUIT" then exit 0;
      let ws = split_ws line in
      let (ts, _) = toks ws in
      let fuel = nat_of_int (20 * (Stdlib.List.length ws) + 40) in
      (match parse std_spec fuel O ts with
       | Some e -> print_string (show e ^ "\n")
       | None -> print_string "N\n");
      flush stdout
    done
  with End_of_file -> ()
