(* Line-protocol driver around the extracted Gallina engine (coq/Model/Engine.v).
   usage: driver <table-file>      then cases on stdin; leaf-oracle queries go to stdout and
   their answers are read from stdin (the Python harness answers them with the real classes). *)
open Datatypes
open BinNums
open Engine

let rec nat_of_int n = if n <= 0 then O else S (nat_of_int (n - 1))
let rec int_of_nat = function O -> 0 | S n -> 1 + int_of_nat n
let rec pos_of_int n = if n <= 1 then Coq_xH else if n land 1 = 0 then Coq_xO (pos_of_int (n lsr 1)) else Coq_xI (pos_of_int (n lsr 1))
let n_of_int n = if n <= 0 then N0 else Npos (pos_of_int n)
let rec int_of_pos = function Coq_xH -> 1 | Coq_xO p -> 2 * int_of_pos p | Coq_xI p -> 2 * int_of_pos p + 1
let int_of_n = function N0 -> 0 | Npos p -> int_of_pos p

let split_ws s = Stdlib.List.filter (fun x -> x <> "") (String.split_on_char ' ' s)
let ints s = Stdlib.List.map int_of_string (split_ws s)
let nl s = Stdlib.List.map n_of_int (ints s)
let b x = x <> 0
let optn x = if x < 0 then None else Some (n_of_int x)
let fields s = Stdlib.List.map String.trim (String.split_on_char '|' s)

let read_table fn =
  let ic = open_in fn in
  let entries = ref [] in
  let tbl = ref None in
  let specials = ref None in
  let pending = ref "" in
  let cur = ref None in
  let finish () = match !cur with
    | Some (idx, k, (f1, f2, f3, f4), alts) ->
        entries := (n_of_int idx, { c_kind = k; c_alts = alts; c_scoping = f1; c_has_start_label = f2;
                                    c_has_end_label = f3; c_has_name = f4 }) :: !entries;
        cur := None
    | None -> () in
  (try
    while true do
      let line = input_line ic in
      if String.length line > 0 then begin
        let tag = line.[0] in
        let rest = String.sub line 1 (String.length line - 1) in
        match tag with
        | 'T' -> ()
        | 'C' ->
            finish ();
            (match fields rest with
             | [a; alts] ->
                 (match split_ws a with
                  | [idx; k; f1; f2; f3; f4] ->
                      let kind = (match k with
                        | "leaf" -> KLeaf | "alt" -> KAlt | "program" -> KProgram
                        | _ -> KAlt (* filled by the following B/S/P line *)) in
                      cur := Some (int_of_string idx, kind,
                                   (b (int_of_string f1), b (int_of_string f2), b (int_of_string f3), b (int_of_string f4)),
                                   nl alts);
                      pending := k
                  | _ -> failwith ("bad C line: " ^ line))
             | _ -> failwith ("bad C line: " ^ line))
        | 'B' ->
            (match fields rest with
             | [a; subs; endall; ncls] ->
                 (match ints a with
                  | [st; en; ml; mn; dh; ih; wh; so; sn; la] ->
                      let bs = { b_start = optn st; b_subs = nl subs; b_end = optn en; b_endall = nl endall;
                                 b_match_labels = b ml; b_match_names = b mn; b_name_classes = nl ncls;
                                 b_do_hook = b dh; b_if_hook = b ih; b_where_hook = b wh;
                                 b_strict_order = b so; b_strict_names = b sn; b_labeldo_abort = b la } in
                      (match !cur, !pending with
                       | Some (i, _, f, al), "block" -> cur := Some (i, KBlock bs, f, al)
                       | Some (i, _, f, al), "main0" -> cur := Some (i, KMain0 bs, f, al)
                       | _ -> failwith "B without block")
                  | _ -> failwith ("bad B line: " ^ line))
             | _ -> failwith ("bad B line: " ^ line))
        | 'S' -> (match !cur with Some (i, _, f, al) -> cur := Some (i, KSeq (nl rest), f, al) | None -> failwith "S")
        | 'P' -> (match !cur with Some (i, _, f, al) -> cur := Some (i, KLoop (n_of_int (int_of_string (String.trim rest))), f, al) | None -> failwith "P")
        | 'X' ->
            finish ();
            (match fields rest with
             | [a; cpp; ei; ee; me; ew; ed; se] -> specials := Some (ints a, nl cpp, nl ei, nl ee, nl me, nl ew, nl ed, nl se)
             | _ -> failwith "bad X line")
        | 'V' ->
            (match !specials, ints rest with
             | Some ([c; d; i; pu; m0; prog], cpp, ei, ee, me, ew, ed, se), [v1; v2; v3; v4] ->
                 tbl := Some ({ t_entries = Stdlib.List.rev !entries; t_comment = n_of_int c; t_directive = n_of_int d;
                                t_include = n_of_int i; t_program_unit = n_of_int pu; t_main0 = n_of_int m0;
                                t_cpp = cpp; t_elseif = ei; t_else_endif = ee; t_maskedelse = me;
                                t_else_endwhere = ew; t_enddo_continue = ed; t_stray_enddo = se; t_main_name = N0;
                                t_shared_restores = b v1; t_main0_guarded = b v2; t_cleanup_all = b v3;
                                t_exits = b v4 }, n_of_int prog)
             | _ -> failwith "bad V line")
        | _ -> failwith ("bad table line: " ^ line)
      end
    done
  with End_of_file -> close_in ic);
  match !tbl with Some t -> t | None -> failwith "no table"

let exn_name = function
  | ENoMatch -> "NoMatch" | ESyntax -> "Syntax" | EInternalSyntax -> "InternalSyntax"
  | EExit -> "Exit" | EOther -> "Other" | EFuel -> "Fuel"
let exn_of = function
  | "NoMatch" -> ENoMatch | "Syntax" -> ESyntax | "InternalSyntax" -> EInternalSyntax
  | "Exit" -> EExit | "Fuel" -> EFuel | _ -> EOther

let oracle it c pcls =
  Printf.printf "Q %d %d %s\n%!" (int_of_nat it.iid) (int_of_n c)
    (String.concat " " (Stdlib.List.map (fun x -> string_of_int (int_of_n x)) pcls));
  let ans = input_line stdin in
  match split_ws ans with
  | ["N"] -> LNo
  | ["R"; e] -> LRaise (exn_of e)
  | ["Y"; sl; el; sn; en; scope; un] ->
      let o x = optn (int_of_string x) in
      LYes { start_label = o sl; end_label = o el; start_name = o sn; end_name = o en;
             scope_name = n_of_int (int_of_string scope); unit_name = o un }
  | _ -> failwith ("bad oracle answer: " ^ ans)

let rec stab_str (Scope.STab (n, kids)) =
  string_of_int (int_of_n n) ^ "(" ^ String.concat "," (Stdlib.List.map stab_str kids) ^ ")"

let () =
  let (tbl, cprog) = read_table Sys.argv.(1) in
  print_string "READY\n"; flush stdout;
  (try
    while true do
      let line = input_line stdin in
      match split_ws line with
      | ["CASE"; pd; fuel; n] ->
          let n = int_of_string n in
          let items = ref [] in
          for _ = 1 to n do
            match split_ws (input_line stdin) with
            | ["I"; id; k; dir; blank; last] ->
                let kd = (match k with "L" -> IKLine | "C" -> IKComment | _ -> IKCpp) in
                items := { iid = nat_of_int (int_of_string id); ikd = kd; idir = b (int_of_string dir);
                           iblank = b (int_of_string blank); ilast = nat_of_int (int_of_string last) } :: !items
            | _ -> failwith "bad item line"
          done;
          let s0 = est0 (Stdlib.List.rev !items) (b (int_of_string pd)) in
          let (out, s1) = program_new tbl oracle (nat_of_int (int_of_string fuel)) cprog s0 in
          let (tag, line, sh) = (match out with
            | OTree t -> ("tree", 0, String.concat " " (Stdlib.List.map (fun x -> string_of_int (int_of_n x)) (shape t)))
            | ONone -> ("none", 0, "")
            | OSyntax l -> ("syntax", int_of_nat l, "")
            | OEscape e -> ("escape:" ^ exn_name e, 0, "")) in
          Printf.printf "RES %s %d %d %d %d %d %d | %s | %s\n%!" tag line (int_of_n s1.cost) (int_of_n s1.lcost)
            (int_of_nat (Scope.depth s1.sc)) (Stdlib.List.length s1.stream) (int_of_nat s1.maxread) sh
            (String.concat "," (Stdlib.List.map stab_str s1.sc.Scope.tops))
      | ["QUIT"] -> Stdlib.raise End_of_file
      | [] -> ()
      | _ -> failwith ("bad command: " ^ line)
    done
  with End_of_file -> ())
