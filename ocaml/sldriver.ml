(* Line-protocol driver for the extracted SplitLine model (and, later, the Reader model). *)
let hex_of_chars (l : char list) =
  String.concat "" (Stdlib.List.map (fun c -> Printf.sprintf "%02x" (Char.code c)) l)
let chars_of_hex (s : string) : char list =
  let n = String.length s / 2 in
  Stdlib.List.init n (fun i -> Char.chr (int_of_string ("0x" ^ String.sub s (2 * i) 2)))
let optq n = if n = 0 then None else Some (Char.chr n)
let qcode = function None -> 0 | Some c -> Char.code c

let () =
  try
    while true do
      let line = input_line stdin in
      match String.split_on_char ' ' line with
      | ["SQ"; stop; low; hx] ->
          let (segs, o) = SplitLine.splitquote (chars_of_hex hx) (optq (int_of_string stop)) (low = "1") in
          let f = function SplitLine.Plain t -> "P:" ^ hex_of_chars t | SplitLine.Quoted t -> "Q:" ^ hex_of_chars t in
          Printf.printf "%s ; %d\n%!" (String.concat "|" (Stdlib.List.map f segs)) (qcode o)
      | "RM" :: segs ->
          (* RM p<hex> g<hex> ... : the key bookkeeping of string_replace_map on plain / group segments;
             prints the key sequence and whether restoring gives the segments back *)
          let paren c = '(' :: (Stdlib.List.append c [')']) in
          let rec i_of_n = function Datatypes.O -> 0 | Datatypes.S k -> 1 + i_of_n k in
          let l = Stdlib.List.filter_map (fun w ->
            if String.length w = 0 then None
            else let body = chars_of_hex (String.sub w 1 (String.length w - 1)) in
              Some (if w.[0] = 'g' then ReplaceMap.SGroup body else ReplaceMap.SPlain body)) segs in
          let (o, m) = ReplaceMap.string_replace_map paren false l in
          let keys = Stdlib.List.filter_map (function ReplaceMap.RKey k -> Some (string_of_int (i_of_n k)) | _ -> None) o in
          let ok = (match ReplaceMap.restore m o with Some l2 -> l2 = l | None -> false) in
          Printf.printf "%s ; %d\n%!" (String.concat " " keys) (if ok then 1 else 0)
      | ["SP"; hx] ->
          let segs = SplitLine.splitparen (chars_of_hex hx) in
          let f = function SplitLine.Flat t -> "F:" ^ hex_of_chars t | SplitLine.Paren t -> "P:" ^ hex_of_chars t in
          Printf.printf "%s\n%!" (String.concat "|" (Stdlib.List.map f segs))
      | ["RD"; free; omp; ign; n] ->
          let n = int_of_string n in
          let lines = Stdlib.List.init n (fun _ -> chars_of_hex (input_line stdin)) in
          let items = Reader.read_source lines (free = "1") (omp = "1") (ign = "1") in
          let rec i_of_n = function Datatypes.O -> 0 | Datatypes.S k -> 1 + i_of_n k in
          let rec i_of_pos = function BinNums.Coq_xH -> 1 | BinNums.Coq_xO p -> 2 * i_of_pos p | BinNums.Coq_xI p -> 2 * i_of_pos p + 1 in
          let i_of_N = function BinNums.N0 -> 0 | BinNums.Npos p -> i_of_pos p in
          Stdlib.List.iter (fun it -> match it with
            | Reader.RLine (t, lab, nm, a, b) ->
                Printf.printf "L %d %d %d %s %s\n" (i_of_n a) (i_of_n b)
                  (match lab with None -> -1 | Some l -> i_of_N l)
                  (match nm with None -> "-" | Some x -> "n" ^ hex_of_chars x) (hex_of_chars t)
            | Reader.RComment (t, a, b, inl) ->
                Printf.printf "C %d %d %d x%s\n" (i_of_n a) (i_of_n b) (if inl then 1 else 0) (hex_of_chars t)
            | Reader.RCpp (t, a, b) -> Printf.printf "P %d %d %s\n" (i_of_n a) (i_of_n b) (hex_of_chars t)) items;
          Printf.printf "END\n%!"
      | "IN" :: nfiles :: main ->
          (* IN <nfiles> <main items...> ; then nfiles lines "<id> <items...>" ; items: s<n> or i<f> *)
          let rec nat_of_int n = if n <= 0 then Datatypes.O else Datatypes.S (nat_of_int (n - 1)) in
          let rec int_of_nat = function Datatypes.O -> 0 | Datatypes.S k -> 1 + int_of_nat k in
          let item s = if s.[0] = 's' then Include.AStmt (nat_of_int (int_of_string (String.sub s 1 (String.length s - 1))))
                       else Include.AInc (nat_of_int (int_of_string (String.sub s 1 (String.length s - 1)))) in
          let items l = Stdlib.List.map item (Stdlib.List.filter (fun x -> x <> "") l) in
          let files = Stdlib.List.init (int_of_string nfiles) (fun _ ->
            match String.split_on_char ' ' (input_line stdin) with
            | id :: its -> (int_of_string id, items its)
            | [] -> (-1, [])) in
          let fs f = Stdlib.List.assoc_opt (int_of_nat f) files in
          let out = Include.aread (nat_of_int 3000) fs [ { Include.a_fifo = []; Include.a_src = items main } ] in
          Printf.printf "%s\n%!" (String.concat " " (Stdlib.List.map (function
            | Include.AStmt n -> "s" ^ string_of_int (int_of_nat n)
            | Include.AInc f -> "i" ^ string_of_int (int_of_nat f)) out))
      | ["DT"; n] ->
          let n = int_of_string n in
          let lines = Stdlib.List.init n (fun _ -> chars_of_hex (input_line stdin)) in
          Printf.printf "%s\n%!" (if Detect.detect_free lines then "free" else "fixed")
      | ["LB"; hx] ->
          let (lab, rest) = Text.extract_label (chars_of_hex hx) in
          let (nm, rest2) = Text.extract_construct_name (chars_of_hex hx) in
          let rec i_of_pos = function BinNums.Coq_xH -> 1 | BinNums.Coq_xO p -> 2 * i_of_pos p | BinNums.Coq_xI p -> 2 * i_of_pos p + 1 in
          Printf.printf "%s %s | %s %s\n%!"
            (match lab with None -> "-" | Some BinNums.N0 -> "0" | Some (BinNums.Npos p) -> string_of_int (i_of_pos p))
            (hex_of_chars rest) (match nm with None -> "-" | Some x -> "n" ^ hex_of_chars x) (hex_of_chars rest2)
      | ["QUIT"] -> Stdlib.raise End_of_file
      | _ -> Printf.printf "ERR\n%!"
    done
  with End_of_file -> ()
