(* Line-protocol driver for the extracted SplitLine model (and, later, the Reader model). *)
let hex_of_chars (l : char list) =
  String.concat "" (Stdlib.List.map (fun c -> Printf.sprintf "%02x" (Char.code c)) l)
let chars_of_hex (s : string) : char list =
  let n = String.length s / 2 in
  Stdlib.List.init n (fun i -> Char.chr (int_of_string ("0x" ^ String.sub s (2 * i) 2)))
let optq n = if n = 0 then None else Some (Char.chr n)
let qcode = function None -> 0 | Some c -> Char.code c

let () =
  try
    while true do
      let line = input_line stdin in
      match String.split_on_char ' ' line with
      | ["SQ"; stop; low; hx] ->
          let (segs, o) = SplitLine.splitquote (chars_of_hex hx) (optq (int_of_string stop)) (low = "1") in
          let f = function SplitLine.Plain t -> "P:" ^ hex_of_chars t | SplitLine.Quoted t -> "Q:" ^ hex_of_chars t in
          Printf.printf "%s ; %d\n%!" (String.concat "|" (Stdlib.List.map f segs)) (qcode o)
      | ["SP"; hx] ->
          let segs = SplitLine.splitparen (chars_of_hex hx) in
          let f = function SplitLine.Flat t -> "F:" ^ hex_of_chars t | SplitLine.Paren t -> "P:" ^ hex_of_chars t in
          Printf.printf "%s\n%!" (String.concat "|" (Stdlib.List.map f segs))
      | ["QUIT"] -> Stdlib.raise End_of_file
      | _ -> Printf.printf "ERR\n%!"
    done
  with End_of_file -> ()
