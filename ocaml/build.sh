#!/bin/sh
# builds the extracted model + driver into ocaml/_build/driver
set -e
cd "$(dirname "$0")"
mkdir -p _build
cp extracted/*.ml extracted/*.mli driver.ml _build/
cd _build
MODS="Datatypes BinNums Nat PeanoNat BinPos BinNat List Scope Engine"
ALL=""
for m in $MODS; do if [ -f $m.ml ]; then ALL="$ALL $m.mli $m.ml"; fi; done
ocamlfind ocamlopt -w -a -o driver $ALL driver.ml
