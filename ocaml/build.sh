#!/bin/sh
# builds the extracted models + drivers into ocaml/_build/{driver,sldriver}
set -e
cd "$(dirname "$0")"
mkdir -p _build
cp extracted/*.ml extracted/*.mli driver.ml sldriver.ml onedriver.ml exprdriver.ml _build/
cd _build
MODS="Datatypes Bool BinNums Nat PeanoNat BinPos BinNat Ascii String List Scope Engine SplitLine Text Reader Detect Include One Expr ReplaceMap"
ALL=""
for m in $MODS; do if [ -f $m.ml ]; then ALL="$ALL $m.mli $m.ml"; fi; done
ocamlfind ocamlopt -w -a -o driver $ALL driver.ml
ocamlfind ocamlopt -w -a -o sldriver $ALL sldriver.ml
ocamlfind ocamlopt -w -a -o onedriver $ALL onedriver.ml
ocamlfind ocamlopt -w -a -o exprdriver $ALL exprdriver.ml
