(* Line-protocol driver around the extracted model of the fparser1 block matcher (coq/Model/One.v).
   CASE <dup_shared> <n>, then n lines "I <id> <label or -1>"; the model asks
     "E <bstart> <id>"  -> answer "0" | "1"
     "C <bstart> <id>"  -> answer "N" | "S <cls> <ignore>" | "B <cls> <isdo> <endlabel or -1>"
   and finally prints "RES ok|error|fuel <ended> <rest> | d c id d c id ..." *)
open Datatypes
open BinNums
open One

let rec nat_of_int n = if n <= 0 then O else S (nat_of_int (n - 1))
let rec int_of_nat = function O -> 0 | S n -> 1 + int_of_nat n
let rec pos_of_int n = if n <= 1 then Coq_xH else if n land 1 = 0 then Coq_xO (pos_of_int (n lsr 1)) else Coq_xI (pos_of_int (n lsr 1))
let n_of_int n = if n <= 0 then N0 else Npos (pos_of_int n)
let rec int_of_pos = function Coq_xH -> 1 | Coq_xO p -> 2 * int_of_pos p | Coq_xI p -> 2 * int_of_pos p + 1
let int_of_n = function N0 -> 0 | Npos p -> int_of_pos p
let split_ws s = Stdlib.List.filter (fun x -> x <> "") (String.split_on_char ' ' s)
let optn x = if x < 0 then None else Some (n_of_int x)

let is_end b i =
  Printf.printf "E %d %d\n%!" (int_of_nat b.bstart) (int_of_nat i.oid);
  String.trim (input_line stdin) = "1"

let classify b i =
  Printf.printf "C %d %d\n%!" (int_of_nat b.bstart) (int_of_nat i.oid);
  match split_ws (input_line stdin) with
  | ["N"] -> CNone
  | ["S"; c; ig] -> CStmt (nat_of_int (int_of_string c), ig = "1")
  | ["B"; c; d; el] -> CBegin (nat_of_int (int_of_string c), d = "1", optn (int_of_string el))
  | _ -> failwith "bad answer"

let () =
  print_string "READY\n"; flush stdout;
  try
    while true do
      let line = input_line stdin in
      match split_ws line with
      | ["QUIT"] -> exit 0
      | ["CASE"; dup; n] ->
          let n = int_of_string n in
          let items = ref [] in
          for _ = 1 to n do
            match split_ws (input_line stdin) with
            | ["I"; id; lab] -> items := { oid = nat_of_int (int_of_string id); olabel = optn (int_of_string lab) } :: !items
            | _ -> failwith "bad item"
          done;
          let items = Stdlib.List.rev !items in
          let top = { bstart = nat_of_int n; bdo = false; bendlabel = None } in
          let r = fill is_end classify (dup = "1") (nat_of_int (4 * n + 10)) None top [] items in
          (match r with
           | OOk (content, ended, rest) ->
               let sh = Stdlib.List.concat (Stdlib.List.map (fun k -> oshape O k) content) in
               let txt = String.concat " " (Stdlib.List.map (fun ((d, c), i) ->
                   Printf.sprintf "%d %d %d" (int_of_nat d) (int_of_nat c) (int_of_nat i)) sh) in
               Printf.printf "RES ok %d %d | %s\n%!" (if ended then 1 else 0) (Stdlib.List.length rest) txt
           | OError i -> Printf.printf "RES error %d 0 |\n%!" (int_of_nat i.oid)
           | OFuel -> Printf.printf "RES fuel 0 0 |\n%!")
      | _ -> ()
    done
  with End_of_file -> ()
