"""Process pool used by Legs C and E (fork; every worker has its own fparser state and, where
needed, its own OCaml model drivers)."""
import multiprocessing as mp
import os
import signal
import traceback

NPROC = int(os.environ.get("VERIF_NPROC", "14"))


class Timeout(Exception):
    pass


def _alarm(signum, frame):
    raise Timeout()


def with_timeout(fn, arg, seconds):
    signal.signal(signal.SIGALRM, _alarm)
    signal.alarm(seconds)
    try:
        return fn(arg)
    finally:
        signal.alarm(0)


def _wrap(packed):
    fn, arg = packed
    try:
        return ("ok", fn(arg))
    except BaseException as e:  # noqa
        return ("harness-error", "%s: %s\n%s" % (type(e).__name__, e, traceback.format_exc()[-1500:]))


def pmap(fn, args, nproc=None, chunksize=4):
    """Order-preserving parallel map; exceptions in the harness itself are returned, not lost."""
    args = list(args)
    if not args:
        return []
    n = min(nproc or NPROC, len(args))
    if n <= 1:
        return [_wrap((fn, a)) for a in args]
    ctx = mp.get_context("fork")
    with ctx.Pool(n) as p:
        return p.map(_wrap, [(fn, a) for a in args], chunksize=chunksize)
