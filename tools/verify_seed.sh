#!/bin/sh
# usage: verify_seed.sh Cxx k   -- confirms a sub-agent's seeded change in its scratch worktree and
# stores it under /verif/seeded/Cxx-k/ (patch.diff, demo.py, NOTE.md, meta.json)
set -u
PID="$1"; K="$2"; WT="/tmp/seed_$PID"
cd "$WT" || exit 2
[ -f "patch$K.diff" ] || { echo "no patch$K.diff"; exit 2; }
git checkout -q -- src
git apply --check "patch$K.diff" || { echo "patch does not apply"; exit 2; }
PYTHONPATH="$WT/src" /venv/bin/python "demo$K.py" >/tmp/vs_${PID}_${K}.clean 2>&1; CLEAN_RC=$?
git apply "patch$K.diff"
SUITE=$(PYTHONPATH="$WT/src" /venv/bin/python -m pytest -q -p no:cacheprovider --timeout=900 -n 6 2>&1 | tail -1)
PYTHONPATH="$WT/src" /venv/bin/python "demo$K.py" >/tmp/vs_${PID}_${K}.mut 2>&1; MUT_RC=$?
git checkout -q -- src
echo "$PID-$K: clean demo rc=$CLEAN_RC, mutated demo rc=$MUT_RC, suite: $SUITE"
OK=0
case "$SUITE" in *"2939 passed, 24 xfailed, 1 xpassed"*) ;; *) OK=1;; esac
[ "$CLEAN_RC" = 0 ] || OK=1
[ "$MUT_RC" = 1 ] || OK=1
if [ $OK = 0 ]; then
  D="/verif/seeded/$PID-$K"; mkdir -p "$D"
  cp "patch$K.diff" "$D/patch.diff"; cp "demo$K.py" "$D/demo.py"; cp "NOTE$K.md" "$D/NOTE.md" 2>/dev/null
  FILES=$(grep '^+++ b/' "patch$K.diff" | sed 's#+++ b/##' | tr '\n' ' ')
  cat > "$D/meta.json" <<EOM
{"property": "$PID", "seed": "$PID-$K", "files_changed": "$FILES",
 "needs_to_manifest": "see NOTE.md (written by the sub-agent that produced the change)",
 "confirmed": {"worktree": "$WT", "suite_with_change": "$SUITE", "demo_clean_rc": $CLEAN_RC, "demo_mutated_rc": $MUT_RC,
               "commands": ["git apply patch.diff", "pytest -q -p no:cacheprovider --timeout=900 -n 6", "python demo.py"]}}
EOM
  echo "  kept as $D"
else
  echo "  NOT kept"
fi
