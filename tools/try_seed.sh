#!/bin/sh
# usage: try_seed.sh <patch.diff> <PID> [tier]   -- applies the patch to /repo, runs the check, undoes the patch
set -u
P="$1"; PID="$2"; TIER="${3:-quick}"
cd /repo || exit 2
git apply --check "$P" || { echo "patch does not apply"; exit 2; }
git apply "$P"
/venv/bin/python /verif/tools/check.py "$PID" --tier "$TIER" 2>&1 | grep -v conda | grep -v "^KNOWN-FINDING" | tail -8
RC=$?
git -C /repo checkout -- . 
git -C /repo status --short | head -3
