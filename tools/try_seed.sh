#!/bin/sh
# usage: try_seed.sh <patch.diff> <PID> [tier]   -- applies the patch to /repo, runs the check, undoes the patch.
# The evidence file and the replays written by that run are not kept (they describe a mutated tree).
set -u
P="$1"; PID="$2"; TIER="${3:-quick}"
cd /repo || exit 2
git apply --check "$P" || { echo "patch does not apply"; exit 2; }
EV=/verif/evidence/$PID.json
[ -f "$EV" ] && cp "$EV" "$EV.keep"
git apply "$P"
/venv/bin/python /verif/tools/check.py "$PID" --tier "$TIER" 2>&1 | grep -v conda | grep -v "^KNOWN-FINDING" | tail -8
git -C /repo checkout -- .
git -C /repo status --short | head -3
[ -f "$EV.keep" ] && mv "$EV.keep" "$EV"
# regenerate coq/Gen from the restored tree so that the next build starts from the unchanged source
cd /verif && PYTHONHASHSEED=0 PYTHONPATH=/repo/src /venv/bin/python tools/translate_all.py > /dev/null 2>&1
