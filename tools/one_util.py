"""Helpers around the legacy parser (fparser1) for C19."""
import logging
import re

logging.disable(logging.CRITICAL)

from fparser.api import parse as parse1                      # noqa: E402
from fparser.common.base_classes import BeginStatement, EndStatement, Statement   # noqa: E402
from fparser.common.readfortran import Line, Comment       # noqa: E402


def body_lines(text):
    """statement lines of regenerated source: no header comment, indentation and blanks after a label dropped"""
    out = []
    for l in text.split("\n"):
        s = l.strip()
        if not s or re.match(r"^[!C]\s*BEGINSOURCE\b", s):
            continue
        m = re.match(r"^(\d+)\s+(.*)$", s)
        if m:
            s = m.group(1) + " " + m.group(2)
        out.append(s)
    return out


def join_fixed(text):
    """join fixed-form continuation lines of regenerated source"""
    out = []
    for l in text.split("\n"):
        if len(l) > 5 and l[:5] == "     " and l[5] not in " 0" and out:
            out[-1] += l[6:]
        else:
            out.append(l)
    return "\n".join(out)


def structure(tree):
    """nesting structure: list of (depth, class name, squeezed statement text)"""
    out = []

    def rec(b, d):
        for c in b.content:
            if isinstance(c, BeginStatement):
                out.append((d, type(c).__name__, first_line(c)))
                if type(c).__name__ == "If":
                    continue
                rec(c, d + 1)
            elif isinstance(c, Statement):
                out.append((d, type(c).__name__, squeeze(str(c))))
            else:
                out.append((d, "UNPARSED:" + type(c).__name__, squeeze(getattr(c, "line", str(c)))))
    rec(tree, 0)
    return out


def first_line(b):
    return squeeze(b.tofortran().split("\n")[0])


def squeeze(s):
    return tokens(s)


TOKEN = re.compile(r"""'(?:[^']|'')*'|"(?:[^"]|"")*"|[A-Za-z_][A-Za-z0-9_]*|\d+\.?\d*(?:[eEdD][+-]?\d+)?|\.\d+(?:[eEdD][+-]?\d+)?|\*\*|//|==|/=|<=|>=|=>|::|\S""")


def tokens(s):
    """case-insensitive (outside literals), blank-insensitive token string"""
    out = []
    for t in TOKEN.findall(s):
        out.append(t if t[0] in "'\"" else t.lower())
    return " ".join(out)


def unparsed(tree):
    return [x for x in structure(tree) if x[1].startswith("UNPARSED")]


def squash(s):
    """blank-free, case-insensitive outside literals"""
    return tokens(s).replace(" ", "") if False else "".join(t if t[0] in "'\"" else t.lower() for t in TOKEN.findall(s))


def expr_chunks(text):
    """the expression texts of a statement: top-level parenthesised groups and the right-hand side of an assignment"""
    out = []
    depth = 0
    start = None
    q = None
    eq = None
    for i, ch in enumerate(text):
        if q:
            if ch == q:
                q = None
            continue
        if ch in "'\"":
            q = ch
        elif ch == "(":
            if depth == 0:
                start = i
            depth += 1
        elif ch == ")":
            depth -= 1
            if depth == 0 and start is not None and text[start + 1:i].strip():
                out.append(text[start:i + 1])
        elif ch == "=" and depth == 0 and eq is None and text[i:i + 2] != "==" and text[i - 1:i] not in "<>/=":
            eq = i
    if eq is not None:
        out.append(text[eq + 1:])
    return [squash(c) for c in out]
