"""Generator for the Fortran 77/90 subset used with the legacy parser (fparser1), property C19.

A program is a list of Stmt(depth, text, label, name, feat); depth gives the block nesting (ground truth for
the block structure), text is the statement without label / construct name."""
import random


class S:
    __slots__ = ("depth", "text", "label", "name", "feat", "opens", "closes")

    def __init__(self, depth, text, label=None, name=None, feat="", opens=False, closes=False):
        self.depth, self.text, self.label, self.name, self.feat = depth, text, label, name, feat
        self.opens, self.closes = opens, closes

    def free(self):
        lab = "%d " % self.label if self.label is not None else ""
        nm = "%s: " % self.name if self.name else ""
        return lab + "  " * self.depth + nm + self.text

    def fixed(self):
        lab = ("%-5s" % (self.label if self.label is not None else ""))[:5]
        nm = "%s: " % self.name if self.name else ""
        body = " " * self.depth + nm + self.text
        out = [lab + " " + body[:66]]
        rest = body[66:]
        while rest:
            out.append("     &" + rest[:66])
            rest = rest[66:]
        return "\n".join(out)


SCAL = ["x", "y", "z", "t1", "t2"]
INTS = ["i", "j", "k", "n", "m"]
ARRS = ["a", "b", "c"]
LOGS = ["flag", "done"]


class G:
    def __init__(self, seed, feats=None, long_expr=True):
        self.rng = random.Random(seed)
        self.out = []
        self.label = 100
        self.nname = 0
        self.feats = feats
        self.long_expr = long_expr
        self.used = set()

    # ---- expressions
    def iexpr(self, d=0):
        r = self.rng
        c = r.random()
        if d > 2 or c < 0.4:
            return r.choice(INTS + ["1", "2", "3", "10"])
        if c < 0.6:
            return "%s %s %s" % (self.iexpr(d + 1), r.choice(["+", "-", "*"]), self.iexpr(d + 1))
        if c < 0.75:
            return "(%s %s %s)" % (self.iexpr(d + 1), r.choice(["+", "-", "*", "/"]), self.iexpr(d + 1))
        if c < 0.85:
            return "mod(%s, %s)" % (self.iexpr(d + 1), r.choice(["2", "3", "n"]))
        return "%s(%s)" % (r.choice(["iv"]), self.iexpr(d + 1))

    def rexpr(self, d=0):
        r = self.rng
        c = r.random()
        if d > 2 or c < 0.3:
            return r.choice(SCAL + ["1.0", "2.5e-3", "0.5d0", "3.14", "1.e+4"])
        if c < 0.5:
            return "%s %s %s" % (self.rexpr(d + 1), r.choice(["+", "-", "*", "/"]), self.rexpr(d + 1))
        if c < 0.6:
            return "(%s) ** %s" % (self.rexpr(d + 1), r.choice(["2", "n", "0.5"]))
        if c < 0.72:
            return "%s(%s)" % (r.choice(ARRS), self.iexpr(d + 1))
        if c < 0.8:
            return "b2(%s, %s)" % (self.iexpr(d + 1), self.iexpr(d + 1))
        if c < 0.9:
            return "%s(%s)" % (r.choice(["sin", "sqrt", "abs", "func"]), self.rexpr(d + 1))
        return "(%s)" % self.rexpr(d + 1)

    def lexpr(self, d=0):
        r = self.rng
        c = r.random()
        if d > 1 or c < 0.5:
            return "%s %s %s" % (self.rexpr(1), r.choice([">", "<", ".gt.", ".le.", "==", "/=", ".eq.", ">="]),
                                 self.rexpr(1))
        if c < 0.65:
            return r.choice(LOGS + [".true.", ".false."])
        if c < 0.85:
            return "%s %s %s" % (self.lexpr(d + 1), r.choice([".and.", ".or."]), self.lexpr(d + 1))
        return ".not. (%s)" % self.lexpr(d + 1)

    def longsum(self):
        n = self.rng.randrange(10, 14)
        return " + ".join("%s(%s)" % (self.rng.choice(ARRS), self.iexpr(1)) for _ in range(n))

    def strlit(self):
        return self.rng.choice(["'text'", "'it''s'", "\"dq\"", "'a ! b'", "'x; y'", "'(1)'", "'&'"])

    def io_items(self):
        r = self.rng
        pool = [r.choice(SCAL), "%s(%s)" % (r.choice(ARRS), self.iexpr(1)), "b2(%s, %s)" % (self.iexpr(1), self.iexpr(1)),
                "(%s(k), k = 1, %s)" % (r.choice(ARRS), self.iexpr(1)), "((b2(i, j), i = 1, 3), j = 1, n)",
                "rec%%fld(%s)" % self.iexpr(1), "str(%s:%s)" % (self.iexpr(2), self.iexpr(2))]
        return ", ".join(r.choice(pool) for _ in range(r.randrange(1, 4)))

    # ---- helpers
    def lab(self):
        """a fresh statement label of 1 to 5 digits (the width matters to the printer: it is padded against the
        indentation of the statement)"""
        self.label += 10
        used = self.__dict__.setdefault("used_labels", {999})
        w = self.rng.choice([1, 2, 2, 3, 3, 3, 4, 4, 5])
        for _ in range(20):
            v = self.rng.randrange(10 ** (w - 1), 10 ** w) if w > 1 else self.rng.randrange(1, 10)
            if v not in used:
                used.add(v)
                return v
        while self.label in used:
            self.label += 10
        used.add(self.label)
        return self.label

    def cname(self):
        self.nname += 1
        return "nm%d" % self.nname

    def emit(self, depth, text, label=None, name=None, feat="", **kw):
        self.out.append(S(depth, text, label, name, feat, **kw))
        if feat:
            self.used.add(feat)

    def ok(self, feat):
        return self.feats is None or feat in self.feats

    # ---- statements
    def simple(self, depth, label=None):
        r = self.rng
        kinds = ["assign", "assign", "assign_arr", "call", "print", "write", "if_stmt", "continue", "goto", "read",
                 "assign_long", "where_stmt", "allocate", "open_close", "assign_log", "assign_char", "return", "stop",
                 "data_like", "forall_stmt", "pointer_assign", "nullify", "arith_if", "computed_goto", "rewind",
                 "inquire", "comp_assign", "char_substr", "assign_neg", "write_implied", "call_kw", "pause", "flush_wait",
                 "read_forms", "write_forms", "cycle_exit_named", "stop_code", "entry_like"]
        for _ in range(20):
            k = r.choice(kinds)
            if self.ok(k):
                break
        else:
            k = "assign"
        if k == "assign":
            self.emit(depth, "%s = %s" % (r.choice(SCAL), self.rexpr()), label, feat=k)
        elif k == "assign_arr":
            self.emit(depth, "%s(%s) = %s" % (r.choice(ARRS), self.iexpr(), self.rexpr()), label, feat=k)
        elif k == "assign_long":
            self.emit(depth, "%s = %s" % (r.choice(SCAL), self.longsum() if self.long_expr else self.rexpr()), label, feat=k)
        elif k == "assign_log":
            self.emit(depth, "%s = %s" % (r.choice(LOGS), self.lexpr()), label, feat=k)
        elif k == "assign_char":
            self.emit(depth, "str = %s // %s" % (self.strlit(), r.choice(["str", "'z'"])), label, feat=k)
        elif k == "call":
            args = ", ".join(r.choice([self.rexpr(1), self.iexpr(1), r.choice(ARRS)]) for _ in range(r.randrange(0, 4)))
            self.emit(depth, "call %s(%s)" % (r.choice(["sub1", "sub2"]), args) if args or r.random() < 0.5
                      else "call sub3", label, feat=k)
        elif k == "print":
            self.emit(depth, "print *, %s, %s" % (self.strlit(), self.io_items()), label, feat=k)
        elif k == "write":
            self.emit(depth, r.choice(["write (*, *) %s, %s", "write (6, 900) %s, %s", "write (unit=6, fmt=*) %s, %s"])
                      % (self.rexpr(1), self.io_items()), label, feat=k)
        elif k == "read":
            self.emit(depth, r.choice(["read (*, *) %s", "read (5, 900) %s"]) % self.io_items(), label, feat=k)
        elif k == "if_stmt":
            self.emit(depth, "if (%s) %s = %s" % (self.lexpr(), r.choice(SCAL), self.rexpr(1)), label, feat=k)
        elif k == "continue":
            self.emit(depth, "continue", label, feat=k)
        elif k == "goto":
            self.emit(depth, "go to 999" if r.random() < 0.5 else "goto 999", label, feat=k)
        elif k == "where_stmt":
            self.emit(depth, "where (%s > 0.0) %s = %s" % (r.choice(ARRS), r.choice(ARRS), self.rexpr(1)), label, feat=k)
        elif k == "allocate":
            self.emit(depth, "allocate (w(%s), stat=ierr)" % self.iexpr(1), label, feat=k)
            self.emit(depth, "deallocate (w)", feat=k)
        elif k == "open_close":
            self.emit(depth, "open (unit=10, file=%s, status='old')" % self.strlit(), label, feat=k)
            self.emit(depth, "close (10)", feat=k)
        elif k == "return":
            self.emit(depth, "if (%s) return" % self.lexpr(1), label, feat=k)
        elif k == "stop":
            self.emit(depth, "if (%s) stop" % self.lexpr(1), label, feat=k)
        elif k == "forall_stmt":
            self.emit(depth, "forall (i = 1:%s, a(i) > 0.0) b(i) = %s + 1.0" % (r.choice(INTS + ["10"]), self.rexpr(1)), label, feat=k)
        elif k == "pointer_assign":
            self.emit(depth, "ptr => tgt(%s:%s)" % (self.iexpr(1), self.iexpr(1)), label, feat=k)
        elif k == "nullify":
            self.emit(depth, "nullify (ptr)", label, feat=k)
        elif k == "arith_if":
            self.emit(depth, "if (%s) 999, 999, 999" % self.rexpr(1), label, feat=k)
        elif k == "computed_goto":
            self.emit(depth, "go to (999, 999) %s" % r.choice(INTS), label, feat=k)
        elif k == "rewind":
            self.emit(depth, r.choice(["rewind (10)", "backspace 10", "endfile (unit=10)", "rewind 10"]), label, feat=k)
        elif k == "inquire":
            self.emit(depth, "inquire (file=%s, exist=flag)" % self.strlit(), label, feat=k)
        elif k == "comp_assign":
            self.emit(depth, "rec%%fld(%s) = rec%%val * %s" % (self.iexpr(1), self.rexpr(1)), label, feat=k)
        elif k == "char_substr":
            self.emit(depth, "str(%s:%s) = %s" % (self.iexpr(2), self.iexpr(2), self.strlit()), label, feat=k)
        elif k == "assign_neg":
            self.emit(depth, "%s = -%s ** 2 + (-(%s))" % (r.choice(SCAL), r.choice(SCAL), self.rexpr(1)), label, feat=k)
        elif k == "write_implied":
            self.emit(depth, "write (*, *) (a(i), i = 1, %s)" % self.iexpr(1), label, feat=k)
        elif k == "call_kw":
            self.emit(depth, "call sub2(p=%s, q=%s)" % (self.rexpr(1), self.rexpr(1)), label, feat=k)
        elif k == "pause":
            self.emit(depth, r.choice(["pause", "pause 7", "pause 'msg'"]), label, feat=k)
        elif k == "flush_wait":
            self.emit(depth, r.choice(["flush (10)", "flush 10", "wait (10)", "wait (unit=10, iostat=ierr)"]), label, feat=k)
        elif k == "assign_goto":
            self.emit(depth, "assign 999 to k", label, feat=k)
            self.emit(depth, r.choice(["goto k", "go to k, (999)", "goto k (999, 999)"]), feat=k)
        elif k == "read_forms":
            self.emit(depth, r.choice(["read *, %s", "read 900, %s", "read (unit=5, fmt=*, iostat=ierr) %s",
                                       "read (5, '(f8.3)', end=999, err=999) %s"]) % self.io_items(), label, feat=k)
        elif k == "write_forms":
            self.emit(depth, r.choice(["write (6, '(a, i3)') %s, %s", "write (unit=6, fmt=900, iostat=ierr) %s, %s",
                                       "print 900, %s, %s", "print '(a)', %s, %s"]) % (self.strlit(), self.iexpr(1)),
                      label, feat=k)
        elif k == "stop_code":
            self.emit(depth, "if (%s) stop %s" % (self.lexpr(1), r.choice(["1", "'bad'", "77"])), label, feat=k)
        elif k == "cycle_exit_named":
            self.emit(depth, "continue", label, feat=k)
        elif k == "entry_like":
            self.emit(depth, "%s = %s" % (r.choice(SCAL), "func(%s, %s)" % (self.rexpr(1), self.iexpr(1))), label, feat=k)
        elif k == "data_like":
            self.emit(depth, "%s = (/ 1.0, 2.0, %s /)" % ("c", self.rexpr(2)), label, feat=k)

    def block(self, depth, budget, in_do=False):
        """a list of executable constructs"""
        r = self.rng
        n = r.randrange(1, 4)
        for _ in range(n):
            c = r.random()
            if budget <= 0 or c < 0.45:
                self.simple(depth)
                continue
            kinds = ["if_then", "if_else", "do_block", "do_label_continue", "do_label_action", "do_shared",
                     "do_while", "select", "where_construct", "named_do", "named_if", "do_label_enddo", "exit_cycle",
                     "forall_construct", "do_comma", "select_named", "do_forever", "named_else", "associate",
                     "select_type"]
            for _ in range(20):
                k = r.choice(kinds)
                if self.ok(k):
                    break
            else:
                self.simple(depth)
                continue
            b = budget - 1
            if k in ("if_then", "named_if"):
                nm = self.cname() if k == "named_if" else None
                self.emit(depth, "if (%s) then" % self.lexpr(), name=nm, feat=k, opens=True)
                self.block(depth + 1, b, in_do)
                self.emit(depth, "end if" + (" " + nm if nm else ""), feat=k, closes=True)
            elif k == "if_else":
                self.emit(depth, "if (%s) then" % self.lexpr(), feat=k, opens=True)
                self.block(depth + 1, b, in_do)
                if r.random() < 0.6:
                    self.emit(depth + 1, "else if (%s) then" % self.lexpr(), feat=k)
                    self.out[-1].depth = depth + 1
                    self.block(depth + 1, b, in_do)
                self.emit(depth + 1, "else", feat=k)
                self.block(depth + 1, b, in_do)
                self.emit(depth, r.choice(["end if", "endif"]), feat=k, closes=True)
            elif k in ("do_block", "named_do"):
                nm = self.cname() if k == "named_do" else None
                self.emit(depth, "do %s = 1, %s" % (r.choice(INTS), self.iexpr(1)) + (", 2" if r.random() < 0.2 else ""),
                          name=nm, feat=k, opens=True)
                self.block(depth + 1, b, True)
                self.emit(depth, r.choice(["end do", "enddo"]) + (" " + nm if nm else "") if not nm else "end do " + nm,
                          feat=k, closes=True)
            elif k == "do_while":
                self.emit(depth, "do while (%s)" % self.lexpr(), feat=k, opens=True)
                self.block(depth + 1, b, True)
                self.emit(depth, "end do", feat=k, closes=True)
            elif k == "exit_cycle":
                self.emit(depth, "do %s = 1, 10" % r.choice(INTS), feat=k, opens=True)
                self.emit(depth + 1, "if (%s) %s" % (self.lexpr(1), r.choice(["exit", "cycle"])), feat=k)
                self.block(depth + 1, b, True)
                self.emit(depth, "end do", feat=k, closes=True)
            elif k == "do_label_continue":
                lb = self.lab()
                self.emit(depth, "do %d %s = 1, %s" % (lb, r.choice(INTS), self.iexpr(1)), feat=k, opens=True)
                self.block(depth + 1, b, True)
                self.emit(depth + 1, "continue", lb, feat=k, closes=True)
            elif k == "do_label_enddo":
                lb = self.lab()
                self.emit(depth, "do %d %s = 1, %s" % (lb, r.choice(INTS), self.iexpr(1)), feat=k, opens=True)
                self.block(depth + 1, b, True)
                self.emit(depth, "end do", lb, feat=k, closes=True)
            elif k == "do_label_action":
                lb = self.lab()
                self.emit(depth, "do %d %s = 1, %s" % (lb, r.choice(INTS), self.iexpr(1)), feat=k, opens=True)
                self.block(depth + 1, b, True)
                self.emit(depth + 1, "%s(%s) = %s" % (r.choice(ARRS), r.choice(INTS), self.rexpr(1)), lb, feat=k,
                          closes=True)
            elif k == "do_shared":
                lb = self.lab()
                nest = r.randrange(2, 4)
                for q in range(nest):
                    self.emit(depth + q, "do %d %s = 1, %s" % (lb, INTS[q], self.iexpr(1)), feat=k, opens=True)
                self.block(depth + nest, b, True)
                if r.random() < 0.5:
                    self.emit(depth + 1, "continue", lb, feat=k, closes=True)
                else:
                    self.emit(depth + 1, "b2(i, j) = %s" % self.rexpr(1), lb, feat=k, closes=True)
                self.out[-1].closes = nest
            elif k == "select":
                self.emit(depth, "select case (%s)" % self.iexpr(1), feat=k, opens=True)
                for q in range(r.randrange(1, 4)):
                    self.emit(depth + 1, "case (%s)" % r.choice(["1", "2, 3", "4:6", ":0"]), feat=k)
                    self.block(depth + 1, b, in_do)
                if r.random() < 0.6:
                    self.emit(depth + 1, "case default", feat=k)
                    self.block(depth + 1, b, in_do)
                self.emit(depth, "end select", feat=k, closes=True)
            elif k == "associate":
                self.emit(depth, "associate (zz9 => %s, yy9 => a(%s))" % (self.rexpr(1), self.iexpr(1)), feat=k, opens=True)
                self.block(depth + 1, b, in_do)
                self.emit(depth, "end associate", feat=k, closes=True)
            elif k == "select_type":
                self.emit(depth, "select type (cobj)", feat=k, opens=True)
                self.emit(depth + 1, "type is (rtype)", feat=k)
                self.block(depth + 1, b, in_do)
                self.emit(depth + 1, "class is (rtype)", feat=k)
                self.block(depth + 1, b, in_do)
                self.emit(depth + 1, "class default", feat=k)
                self.block(depth + 1, b, in_do)
                self.emit(depth, "end select", feat=k, closes=True)
            elif k == "forall_construct":
                self.emit(depth, "forall (i = 1:%s)" % self.iexpr(1), feat=k, opens=True)
                self.emit(depth + 1, "a(i) = %s" % self.rexpr(1), feat=k)
                self.emit(depth, "end forall", feat=k, closes=True)
            elif k == "do_comma":
                lb = self.lab()
                self.emit(depth, "do %d, %s = 1, %s" % (lb, r.choice(INTS), self.iexpr(1)), feat=k, opens=True)
                self.block(depth + 1, b, True)
                self.emit(depth + 1, "continue", lb, feat=k, closes=True)
            elif k == "do_forever":
                self.emit(depth, "do", feat=k, opens=True)
                self.emit(depth + 1, "if (%s) exit" % self.lexpr(1), feat=k)
                self.block(depth + 1, b, True)
                self.emit(depth, "end do", feat=k, closes=True)
            elif k == "select_named":
                nm = self.cname()
                self.emit(depth, "select case (%s)" % self.iexpr(1), name=nm, feat=k, opens=True)
                self.emit(depth + 1, "case (1)", feat=k)
                self.block(depth + 1, b, in_do)
                self.emit(depth + 1, "case default", feat=k)
                self.block(depth + 1, b, in_do)
                self.emit(depth, "end select %s" % nm, feat=k, closes=True)
            elif k == "named_else":
                nm = self.cname()
                self.emit(depth, "if (%s) then" % self.lexpr(), name=nm, feat=k, opens=True)
                self.block(depth + 1, b, in_do)
                self.emit(depth + 1, "else if (%s) then" % self.lexpr(), feat=k)
                self.block(depth + 1, b, in_do)
                self.emit(depth + 1, "else", feat=k)
                self.block(depth + 1, b, in_do)
                self.emit(depth, "end if %s" % nm, feat=k, closes=True)
            elif k == "where_construct":
                self.emit(depth, "where (%s > %s)" % (r.choice(ARRS), self.rexpr(2)), feat=k, opens=True)
                self.emit(depth + 1, "%s = %s" % (r.choice(ARRS), self.rexpr(1)), feat=k)
                if r.random() < 0.5:
                    self.emit(depth + 1, "elsewhere", feat=k)
                    self.emit(depth + 1, "%s = 0.0" % r.choice(ARRS), feat=k)
                self.emit(depth, "end where", feat=k, closes=True)

    def decls(self, depth, args=()):
        r = self.rng
        if self.ok("use") and self.modules and r.random() < 0.5:
            self.emit(depth, "use %s" % r.choice(self.modules) + (", only: mv1" if r.random() < 0.4 else ""), feat="use")
        if self.ok("implicit_none") and r.random() < 0.7:
            self.emit(depth, "implicit none", feat="implicit_none")
        style = r.random() < 0.5 and self.ok("decl_old")
        if style:
            self.emit(depth, "integer i, j, k, n, m, ierr, iv(10)", feat="decl_old")
            self.emit(depth, "real x, y, z, t1, t2, a(10), b(10), c(3), b2(10, 10)", feat="decl_old")
            self.emit(depth, "double precision dd", feat="decl_old")
        else:
            self.emit(depth, "integer :: i, j, k, n, m, ierr, iv(10)", feat="decl_new")
            self.emit(depth, "real :: x, y, z, t1, t2", feat="decl_new")
            self.emit(depth, "real, dimension(10) :: a, b", feat="decl_new")
            self.emit(depth, "real :: c(3), b2(10, 10)", feat="decl_new")
        self.emit(depth, "real, allocatable :: w(:)" if not style else "real, allocatable, dimension(:) :: w", feat="decl_alloc")
        self.emit(depth, "logical %sflag, done" % ("" if style else ":: "), feat="decl_log")
        self.emit(depth, "character(len=20) %sstr" % ("" if style else ":: "), feat="decl_char")
        if self.ok("parameter") and r.random() < 0.5:
            self.emit(depth, r.choice(["integer, parameter :: np = 10", "parameter (np = 10)"]), feat="parameter")
        if self.ok("common") and r.random() < 0.3:
            self.emit(depth, "common /blk/ cx, cy", feat="common")
        if self.ok("external") and r.random() < 0.4:
            self.emit(depth, r.choice(["external func", "real, external :: func", "intrinsic sin, sqrt"]), feat="external")
        if self.ok("dimension_stmt") and r.random() < 0.2:
            self.emit(depth, "dimension q(10)", feat="dimension_stmt")
        if self.ok("save") and r.random() < 0.2:
            self.emit(depth, r.choice(["save", "save", "save /blk/, z", "save :: /blk/", "save a, /blk/", "save z"]), feat="save")
        if self.ok("data") and r.random() < 0.3:
            self.emit(depth, "data cx0 /1.0/", feat="data")
        if self.ok("interface") and r.random() < 0.25:
            self.emit(depth, "interface", feat="interface", opens=True)
            self.emit(depth + 1, "subroutine sub2(p, q)", feat="interface", opens=True)
            self.emit(depth + 2, "real p, q", feat="interface")
            self.emit(depth + 1, "end subroutine sub2", feat="interface", closes=True)
            self.emit(depth, "end interface", feat="interface", closes=True)
        if self.ok("type_def") and r.random() < 0.4:
            self.emit(depth, "type rtype", feat="type_def", opens=True)
            self.emit(depth + 1, "real :: val", feat="type_def")
            self.emit(depth + 1, "real, dimension(10) :: fld", feat="type_def")
            self.emit(depth, "end type rtype", feat="type_def", closes=True)
            self.emit(depth, "type(rtype) :: rec", feat="type_def")
        if self.ok("pointer_decl") and r.random() < 0.4:
            self.emit(depth, "real, pointer :: ptr(:)", feat="pointer_decl")
            self.emit(depth, "real, target :: tgt(10)", feat="pointer_decl")
        if self.ok("intent") and r.random() < 0.3:
            self.emit(depth, "real, intent(in) :: p1", feat="intent")
        if self.ok("char_star") and r.random() < 0.3:
            self.emit(depth, r.choice(["character*8 cs", "character*(*) cdummy", "character(len=*), parameter :: cp = 'abc'"]),
                      feat="char_star")
        if self.ok("kind_decl") and r.random() < 0.3:
            self.emit(depth, r.choice(["real*8 r8", "integer*4 i4", "real(kind=8) :: rk", "real(8) rk2", "complex*16 zz"]),
                      feat="kind_decl")
        if self.ok("namelist") and r.random() < 0.2:
            self.emit(depth, "namelist /nl/ x, y", feat="namelist")
        if self.ok("equivalence") and r.random() < 0.2:
            self.emit(depth, "equivalence (x, y)", feat="equivalence")
        if self.ok("implicit_stmt") and r.random() < 0.1:
            self.emit(depth, "implicit real (a-h, o-z)", feat="implicit_stmt")
        for feat, prob, forms in [
            ("access_stmt", 0.15, ["public :: x, y", "private", "public", "private :: t1"]),
            ("allocatable_stmt", 0.15, ["allocatable :: q2(:)", "allocatable q3(:, :)"]),
            ("asynchronous_stmt", 0.1, ["asynchronous :: x", "volatile :: y", "volatile z"]),
            ("target_stmt", 0.15, ["target :: t1", "target t2, a", "pointer :: pp", "pointer pp2(:)"]),
            ("intent_stmt", 0.15, ["intent(in) :: p1", "intent (out) p2", "optional :: p2", "optional p1", "value :: p1"]),
            ("bind_stmt", 0.08, ["bind(c) :: x", "bind(c, name='cn') :: /blk/"]),
            ("protected_stmt", 0.08, ["protected :: x"]),
            ("sequence_type", 0.15, None),
            ("double_complex", 0.1, ["double complex zz2", "double complex :: zz3(2)", "byte bb"]),
            ("class_decl", 0.1, ["class(rtype), pointer :: cobj", "class(*), pointer :: cany"]),
            ("enum_def", 0.1, None),
            ("import_stmt", 0.0, None),
        ]:
            if not self.ok(feat) or r.random() >= prob:
                continue
            if feat == "sequence_type":
                self.emit(depth, "type stype", feat=feat, opens=True)
                self.emit(depth + 1, "sequence", feat=feat)
                self.emit(depth + 1, "integer :: ia", feat=feat)
                self.emit(depth + 1, "real, dimension(3) :: ra", feat=feat)
                self.emit(depth, "end type stype", feat=feat, closes=True)
            elif feat == "enum_def":
                self.emit(depth, "enum, bind(c)", feat=feat, opens=True)
                self.emit(depth + 1, "enumerator :: red = 1, green", feat=feat)
                self.emit(depth + 1, "enumerator blue", feat=feat)
                self.emit(depth, "end enum", feat=feat, closes=True)
            else:
                self.emit(depth, r.choice(forms), feat=feat)
        if self.ok("iface_modproc") and r.random() < 0.15:
            self.emit(depth, "interface gen1", feat="iface_modproc", opens=True)
            self.emit(depth + 1, "module procedure sub1, sub2", feat="iface_modproc")
            self.emit(depth, "end interface gen1", feat="iface_modproc", closes=True)
        if self.ok("iface_import") and r.random() < 0.12:
            self.emit(depth, "interface", feat="iface_import", opens=True)
            self.emit(depth + 1, "function ifun(p)", feat="iface_import", opens=True)
            self.emit(depth + 2, "import :: rtype", feat="iface_import")
            self.emit(depth + 2, "real :: p, ifun", feat="iface_import")
            self.emit(depth + 1, "end function ifun", feat="iface_import", closes=True)
            self.emit(depth, "end interface", feat="iface_import", closes=True)
        if self.ok("format") and r.random() < 0.5:
            self.emit(depth, "format (1x, i4, 'a)b', f8.3)", 900, feat="format")

    def unit(self, depth, kind, name, allow_contains=True):
        r = self.rng
        if kind == "program":
            self.emit(depth, "program %s" % name, feat="program", opens=True)
        elif kind == "subroutine":
            # alternate-return dummies ('*') included: analyze() of the pinned tree asserts on two of them, such
            # programs are then counted as rejected and only the analyze=False half is compared
            self.emit(depth, "subroutine %s(%s)" % (name, r.choice(["", "p1", "p1, p2", "p1, p2", "p1, *", "p1, *, p2, *", "*, *, *"])),
                      feat="subroutine", opens=True)
        elif kind == "function":
            form = r.choice(["function %s(p1)", "real function %s(p1)", "function %s(p1) result(res)",
                             "integer function %s(p1) result(res)", "double precision function %s(p1) result(res)",
                             "recursive function %s(p1) result(res)"])
            self.emit(depth, form % name, feat="function", opens=True)
            if "result" in form and r.random() < 0.6 and not form.startswith(("integer", "double")):
                self.emit(depth + 1, r.choice(["real :: res", "real res", "integer :: res"]), feat="function_result")
        self.decls(depth + 1)
        if kind != "program" and depth == 0 and self.ok("entry") and r.random() < 0.15:
            self.emit(depth + 1, r.choice(["entry alt_%s(p1)" % name, "entry alt_%s" % name]) if kind == "subroutine"
                      else "entry alt_%s(p1)" % name, feat="entry")
        self.block(depth + 1, 3)
        if r.random() < 0.3:
            self.emit(depth + 1, "continue", 999, feat="continue")
        if allow_contains and self.ok("contains") and r.random() < 0.3:
            self.emit(depth + 1, "contains", feat="contains")
            self.out[-1].depth = depth + 1
            for q in range(r.randrange(1, 3)):
                self.unit(depth + 1, r.choice(["subroutine", "function"]), "in%d_%s" % (q, name), allow_contains=False)
        ends = {"program": ["end program %s" % name, "end program", "end"],
                "subroutine": ["end subroutine %s" % name, "end subroutine", "end"],
                "function": ["end function %s" % name, "end function", "end"]}[kind]
        self.emit(depth, r.choice(ends) if depth == 0 else r.choice(ends[:2]), feat=kind, closes=True)

    def program(self):
        r = self.rng
        self.modules = []
        if self.ok("module") and r.random() < 0.4:
            self.emit(0, "module mod1", feat="module", opens=True)
            self.emit(1, "implicit none", feat="module")
            self.emit(1, "real :: mv1, mv2(5)", feat="module")
            self.emit(1, "integer, parameter :: mp = 3", feat="module")
            if r.random() < 0.6:
                self.emit(1, "contains", feat="module")
                self.unit(1, r.choice(["subroutine", "function"]), "msub", allow_contains=False)
            self.emit(0, "end module mod1", feat="module", closes=True)
            self.modules.append("mod1")
        if self.ok("block_data") and r.random() < 0.3:
            named = r.random() < 0.5          # a BLOCK DATA unit need not have a name
            self.emit(0, "block data bdat" if named else "block data", feat="block_data", opens=True)
            self.emit(1, "real cx, cy", feat="block_data")
            self.emit(1, "common /blk/ cx, cy", feat="block_data")
            self.emit(1, "data cx, cy /1.0, 2.0/", feat="block_data")
            self.emit(0, "end block data bdat" if named else r.choice(["end block data", "end"]), feat="block_data", closes=True)
        for q in range(r.randrange(0, 3)):
            self.unit(0, r.choice(["subroutine", "function"]), "ext%d" % q)
        if r.random() < 0.7 or not self.out:
            self.unit(0, "program", "main")
        return self.out


def gen(seed, feats=None, long_expr=True):
    g = G(seed, feats, long_expr)
    st = g.program()
    return st, sorted(g.used)


def render(st, fixed=False):
    return "\n".join((s.fixed() if fixed else s.free()) for s in st) + "\n"
