"""Products of the statement catalogue (tools/catalogue.py) with layouts and with inserted comment / directive lines.
An entry takes part when it parses intact; the properties then say what must hold for the varied source."""
import random
import re

import catalogue
import layout


def sources(quick, seed, wraps=4):
    """catalogue programs (the wrapper without program statement is left out: what stands in front of an implicit
    main program is a recorded finding); the quick tier takes every third, rotating with the seed"""
    srcs = [(b, w % b) for b in catalogue.BODIES for w in catalogue.WRAPS[:wraps]]
    return srcs[seed % 3::3] if quick else srcs


def key(body):
    return re.sub(r"\W+", "_", body.lower()).strip("_")[:32]


def layout_variants(src, rng):
    lines = src.split("\n")[:-1]
    out = []
    for mode in ("tight", "wide"):
        out.append((mode, "\n".join(layout.respace(l, mode, rng) for l in lines) + "\n"))
    out.append(("tighten", "\n".join(layout.tighten(l) for l in lines) + "\n"))
    out.append(("upper", "\n".join(layout.recase(l, "upper", set()) for l in lines) + "\n"))
    out.append(("lower", "\n".join(layout.recase(l, "lower", set()) for l in lines) + "\n"))
    br = []
    for l in lines:
        toks = layout.split_tokens(l)
        # never in front of a single ':' (a construct name cut from its colon is a recorded finding of its own)
        cand = [k for k in range(1, len(toks)) if l[toks[k][0]:toks[k][1]] != ":"]
        if len(toks) >= 3 and cand:
            a = toks[rng.choice(cand)][0]
            br += [l[:a] + "&", "   &" + l[a:]]
        else:
            br.append(l)
    out.append(("break", "\n".join(br) + "\n"))
    return [(m, v) for m, v in out if v != src]


def check_layout(arg):
    """C04: blanks between tokens, keyword case and a continuation break do not change the tree"""
    std, body, src, seed = arg
    import fp
    ref = fp.parse(src, std=std, ignore_comments=True)
    if ref.kind != "tree":
        return 0, []
    r0 = fp.canon_repr(ref.tree).lower()
    fails = []
    n = 0
    for mode, v in layout_variants(src, random.Random(seed)):
        n += 1
        o = fp.parse(v, std=std, ignore_comments=True)
        rep = dict(std=std, source=v, canonical=src, catalogue_layout=mode)
        if o.kind != "tree":
            fails.append(("cat_layout:%s:%s" % (mode, key(body)), "layout %r of a catalogue statement is rejected (%s line %s)"
                          % (mode, o.kind, o.line), rep))
        elif fp.canon_repr(o.tree).lower() != r0:
            fails.append(("cat_layout_tree:%s:%s" % (mode, key(body)), "layout %r of a catalogue statement changes the tree" % mode, rep))
    return n, fails


def with_lines(src, mk):
    lines = src.split("\n")[:-1]
    out, ins = [], []
    for k, l in enumerate(lines):
        out += [mk(k), l]
        ins.append(mk(k))
    out.append(mk(len(lines)))
    ins.append(mk(len(lines)))
    return "\n".join(out) + "\n", ins


def check_insert(arg):
    """C11 / C14: a comment (directive) line in front of every line and after the last: each is kept once, in order,
    and the regenerated statements are those of the plain program"""
    std, body, src, what = arg
    import fp
    ref = fp.parse(src, std=std, ignore_comments=True)
    if ref.kind != "tree":
        return 0, []
    mk = (lambda k: "! c%d" % k) if what == "comment" else (lambda k: "#define X%d" % k)
    v, ins = with_lines(src, mk)
    rep = dict(std=std, source=v, canonical=src, catalogue_insert=what)
    o = fp.parse(v, std=std, ignore_comments=False)
    if o.kind != "tree":
        return 1, [("cat_%s_rejected:%s" % (what, key(body)), "catalogue program with a %s line before every line is rejected "
                    "(%s line %s)" % (what, o.kind, o.line), rep)]
    if what == "comment":
        got = [t for _, t in fp.comment_nodes(o.tree)]
        pref = "!"
    else:
        got = [str(x) for x in fp.utils.walk(o.tree) if type(x).__name__.startswith("Cpp_") and type(x).__name__.endswith("_Stmt")]
        pref = "#"
    fails = []
    if got != ins:
        fails.append(("cat_%s_nodes:%s" % (what, key(body)), "%s nodes %r != inserted %r" % (what, got[:5], ins[:5]), rep))
    lab = lambda l: re.sub(r"^(\d+)\s+", r"\1 ", l.strip())   # noqa
    text = [lab(l) for l in str(o.tree).split("\n") if l.strip() and not l.strip().startswith(pref)]
    rt = [lab(l) for l in str(ref.tree).split("\n") if l.strip()]
    if text != rt:
        fails.append(("cat_%s_text:%s" % (what, key(body)), "the regenerated statements differ once the %s lines are removed" % what, rep))
    if what == "comment":
        ign = fp.parse(v, std=std, ignore_comments=True)
        if ign.kind != "tree" or fp.canon_repr(ign.tree) != fp.canon_repr(ref.tree):
            fails.append(("cat_comment_ignore:%s" % key(body), "tree(P+K, ignore) != tree(P)", rep))
    return 1, fails
