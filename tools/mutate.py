"""Structural mutators over generated programs (lists of gen.Stmt)."""
import gen


def delete_at(stmts, i):
    return stmts[:i] + stmts[i + 1:]


def replace_at(stmts, i, text):
    s = stmts[i].copy()
    s.text, s.label, s.name = text, None, None
    s.kind, s.role = "garbage", "simple"
    return stmts[:i] + [s] + stmts[i + 1:]


def dup_at(stmts, i):
    return stmts[:i + 1] + [stmts[i].copy()] + stmts[i + 1:]


GARBAGE = ["@@@ not fortran", "this is (not a stmt", "= = 3 3", "end end end of"]
