"""Correspondence: extracted SplitLine model (ocaml/_build/sldriver) vs fparser.common.splitline."""
import os
import subprocess

VERIF = os.path.dirname(os.path.dirname(os.path.abspath(__file__)))
SLDRIVER = os.path.join(VERIF, "ocaml", "_build", "sldriver")

ALPHABET = ["a", "B", " ", "'", "'", '"', "(", ")", "[", "]", "\\", "!", "&", ";", "1", ".", "e", "+", "=", ","]


def gen_lines(rng, n):
    out = []
    for k in range(n):
        mode = k % 4
        if mode == 0:      # structured: code with balanced literals and parens
            parts = []
            for _ in range(rng.randrange(1, 6)):
                r = rng.random()
                if r < 0.3:
                    q = rng.choice("'\"")
                    body = "".join(rng.choice(["x", "Y", " ", q + q, "!", "(", ")", "&", "'" if q == '"' else '"'])
                                   for _ in range(rng.randrange(0, 6)))
                    parts.append(q + body + q)
                elif r < 0.6:
                    parts.append("(" + "".join(rng.choice(["a", ",", "(b)", " ", "1.0e-3", "[c]"])
                                                for _ in range(rng.randrange(0, 5))) + ")")
                else:
                    parts.append("".join(rng.choice(["Abc", " = ", "+", "x1", " ", "2.5E+2", "\\"])
                                         for _ in range(rng.randrange(1, 4))))
            out.append("".join(parts))
        else:              # unstructured over the alphabet (unbalanced quotes / brackets included)
            out.append("".join(rng.choice(ALPHABET) for _ in range(rng.randrange(0, 14))))
    return out


def run(lines_and_stops):
    """returns list of (agree, detail)"""
    import fp  # noqa (sets sys.path)
    from fparser.common.splitline import splitquote, splitparen, String, ParenString
    p = subprocess.Popen([SLDRIVER], stdin=subprocess.PIPE, stdout=subprocess.PIPE, text=True)
    inp = []
    for line, stop, low in lines_and_stops:
        hx = line.encode("latin-1").hex()
        inp.append("SQ %d %d %s" % (ord(stop) if stop else 0, 1 if low else 0, hx))
        inp.append("SP %s" % hx)
    out, _ = p.communicate("\n".join(inp) + "\nQUIT\n", timeout=300)
    rows = out.split("\n")
    res = []
    for k, (line, stop, low) in enumerate(lines_and_stops):
        segs, o = splitquote(line, stopchar=stop, lower=low)
        exp_sq = "|".join(("Q:" if isinstance(x, String) else "P:") + x.encode("latin-1").hex() for x in segs) \
                 + " ; %d" % (ord(o) if o else 0)
        exp_sp = "|".join(("P:" if isinstance(x, ParenString) else "F:") + x.encode("latin-1").hex()
                          for x in splitparen(line))
        got_sq, got_sp = rows[2 * k].strip(), rows[2 * k + 1].strip()
        ok = (got_sq == exp_sq.strip()) and (got_sp == exp_sp.strip())
        res.append((ok, dict(line=line, stop=stop, lower=low, model_splitquote=got_sq, impl_splitquote=exp_sq,
                             model_splitparen=got_sp, impl_splitparen=exp_sp)))
    return res


# ------------------------------------------------------------------ string_replace_map key bookkeeping
def rm_lines(rng, n):
    """lines over names, numbers, operators and parenthesised groups in which groups repeat, also doubly
    parenthesised (no character literals or exponent constants: those stages come first in the real function)"""
    atoms = ["n+1", "i", "j-2", "(n+1)", "k*m", "n + 1", "a, b", "(i)", "x(2)", ":", "1:n", "((k))"]
    out = []
    for _ in range(n):
        parts = ["x ="]
        for _ in range(rng.randrange(1, 14)):
            parts.append(rng.choice(["a", "b2", "f", "g"]) + "(" + rng.choice(atoms) + ")")
            parts.append(rng.choice(["+", "*", "-", ",", "//"]))
        out.append(" ".join(parts[:-1]))
    return out


def run_replace_map(lines):
    """model (ocaml sldriver RM) vs fparser.common.splitline.string_replace_map: same key sequence, exact restore"""
    import re
    from fparser.common import splitline
    cmds, real = [], []
    for l in lines:
        segs = []
        for it in splitline.splitparen(l):
            c = it[1:-1].strip() if isinstance(it, splitline.ParenString) else None
            if c is not None and not splitline._is_name(c):
                segs.append("g" + c.encode("latin-1").hex())
            else:
                segs.append("p" + str(it).encode("latin-1").hex())
        cmds.append("RM " + " ".join(segs))
        newline, m = splitline.string_replace_map(l)
        keys = [int(k) for k in re.findall(r"F2PY_EXPR_TUPLE_(\d+)", newline)]
        real.append((keys, m(newline) == l))
    p = subprocess.run([SLDRIVER], input="\n".join(cmds) + "\n", capture_output=True, text=True, timeout=300)
    outs = [x for x in p.stdout.split("\n") if x.strip()]
    dis = []
    if len(outs) != len(lines):
        return [dict(harness="driver answered %d of %d" % (len(outs), len(lines)))]
    for l, o, (keys, ok) in zip(lines, outs, real):
        ks, okm = o.split(";")
        mk = [int(x) for x in ks.split()]
        if mk != keys or (okm.strip() == "1") != ok:
            dis.append(dict(line=l, model_keys=mk, real_keys=keys, model_restores=okm.strip(), real_restores=ok))
    return dis
