"""Correspondence: extracted SplitLine model (ocaml/_build/sldriver) vs fparser.common.splitline."""
import os
import subprocess

VERIF = os.path.dirname(os.path.dirname(os.path.abspath(__file__)))
SLDRIVER = os.path.join(VERIF, "ocaml", "_build", "sldriver")

ALPHABET = ["a", "B", " ", "'", "'", '"', "(", ")", "[", "]", "\\", "!", "&", ";", "1", ".", "e", "+", "=", ","]


def gen_lines(rng, n):
    out = []
    for k in range(n):
        mode = k % 4
        if mode == 0:      # structured: code with balanced literals and parens
            parts = []
            for _ in range(rng.randrange(1, 6)):
                r = rng.random()
                if r < 0.3:
                    q = rng.choice("'\"")
                    body = "".join(rng.choice(["x", "Y", " ", q + q, "!", "(", ")", "&", "'" if q == '"' else '"'])
                                   for _ in range(rng.randrange(0, 6)))
                    parts.append(q + body + q)
                elif r < 0.6:
                    parts.append("(" + "".join(rng.choice(["a", ",", "(b)", " ", "1.0e-3", "[c]"])
                                                for _ in range(rng.randrange(0, 5))) + ")")
                else:
                    parts.append("".join(rng.choice(["Abc", " = ", "+", "x1", " ", "2.5E+2", "\\"])
                                         for _ in range(rng.randrange(1, 4))))
            out.append("".join(parts))
        else:              # unstructured over the alphabet (unbalanced quotes / brackets included)
            out.append("".join(rng.choice(ALPHABET) for _ in range(rng.randrange(0, 14))))
    return out


def run(lines_and_stops):
    """returns list of (agree, detail)"""
    import fp  # noqa (sets sys.path)
    from fparser.common.splitline import splitquote, splitparen, String, ParenString
    p = subprocess.Popen([SLDRIVER], stdin=subprocess.PIPE, stdout=subprocess.PIPE, text=True)
    inp = []
    for line, stop, low in lines_and_stops:
        hx = line.encode("latin-1").hex()
        inp.append("SQ %d %d %s" % (ord(stop) if stop else 0, 1 if low else 0, hx))
        inp.append("SP %s" % hx)
    out, _ = p.communicate("\n".join(inp) + "\nQUIT\n", timeout=300)
    rows = out.split("\n")
    res = []
    for k, (line, stop, low) in enumerate(lines_and_stops):
        segs, o = splitquote(line, stopchar=stop, lower=low)
        exp_sq = "|".join(("Q:" if isinstance(x, String) else "P:") + x.encode("latin-1").hex() for x in segs) \
                 + " ; %d" % (ord(o) if o else 0)
        exp_sp = "|".join(("P:" if isinstance(x, ParenString) else "F:") + x.encode("latin-1").hex()
                          for x in splitparen(line))
        got_sq, got_sp = rows[2 * k].strip(), rows[2 * k + 1].strip()
        ok = (got_sq == exp_sq.strip()) and (got_sp == exp_sp.strip())
        res.append((ok, dict(line=line, stop=stop, lower=low, model_splitquote=got_sq, impl_splitquote=exp_sq,
                             model_splitparen=got_sp, impl_splitparen=exp_sp)))
    return res
