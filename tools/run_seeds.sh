#!/bin/sh
# runs every check at the quick tier under several VERIF_SEED values; prints only the lines that need attention
cd "$(dirname "$0")/.."
for S in "$@"; do
  for P in C01 C02 C03 C04 C05 C06 C07 C08 C09 C10 C11 C12 C13 C14 C15 C16 C17 C18 C19 C20; do
    OUT=$(VERIF_SEED=$S /venv/bin/python tools/check.py $P --tier quick 2>&1); RC=$?
    if [ $RC -ne 0 ]; then echo "seed=$S $P rc=$RC"; echo "$OUT" | grep "^VIOLATION" | head -3; echo "$OUT" | tail -1 | cut -c1-200; fi
  done
  echo "seed=$S done"
done
