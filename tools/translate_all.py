"""Regenerate every coq/Gen/*.v file from the current /repo source (run as a subprocess by the checks)."""
import os
import sys
sys.path.insert(0, os.path.dirname(os.path.abspath(__file__)))
import translate

GEN = os.path.join(os.path.dirname(os.path.abspath(__file__)), "..", "coq", "Gen")


def main():
    translate.generate(GEN)
    for name in ("translate_expr", "translate_registry", "translate_copy", "translate_one", "translate_replacemap", "translate_stmtbase", "translate_srm"):
        try:
            mod = __import__(name)
        except ImportError:
            continue
        mod.generate(GEN)


if __name__ == "__main__":
    try:
        main()
    except Exception as e:  # fail closed, with the reason on stdout
        import traceback
        traceback.print_exc()
        print("TRANSLATE-ERROR: %s: %s" % (type(e).__name__, e))
        sys.exit(2)
