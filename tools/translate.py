"""Reflective, fail-closed translator: reads the grammar tables off the LIVE fparser classes
(imported from /repo/src) and emits them as Coq definitions under coq/Gen/ and as Python
structures for the correspondence harness.

Nothing here parses Python source text: block rules are discovered by calling each
BlockBase subclass's own match() with BlockBase.match replaced by a recorder; alternatives are
the lists in Base.subclasses after ParserFactory().create(std); class-level facts are
hasattr/issubclass exactly as the engine evaluates them; the variants of the hand-modelled
custom matchers are selected by running probe inputs against the real methods.

Anything unexpected raises TranslateError, which every check reports as a broken obligation.
"""
import inspect
import io
import logging
import os
import sys

REPO_SRC = os.environ.get("FPARSER_SRC", "/repo/src")
if REPO_SRC not in sys.path:
    sys.path.insert(0, REPO_SRC)


class TranslateError(Exception):
    pass


def _imports():
    from fparser.two.parser import ParserFactory
    from fparser.two import utils, Fortran2003 as F3, Fortran2008 as F8, C99Preprocessor as CPP
    from fparser.two.symbol_table import SYMBOL_TABLES
    from fparser.common.readfortran import FortranStringReader
    return ParserFactory, utils, F3, F8, CPP, SYMBOL_TABLES, FortranStringReader


BLOCK_FLAGS = ["match_labels", "match_names", "match_name_classes",
               "enable_do_label_construct_hook", "enable_if_construct_hook",
               "enable_where_construct_hook", "strict_order", "strict_match_names"]


class Tables:
    """Grammar tables of one standard, as read off the live classes."""


def record_block(utils, SYMBOL_TABLES, c):
    """Call c.match with BlockBase.match and the SYMBOL_TABLES mutators replaced by recorders."""
    rec = []
    sym = []
    orig = utils.BlockBase.__dict__["match"]

    def recorder(startcls, subclasses, endcls, reader, **kw):
        rec.append((startcls, list(subclasses), endcls, dict(kw)))
        return None

    saved = {}
    for nm in ("enter_scope", "exit_scope", "remove"):
        saved[nm] = getattr(SYMBOL_TABLES, nm)

        def mk(nm):
            def f(*a, **k):
                sym.append((nm,) + tuple(a[:1]))
            return f
        setattr(SYMBOL_TABLES, nm, mk(nm))
    utils.BlockBase.match = staticmethod(recorder)
    exc = None
    r = None
    try:
        try:
            r = c.match("READER")
        except Exception as e:  # custom matchers choke on the fake reader
            exc = e
    finally:
        utils.BlockBase.match = orig
        for nm, f in saved.items():
            try:
                delattr(SYMBOL_TABLES, nm)
            except AttributeError:
                setattr(SYMBOL_TABLES, nm, f)
    return rec, sym, r, exc


def build(std):
    ParserFactory, utils, F3, F8, CPP, SYMBOL_TABLES, FortranStringReader = _imports()
    logging.disable(logging.CRITICAL)
    ParserFactory().create(std=std)
    Base, BlockBase = utils.Base, utils.BlockBase
    subs = Base.subclasses
    T = Tables()
    T.std = std
    T.classes = []          # index -> class object
    T.index = {}            # class object -> index
    T.kinds = {}            # index -> ("leaf"|"alt"|"block"|"main0"|"seq"|"loop"|"program", payload)
    special = {"Comment": F3.Comment, "Directive": F3.Directive, "Include_Stmt": None,
               "Program": None, "Program_Unit": None, "Main_Program0": None}
    reg = ParserFactory().create  # noqa (keep factory alive)

    def byname(n):
        # the class the registry machinery uses for a rule name under this standard
        if n in subs or True:
            for mod in ((F8, F3) if std == "f2008" else (F3,)):
                c = getattr(mod, n, None)
                if c is not None:
                    return c
        raise TranslateError("no class named " + n)

    def num(c):
        if c not in T.index:
            T.index[c] = len(T.classes)
            T.classes.append(c)
        return T.index[c]

    program = F3.Program
    num(program)
    comment, directive = F3.Comment, F3.Directive
    num(comment); num(directive)
    include = F3.Include_Stmt
    num(include)
    cppcls = [getattr(CPP, n) for n in CPP.CPP_CLASS_NAMES]
    for c in cppcls:
        num(c)
    # names used inside utils.BlockBase.match through DynamicImport
    di = utils.di
    hook_classes = {
        "elseif": (di.Else_If_Stmt,), "else_endif": (di.Else_Stmt, di.End_If_Stmt),
        "maskedelse": (di.Masked_Elsewhere_Stmt,),
        "else_endwhere": (di.Elsewhere_Stmt, di.End_Where_Stmt),
        "enddo_continue": (di.End_Do_Stmt, di.Continue_Stmt),
    }
    T.blockspec = {}
    i = 0
    while i < len(T.classes):
        c = T.classes[i]
        i += 1
        refs = []
        alts = list(subs.get(c.__name__, []))
        match = getattr(c, "match", None)
        if c in (comment, directive):
            T.kinds[T.index[c]] = ("leaf", None)
            continue
        if match is None:
            kind = ("alt", None)
        elif not issubclass(c, BlockBase):
            kind = ("leaf", None)
        else:
            rec, sym, r, exc = record_block(utils, SYMBOL_TABLES, c)
            if c is program:
                kind = ("program", None)
                pu = F3.Program_Unit
                m0 = F3.Main_Program0
                refs += [pu, m0]
                T.program_unit, T.main0 = pu, m0
            elif len(rec) == 1 and r is None and exc is None and not sym:
                kind = ("block", rec[0])
            elif (len(rec) == 1 and r is None and exc is None
                  and [s[0] for s in sym] == ["enter_scope", "exit_scope", "remove"]
                  and sym[0][1] == sym[2][1] and rec[0][0] is None):
                kind = ("main0", rec[0])
                T.main_name = sym[0][1]
            elif c.__name__ in ("Outer_Shared_Do_Construct", "Inner_Shared_Do_Construct") and not rec:
                seq = [byname3(F3, n) for n in c.use_names]
                kind = ("seq", seq)
                refs += seq
            elif c.__name__ == "Component_Part" and not rec:
                kind = ("loop", F3.Component_Def_Stmt)
                refs.append(F3.Component_Def_Stmt)
            else:
                raise TranslateError("unrecognised custom block matcher %s (BlockBase.match calls=%d, "
                                     "symbol-table calls=%r, exc=%r)" % (c.__name__, len(rec), sym, exc))
            if kind[0] in ("block", "main0"):
                st, sb, en, kw = kind[1]
                if isinstance(kw.get("match_name_classes"), type):
                    kw["match_name_classes"] = (kw["match_name_classes"],)
                for k in kw:
                    if k not in BLOCK_FLAGS:
                        raise TranslateError("unknown BlockBase.match flag %s in %s" % (k, c.__name__))
                refs += [x for x in [st] + sb + [en] if x is not None]
                refs += list(kw.get("match_name_classes", ()))
                if en is not None:
                    refs += list(en.subclasses[en.__name__])
        for a in alts:
            refs.append(a)
        for rcls in refs:
            num(rcls)
        T.kinds[T.index[c]] = kind
    T.alts = {T.index[c]: [T.index[a] for a in subs.get(c.__name__, [])] for c in T.classes}

    def closure(targets):
        return [T.index[c] for c in T.classes if issubclass(c, tuple(targets))]

    T.hooks = {k: closure(v) for k, v in hook_classes.items()}
    T.flags = {}
    for c in T.classes:
        T.flags[T.index[c]] = dict(
            scoping=issubclass(c, utils.ScopingRegionMixin),
            has_start_label=hasattr(c, "get_start_label"),
            has_end_label=hasattr(c, "get_end_label"),
            has_name=hasattr(c, "get_name"))
    T.bspec = {}
    for idx, (k, payload) in T.kinds.items():
        if k in ("block", "main0"):
            st, sb, en, kw = payload
            endall = []
            if en is not None:
                endall = closure([en] + list(en.subclasses[en.__name__]))
            T.bspec[idx] = dict(
                start=None if st is None else T.index[st],
                subs=[T.index[x] for x in sb],
                end=None if en is None else T.index[en],
                endall=endall,
                match_labels=bool(kw.get("match_labels", False)),
                match_names=bool(kw.get("match_names", False)),
                name_classes=closure(kw.get("match_name_classes", ())) if kw.get("match_name_classes") else [],
                do_hook=bool(kw.get("enable_do_label_construct_hook", False)),
                if_hook=bool(kw.get("enable_if_construct_hook", False)),
                where_hook=bool(kw.get("enable_where_construct_hook", False)),
                strict_order=bool(kw.get("strict_order", False)),
                strict_names=bool(kw.get("strict_match_names", False)),
                labeldo_abort=(st in (di.Label_Do_Stmt, di.Label_Do_Stmt_2008) and en is di.End_Do))
    T.special = dict(comment=T.index[comment], directive=T.index[directive], include=T.index[include],
                     program=T.index[program], program_unit=T.index[T.program_unit],
                     main0=T.index[T.main0], cpp=[T.index[c] for c in cppcls])
    T.variants = probe_variants(std)
    # the end classes that raise on a label mismatch (probe 5): End_Do_Stmt and its subclasses, or none
    T.hooks["stray_enddo"] = closure((di.End_Do_Stmt,)) if T.variants["stray_enddo_raises"] else []
    return T


def byname3(mod, n):
    c = getattr(mod, n, None)
    if c is None:
        raise TranslateError("no class " + n)
    return c


def probe_variants(std):
    """Select the variant of each hand-modelled custom matcher by running probes on the real code."""
    ParserFactory, utils, F3, F8, CPP, SYMBOL_TABLES, FortranStringReader = _imports()
    v = {}
    # (1) Outer/Inner_Shared_Do_Construct: is the reader restored when the construct fails?
    res = []
    for cls in (F3.Outer_Shared_Do_Construct, F3.Inner_Shared_Do_Construct):
        ParserFactory().create(std=std)
        rd = FortranStringReader("do 10 i=1,2\na = 1\nend program p\n")
        before = [it.line for it in FortranStringReader("do 10 i=1,2\na = 1\nend program p\n")]
        try:
            r = cls.match(rd)
            raised = False
        except utils.NoMatchError:
            r, raised = None, True
        after = [it.line for it in rd]
        if r is not None:
            raise TranslateError("probe: %s matched an unterminated DO" % cls.__name__)
        res.append((after == before) and not raised)
    if res[0] != res[1]:
        raise TranslateError("probe: Outer/Inner_Shared_Do_Construct disagree on restoring %r" % res)
    v["shared_restores"] = res[0]
    # (2) Main_Program0.match: is its scope left when BlockBase.match raises?
    ParserFactory().create(std=std)
    SYMBOL_TABLES.clear()
    rd = FortranStringReader("integer :: i\nfoo: if (i==1) then\ni=2\nend if bar\nend\n")
    try:
        F3.Main_Program0.match(rd)
        raise TranslateError("probe: Main_Program0 accepted a mismatched construct name")
    except utils.FortranSyntaxError:
        pass
    v["main0_guarded"] = (SYMBOL_TABLES.current_scope is None
                          and "0 tables" in str(SYMBOL_TABLES).split("\n")[0])
    SYMBOL_TABLES.clear()
    # (3) BlockBase.match: is the symbol table cleaned up on exceptions other than FortranSyntaxError?
    ParserFactory().create(std=std)
    rd = FortranStringReader("program p\nx = sin()\nend program p\n")
    try:
        F3.Main_Program.match(rd)
        raise TranslateError("probe: sin() accepted")
    except utils.InternalSyntaxError:
        pass
    v["cleanup_all"] = (SYMBOL_TABLES.current_scope is None
                        and "0 tables" in str(SYMBOL_TABLES).split("\n")[0])
    SYMBOL_TABLES.clear()
    # (4) reader.error(): does the trailing name check of BlockBase.match terminate the process?
    ParserFactory().create(std=std)
    rd = FortranStringReader("module a\nend module b\n")
    try:
        F3.Module.match(rd)
        v["exits"] = False
    except SystemExit:
        v["exits"] = True
    SYMBOL_TABLES.clear()
    # (5) a labelled DO construct meeting an END DO without its label: kept as content (old) or FortranSyntaxError?
    ParserFactory().create(std=std)
    rd = FortranStringReader("do 140 i = 1, 2\nx = 1\nend do\n140 continue\n")
    cls = F8.Block_Label_Do_Construct if std == "f2008" and hasattr(F8, "Block_Label_Do_Construct") \
        else F3.Block_Label_Do_Construct
    try:
        r = cls.match(rd)
        v["stray_enddo_raises"] = False
        if r is None:
            raise TranslateError("probe: labelled DO with a stray END DO neither matched nor raised")
    except utils.FortranSyntaxError:
        v["stray_enddo_raises"] = True
    SYMBOL_TABLES.clear()
    return v


# ----------------------------------------------------------------------------- Coq emission
def _n(x):
    return "%d%%N" % x


def _l(xs):
    return "[" + "; ".join(_n(x) for x in xs) + "]"


def _b(x):
    return "true" if x else "false"


def _o(x):
    return "None" if x is None else "(Some %s)" % _n(x)


def emit_table(T, modname):
    out = []
    w = out.append
    w("(* GENERATED by tools/translate.py from the live classes of %s -- do not edit *)" % T.std)
    w("From Coq Require Import List NArith Bool.")
    w("From FV Require Import Scope Engine.")
    w("Import ListNotations.")
    w("")
    w("Definition class_names : list (N * nat) := [].  (* names are in Gen/names_%s.txt *)" % T.std)
    w("")

    def bs(idx):
        b = T.bspec[idx]
        return ("(mkBspec %s %s %s %s %s %s %s %s %s %s %s %s %s)" % (
            _o(b["start"]), _l(b["subs"]), _o(b["end"]), _l(b["endall"]), _b(b["match_labels"]),
            _b(b["match_names"]), _l(b["name_classes"]), _b(b["do_hook"]), _b(b["if_hook"]),
            _b(b["where_hook"]), _b(b["strict_order"]), _b(b["strict_names"]), _b(b["labeldo_abort"])))
    w("Definition entries : list (cls * centry) := [")
    rows = []
    for idx, c in enumerate(T.classes):
        k, payload = T.kinds[idx]
        if k == "leaf":
            ks = "KLeaf"
        elif k == "alt":
            ks = "KAlt"
        elif k == "block":
            ks = "(KBlock %s)" % bs(idx)
        elif k == "main0":
            ks = "(KMain0 %s)" % bs(idx)
        elif k == "seq":
            ks = "(KSeq %s)" % _l([T.index[x] for x in payload])
        elif k == "loop":
            ks = "(KLoop %s)" % _n(T.index[payload])
        elif k == "program":
            ks = "KProgram"
        else:
            raise TranslateError(k)
        f = T.flags[idx]
        rows.append("  (%s, mkCentry %s %s %s %s %s %s) (* %s *)" % (
            _n(idx), ks, _l(T.alts[idx]), _b(f["scoping"]), _b(f["has_start_label"]),
            _b(f["has_end_label"]), _b(f["has_name"]), c.__name__))
    w(";\n".join(rows))
    w("].")
    w("")
    sp, h, v = T.special, T.hooks, T.variants
    w("Definition tbl : table := mkTable entries %s %s %s %s %s %s %s %s %s %s %s %s 0%%N %s %s %s %s." % (
        _n(sp["comment"]), _n(sp["directive"]), _n(sp["include"]), _n(sp["program_unit"]),
        _n(sp["main0"]), _l(sp["cpp"]), _l(h["elseif"]), _l(h["else_endif"]), _l(h["maskedelse"]),
        _l(h["else_endwhere"]), _l(h["enddo_continue"]), _l(h["stray_enddo"]), _b(v["shared_restores"]),
        _b(v["main0_guarded"]), _b(v["cleanup_all"]), _b(v["exits"])))
    w("Definition c_program : cls := %s." % _n(sp["program"]))
    w("")
    w("(* class numbers by name (classes of the Fortran2008 package carry the suffix _08) *)")
    seen = set()
    for idx, c in enumerate(T.classes):
        nm = "cn_" + c.__name__ + ("_08" if ".Fortran2008" in c.__module__ else "")
        if nm in seen:
            raise TranslateError("duplicate class name " + nm)
        seen.add(nm)
        w("Definition %s : cls := %s." % (nm, _n(idx)))
    w("")
    return "\n".join(out) + "\n"


def table_protocol(T):
    """The same table as a line protocol for the extracted OCaml driver."""
    lines = []
    sp, h, v = T.special, T.hooks, T.variants

    def L(xs):
        return " ".join(str(x) for x in xs)

    def O(x):
        return "-1" if x is None else str(x)
    lines.append("TABLE %d" % len(T.classes))
    for idx in range(len(T.classes)):
        k, payload = T.kinds[idx]
        f = T.flags[idx]
        fl = "%d %d %d %d" % (f["scoping"], f["has_start_label"], f["has_end_label"], f["has_name"])
        lines.append("C %d %s %s | %s" % (idx, k, fl, L(T.alts[idx])))
        if k in ("block", "main0"):
            b = T.bspec[idx]
            lines.append("B %s %s %d %d %d %d %d %d %d %d | %s | %s | %s" % (
                O(b["start"]), O(b["end"]), b["match_labels"], b["match_names"], b["do_hook"],
                b["if_hook"], b["where_hook"], b["strict_order"], b["strict_names"], b["labeldo_abort"],
                L(b["subs"]), L(b["endall"]), L(b["name_classes"])))
        elif k == "seq":
            lines.append("S " + L(T.index[x] for x in payload))
        elif k == "loop":
            lines.append("P %d" % T.index[payload])
    lines.append("X %d %d %d %d %d %d | %s | %s | %s | %s | %s | %s | %s" % (
        sp["comment"], sp["directive"], sp["include"], sp["program_unit"], sp["main0"], sp["program"],
        L(sp["cpp"]), L(h["elseif"]), L(h["else_endif"]), L(h["maskedelse"]), L(h["else_endwhere"]),
        L(h["enddo_continue"]), L(h["stray_enddo"])))
    lines.append("V %d %d %d %d" % (v["shared_restores"], v["main0_guarded"], v["cleanup_all"], v["exits"]))
    return lines


def write_if_changed(path, text):
    old = None
    if os.path.exists(path):
        with open(path) as f:
            old = f.read()
    if old != text:
        with open(path, "w") as f:
            f.write(text)
        return True
    return False


def generate(gen_dir):
    """Regenerate every Gen/*.v file; returns dict of Tables per std."""
    os.makedirs(gen_dir, exist_ok=True)
    tabs = {}
    for std, mod in (("f2003", "Table03"), ("f2008", "Table08")):
        T = build(std)
        tabs[std] = T
        write_if_changed(os.path.join(gen_dir, mod + ".v"), emit_table(T, mod))
        write_if_changed(os.path.join(gen_dir, "names_%s.txt" % std),
                         "".join("%d %s %s\n" % (i, c.__module__, c.__name__) for i, c in enumerate(T.classes)))
    return tabs


if __name__ == "__main__":
    gd = sys.argv[1] if len(sys.argv) > 1 else os.path.join(os.path.dirname(__file__), "..", "coq", "Gen")
    tabs = generate(gd)
    for std, T in tabs.items():
        ks = {}
        for k, _ in T.kinds.values():
            ks[k] = ks.get(k, 0) + 1
        print(std, len(T.classes), "classes", ks, T.variants)
