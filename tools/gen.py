"""Seeded generator of structured, valid Fortran programs (the "generated valid class").

A program is a list of Stmt objects in source order.  Every Stmt knows its canonical free-form
text, its label and construct name, its structural role (open / mid / close / simple), the id of
the construct it belongs to, its nesting depth and a set of feature tags.  The same objects feed
the layout renderers (C04, C05, C12, C15), the structural mutators (C06-C08), the include splitter
(C13), the cpp/comment inserters (C11, C14) and the independent lexer's ground truth (C02, C19).
User-chosen names come from a fixed mixed-case pool so that an independent lexer can tell names
(reproduced character for character) from keywords (case-insensitive).
"""
import random

NAMES_INT = ["iCnt", "jIdx", "kk", "nMax", "mVal"]
NAMES_REAL = ["xPos", "yVal", "zz", "wRk", "tmpR"]
NAMES_ARR = ["aVec", "bMat", "cBuf"]
NAMES_LOG = ["lFlag", "okQ"]
NAMES_CHR = ["sTxt", "cName"]
NAMES_PTR = ["pRef"]
NAMES_DT = ["objA"]
FUNCS = ["fUser", "gCalc"]
INTRINSICS1 = ["sin", "cos", "abs", "sqrt", "exp", "dsqrt", "alog", "float", "sngl", "dabs", "tanh", "Dble", "aint"]
INTRINSICS2 = ["max", "min", "mod"]
USER_NAMES = set()


def _reg(*ls):
    for l in ls:
        USER_NAMES.update(l)


_reg(NAMES_INT, NAMES_REAL, NAMES_ARR, NAMES_LOG, NAMES_CHR, NAMES_PTR, NAMES_DT, FUNCS)
UNIT_NAMES = ["progMain", "modAlpha", "modBeta", "subOne", "subTwo", "funcF", "funcG", "blkDat",
              "smodX", "innerS", "innerF", "typPoint", "ifaceG", "cmnBlk", "nmlGrp", "resV",
              "fldA", "fldB", "argA", "argB", "dummyX", "loopA", "loopB", "chkC", "selD", "whE", "faF",
              "asG", "blkH", "critI", "styJ", "assocV", "tBase", "procP", "opr", "myop", "inv"]
_reg(UNIT_NAMES)


class Stmt:
    __slots__ = ("text", "label", "name", "role", "kind", "cid", "depth", "feats", "unit", "simple_exec")

    def __init__(self, text, label=None, name=None, role="simple", kind="", cid=None, feats=(),
                 simple_exec=False):
        self.text, self.label, self.name = text, label, name
        self.role, self.kind, self.cid = role, kind, cid
        self.depth = 0
        self.feats = set(feats)
        self.unit = None
        self.simple_exec = simple_exec      # whole simple executable statement (removable, C15)

    def line(self, indent=None):
        ind = "  " * self.depth if indent is None else indent
        lab = "%d " % self.label if self.label is not None else ""
        nm = "%s: " % self.name if self.name else ""
        return ind + lab + nm + self.text

    def copy(self):
        s = Stmt(self.text, self.label, self.name, self.role, self.kind, self.cid, self.feats, self.simple_exec)
        s.depth, s.unit = self.depth, self.unit
        return s

    def __repr__(self):
        return "Stmt(%r)" % self.line("")


class Gen:
    def __init__(self, rng, std="f2003", size=1.0, feats=None):
        self.r = rng
        self.cyc_i = rng.randrange(1000)
        self.cyc_e = rng.randrange(1000)
        self.std = std
        self.size = size
        self.out = []
        self.depth = 0
        self.cid = 0
        self.label = 100
        self.used_feats = {}
        self.allow = feats          # None = everything
        self.loop_names = []        # enclosing named/unnamed DO constructs (for exit/cycle)
        self.in_where = 0
        self.in_forall = 0
        self.unit_kind = None
        self.block_ok = std == "f2008"
        self.has_tpar = False

    # ------------------------------------------------------------------ helpers
    def feat(self, f):
        self.used_feats[f] = self.used_feats.get(f, 0) + 1

    F2008_KINDS = {"allocate_mold", "open_newunit", "error_stop", "block_construct", "end_block", "critical",
                   "end_critical", "do_concurrent", "contiguous", "codimension", "submodule", "end_submodule"}

    def emit(self, text, **kw):
        s = Stmt(text, **kw)
        if s.kind in self.F2008_KINDS:
            s.feats.add("f2008")
        s.depth = self.depth
        s.unit = self.unit_kind
        self.out.append(s)
        if s.kind:
            self.feat(s.kind)
        return s

    def newcid(self):
        self.cid += 1
        return self.cid

    def newlabel(self):
        self.label += 10
        return self.label

    def ch(self, xs):
        return self.r.choice(xs)

    def cyc(self, xs):
        """round-robin over a long list of alternatives, starting at a seed-dependent offset: every alternative
        is reached after len(xs) draws across consecutive programs"""
        self.cyc_i += 1
        return xs[self.cyc_i % len(xs)]

    def p(self, x):
        return self.r.random() < x

    # ------------------------------------------------------------------ expressions
    def int_lit(self):
        return str(self.ch([0, 1, 2, 3, 7, 10, 42, 100]))

    def real_lit(self):
        return self.ch(["1.0", "2.5", "0.5", "3.0e0", "1.0e-3", "2.5E+2", "1.5d0", "6.02e23", "1.e2", ".5"])

    def char_lit(self):
        return self.ch(["'abc'", "\"xy z\"", "'it''s'", "'a!b'", "\"q&r\"", "'x;y'", "'(p)'", "'Mixed Case'",
                        "\"say \"\"hi\"\"\"", "'.and.'", "'1.0e-3'", "'a // b'",
                        "'Warning: value out of range! Please check the input file; then retry & go on.'",
                        "'Please check the input file; then retry & go on. Warning: value out of range!'",
                        "'ab!cd!ef!gh!ij!kl!mn!op!qr!st!uv!wx!yz!ab!cd!ef!gh!ij!kl!mn!op!qr!st!uv!wx!yz!'"])

    def log_lit(self):
        return self.ch([".true.", ".false.", ".TRUE."])

    def ivar(self):
        return self.ch(NAMES_INT)

    def rvar(self):
        return self.ch(NAMES_REAL)

    def aref(self):
        a = self.ch(NAMES_ARR)
        if a == "bMat":
            return "%s(%s, %s)" % (a, self.iexpr(1), self.iexpr(1))
        return "%s(%s)" % (a, self.iexpr(1))

    def iexpr(self, d):
        if d <= 0 or self.p(0.4):
            return self.ch([self.ivar(), self.int_lit(), self.ivar()])
        k = self.r.randrange(5)
        if k == 0:
            return "%s %s %s" % (self.iexpr(d - 1), self.ch(["+", "-"]), self.iterm(d - 1))
        if k == 1:
            return "%s * %s" % (self.iterm(d - 1), self.ifac(d - 1))
        if k == 2:
            return "mod(%s, %s)" % (self.iexpr(d - 1), self.iexpr(d - 1))
        if k == 3:
            return "(%s)" % self.iexpr(d - 1)
        return "%s / %s" % (self.iterm(d - 1), self.ifac(d - 1))

    def iterm(self, d):
        if d <= 0 or self.p(0.5):
            return self.ch([self.ivar(), self.int_lit()])
        return "%s * %s" % (self.iterm(d - 1), self.ifac(d - 1))

    def ifac(self, d):
        if d <= 0 or self.p(0.6):
            return self.ch([self.ivar(), self.int_lit()])
        return "(%s)" % self.iexpr(d - 1)

    def rprim(self, d):
        k = self.r.randrange(9)
        if d <= 0:
            k = k % 4
        if k == 0:
            return self.rvar()
        if k == 1:
            return self.real_lit()
        if k == 2:
            return self.aref()
        if k == 3:
            return self.ivar()
        if k == 4:
            return "%s(%s)" % (self.ch(INTRINSICS1), self.rexpr(d - 1))
        if k == 5:
            return "%s(%s, %s)" % (self.ch(INTRINSICS2), self.rexpr(d - 1), self.rexpr(d - 1))
        if k == 6:
            return "(%s)" % self.rexpr(d - 1)
        if k == 7:
            return "%s(%s)" % (self.ch(FUNCS), self.rexpr(d - 1))
        return "%s%%%s" % (self.ch(NAMES_DT), self.ch(["fldA", "fldB"]))

    def rpow(self, d):     # mult-operand: level-1 [** mult-operand]
        if d > 0 and self.p(0.25):
            return "%s ** %s" % (self.rprim(d - 1), self.rpow(d - 1))
        return self.rprim(d)

    def rterm(self, d):    # add-operand
        if d > 0 and self.p(0.4):
            return "%s %s %s" % (self.rterm(d - 1), self.ch(["*", "/"]), self.rpow(d - 1))
        return self.rpow(d)

    def rexpr(self, d):    # level-2
        if d > 0 and self.p(0.45):
            return "%s %s %s" % (self.rexpr(d - 1), self.ch(["+", "-"]), self.rterm(d - 1))
        if d > 0 and self.p(0.12):
            return "%s%s" % (self.ch(["-", "+"]), self.rterm(d - 1))
        return self.rterm(d)

    def cexpr(self, d):
        if d > 0 and self.p(0.35):
            return "%s // %s" % (self.cexpr(d - 1), self.ch([self.char_lit(), self.ch(NAMES_CHR)]))
        return self.ch([self.char_lit(), self.ch(NAMES_CHR), self.ch(NAMES_CHR) + "(1:3)"])

    def relexpr(self, d):
        op = self.ch(["==", "/=", "<", "<=", ">", ">=", ".eq.", ".ne.", ".lt.", ".le.", ".gt.", ".ge."])
        if self.p(0.15):
            return "%s %s %s" % (self.cexpr(0), self.ch(["==", "/=", ".eq."]), self.cexpr(0))
        return "%s %s %s" % (self.rexpr(d), op, self.rexpr(d))

    def lprim(self, d):
        k = self.r.randrange(6)
        if k == 0:
            return self.ch(NAMES_LOG)
        if k == 1:
            return self.log_lit()
        if k == 2 and d > 0:
            return "(%s)" % self.lexpr(d - 1)
        return self.relexpr(max(0, d - 1))

    def lnot(self, d):
        if self.p(0.2):
            return ".not. %s" % self.lprim(d)
        return self.lprim(d)

    def land(self, d):
        if d > 0 and self.p(0.35):
            return "%s .and. %s" % (self.land(d - 1), self.lnot(d - 1))
        return self.lnot(d)

    def lor(self, d):
        if d > 0 and self.p(0.3):
            return "%s .or. %s" % (self.lor(d - 1), self.land(d - 1))
        return self.land(d)

    def lexpr(self, d):
        if d > 0 and self.p(0.1):
            return "%s %s %s" % (self.lexpr(d - 1), self.ch([".eqv.", ".neqv."]), self.lor(d - 1))
        return self.lor(d)

    def any_expr(self, d=2):
        k = self.r.randrange(10)
        if k < 6:
            return self.rexpr(d)
        if k < 8:
            return self.lexpr(d)
        return self.cexpr(d)

    # ------------------------------------------------------------------ simple executable statements
    def assign(self):
        k = self.r.randrange(8)
        if self.p(0.04):
            # ten or more non-trivial parenthesised groups in one statement
            n = self.r.randrange(10, 14)
            return "%s = %s" % (self.rvar(), " + ".join(
                "%s(%s %s %s)" % (self.ch(NAMES_ARR[:1] + FUNCS), self.ivar(), self.ch("+-*"), self.int_lit())
                for _ in range(n)))
        if self.p(0.04):
            # the same group once doubly and once singly parenthesised
            e = "%s %s %s" % (self.rvar(), self.ch("+-*"), self.real_lit())
            return "%s = %s((%s)) %s %s(%s)" % (self.rvar(), self.ch(FUNCS), e, self.ch("+-*/"), self.ch(FUNCS), e)
        if k < 3:
            return "%s = %s" % (self.rvar(), self.rexpr(2))
        if k == 3:
            return "%s = %s" % (self.aref(), self.rexpr(2))
        if k == 4:
            return "%s = %s" % (self.ivar(), self.iexpr(2))
        if k == 5:
            return "%s = %s" % (self.ch(NAMES_LOG), self.lexpr(2))
        if k == 6:
            return "%s = %s" % (self.ch(NAMES_CHR), self.cexpr(2))
        return "%s%%%s = %s" % (self.ch(NAMES_DT), self.ch(["fldA", "fldB"]), self.rexpr(1))

    def io_stmt(self):
        k = self.r.randrange(9)
        items = ", ".join(self.ch([self.rvar(), self.ivar(), self.char_lit(), self.aref(), self.rexpr(1)])
                          for _ in range(self.r.randrange(1, 4)))
        if k == 0:
            return "print *, %s" % items, "print"
        if k == 1:
            return "write(unit = 6, fmt = *) %s" % items, "write"
        if k == 2:
            return "write(unit = %s, fmt = '(a, i3)', iostat = %s) %s" % (self.ivar(), self.ivar(), items), "write"
        if k == 3:
            return "read(unit = 5, fmt = *) %s" % ", ".join(self.ch([self.rvar(), self.ivar()])
                                                            for _ in range(self.r.randrange(1, 3))), "read"
        if k == 4 and self.std == "f2008" and self.p(0.3):
            return "open(newunit = %s, file = 'data.txt')" % self.ivar(), "open_newunit"
        if k == 4:
            specs = ["unit = %s" % self.int_lit(), "file = %s" % self.ch(["'data.txt'", "\"in put.dat\"", "sTxt"]),
                     "status = 'old'", "iostat = %s" % self.ivar()]
            if self.p(0.5):
                self.r.shuffle(specs)          # connect-specs in any order (UNIT= need not come first)
            return "open(%s)" % ", ".join(specs[:self.r.randrange(2, 5)] if specs[0].startswith("unit") else specs), "open"
        if k == 5:
            return "close(unit = %s)" % self.int_lit(), "close"
        if k == 6:
            return "print '(a)', %s" % self.char_lit(), "print"
        if k == 7:
            kw = self.ch(["rewind", "backspace", "endfile", "flush"])
            return self.ch(["%s(unit = %s)", "%s %s", "%s(%s)"]) % (kw, self.int_lit()), "rewind"
        return "write(unit = *, fmt = 900) %s" % items, "write"

    def simple_exec(self):
        """one simple executable statement: (text, kind)"""
        k = self.r.randrange(30)
        if k >= 24:
            k = 23          # the long list of less common statements gets a quarter of the draws
        if k < 8:
            return self.assign(), "assign"
        if k < 11:
            return self.io_stmt()
        if k == 11:
            return "call %s(%s, %s)" % (self.ch(["subOne", "subTwo"]), self.rexpr(1), self.rvar()), "call"
        if k == 12:
            return "call %s" % self.ch(["subOne", "subTwo"]), "call"
        if k == 13:
            if self.p(0.5):
                # the action of a logical IF may be any action statement but another IF / an END statement
                for _ in range(4):
                    t, kd = self.simple_exec()
                    if kd not in ("if_stmt", "exit", "cycle") and not t.startswith("if ("):
                        return "if (%s) %s" % (self.lexpr(1), t), "if_stmt"
                    if kd == "arithmetic_if":
                        return "if (%s) %s" % (self.lexpr(1), t), "if_stmt"
            return "if (%s) %s" % (self.lexpr(1), self.assign()), "if_stmt"
        if k == 14:
            return "%s => %s" % (self.ch(NAMES_PTR), self.ch(NAMES_REAL)), "ptr_assign"
        if k == 15 and self.std == "f2008" and self.p(0.3):
            return "allocate(dynA, mold = aVec)", "allocate_mold"
        if k == 15:
            return "allocate(%s(%s), stat = %s)" % ("dynA", self.iexpr(1), self.ivar()), "allocate"
        if k == 16:
            return "deallocate(dynA)", "deallocate"
        if k == 17:
            return "nullify(%s)" % self.ch(NAMES_PTR), "nullify"
        if k == 18:
            return "where (%s > 0.0) %s = %s" % ("aVec", "aVec", self.ch(["0.0", "aVec * 2.0", "1.0e-3"])), "where_stmt"
        if k == 19:
            return "forall (%s = 1:%s) aVec(%s) = %s" % ("iCnt", self.ch(["nMax", "10"]), "iCnt", self.rexpr(1)), "forall_stmt"
        if k == 20:
            return "continue", "continue"
        if k == 21 and self.loop_names:
            nm = self.loop_names[-1]
            kw = self.ch(["exit", "cycle"])
            if nm and self.p(0.7):
                return "if (%s) %s %s" % (self.lexpr(0), kw, nm), kw
            return "if (%s) %s" % (self.lexpr(0), kw), kw
        if k == 22:
            return "call %s(%s, %s)" % ("subOne", self.char_lit(), self.ch(NAMES_ARR) + "(1:nMax:2)"), "call"
        if k == 23 and self.p(0.85):
            return self.cyc([
                ("if (%s) %s" % (self.rexpr(1), self.ch(["110, 120, 130", "110, 110, 120", "120, 110, 120", "130, 130, 130",
                                                         "110, 120, 120"])), "arithmetic_if"),
                ("go to 110", "goto"), ("goto 120", "goto"),
                ("go to (%s), %s" % (self.ch(["110, 120, 130", "110, 110", "120", "130, 110, 130"]), self.ivar()), "computed_goto"),
                ("goto (110, 120), %s + 1" % self.ivar(), "computed_goto"),
                ("backspace 10", "backspace"), ("backspace (unit = 10, iostat = %s)" % self.ivar(), "backspace"),
                ("endfile (10)", "endfile"), ("endfile 11", "endfile"),
                ("flush (10)", "flush"), ("flush (unit = 10, iostat = %s)" % self.ivar(), "flush"),
                ("wait (10)", "wait"), ("wait (unit = 10, id = %s)" % self.ivar(), "wait"),
                ("inquire (unit = 10, exist = %s)" % self.ch(NAMES_LOG), "inquire"),
                ("inquire (file = %s, opened = %s, number = %s)" % (self.char_lit(), self.ch(NAMES_LOG), self.ivar()),
                 "inquire"),
                ("inquire (iolength = %s) %s, %s" % (self.ivar(), self.rvar(), self.aref()), "inquire"),
                ("return", "return"),
                ("rewind 10", "rewind"),
                ("print '(a, i3)', %s, %s" % (self.char_lit(), self.ivar()), "print"),
                ("read (5, *, end = 110, err = 120) %s, %s" % (self.rvar(), self.rvar()), "read"),
                ("write (*, '(a)', advance = 'no') %s" % self.char_lit(), "write"),
                ("write (unit = 6, fmt = 900) (aVec(%s), %s = 1, %s)" % ("iCnt", "iCnt", self.ivar()), "write"),
                ("data_assign = 0" if False else "%s = %s" % (self.rvar(), "sfun(%s)" % self.rexpr(1)), "assign"),
                ("call %s(%s = %s)" % ("subTwo", "argA", self.rexpr(1)), "call"),
                ("call objA%%tbSet(%s)" % self.rexpr(1), "call"),
                ("%s = %s%%fldB(%s)" % (self.rvar(), self.ch(NAMES_DT), self.iexpr(1)), "assign"),
                ("%s(%s:%s) = %s" % (self.ch(NAMES_CHR), self.int_lit(), self.int_lit(), self.char_lit()), "assign"),
                ("%s = [%s, %s]" % ("aVec(1:2)", self.rexpr(1), self.rexpr(1)) if self.std == "f2008"
                 else "%s = (/ %s, %s /)" % ("aVec(1:2)", self.rexpr(1), self.rexpr(1)), "assign"),
                ("%s = (/ (real(%s), %s = 1, 10) /)" % ("aVec", "iCnt", "iCnt"), "assign"),
                ("call subOne(*110, %s)" % self.rvar(), "call_alt_return"),
                ("allocate(real :: dynA(%s))" % self.ivar(), "allocate"),
                ("allocate(dynA(0:%s), dynB(-1:1))" % self.ivar(), "allocate"),
                ("stop %s" % self.ch(["3", "'msg'", "77"]), "stop"),
                ("read 900, %s" % self.rvar(), "read"),
                ("read *, %s, %s" % (self.rvar(), self.rvar()), "read"),
                ("%s = 1.0_wp * 2_8 + real(3_int32) - 4.5e0_8" % self.rvar(), "assign"),
                ("%s = .true._4 .or. .false." % self.ch(NAMES_LOG), "assign"),
                ("%s = ck_'abc' // 1_'d'" % self.ch(NAMES_CHR), "assign"),
                ("%s = fUser() + gCalc()" % self.rvar(), "assign"),
                ("write (*, *) (aVec(iCnt), iCnt = 1, %s, 2)" % self.ivar(), "write"),
                ("print *, ((bMat(iCnt, jIdx), iCnt = 1, 3), jIdx = 1, 9, 3)", "print"),
                ("forall (iCnt = 1:nMax:2, aVec(iCnt) > 0.0) aVec(iCnt) = %s" % self.rexpr(1), "forall_stmt"),
                ("aVec = (/ (real(iCnt), iCnt = 1, 20, 2) /)", "assign"),
                ("read (5, *) (aVec(iCnt), iCnt = %s, 10, 3)" % self.ivar(), "read"),
                ("ptrR(1:%s) => aVec" % self.ivar(), "bounds_remapping"),
                ("ptrR(2:) => cBuf", "bounds_spec"),
                ("deallocate(dynA, stat = %s)" % self.ivar(), "deallocate"),
                ("objA = typPoint(fldA = %s, fldB = 2.0)" % self.rexpr(1), "structure_constructor"),
                ("objA = typPoint(1.0, %s)" % self.rexpr(1), "structure_constructor"),
                ("%s = kind(xPos) + len(%s) + xPos%%kind" % (self.ivar(), self.ch(NAMES_CHR)), "type_param_inquiry"),
                ("%s = %s(2:4) // %s(:3) // %s(%s:)" % (self.ch(NAMES_CHR), "cName", "sTxt", "cName", self.ivar()), "substring"),
                ("%s = %s(%s:%s) // cName(1:1)" % ((self.ch(NAMES_CHR), "sTxt") + (self.ivar(),) * 2), "substring"),
                ("aVec(kk:kk) = bMat(iCnt + 1:iCnt + 1, jIdx:jIdx:1)", "array_section"),
                ("call objA%%pcmp(%s)" % self.rexpr(1), "proc_component_ref"),
                ("%s = cmplx(1.0, 2.0) * (0.5, -1.5e0)" % "cplxZ", "complex_literal"),
                ("%s = %s(1:%s:2) + %s(:)" % ("aVec(1:5)", "cBuf", "10", "aVec"), "array_section"),
                ("%s = bMat(1, :) * bMat(:, 2)" % "aVec", "array_section"),
                ("%s = iand(%s, z'ff')" % (self.ivar(), self.ivar()), "boz"),
                # logical IF with the less usual action statements
                ("if (%s) if (%s) %s" % (self.lexpr(0), self.rexpr(1), self.ch(["110, 120, 130", "120, 120, 130", "110, 110, 110"])), "if_stmt"),
                ("if (%s) go to (110, 120), %s" % (self.lexpr(0), self.ivar()), "if_stmt"),
                ("if (%s) where (aVec > 0.0) aVec = 1.0" % self.lexpr(0), "if_stmt"),
                ("if (%s) forall (iCnt = 1:3) aVec(iCnt) = 0.0" % self.lexpr(0), "if_stmt"),
                ("if (%s) allocate(dynA(2), stat = %s)" % (self.lexpr(0), self.ivar()), "if_stmt"),
                ("if (%s) open(unit = 13, file = 'cond.dat')" % self.lexpr(0), "if_stmt"),
                ("if (%s) read (5, *) %s" % (self.lexpr(0), self.rvar()), "if_stmt"),
                ("if (%s) return" % self.lexpr(0), "if_stmt"),
                ("if (%s) stop 'cond'" % self.lexpr(0), "if_stmt"),
                ("if (%s) %s => %s" % (self.lexpr(0), self.ch(NAMES_PTR), self.ch(NAMES_REAL)), "if_stmt"),
            ])
        return self.assign(), "assign"

    # ------------------------------------------------------------------ constructs
    def body(self, n, budget):
        for _ in range(n):
            self.exec_item(budget)

    def exec_item(self, budget):
        if self.in_where:
            self.emit("aVec = %s" % self.ch(["0.0", "aVec + 1.0", "abs(aVec)"]), kind="assign", simple_exec=True)
            return
        if self.in_forall:
            self.emit("aVec(iCnt) = %s" % self.rexpr(1), kind="assign", simple_exec=True)
            return
        if budget <= 0 or self.p(0.55):
            t, k = self.simple_exec()
            lab = self.newlabel() if self.p(0.08) else None      # an unreferenced statement label
            self.emit(t, kind=k, simple_exec=True, label=lab)
            return
        k = self.r.randrange(14)
        b = budget - 1
        if k == 0:
            self.if_construct(b)
        elif k == 1:
            self.do_block(b)
        elif k == 2:
            self.do_labelled(b)
        elif k == 3:
            self.select_case(b)
        elif k == 4:
            self.where_construct(b)
        elif k == 5:
            self.forall_construct(b)
        elif k == 6:
            self.associate(b)
        elif k == 7:
            self.do_while(b)
        elif k == 8:
            self.do_shared(b)
        elif k == 9 and self.std == "f2008":
            self.block_construct(b)
        elif k == 10 and self.std == "f2008":
            self.critical(b)
        elif k == 11 and self.std == "f2008":
            self.do_concurrent(b)
        elif k == 12:
            self.do_action_term(b)
        elif k == 13:
            self.select_type(b)
        else:
            self.if_construct(b)

    def select_type(self, b):
        c = self.newcid()
        nm = self.cname(["styJ"])
        self.emit(self.ch(["select type (objA)", "select type (assocV => objA)"]), name=nm, role="open",
                  kind="select_type", cid=c)
        guards = ["type is (typPoint)", "class is (typPoint)", "type is (integer)", "type is (real(kind = 8))",
                  "type is (character(len = *))"]
        self.r.shuffle(guards)
        for g in guards[: self.r.randrange(1, 4)]:
            self.emit(g + ((" " + nm) if nm and self.p(0.4) else ""), role="mid", kind="type_guard", cid=c)
            self.depth += 1
            self.body(self.r.randrange(1, 3), b)
            self.depth -= 1
        if self.p(0.5):
            self.emit("class default" + ((" " + nm) if nm and self.p(0.4) else ""), role="mid", kind="type_guard", cid=c)
            self.depth += 1
            self.body(1, b)
            self.depth -= 1
        self.emit("end select" + ((" " + nm) if nm else ""), role="close", kind="end_select_type", cid=c)

    def cname(self, pool):
        return self.ch(pool) if self.p(0.4) else None

    def if_construct(self, b):
        c = self.newcid()
        nm = self.cname(["chkC"])
        self.emit("if (%s) then" % self.lexpr(2), name=nm, role="open", kind="if_construct", cid=c,
                  label=self.newlabel() if self.p(0.2) else None)
        self.depth += 1
        self.body(self.r.randrange(1, 3), b)
        self.depth -= 1
        for _ in range(self.r.randrange(0, 3)):
            self.emit("else if (%s) then%s" % (self.lexpr(1), (" " + nm) if nm and self.p(0.5) else ""),
                      role="mid", kind="else_if", cid=c)
            self.depth += 1
            self.body(self.r.randrange(1, 3), b)
            self.depth -= 1
        if self.p(0.5):
            self.emit("else%s" % ((" " + nm) if nm and self.p(0.5) else ""), role="mid", kind="else", cid=c)
            self.depth += 1
            self.body(self.r.randrange(1, 3), b)
            self.depth -= 1
        self.emit("end if%s" % ((" " + nm) if nm else ""), role="close", kind="end_if", cid=c)

    def opt_comma(self):
        return "," if self.p(0.25) else ""

    def loop_ctl(self):
        v = self.ch(["iCnt", "jIdx", "kk"])
        s = "%s = %s, %s" % (v, self.ch(["1", "nMax", self.iexpr(1)]), self.ch(["nMax", "10", self.iexpr(1)]))
        if self.p(0.3):
            s += ", %s" % self.ch(["2", "-1", "mVal"])
        return s

    def do_block(self, b):
        c = self.newcid()
        nm = self.cname(["loopA", "loopB"])
        self.emit("do%s %s" % (self.opt_comma(), self.loop_ctl()), name=nm, role="open", kind="do_block", cid=c,
                  label=self.newlabel() if self.p(0.2) else None)
        self.loop_names.append(nm)
        self.depth += 1
        self.body(self.r.randrange(1, 4), b)
        self.depth -= 1
        self.loop_names.pop()
        self.emit("end do%s" % ((" " + nm) if nm else ""), role="close", kind="end_do", cid=c)

    def do_while(self, b):
        c = self.newcid()
        self.emit("do%s while (%s)" % (self.opt_comma(), self.lexpr(1)), role="open", kind="do_while", cid=c)
        self.loop_names.append(None)
        self.depth += 1
        self.body(self.r.randrange(1, 3), b)
        self.depth -= 1
        self.loop_names.pop()
        self.emit("end do", role="close", kind="end_do", cid=c)

    def do_labelled(self, b):
        c = self.newcid()
        lab = self.newlabel()
        nm = self.cname(["loopA"])
        self.emit("do %d%s %s" % (lab, self.opt_comma(), self.loop_ctl()), name=nm, role="open", kind="do_label", cid=c)
        self.loop_names.append(nm)
        self.depth += 1
        self.body(self.r.randrange(1, 3), b)
        self.depth -= 1
        self.loop_names.pop()
        if nm or self.p(0.5):
            self.emit("end do%s" % ((" " + nm) if nm else ""), label=lab, role="close", kind="end_do_label", cid=c)
        else:
            self.emit("continue", label=lab, role="close", kind="continue_term", cid=c)

    def do_shared(self, b):
        """two nested labelled DOs sharing one terminal CONTINUE"""
        c = self.newcid()
        lab = self.newlabel()
        self.emit("do %d iCnt = 1, nMax" % lab, role="open", kind="do_shared", cid=c)
        self.depth += 1
        self.emit("do %d jIdx = 1, 3" % lab, role="open", kind="do_shared", cid=c)
        self.loop_names.append(None)
        self.depth += 1
        self.body(self.r.randrange(1, 3), 0)
        self.depth -= 1
        self.loop_names.pop()
        self.depth -= 1
        self.emit("continue", label=lab, role="close", kind="continue_shared", cid=c)

    def do_action_term(self, b):
        """non-block DO terminated by a labelled action statement"""
        c = self.newcid()
        lab = self.newlabel()
        self.emit("do %d kk = 1, 5" % lab, role="open", kind="do_action", cid=c)
        self.depth += 1
        self.loop_names.append(None)
        self.body(self.r.randrange(0, 2), 0)
        self.loop_names.pop()
        self.depth -= 1
        term = self.ch(["%s = %s" % (self.rvar(), self.rexpr(1)),
                        "%s = %s" % (self.rvar(), self.rexpr(1)),
                        "if (%s) %s = %s" % (self.lexpr(1), self.rvar(), self.rexpr(1)),
                        "allocate(dynA(3), stat = %s)" % self.ivar(),
                        "open(unit = 12, file = 'term.dat')",
                        "call subOne(%s)" % self.rexpr(1),
                        "print *, %s" % self.rexpr(1)])
        self.emit(term, label=lab, role="close", kind="action_term", cid=c)

    def select_case(self, b):
        c = self.newcid()
        nm = self.cname(["selD"])
        if self.p(0.7):
            self.emit("select case (%s)" % self.ivar(), name=nm, role="open", kind="select_case", cid=c)
            cases = ["(1)", "(2, 3)", "(4:6)", "(:0)", "(10:)"]
        else:
            self.emit("select case (%s)" % self.ch(NAMES_CHR), name=nm, role="open", kind="select_case", cid=c)
            cases = ["('a')", "('b', 'c')", "(\"d\":\"f\")"]
        self.r.shuffle(cases)
        for cs in cases[: self.r.randrange(1, 4)]:
            self.emit("case %s%s" % (cs, (" " + nm) if nm and self.p(0.4) else ""), role="mid", kind="case", cid=c)
            self.depth += 1
            self.body(self.r.randrange(1, 3), b)
            self.depth -= 1
        if self.p(0.6):
            self.emit("case default%s" % ((" " + nm) if nm and self.p(0.4) else ""), role="mid", kind="case_default", cid=c)
            self.depth += 1
            self.body(1, b)
            self.depth -= 1
        self.emit("end select%s" % ((" " + nm) if nm else ""), role="close", kind="end_select", cid=c)

    def where_construct(self, b):
        c = self.newcid()
        nm = self.cname(["whE"])
        self.emit("where (aVec > %s)" % self.real_lit(), name=nm, role="open", kind="where_construct", cid=c)
        self.in_where += 1
        self.depth += 1
        self.body(self.r.randrange(1, 3), 0)
        self.depth -= 1
        if self.p(0.4):
            self.emit("elsewhere (aVec < -1.0)%s" % ((" " + nm) if nm and self.p(0.5) else ""), role="mid",
                      kind="masked_elsewhere", cid=c)
            self.depth += 1
            self.body(1, 0)
            self.depth -= 1
        if self.p(0.5):
            self.emit("elsewhere%s" % ((" " + nm) if nm and self.p(0.5) else ""), role="mid", kind="elsewhere", cid=c)
            self.depth += 1
            self.body(1, 0)
            self.depth -= 1
        self.in_where -= 1
        self.emit("end where%s" % ((" " + nm) if nm else ""), role="close", kind="end_where", cid=c)

    def forall_construct(self, b):
        c = self.newcid()
        nm = self.cname(["faF"])
        hdr = "forall (iCnt = 1:nMax%s)" % self.ch(["", ", aVec(iCnt) > 0.0", ":2"])
        self.emit(hdr, name=nm, role="open", kind="forall_construct", cid=c)
        self.in_forall += 1
        self.depth += 1
        self.body(self.r.randrange(1, 3), 0)
        self.depth -= 1
        self.in_forall -= 1
        self.emit("end forall%s" % ((" " + nm) if nm else ""), role="close", kind="end_forall", cid=c)

    def associate(self, b):
        c = self.newcid()
        nm = self.cname(["asG"])
        self.emit("associate (assocV => %s)" % self.ch([self.rexpr(1), "aVec(1:3)", "objA%fldA"]),
                  name=nm, role="open", kind="associate", cid=c)
        self.depth += 1
        self.body(self.r.randrange(1, 3), b)
        self.depth -= 1
        self.emit("end associate%s" % ((" " + nm) if nm else ""), role="close", kind="end_associate", cid=c)

    def block_construct(self, b):
        c = self.newcid()
        nm = self.cname(["blkH"])
        self.emit("block", name=nm, role="open", kind="block_construct", cid=c, feats=("f2008",))
        self.depth += 1
        if self.p(0.6):
            self.emit("integer :: %s" % self.ch(["tmpI", "locJ"]), kind="decl", feats=("f2008",))
        self.body(self.r.randrange(1, 3), b)
        self.depth -= 1
        self.emit("end block%s" % ((" " + nm) if nm else ""), role="close", kind="end_block", cid=c, feats=("f2008",))

    def critical(self, b):
        c = self.newcid()
        nm = self.cname(["critI"])
        self.emit("critical", name=nm, role="open", kind="critical", cid=c, feats=("f2008",))
        self.depth += 1
        self.body(self.r.randrange(1, 3), 0)
        self.depth -= 1
        self.emit("end critical%s" % ((" " + nm) if nm else ""), role="close", kind="end_critical", cid=c, feats=("f2008",))

    def do_concurrent(self, b):
        c = self.newcid()
        self.emit("do concurrent (iCnt = 1:nMax)", role="open", kind="do_concurrent", cid=c, feats=("f2008",))
        self.depth += 1
        self.loop_names.append(None)
        self.emit("aVec(iCnt) = %s" % self.rexpr(1), kind="assign", simple_exec=True)
        self.loop_names.pop()
        self.depth -= 1
        self.emit("end do", role="close", kind="end_do", cid=c, feats=("f2008",))

    # ------------------------------------------------------------------ specification part
    def spec_part(self, with_use=None, f2008_decl=False):
        if with_use:
            for u in with_use:
                if self.p(0.5):
                    self.emit("use %s" % u, kind="use")
                else:
                    self.emit("use %s, only: %s" % (u, self.ch(["nShared", "nShared, localR => rShared"])), kind="use_only")
        if self.p(0.12):
            t = self.ch(["use, intrinsic :: iso_c_binding, only: c_int, c_double",
                         "use, intrinsic :: iso_fortran_env", "use, non_intrinsic :: userMod, only: opr => myop",
                         "use :: iso_c_binding, only: operator(+), assignment(=)",
                         "use :: userMod, only: read(formatted), write(unformatted), nShared"])
            self.emit(t, kind="use_operator" if "operator" in t else "use_nature")
        r0 = self.r.random()
        if r0 < 0.65:
            self.emit("implicit none", kind="implicit")
        elif r0 < 0.85:
            self.emit(self.cyc(["implicit real (a-h, o-z)", "implicit integer (i-n), real (a-h, o-z)",
                               "implicit double precision (d), complex (z)", "implicit real(kind = 8) (a-c, x)",
                               "implicit character(len = 4) (s), logical (l)", "implicit type(typPoint) (t)"]),
                      kind="implicit_spec")
        self.emit("integer :: %s" % ", ".join(NAMES_INT), kind="decl")
        self.emit("real :: %s" % ", ".join(NAMES_REAL), kind="decl")
        self.emit("real, dimension(10) :: aVec, cBuf", kind="decl")
        self.emit("real :: bMat(10, 10)", kind="decl")
        self.emit("logical :: %s" % ", ".join(NAMES_LOG), kind="decl")
        self.emit("character(len = 10) :: %s" % ", ".join(NAMES_CHR), kind="decl")
        self.emit("real, pointer :: pRef", kind="decl")
        self.emit("real, allocatable :: dynA(:)", kind="decl")
        if self.p(0.7):
            c = self.newcid()
            self.emit("type :: typPoint", role="open", kind="derived_type", cid=c)
            self.depth += 1
            if self.p(0.2):
                self.emit(self.ch(["sequence", "private"]), kind="type_attr_stmt")
            self.emit("real :: fldA", kind="component")
            self.emit("real :: fldB(3)", kind="component")
            if self.p(0.2):
                self.emit("character :: cmpS*5, cmpT(2)*3", kind="component")
            if self.p(0.3):
                self.emit("integer, pointer :: nxt => null()", kind="component")
            if self.p(0.35):
                self.emit("real :: cmpI = %s" % self.ch(["1.0e-6", "(2.0 + 1.5d0) * 3.0", "max(1.0, 2.5e+1)", "-0.5"]),
                          kind="component_init")
            if self.p(0.25):
                self.emit("real :: cmpJ(3) = (/1.0, 2.0e0, 3.0/)", kind="component_init")
            if self.p(0.25):
                self.emit("character(len = 20) :: cmpK = %s" % self.ch(["'hello, world'", "\"it's (x)\"", "'a''b c'"]),
                          kind="component_init")
            if self.std == "f2008" and self.p(0.25):
                self.emit("real, contiguous, pointer :: cmpC(:)", kind="component", feats=("f2008",))
            if self.std == "f2008" and self.p(0.15):
                self.emit("integer, allocatable, codimension[:] :: cmpD", kind="component", feats=("f2008",))
            self.depth -= 1
            self.emit("end type typPoint", role="close", kind="end_type", cid=c)
        else:
            c = self.newcid()
            self.emit("type typPoint", role="open", kind="derived_type", cid=c)
            self.depth += 1
            self.emit("real :: fldA, fldB", kind="component")
            self.depth -= 1
            self.emit("end type", role="close", kind="end_type", cid=c)
        self.emit("type(typPoint) :: objA", kind="decl")
        if self.p(0.2):
            c = self.newcid()
            self.emit("enum, bind(c)", role="open", kind="enum", cid=c)
            self.depth += 1
            self.emit("enumerator :: eRed = %s, eGreen" % self.ch(["1", "(2 + 1) * 2", "ishft(1, 3)"]), kind="enumerator")
            if self.p(0.5):
                self.emit("enumerator eBlue", kind="enumerator")
            self.depth -= 1
            self.emit("end enum", role="close", kind="end_enum", cid=c)
        if self.p(0.2):
            c = self.newcid()
            self.emit(self.ch(["type :: tBound", "type, extends(typPoint) :: tBound", "type, abstract :: tBound"]),
                      role="open", kind="derived_type", cid=c)
            self.depth += 1
            self.emit("integer :: cnt = 0", kind="component")
            if self.p(0.5):
                self.emit("procedure(procP), pointer, nopass :: pcmp => null()", kind="proc_component")
            self.depth -= 1
            self.emit("contains", role="mid", kind="type_contains", cid=c)
            self.depth += 1
            if self.p(0.3):
                self.emit("private", kind="binding_private")
            self.emit("procedure :: tbGet => subOne", kind="specific_binding")
            self.emit(self.ch(["procedure, pass(argA) :: tbSet", "procedure, nopass, public :: tbSet => subTwo",
                               "procedure(procP), deferred :: tbSet"]), kind="specific_binding")
            if self.p(0.6):
                self.emit(self.ch(["generic :: tbGen => tbGet, tbSet", "generic :: tbGen =>tbGet, tbSet", "generic, public :: operator(+) => tbGet",
                                   "generic :: assignment(=) => tbSet"]), kind="generic_binding")
            if self.p(0.4):
                self.emit("final :: subTwo", kind="final_binding")
            self.depth -= 1
            self.emit("end type tBound", role="close", kind="end_type", cid=c)
        self.has_tpar = False
        if self.p(0.15):
            self.has_tpar = True
            c = self.newcid()
            self.emit("type :: tPar(kp, np)", role="open", kind="derived_type", cid=c)
            self.depth += 1
            self.emit(self.ch(["integer, kind :: kp = 4", "integer(kind = 4), kind :: kp = 4"]), kind="type_param_def")
            self.emit("integer, len :: np", kind="type_param_def")
            self.emit("real(kind = kp) :: vals(np)", kind="component")
            self.depth -= 1
            self.emit("end type tPar", role="close", kind="end_type", cid=c)
        extras = [
            ("integer, parameter :: kPar = %s" % self.int_lit(), "parameter_attr"),
            ("real(kind = 8) :: dblV", "decl_kind"),
            ("double precision :: dp2", "decl"),
            # old-style declarations: no double colon, no attributes
            ("double precision dpOldA, dpOldB(3)", "decl_old"),
            ("real rOldA, rOldB(2, 2)", "decl_old"),
            ("integer iOldA", "decl_old"),
            ("character*8 cOldA, cOldB*4", "decl_old"),
            ("logical lOldA(5)", "decl_old"),
            ("complex zOldA", "decl_old"),
            ("complex :: cplxZ", "decl"),
            ("integer(kind = 4), dimension(3) :: ivA = (/ 1, 2, 3 /)", "decl_init"),
            ("real, save :: svR = 1.0e-3", "decl_init"),
            ("character(len = *), parameter :: cPar = %s" % self.char_lit(), "decl_char"),
            # a kind selector with a literal / parenthesised text in it; a parenthesised character length with initialisation
            ("character(kind = kind('a')) :: cKnd", "decl_char"),
            ("character(len = len('a b'), kind = kind(\"q\")) :: cKnl", "decl_char"),
            ("character :: sIni*(2 + 1) = 'abc', sInj*4 = %s" % self.char_lit(), "decl_char"),
            ("parameter (nPar = 5)", "parameter_stmt"),
            ("parameter (rPar = (1.0e-3 + 2.0) * 4.0, sPar = 'a b, c')", "parameter_stmt"),
            ("dimension eArr(5)", "dimension_stmt"),
            ("common /cmnBlk/ cmA, cmB", "common"),
            ("data iCnt /0/", "data"),
            ("data xPos, yVal /1.0, 2.0e0/", "data"),
            ("save zz", "save"),
            ("external fUser, gCalc", "external"),
            ("intrinsic sin, cos", "intrinsic"),
            ("namelist /nmlGrp/ iCnt, xPos", "namelist"),
            ("equivalence (eqA, eqB)", "equivalence"),
            ("integer, target :: tgtI", "decl"),
            ("real, intent(in), optional :: optR", None),
            ("allocatable :: dynB(:), dynC", "allocatable_stmt"),
            ("asynchronous :: xPos", "asynchronous_stmt"),
            ("volatile :: yVal, zz", "volatile_stmt"),
            ("target :: wRk, aVec", "target_stmt"),
            ("pointer :: ptrQ, ptrR(:)", "pointer_stmt"),
            ("bind(c, name = 'c_blk') :: /cmnBlk/", "bind_stmt"),
            ("procedure(procP), pointer :: ppA => null()", "procedure_decl"),
            ("procedure(real) :: prB", "procedure_decl"),
            ("pointer (ipt, arrP)", "cray_pointer"),
            ("integer, dimension(2, 3) :: ishp = reshape((/ 1, 2, 3, 4, 5, 6 /), (/ 2, 3 /))", "decl_init"),
            ("character(len = 3), dimension(2) :: cTab = (/ 'abc', 'd''f' /)", "decl_char"),
            ("real, dimension(:, :), allocatable :: grid2", "decl"),
            ("integer(kind = selected_int_kind(9)) :: bigI", "decl_kind"),
            ("real :: asz(*)", "assumed_size"),
            ("real :: asB(2:, :)", "assumed_shape"),
            ("target :: tgA(3), tgB(2, 2)", "target_stmt"),
            ("character(len = 3) :: cArr(2)*5, cOne*(2)", "char_length"),
            ("real :: asz2(2, 0:*)", "assumed_size"),
            ("character*10 :: cOld", "char_length"),
            ("character :: cLen*5, cLen2*(*)", "char_length"),
            ("character(10, kind = 1) :: cSel", "char_selector"),
            ("character(len = 5, kind = 1) :: cSel2", "char_selector"),
            ("character(len = *, kind = 1) :: cSel3", "char_selector"),
            ("complex, parameter :: cZ = (1.0, -2.0e0)", "complex_literal"),
            ("integer, parameter :: bozK = b'1010' + o'17' + z'1f'", "boz"),
            ("data (aVec(iCnt), iCnt = 1, 5) /5*0.0/", "data_implied_do"),
            ("data (cBuf(iCnt), iCnt = 1, 9, 2) /5*1.0/", "data_implied_do"),
            ("data ((bMat(iCnt, jIdx), iCnt = 1, 6, 3), jIdx = 2, 4, 2) /4*2.5/", "data_implied_do"),
            ("data ((bMat(iCnt, jIdx), iCnt = 1, 2), jIdx = 1, 3) /6*1.5/", "data_implied_do"),
            ("data kk, mVal /-1, +2/", "data_signed"),
            ("data nMax, tmpR /-1_8, +2.5_wp/", "data_signed"),
            ("data zz /-1.5e0/, wRk /+.5/", "data_signed"),
            ("real, pointer :: pNul => null()", "null_init"),
            ("save /cmnBlk/, svQ", "saved_entity"),
            ("integer, dimension(-1:1, 0:2) :: lbArr", "explicit_shape"),
            ("real, dimension(:), pointer :: ptrV", "deferred_shape"),
        ]
        if self.has_tpar:
            extras += [("type(tPar(4, 10)) :: parV", "type_param_spec"), ("type(tPar(np = 3)) :: parW", "type_param_spec")]
        if self.unit_kind in ("subroutine", "function"):
            extras += [("intent(in) :: argA", "intent_stmt"), ("optional :: argB", "optional_stmt"),
                       ("value :: argB", "value_stmt")]
        if self.unit_kind == "module":
            extras += [("protected :: nShared", "protected_stmt")]
        if f2008_decl and self.std == "f2008":
            extras += [("real, contiguous, pointer :: cgP(:)", "contiguous"),
                       ("integer, codimension[*] :: coI", "codimension"),
                       ("real, codimension[2, 0:1, *] :: coR(3)", "codimension"),
                       ("real, allocatable, codimension[:, :] :: coA(:)", "codimension")]
        # a rotating window over the list (shuffling left a third of the forms out of 100 programs)
        nx = self.r.randrange(3, 8)
        x0 = self.cyc_e % len(extras)
        self.cyc_e += nx
        picked = [extras[(x0 + j) % len(extras)] for j in range(min(nx, len(extras)))]
        self.r.shuffle(picked)
        for t, k in picked:
            if k is None:
                continue
            fe = ("f2008",) if k in ("contiguous", "codimension") else ()
            self.emit(t, kind=k, feats=fe)
        if self.p(0.35):
            c = self.newcid()
            gen = self.p(0.5)
            self.emit("interface%s" % (" ifaceG" if gen else ""), role="open", kind="interface", cid=c)
            self.depth += 1
            c2 = self.newcid()
            self.emit("subroutine procP(argA)", role="open", kind="iface_sub", cid=c2)
            self.depth += 1
            if self.p(0.4):
                self.emit(self.ch(["import :: typPoint", "import typPoint", "import"]), kind="import")
            self.emit("real, intent(inout) :: argA", kind="decl")
            self.depth -= 1
            self.emit("end subroutine procP", role="close", kind="end_subroutine", cid=c2)
            if gen and self.p(0.5):
                self.emit(self.ch(["module procedure subOne", "module procedure subOne, subTwo", "procedure subTwo"]
                                  if self.std == "f2008" else ["module procedure subOne", "module procedure subOne, subTwo"]),
                          kind="procedure_stmt")
            self.depth -= 1
            self.emit("end interface%s" % (" ifaceG" if gen else ""), role="close", kind="end_interface", cid=c)
        if self.p(0.3):
            self.emit(self.ch(["format (1x, a, i5, f10.3, 2(e12.4, 1x))",
                               "format (i5, 2x, f8.3, /, t10, a, :, 1p, e12.4, sp, i3, ss, i4)",
                               "format (bn, i4, bz, i4, tl2, tr3, 3(1x, i2), '(lit)', //, a10)",
                               "format ('it''s', 1x, es12.4e2, en10.3, g12.5, l2, b8.4, o6, z8, d10.3)",
                               "format (e10.3e2, g12.5e3, 2p, f8.2, a, i0, f0.3, 1x, i5.3)",
                               "format (2(1x, 3(i2, ','), a), dc, f6.2, dp, ru, f6.2, rz, f5.1)",
                               "format (dt, dt'pnt', dt'pnt'(3, -2), dt(10, 2), 2dt(4), i3, 3(dt(12, 4), 2x))",
                               "format (i3.2, b8.8, o4.1, z6.6, a5, l1, 2x, f0.0, e15.7e3, en12.3, es9.2, g10.3e2)"]),
                      label=900, kind="format")
        if self.p(0.12):
            self.emit("sfun(zz) = zz * 2.0 + %s" % self.real_lit(), kind="stmt_function")

    def exec_part(self, n=None):
        n = n if n is not None else max(1, int(self.r.randrange(2, 7) * self.size))
        self.body(n, 2)

    # ------------------------------------------------------------------ program units
    def subprogram(self, kind, name, internal_ok=True):
        c = self.newcid()
        if kind == "subroutine":
            args = self.ch(["", "(argA)", "(argA, argB)", "()"])
            pre = self.ch(["", "", "recursive ", "pure "]) if not args == "" else ""
            suf = self.ch(["", "", "", " bind(c)", " bind(c, name = 'cSub')"]) if args not in ("",) else ""
            self.emit("%ssubroutine %s%s%s" % (pre, name, args, suf), role="open", kind="subroutine", cid=c)
        else:
            pre = self.ch(["", "real ", "integer ", "recursive ", "elemental ", "real(wp) ", "character(10) ",
                           "integer(kind=4) ", "real(8) ", "pure real(wp) ", "double precision "])
            res = self.ch(["", "", " result(resV)", " result(resV)", " result(resV) bind(c)",
                           " bind(c, name = 'cFun')"])
            if "elemental" in pre and "bind" in res:
                res = " result(resV)"
            self.emit("%sfunction %s(argA)%s" % (pre, name, res), role="open", kind="function", cid=c)
        self.depth += 1
        saved = self.unit_kind
        self.unit_kind = kind
        self.spec_part()
        self.emit("real :: argA, argB", kind="decl")
        if internal_ok and self.p(0.35):
            self.emit(self.cyc(["entry altE(argA)", "entry altE", "entry altE()", "entry altE() bind(c, name = \"Alt_E\")"])
                      if kind == "subroutine"
                      else self.cyc(["entry altE(argA)", "entry altE(argA) result(resW)", "entry altE() result(resW)",
                                    "entry altE() bind(c)"]), kind="entry")
        self.exec_part()
        if self.p(0.3):
            self.emit("return" if kind != "subroutine" or self.p(0.7) else "return %s" % self.ch(["1", "kk + 1"]),
                      kind="return", simple_exec=True)
        if internal_ok and self.p(0.25):
            self.depth -= 1
            self.emit("contains", role="mid", kind="contains", cid=c)
            self.depth += 1
            self.subprogram(self.ch(["subroutine", "function"]), self.ch(["innerS", "innerF"]), internal_ok=False)
        self.unit_kind = saved
        self.depth -= 1
        style = self.r.randrange(3)
        if style == 0:
            self.emit("end %s %s" % (kind, name), role="close", kind="end_" + kind, cid=c)
        elif style == 1 and not internal_ok:
            self.emit("end %s" % kind, role="close", kind="end_" + kind, cid=c)
        else:
            self.emit("end %s %s" % (kind, name), role="close", kind="end_" + kind, cid=c)

    def module(self, name):
        c = self.newcid()
        self.emit("module %s" % name, role="open", kind="module", cid=c)
        self.depth += 1
        self.unit_kind = "module"
        self.emit("implicit none", kind="implicit")
        self.emit("integer :: nShared", kind="decl")
        self.emit("real, save :: rShared = %s" % self.real_lit(), kind="decl_init")
        if self.p(0.5):
            self.emit("private", kind="access")
            self.emit("public :: nShared, rShared", kind="access")
        if self.p(0.3):
            self.emit("protected :: nShared", kind="protected_stmt")
        if self.p(0.4):
            c2 = self.newcid()
            self.emit("type, public :: tBase", role="open", kind="derived_type", cid=c2)
            self.depth += 1
            self.emit("integer :: fldA = 0", kind="component")
            self.depth -= 1
            self.emit("end type tBase", role="close", kind="end_type", cid=c2)
        if self.p(0.7):
            self.depth -= 1
            self.emit("contains", role="mid", kind="contains", cid=c)
            self.depth += 1
            for k in range(self.r.randrange(1, 3)):
                self.subprogram(self.ch(["subroutine", "function"]), ["subOne", "funcF"][k])
        self.depth -= 1
        self.emit("end module %s" % name, role="close", kind="end_module", cid=c)

    def main_program(self, uses):
        c = self.newcid()
        self.emit("program progMain", role="open", kind="program", cid=c)
        self.depth += 1
        self.unit_kind = "program"
        self.spec_part(with_use=uses, f2008_decl=True)
        self.exec_part(max(2, int(self.r.randrange(3, 10) * self.size)))
        if self.p(0.3):
            self.emit("stop", kind="stop", simple_exec=True)
        if self.std == "f2008" and self.p(0.2):
            self.emit("if (%s) error stop %s" % (self.lexpr(0), self.ch(["1", "'bad'"])), kind="error_stop",
                      feats=("f2008",))
        if self.p(0.3):
            self.depth -= 1
            self.emit("contains", role="mid", kind="contains", cid=c)
            self.depth += 1
            self.subprogram(self.ch(["subroutine", "function"]), self.ch(["innerS", "innerF"]), internal_ok=False)
        self.depth -= 1
        self.emit(self.ch(["end program progMain", "end program progMain", "end program"]), role="close",
                  kind="end_program", cid=c)

    def block_data(self):
        c = self.newcid()
        self.emit("block data blkDat", role="open", kind="block_data", cid=c)
        self.depth += 1
        self.emit("common /cmnBlk/ cmA, cmB", kind="common")
        self.emit("data cmA, cmB /1.0, 2.0/", kind="data")
        self.depth -= 1
        self.emit("end block data blkDat", role="close", kind="end_block_data", cid=c)

    def submodule(self):
        c = self.newcid()
        self.emit("submodule (modAlpha) smodX", role="open", kind="submodule", cid=c, feats=("f2008",))
        self.depth += 1
        self.emit("integer :: hidN", kind="decl")
        self.depth -= 1
        self.emit("end submodule smodX", role="close", kind="end_submodule", cid=c, feats=("f2008",))

    def program(self):
        uses = []
        n_units = self.r.randrange(1, 4)
        kinds = []
        if self.p(0.5):
            kinds.append("module")
        for _ in range(n_units - 1):
            kinds.append(self.ch(["ext_sub", "ext_func", "module2", "block_data"] + (["submodule"] if self.std == "f2008" else [])))
        main_at = self.r.randrange(0, len(kinds) + 1)
        mods = 0
        for i, k in enumerate(kinds[:main_at] + ["main"] + kinds[main_at:]):
            if k == "module":
                self.module("modAlpha")
                uses.append("modAlpha")
            elif k == "module2":
                if "modBeta" not in uses and mods == 0:
                    self.module("modBeta")
                    mods += 1
            elif k == "ext_sub":
                self.subprogram("subroutine", "subTwo")
            elif k == "ext_func":
                self.subprogram("function", "funcG")
            elif k == "block_data":
                self.block_data()
            elif k == "submodule":
                if "modAlpha" in uses:
                    self.submodule()
            else:
                self.main_program([u for u in uses])
        return self.out


def gen_program(seed, std="f2003", size=1.0):
    g = Gen(random.Random(seed), std=std, size=size)
    stmts = g.program()
    return stmts, g.used_feats


def render(stmts, indent=True):
    return "\n".join(s.line() if indent else s.line("") for s in stmts) + "\n"


def uses_f2008(stmts):
    return any("f2008" in s.feats for s in stmts)
