#!/bin/sh
# usage: run_all.sh [tier]  -- runs every check of MANIFEST.json in sequence, prints one verdict line per property
TIER="${1:-quick}"
cd "$(dirname "$0")/.."
for P in C01 C02 C03 C04 C05 C06 C07 C08 C09 C10 C11 C12 C13 C14 C15 C16 C17 C18 C19 C20; do
  START=$(date +%s)
  OUT=$(/venv/bin/python tools/check.py $P --tier $TIER 2>&1)
  RC=$?
  echo "$P rc=$RC $(( $(date +%s) - START ))s :: $(echo "$OUT" | grep -c '^VIOLATION') violations, $(echo "$OUT" | grep -c '^KNOWN-FINDING') known :: $(echo "$OUT" | tail -1 | cut -c1-160)"
  echo "$OUT" | grep '^VIOLATION' | head -3
done
