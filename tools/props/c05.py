"""C05 -- fixed-form source is recognised and parses like its free-form equivalent."""
import random
import subprocess

import common
import gen
import layout
import pool

TARGETS = ["Properties/C05.vo"]

F11_SRC = "call foo\n      end\n"
F_INDENTED_BANG = "      program p\n  ! indented comment\n      x = 1\n      end\n"
F10_SRC = "      program p\n      character(len=10) :: s\n      s = 'ab" + " " * 55 + "\n     &cd'\n      end\n"


def model_detect(cases):
    import reader_corr
    inp = []
    for lines in cases:
        inp.append("DT %d" % len(lines))
        inp += [l.encode("latin-1", "replace").hex() for l in lines]
    p = subprocess.run([reader_corr.SLDRIVER], input="\n".join(inp) + "\nQUIT\n", capture_output=True, text=True,
                       timeout=300)
    return [r.strip() for r in p.stdout.split("\n") if r.strip()]


def real_detect(lines):
    import fp
    from fparser.common.sourceinfo import get_source_info_str
    f = get_source_info_str("\n".join(lines) + "\n")
    return "free" if f.is_free else "fixed"


def fixed_variants(st, rng):
    return layout.fixed_layout(st, rng, gen.USER_NAMES, wrap=rng.choice([72, 72, 60, 40, 30]),
                               contc=rng.choice("&1$x+.2"), cmt=rng.choice("Cc*!"),
                               label_style=rng.choice(["left", "right", "mid", "spaced"]), comments=True,
                               p_comment=rng.choice([0.0, 0.2]))


def no_blank_before_wrap(L):
    """a physical line that will be continued must not end with blanks (they are stripped: finding F10);
    comment lines between the line and its continuation do not change that"""
    n = len(L.lines)
    for k, l in enumerate(L.lines[:-1]):
        if l == l.rstrip():
            continue
        j = k + 1
        while j < n and (L.lines[j][:1] in ("C", "c", "*", "!") or not L.lines[j].strip()):
            j += 1
        if j < n:
            nxt = L.lines[j]
            if len(nxt) > 5 and nxt[:5] == "     " and nxt[5] not in " 0":
                return False
    return True


def check_program(arg):
    std, seed, v = arg
    import fp
    from fparser.common.sourceinfo import get_source_info_str
    st, _ = gen.gen_program(seed, std, size=0.5)
    canon = gen.render(st)
    ref = fp.parse(canon, std=std, ignore_comments=True)
    if ref.kind != "tree":
        return [("generator", "canonical program rejected", dict(source=canon))]
    rng = random.Random(seed * 17 + v)
    fails = []
    L = fixed_variants(st, rng)
    # a line ending in '&' makes the detector answer free (proved necessary side condition): avoid it
    if any(l.rstrip().endswith("&") for l in L.lines) or not no_blank_before_wrap(L):
        return []
    src = L.text()
    rep = dict(std=std, source=src, canonical=canon)
    fmt = get_source_info_str(src)
    if fmt.is_free:
        fails.append(("fixed_detected_as_free", "a fixed-form rendering is detected as free form", rep))
    rd = fp.FortranStringReader(src, ignore_comments=True)
    o = fp.parse(src, std=std, rd=rd)
    if rd.format.mode != "fix":
        fails.append(("reader_mode", "reader mode after reading is %s" % rd.format.mode, rep))
    if o.kind != "tree":
        fails.append(("fixed_rejected", "fixed-form rendering rejected: %s line %s" % (o.kind, o.line), rep))
    elif fp.canon_repr(o.tree) != fp.canon_repr(ref.tree):
        a, b = fp.canon_repr(o.tree), fp.canon_repr(ref.tree)
        i = next(k for k in range(min(len(a), len(b))) if a[k] != b[k])
        fails.append(("tree_differs", "tree(F(P)) != tree(free(P)) near %r vs %r" % (a[max(0, i - 50):i + 40],
                                                                                      b[max(0, i - 50):i + 40]), rep))
    elif fp.renumber_blocks(str(o.tree)) != fp.renumber_blocks(str(ref.tree)):
        la, lb = fp.renumber_blocks(str(o.tree)).split("\n"), fp.renumber_blocks(str(ref.tree)).split("\n")
        d = [(x, y) for x, y in zip(la, lb) if x != y][:2]
        fails.append(("text_differs", "the fixed and the free rendering regenerate different text (labels, construct names "
                      "are carried by the items): %r" % (d,), rep))
    # the detection must not depend on where the source comes from, nor on its length: the same texts (also
    # with a long comment header, and the fixed one repeated to several kilobytes) through a file
    import os, shutil, tempfile
    from fparser.common.sourceinfo import get_source_info
    d = tempfile.mkdtemp(prefix="verif_c05_")
    try:
        header_free = "".join("! %s\n" % ("header line %d " % k * 3) for k in range(90))
        header_fix = "".join("C %s\n" % ("header line %d " % k * 3) for k in range(90))
        texts = [("fixed", src), ("fixed_long_header", header_fix + src), ("fixed_x3", src * 3 if len(src) > 1500 else src * 6),
                 ("free", canon), ("free_long_header", header_free + canon)]
        for tag, text in texts:
            pth = os.path.join(d, "prog_%s.f90" % tag)          # neutral extension: content decides
            with open(pth, "w") as fh:
                fh.write(text)
            a = get_source_info_str(text)
            b = get_source_info(pth)
            with open(pth) as fh:
                c = get_source_info(fh)
            if (a.is_free, a.is_strict) != (b.is_free, b.is_strict) or (a.is_free, a.is_strict) != (c.is_free, c.is_strict):
                fails.append(("file_detection_differs:" + tag, "detected from the string: free=%s, from the file name: free=%s, "
                              "from the file object: free=%s" % (a.is_free, b.is_free, c.is_free),
                              dict(std=std, source=text, variant=tag)))
            elif a.is_free != tag.startswith("free"):
                fails.append(("wrong_format:" + tag, "%s source detected as free=%s" % (tag, a.is_free),
                              dict(std=std, source=text, variant=tag)))
        # the format is a function of the TEXT, not of the path it is read from nor of what was read from that path
        # before: the fixed rendering, the free rendering and the fixed one again through one and the same file name
        pth = os.path.join(d, "same_path.f90")
        for step, (tag, text) in enumerate((("fixed", src), ("free", canon), ("fixed", src))):
            with open(pth, "w") as fh:
                fh.write(text)
            rdf = fp.FortranFileReader(pth, ignore_comments=True)
            o2 = fp.parse(text, std=std, rd=rdf)
            want_mode = "free" if tag == "free" else "fix"
            if rdf.format.mode != want_mode or o2.kind != "tree" or fp.canon_repr(o2.tree) != fp.canon_repr(ref.tree):
                fails.append(("same_path_reuse:%d:%s" % (step, tag), "read %d through one path: mode %s (expected %s), %s"
                              % (step + 1, rdf.format.mode, want_mode, o2.kind), dict(std=std, source=text, variant="same_path")))
                break
    finally:
        shutil.rmtree(d, ignore_errors=True)
    # free rendering whose first statement starts in columns 1-5 with a character other than c, C, *
    if not st[0].text[:1].lower() in ("c", "*", "!"):
        ind = rng.randrange(0, 5)
        fsrc = " " * ind + canon.lstrip()
        if not get_source_info_str(fsrc).is_free:
            fails.append(("free_detected_as_fixed", "first statement in column %d, detected as fixed" % (ind + 1),
                          dict(std=std, source=fsrc)))
    return fails


def run(ctx):
    proof = common.leg_p(ctx, TARGETS)
    import reader_corr
    rng = ctx.rng
    cases = []
    dcases = []
    for k in range(ctx.n(80, 1500)):
        st, _ = gen.gen_program(ctx.seed * 67 + k, ("f2003", "f2008")[k % 2], size=0.5)
        L = fixed_variants(st, random.Random(ctx.seed + k))
        cases.append((L.lines, 0, 0, k % 2))
        dcases.append(L.lines)
        dcases.append(gen.render(st).split("\n")[:-1])
    AL = list("cC*! 12ax&'") + ["      ", "     &", "call ", "  x", "10 "]
    for k in range(ctx.n(600, 20000)):
        dcases.append(["".join(rng.choice(AL) for _ in range(rng.randrange(0, 9))) for _ in range(rng.randrange(1, 4))])
    corr = reader_corr.corr_cases(cases)
    md = model_detect(dcases)
    dis = [dict(lines=l, model=m, impl=real_detect(l)) for l, m in zip(dcases, md) if m != real_detect(l)]
    if len(md) != len(dcases):
        dis.append(dict(harness="detect driver returned %d answers for %d cases" % (len(md), len(dcases))))
    corr["cases"] += len(dcases)
    corr["detect_cases"] = len(dcases)
    corr["disagreements"] += dis
    corr["distinct"] = len(set(tuple(c) for c in dcases))
    corr["samples"] = [dict(lines=dcases[-1])]
    jobs = [(("f2003", "f2008")[k % 2], ctx.seed * 71 + k // 3, k % 3) for k in range(ctx.n(150, 5000))]
    failures = []
    for job, (st, r) in zip(jobs, pool.pmap(check_program, jobs, chunksize=6)):
        if st != "ok":
            failures.append(("harness_error", r[:300], dict(job=job)))
        else:
            failures += [(s, d, dict(rep, job=list(job))) for s, d, rep in r]
    import fp
    from fparser.common.sourceinfo import get_source_info_str
    if not get_source_info_str(F11_SRC).is_free:
        failures.append(("free_start_with_letter_c", "recorded finding still present", dict(source=F11_SRC)))
    if get_source_info_str(F_INDENTED_BANG).is_free:
        failures.append(("indented_bang_comment_detected_free", "recorded finding still present",
                         dict(source=F_INDENTED_BANG)))
    o = fp.parse(F10_SRC, std="f2003")
    if o.kind == "tree" and "'ab" + " " * 55 + "cd'" not in str(o.tree):
        failures.append(("literal_blanks_before_wrap_lost", "recorded finding still present", dict(source=F10_SRC)))
    e2e = dict(cases=len(jobs) + 3, distinct=len(set(jobs)), failures=failures,
               rule="generated programs rendered in fixed form (wrap column 30-72 cutting anywhere, continuation "
                    "character, comment style C/c/*/!, label placement, comment lines between continuation lines): "
                    "detected as fixed, reader stays in fix mode, tree == tree of the free form; free renderings with "
                    "the first statement in columns 1-5: detected as free",
               samples=[dict(job=list(jobs[0]))])
    return common.finish(ctx, proof, corr, e2e, extra_assumptions=[
        "proved: exact characterisation of the detector by line shape (both directions, with the necessary '&' side "
        "condition and the refuted unconditional wording); equivalence of fixed-form and free-form reading is not a "
        "theorem: it is the reader correspondence on fixed-form layouts plus the end-to-end tree comparison"])


def replay(ctx, data):
    if "job" in data:
        return not check_program(tuple(data["job"]))
    return True
