"""C09 -- a parse is a function of its input, not of earlier parses."""
import itertools
import shutil
import tempfile
import json
import os
import re
import subprocess
import sys

import common
import gen
import mutate
import pool

TARGETS = ["Properties/C09.vo"]

V1 = """module modAlpha
  implicit none
  real :: sin(3)
  integer :: nShared
contains
  subroutine subOne(argA)
    real :: argA
    argA = sin(1)
  end subroutine subOne
end module modAlpha
"""
V2 = """program progMain
  integer :: iCnt
  real :: cos(4), yVal
  do iCnt = 1, 3
    yVal = cos(iCnt)
  end do
end program progMain
"""
# invalid sources whose failure happens before any program unit has been completed
I1 = "integer :: iCnt\nchkC: if (iCnt == 1) then\n  iCnt = 2\nend if wrongN\nend\n"        # FortranSyntaxError in Main_Program0
I2 = "program progMain\n  real :: sin2(3)\n  xPos = sin()\nend program progMain\n"           # InternalSyntaxError path
I3 = "module modAlpha\n  real :: sin(3), cos(3)\ncontains\n  subroutine subOne()\n    @@@ bad\n  end subroutine subOne\nend module modAlpha\n"
I4 = "program progMain\n  real :: cos(4)\n  loopA: do iCnt = 1, 3\n    yVal = 1.0\n  end do loopB\nend program progMain\n"
# a failing NESTED unit that bears the name of a top-level unit of V1 (its table must be removed from its own parent,
# not from the list of top-level tables)
I5 = "module modBeta\ncontains\n  subroutine modAlpha()\n    @@@ bad\n  end subroutine modAlpha\nend module modBeta\n"
# invalid source with a COMPLETED unit before the failing one (known finding F4c)
IK = "module modAlpha\n  real :: sin(3)\nend module modAlpha\nsubroutine subTwo()\n  @@@ bad\nend subroutine subTwo\n"
X1 = """module modAlpha
  implicit none
  real :: yVal
contains
  subroutine subOne(argA)
    real :: argA
    argA = sin(1.0) + cos(argA)
  end subroutine subOne
end module modAlpha
program progMain
  real :: yVal
  yVal = cos(2.0) + sin(yVal)
end program progMain
"""
X2 = """real :: yVal
yVal = sin(1.0)
end
"""
X3_08 = """program progMain
  real :: yVal
  block
    integer :: tmpI
    tmpI = 1
  end block
  blkH: block
    yVal = cos(1.0)
  end block blkH
  block
    yVal = sin(yVal)
  end block
end program progMain
"""
# names whose meaning depends on the standard: intrinsics of Fortran 2008 only (ordinary references under f2003)
V3 = """program progMain
  real :: xPos, yVal, aVec(3)
  integer :: iCnt
  xPos = erf(yVal) + gamma(xPos) + norm2(aVec)
  iCnt = shiftl(iCnt, 2) + shiftr(iCnt, 1) + shifta(iCnt, 3)
  yVal = bessel_j0(xPos) + hypot(xPos, yVal) + log_gamma(yVal)
end program progMain
"""
X4 = """subroutine subTwo(xPos, iCnt)
  real :: xPos
  integer :: iCnt
  xPos = gamma(xPos) * erf(xPos) + sin(xPos)
  iCnt = shiftl(iCnt, 1) + popcnt(iCnt)
end subroutine subTwo
"""
# statements whose rule classes the 2008 parser overrides, in their 2003 spellings (valid under both standards)
V4 = """program progMain
  integer :: iCnt, ioS
  real :: xPos
  real, allocatable :: dynA(:)
  real, pointer :: pRef(:)
  type :: typPoint
    real, pointer :: fldP(:)
    real :: fldA
  end type typPoint
  procedure(real), pointer :: ppF => null()
  open(unit = 11, file = 'x', status = 'old', iostat = ioS)
  allocate(dynA(3), stat = ioS)
  do 10 iCnt = 1, 3
    if (iCnt == 2) stop 2
  10 continue
  do iCnt = 1, 2
    xPos = 1.0
  end do
  write(*, '(1x, a, i5)') 'n', iCnt
  stop
end program progMain
"""
# the 2008-only forms of the same statements (a failing parse under f2003, a valid one under f2008)
V5_08 = """module modAlpha
  real, contiguous, pointer :: cgP(:)
  integer, codimension[*] :: coI
end module modAlpha
submodule (modAlpha) smodX
end submodule smodX
program progMain
  integer :: iCnt
  real :: aVec(3)
  real, allocatable :: dynA(:)
  open(newunit = iCnt, file = 'x')
  allocate(dynA, mold = aVec)
  do concurrent (iCnt = 1:3)
    aVec(iCnt) = 0.0
  end do
  critical
    aVec(1) = 1.0
  end critical
  if (iCnt == 2) error stop 3
  error stop
end program progMain
"""
# non-block DO loops ended by action statements whose classes the 2008 parser re-implements (valid under both)
V6 = """program progMain
  integer :: iCnt, kk, ioS
  real :: aVec(3)
  real, allocatable :: dynA(:)
  do 10 iCnt = 1, 3
  10 if (iCnt > 1) aVec(iCnt) = 1.0
  do 20 kk = 1, 2
  20 allocate(dynA(3), stat = ioS)
  do 30 kk = 1, 2
  30 open(unit = 12, file = 'term.dat')
  do 40 kk = 1, 2
  40 aVec(kk) = 0.0
end program progMain
"""
# lines with a character literal, code after it and a trailing comment (anything memoised per line text shows here),
# continuation lines, ';' joins, a FORMAT with literals
V7 = """program progMain
  character(len = 10) :: sTxt
  integer :: iCnt ; real :: xPos ! two statements
  print *, 'hello, ' // sTxt ! say hello
  call subOne('total', 3 + 4) ! note
  write(*, '(a, i3)') "it's", iCnt + 1 ! "quoted" comment
  xPos = 1.0 + &  ! first part
         2.0      ! second part
  900 format (1x, 'a!b', i5) ! format
end program progMain
"""
# a source with INCLUDE lines that no reader of this check can resolve on its own search path: they must stay Include_Stmt
XI = ("program progInc\n  include 'c09_decls.inc'\n  integer :: iVal\n  iVal = 1\n  include \"c09_body.inc\"\nend program progInc\n")
INC_FILES = {"c09_decls.inc": "integer :: from_project_a\n", "c09_body.inc": "iVal = 2\n"}
W1 = "program progLit\n  character(len = 8) :: sTxt\n  sTxt = 'a b'\n  print '(a, i3)', 'n =', 1; sTxt = 'p  q'\nend program progLit\n"
W2 = "program progLit\n  character(len = 8) :: sTxt\n  sTxt = 'a   b'\n  print '(a,  i3)', 'n  =', 1; sTxt = 'p q'\nend program progLit\n"
# specific intrinsic names (FLOAT, IFIX, ...) first, then the generic names with their optional KIND argument
V9 = ("program progSpec\n  real :: xV\n  integer :: iV\n  double precision :: dV\n  xV = float(iV) + sngl(dV)\n  iV = ifix(xV) + idint(dV) + idnint(dV)\n"
      "  dV = dint(dV) + dnint(dV) + dble(xV) + dsqrt(dV) + amax1(xV, 1.0)\nend program progSpec\n")
X5 = ("program progGen\n  real :: xV\n  integer :: iV\n  xV = real(iV, 8) + aint(xV, 8) + anint(xV, kind = 8)\n  iV = int(xV, kind = 8) + nint(xV, 8) + max(1, 2, 3)\n"
      "end program progGen\n")
SOURCES = dict(V9=V9, X5=X5, W1=W1, W2=W2, XI=XI, V1=V1, V2=V2, V3=V3, V4=V4, V5=V5_08, V6=V6, V7=V7, I1=I1, I2=I2, I3=I3, I4=I4, I5=I5, IK=IK, X1=X1, X2=X2, X3=X3_08, X4=X4)


class _Sources(dict):
    """G<seed> = a generated valid program (f2003 subset: acceptable to both parsers)"""

    def __missing__(self, name):
        if name[0] == "S":
            import props.c17 as c17
            self[name] = c17.single_construct_programs()[name[2:]]
            return self[name]
        if name[0] == "G":
            st, _ = gen.gen_program(int(name[1:]), "f2003", size=0.4)
            self[name] = gen.render(st)
            return self[name]
        raise KeyError(name)


SOURCES = _Sources(SOURCES)


_UNIT_RE = re.compile(r"^(?:module|program|subroutine|function|submodule\s*\([^)]*\)|block\s*data)\s+(\w+)", re.I)


def own_unit_names(src):
    """names of the top-level program units of a source (unit statements written without indentation)"""
    return [m.group(1).lower() for m in (_UNIT_RE.match(l) for l in src.split("\n")) if m]


def observe(p, src, kw, via_file=None):
    """parse src with parser p; returns (kind, canonical repr, canonical str).  via_file: a directory in which the
    source is written and read through FortranFileReader (default include directories)"""
    import fp
    if via_file is not None:
        path = os.path.join(via_file, "c09_unit.f90")
        with open(path, "w") as f:
            f.write(src)
        rd = fp.FortranFileReader(path, **kw)
    else:
        rd = fp.reader(src, **kw)
    try:
        t = p(rd)
    except fp.utils.FortranSyntaxError:
        return ("syntax", "", "")
    except SystemExit:
        return ("escape:SystemExit", "", "")
    except BaseException as e:  # noqa
        return ("escape:" + type(e).__name__, "", "")
    if t is None:
        return ("none", "", "")
    return ("tree", fp.canon_repr(t), fp.renumber_blocks(str(t)))


def run_history(arg):
    """Execute one history in this process; returns dict(final=..., leaks=[...])."""
    ops, std, xname, kw = arg
    import fp
    from fparser.two.parser import ParserFactory
    p = None
    leaks = []
    tmp = []
    for op in ops:
        if op[0] == "create":
            p = ParserFactory().create(std=op[1])
        elif op[0] == "parsefile":
            # a file in a directory that also holds include files, read with the default include directories
            if p is None:
                p = ParserFactory().create(std="f2003")
            d = tempfile.mkdtemp(prefix="verif_c09_")
            tmp.append(d)
            for nm, txt in INC_FILES.items():
                with open(os.path.join(d, nm), "w") as f:
                    f.write(txt)
            observe(p, SOURCES[op[1]], kw, via_file=d)
        else:
            if p is None:
                p = ParserFactory().create(std="f2003")
            before = fp.tables_str()
            before_names = [str(k).lower() for k in fp.SYMBOL_TABLES._symbol_tables.keys()]
            r = observe(p, SOURCES[op[1]], kw)
            if r[0] != "tree":
                if fp.SYMBOL_TABLES.current_scope is not None:
                    leaks.append((op[1], "scope left open: %s" % fp.SYMBOL_TABLES.current_scope.name))
                elif fp.tables_str() != before:
                    after_names = [str(k).lower() for k in fp.SYMBOL_TABLES._symbol_tables.keys()]
                    removed = [n for n in before_names if n not in after_names]
                    added = [n for n in after_names if n not in before_names]
                    own = own_unit_names(SOURCES[op[1]])
                    if removed and not added and all(n in own for n in removed):
                        tag = "removes_preexisting_table_same_name"      # recorded finding
                    elif removed:
                        tag = "removes_unrelated_table"
                    else:
                        tag = "changes_tables"
                    leaks.append((tag + ":" + op[1], "tables changed by failed parse: %r -> %r" % (before, fp.tables_str())))
    if xname.endswith("@file"):
        d = tempfile.mkdtemp(prefix="verif_c09_")
        tmp.append(d)
        final = observe(p, SOURCES[xname[:-5]], kw, via_file=d)
    else:
        final = observe(p, SOURCES[xname], kw)
    for d in tmp:
        shutil.rmtree(d, ignore_errors=True)
    return dict(final=final, leaks=leaks)


def fresh_reference(arg):
    return fresh_references([arg])[0]


def fresh_references(keys):
    """create(std); parse(X) for each key, each in a process that has parsed nothing before: one helper
    interpreter imports the modules and forks a child per key"""
    code = (
        "import sys, json, os\n"
        "sys.path.insert(0, %r); sys.path.insert(0, '/repo/src')\n"
        "import props.c09 as m\n"
        "keys = json.loads(sys.stdin.read())\n"
        "for k, (std, x, kw) in enumerate(keys):\n"
        "    r, w = os.pipe()\n"
        "    pid = os.fork()\n"
        "    if pid == 0:\n"
        "        os.close(r)\n"
        "        out = m.run_history(([('create', std)], std, x, kw))['final']\n"
        "        os.write(w, json.dumps(out).encode()); os._exit(0)\n"
        "    os.close(w)\n"
        "    data = b''\n"
        "    while True:\n"
        "        c = os.read(r, 1 << 16)\n"
        "        if not c: break\n"
        "        data += c\n"
        "    os.close(r); os.waitpid(pid, 0)\n"
        "    print('REF ' + data.decode())\n" % os.path.join(common.VERIF, "tools"))
    r = subprocess.run([sys.executable, "-c", code], input=json.dumps([list(k) for k in keys]), capture_output=True,
                       text=True, timeout=1200, env=dict(os.environ, PYTHONHASHSEED="0"))
    out = [l[4:] for l in r.stdout.split("\n") if l.startswith("REF ")]
    if len(out) != len(keys):
        raise RuntimeError("fresh references failed: " + r.stderr[-500:])
    return [tuple(json.loads(o)) for o in out]


def histories(ctx):
    alpha = [("create", "f2003"), ("create", "f2008"), ("parse", "V1"), ("parse", "V2"), ("parse", "V3"),
             ("parse", "I1"), ("parse", "I2"), ("parse", "I3"), ("parse", "I4"), ("parse", "I5")]
    maxlen = ctx.n(2, 3)
    hs = [()]
    for n in range(1, maxlen + 1):
        hs += list(itertools.product(alpha, repeat=n))
    if not ctx.quick:
        for _ in range(1500):
            hs.append(tuple(ctx.rng.choice(alpha) for _ in range(ctx.rng.randrange(4, 9))))
    fails = [(), (("parse", "I1"),), (("parse", "I2"),), (("parse", "I3"),), (("parse", "I4"),),
             (("parse", "I3"), ("parse", "I1"))]
    cases = []
    for h in hs:
        for std in ("f2003", "f2008"):
            for f in fails:
                for x in (["X1", "X2", "X4"] + (["X3"] if std == "f2008" else [])):
                    cases.append((h + (("create", std),) + f, std, x))
    # standard-crossing stream: statements whose classes the 2008 parser overrides, in both spellings, as
    # history; one 2008-only construct (or the 2003 spellings) as the target, under either standard
    import props.c17 as c17
    beta = [("create", "f2003"), ("create", "f2008"), ("parse", "V4"), ("parse", "V5"), ("parse", "V6"), ("parse", "V7")]
    hb = []
    for n in range(1, 4):
        hb += list(itertools.product(beta, repeat=n))
    hb = [h for h in hb if any(o[0] == "parse" for o in h)]
    singles = ["S_" + k for k in sorted(c17.single_construct_programs())]
    for i, h in enumerate(hb):
        for std in ("f2003", "f2008"):
            tg = singles if (ctx.quick and i % 2 == 0) or not ctx.quick else singles[i % 3::3]
            for x in tg + ["V4", "V5", "V6", "V7"]:
                cases.append((h + (("create", std),), std, x))
    # reader-level state: files read from a directory that holds include files (default include directories), then a
    # source whose INCLUDE lines name those files, through a string reader and through a file reader elsewhere
    gamma = [("parsefile", "V1"), ("parsefile", "XI"), ("parsefile", "I1"), ("parse", "V2"), ("parse", "XI")]
    hg = []
    for n in range(1, 3):
        hg += list(itertools.product(gamma, repeat=n))
    hg = [h for h in hg if any(o[0] == "parsefile" for o in h)]
    for h in hg:
        for std in ("f2003", "f2008"):
            for x in ("XI", "XI@file", "X1@file"):
                cases.append((h + (("create", std),), std, x))
    for std in ("f2003", "f2008"):
        for other in ("f2003", "f2008"):
            cases.append(((("create", other), ("parse", "V9"), ("create", std)), std, "X5"))
        cases.append(((("create", std), ("parse", "V9")), std, "X5"))
    # two programs that differ only in the number of blanks inside their character literals, in either order
    for a, b in (("W1", "W2"), ("W2", "W1")):
        for std in ("f2003", "f2008"):
            cases.append(((("create", std), ("parse", a), ("create", std)), std, b))
            cases.append(((("create", std), ("parse", a)), std, b))
    # generated programs parsed under one standard, then another generated program under the other
    for k in range(ctx.n(60, 1500)):
        a, b, x = ("G%d" % (ctx.seed * 7 + 3 * k + j) for j in range(3))
        s1, s2 = ("f2003", "f2008") if k % 2 else ("f2008", "f2003")
        cases.append(((("create", s1), ("parse", a), ("parse", "V3"), ("create", s2), ("parse", b), ("create", s1 if k % 4 < 2 else s2)),
                      s1 if k % 4 < 2 else s2, x))
    return cases


def run(ctx):
    proof = common.leg_p(ctx, TARGETS)
    # ---- Leg C: engine model vs implementation (scope depth and table structure are compared)
    import engine_corr
    cc = []
    for k in range(ctx.n(6, 40)):
        for std in ("f2003", "f2008"):
            st, _ = gen.gen_program(ctx.seed + k, std, size=0.6)
            src = gen.render(st)
            cc.append((std, src, dict(ignore_comments=True)))
            for _ in range(ctx.n(2, 6)):
                i = ctx.rng.randrange(len(st))
                m = mutate.replace_at(st, i, ctx.rng.choice(mutate.GARBAGE)) if ctx.rng.random() < 0.5 \
                    else mutate.delete_at(st, i)
                cc.append((std, gen.render(m), dict(ignore_comments=ctx.rng.random() < 0.5)))
    for nm in ("I1", "I2", "I3", "I4", "IK", "X1", "X2", "X3"):
        cc.append(("f2008", SOURCES[nm], dict(ignore_comments=True)))
    corr = engine_corr.corr_cases(cc)
    # ---- Leg E: histories against fresh-process references
    kws = [dict(ignore_comments=True), dict(ignore_comments=False)]
    refs = {}
    cases = histories(ctx)
    args = [(ops, std, x, kws[i % 2]) for i, (ops, std, x) in enumerate(cases)]
    keys = sorted({(std, x, kw["ignore_comments"]) for _, std, x, kw in args})
    chunks = [keys[i::8] for i in range(8)]
    for ch, (st, r) in zip(chunks, pool.pmap(fresh_references, [[(a, b, dict(ignore_comments=c)) for a, b, c in ch]
                                                               for ch in chunks], chunksize=1)):
        if st != "ok":
            raise RuntimeError(r)
        for key, val in zip(ch, r):
            refs[key] = val
    res = pool.pmap(run_history, args, chunksize=16)
    failures = []
    nfail_parse = 0
    for (ops, std, x, kw), (st, r) in zip(args, res):
        if st != "ok":
            failures.append(("harness_error", r[:300], dict(history=ops, std=std, x=x)))
            continue
        ref = refs[(std, x, kw["ignore_comments"])]
        rep = dict(history=[list(o) for o in ops], std=std, x=x, opts=kw, sources=SOURCES)
        if tuple(r["final"]) != tuple(ref):
            failures.append(("history_changes_result", "result after history differs from a fresh process",
                             dict(rep, observed=r["final"][:2], expected=ref[:2])))
        for nm, what in r["leaks"]:
            nfail_parse += 1
            if nm.startswith("removes_preexisting_table_same_name:"):
                # recorded finding: the failing top-level unit has the name of the table it removes
                failures.append(("failed_parse_removes_preexisting_table_of_same_name", what, rep))
            elif nm.startswith("removes_unrelated_table:"):
                failures.append(("failed_parse_removes_unrelated_table:" + nm.split(":", 1)[1], what, rep))
            else:
                failures.append(("failed_parse_leaves_state:" + nm, what, rep))
    # known-finding stream (kept apart so that it cannot mask anything else)
    kf = run_history(((("create", "f2003"), ("parse", "IK")), "f2003", "X1", kws[0]))
    for nm, what in kf["leaks"]:
        failures.append(("failed_parse_leaves_tables_of_completed_units", what,
                         dict(history=[["create", "f2003"], ["parse", "IK"]], sources=dict(IK=IK))))
    e2e = dict(cases=len(args) + 1, distinct=len(set((a[0], a[1], a[2]) for a in args)), failures=failures,
               rule="histories over {create f2003, create f2008, parse V1, V2, I1..I4} up to length %d (exhaustive)%s, "
                    "each followed by create(std), 0-2 failing parses and parse(X) and compared with a fresh "
                    "interpreter process; after every failing parse: current scope None and table set unchanged; "
                    "distinct = distinct (history, std, X) triples" % (ctx.n(2, 3), "" if ctx.quick else " + 1500 random longer ones"),
               samples=[dict(history=[list(o) for o in args[len(args) // 2][0]], std=args[len(args) // 2][1],
                             x=args[len(args) // 2][2])])
    return common.finish(ctx, proof, corr, e2e, extra_assumptions=[
        "which names a statement declares and which exception its match raises are the leaf oracle",
        "string_replace_map memo purity and Line.parse_cache are exercised by the histories, not proved"])


def replay(ctx, data):
    kw = data.get("opts", dict(ignore_comments=True))
    SOURCES.update(data.get("sources", {}))
    ops = tuple(tuple(o) for o in data["history"])
    x = data.get("x", "X1")
    r = run_history((ops, data.get("std", "f2003"), x, kw))
    ref = fresh_reference((data.get("std", "f2003"), x, kw))
    return tuple(r["final"]) == tuple(ref) and not r["leaks"]
