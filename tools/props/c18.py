"""C18 -- parse trees can be deep-copied and pickled faithfully."""
import copy
import os
import pickle
import random
import shutil
import tempfile
import types

import common
import gen
import layout
import pool

TARGETS = ["Properties/C18.vo"]

WITH_NODES = """! leading comment
!$omp parallel
program progMain
  integer :: iCnt, jIdx
  real :: cmA, cmB(3)
  common /cmnBlk/ cmA, cmB
  dimension eArr(5)
#ifdef DEBUG
  include 'missing_file.inc'
#endif
  do iCnt = 1, 3
    print *, 'x', iCnt ! trailing
    cmB(iCnt) = (/ (jIdx, jIdx = 1, 1) /)
  end do
end program progMain
"""


def all_nodes(tree):
    import fp
    out = []

    def rec(n):
        out.append(n)

        def flat(v):
            if isinstance(v, fp.utils.Base):
                rec(v)
            elif isinstance(v, (list, tuple)):
                for x in v:
                    flat(x)
        flat(n.children)
    rec(tree)
    return out


_ATOMS = (str, bytes, int, float, bool, type(None), type, types.FunctionType, types.ModuleType,
          types.BuiltinFunctionType, types.MethodType)


def reachable(root):
    """every object reachable from root through attributes and containers (id -> object)"""
    seen = {}
    stack = [root]
    while stack:
        o = stack.pop()
        if id(o) in seen or isinstance(o, _ATOMS):
            continue
        seen[id(o)] = o
        if isinstance(o, dict):
            stack.extend(o.keys())
            stack.extend(o.values())
        elif isinstance(o, (list, tuple, set, frozenset)):
            stack.extend(o)
        else:
            d = getattr(o, "__dict__", None)
            if isinstance(d, dict):
                stack.extend(d.values())
            for sl in getattr(type(o), "__slots__", ()) or ():
                if hasattr(o, sl):
                    stack.append(getattr(o, sl))
    return seen


def check_tree(tree, tag, rep):
    import fp
    fails = []
    for how in ("deepcopy", "pickle"):
        try:
            t2 = copy.deepcopy(tree) if how == "deepcopy" else pickle.loads(pickle.dumps(tree))
        except Exception as e:  # noqa
            fails.append((how + "_raises:" + type(e).__name__, "%s: %s" % (type(e).__name__, str(e)[:150]), rep))
            continue
        if str(t2) != str(tree):
            fails.append((how + "_text_differs", "str(copy) != str(tree)", rep))
        if fp.canon_repr(t2) != fp.canon_repr(tree):
            fails.append((how + "_structure_differs", "repr(copy) != repr(tree)", rep))
        bad = fp.tree_invariants(t2)
        if bad:
            fails.append((how + "_copy_not_well_formed", "; ".join(bad[:3]), rep))
        ids1 = {id(n) for n in all_nodes(tree)}
        if any(id(n) in ids1 for n in all_nodes(t2)):
            fails.append((how + "_shares_nodes", "the copy shares node objects with the original", rep))
        # nothing of fparser's own making (nodes, source items, readers) is reachable from both trees
        ra, rb = reachable(tree), reachable(t2)
        both = [o for k, o in rb.items() if k in ra and type(o).__module__.startswith("fparser")]
        if both:
            fails.append((how + "_shares_objects", "the copy reaches %d object(s) of the original, e.g. a %s"
                          % (len(both), type(both[0]).__name__), rep))
        # modifying the copy leaves the original unchanged
        before = str(tree)
        for n in all_nodes(t2):
            it = getattr(n, "item", None)
            if it is not None:
                if getattr(it, "label", None) is not None:
                    it.label = 99999
                if getattr(it, "name", None):
                    it.name = "changedN"
            if isinstance(n, fp.F3.Name):
                n.string = "changedX"
            if getattr(n, "content", None):
                n.content = list(reversed(n.content))
        if str(tree) != before:
            fails.append((how + "_mutation_leaks", "changing the copy changed the original", rep))
    return fails


def check_one(arg):
    std, seed, v = arg
    import fp
    if isinstance(seed, str):
        src = seed                # a catalogue entry (with a directive-form comment so that every node kind occurs)
    elif seed < 0:
        src = WITH_NODES
    else:
        st, _ = gen.gen_program(seed, std, size=0.5)
        src = layout.free_layout(st, random.Random(seed), gen.USER_NAMES, comments=True, p_comment=0.25).text() \
            if v else gen.render(st)
    mode = ("dropped", "kept", "directives")[v % 3]
    kw = dict(ignore_comments=mode == "dropped", process_directives=mode == "directives")
    o = fp.parse(src, std=std, **kw)
    if o.kind != "tree":
        return []
    rep = dict(std=std, source=src, comments=mode)
    fails = check_tree(o.tree, "string", rep)
    if v % 5 == 4 or (not isinstance(seed, str) and seed < 0):
        # the same through a FortranFileReader (recorded finding: the open file in item.reader)
        d = tempfile.mkdtemp(prefix="verif_c18_")
        try:
            p = os.path.join(d, "prog.f90")
            with open(p, "w") as fh:
                fh.write(src)
            rd = fp.FortranFileReader(p, ignore_comments=kw["ignore_comments"], process_directives=kw["process_directives"])
            of = fp.parse(src, std=std, rd=rd)
            if of.kind == "tree":
                for s, dsc, r in check_tree(of.tree, "file", dict(rep, reader="file")):
                    fails.append(("file_reader:" + s, dsc, r))
        finally:
            shutil.rmtree(d, ignore_errors=True)
    return fails


def run(ctx):
    proof = common.leg_p(ctx, TARGETS)
    # Leg C: the protocol probes (Gen/NavCopy.v) ARE the comparison of the model's precondition with the live
    # classes; in addition every class met in the generated trees must belong to a probed group
    corr = dict(cases=0, distinct=0, disagreements=[], samples=[])
    try:
        txt = open(common.COQ + "/Gen/NavCopy.v").read()
        rows = [l for l in txt.split("\n") if l.strip().startswith("(") and "__new__:" in l]
        corr["cases"] = corr["distinct"] = len(rows)
        corr["samples"] = [r.strip()[:200] for r in rows[:4]]
        if not proof["ok"]:
            corr["disagreements"].append(dict(what="copy protocol obligations no longer check"))
    except Exception as e:  # noqa
        corr["disagreements"].append(dict(what="cannot read generated table: %s" % e))
    jobs = [(("f2003", "f2008")[k % 2], ctx.seed * 107 + k // 3, k % 6) for k in range(ctx.n(90, 3000))]
    jobs += [(std, -1, v) for std in ("f2003", "f2008") for v in (0, 1, 2)]
    # the statement catalogue and the unusual program structures, a directive-form comment in front (v = 2: directives on)
    import catalogue
    cat = catalogue.sources()
    jobs += [(("f2003", "f2008")[k % 2], "!$omp parallel\n" + src, (0, 1, 2)[k % 3])
             for k, src in enumerate(cat if not ctx.quick else cat[ctx.seed % 4::4])]
    failures = []
    for job, (st, r) in zip(jobs, pool.pmap(check_one, jobs, chunksize=4)):
        if st != "ok":
            failures.append(("harness_error", r[:300], dict(job=job)))
        else:
            for s, d, rep in r:
                if s.startswith("file_reader:") and "_raises:TypeError" in s:
                    s = "file_reader_tree_not_copyable"
                failures.append((s, d, dict(rep, job=list(job))))
    e2e = dict(cases=len(jobs), distinct=len(set(jobs)), failures=failures,
               rule="generated programs x standards x {comments dropped, kept, directives processed} x {string reader, "
                    "file reader} plus a program with comment, directive, include and preprocessor nodes and nested "
                    "containers: deepcopy and pickle round trip succeed, str equal, repr equal, the copy satisfies the "
                    "C10 invariants, shares no node with the original, and mutating it leaves the original unchanged",
               samples=[dict(job=list(jobs[0]))])
    return common.finish(ctx, proof, corr, e2e, extra_assumptions=[
        "Python's copy/pickle internals are modelled only as far as the two hooks (__new__/__getnewargs__) and the "
        "memo that redirects parent links; the rest is exercised end-to-end",
        "a FortranFileReader's open file inside item.reader is runtime state (recorded finding)"])


def replay(ctx, data):
    return not check_one(tuple(data["job"]))
